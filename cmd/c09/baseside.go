package main

import (
	"fmt"
	"strings"

	"github.com/avfs/avfs"

	"verif/lib/bfs"
	"verif/lib/fsx"
)

// Base-side steps: a letter whose receiver is "base" is not a call through the
// wrapper. It changes the base directly, and the twin in the same way, while
// the pool (handles, a Sub view, the wrapper itself) stays as it is.
//
// Lesson: what a wrapper keeps to itself (an answer it remembers) is not part
// of the state key, so no history of the search can be relied on to have asked
// a question before the change and to ask it again afterwards: an object that
// answers from memory is right the first time it is asked, whenever that is.
// The step therefore asks by itself. Every question of the alphabet that reads
// the tree without moving its receiver (isProbe: Stat, Lstat, ReadDir,
// ReadFile, Readlink, EvalSymlinks - thorough: also Glob, WalkDir - on the
// wrapper and on the pooled Sub view; Stat, Name, ReadAt on the pooled
// handles) is asked of every pooled object BEFORE the change and again AFTER it:
//
//   - after the change every answer must be what the twin (changed in the same
//     way, asked the same questions on its mirrored objects) answers now;
//   - the FileInfo / DirEntry values handed out before the change are asked
//     again after it and must say what the twin's values say;
//   - the questions themselves must leave the base alone.
//
// The oracle "the base is not changed by calls through the wrapper" goes on
// from the snapshot taken after the base-side step.

// probeRun is one question asked before the change.
type probeRun struct {
	o          opDesc
	t          target
	real, twin outcome
}

func (s *sys) baseStep(o opDesc) bfs.StepResult {
	const via = "base"

	variant := variantOf(s.tw, s.win, o)

	harness := func(what string) bfs.StepResult {
		// never a verdict: the next Reset fails with it
		s.pendingErr = fmt.Errorf("base-side step %s: %s", o, what)
		s.haveSnap = false

		return bfs.StepResult{Changed: true, Broken: true, Rebuild: true, Key: "BROKEN|harness|" + o.String(), Outcome: "harness/base-side"}
	}

	before := s.lastSnap
	if !s.haveSnap {
		var k, msg string

		if before, k, msg = s.snapshot(true); k != "" {
			return harness("snapshot of the base: " + k + " " + msg)
		}
	}

	// what the base answers its own readers belongs to the snapshot around a base-side letter, in every tier
	if k, msg := s.askNow(&before); k != "" {
		return harness("answers of the base: " + k + " " + msg)
	}

	var idm, twIdm avfs.IdentityMgr

	_, _ = fsx.Guard(func() { idm, twIdm = s.base.Idm(), s.tw.Idm() })

	// The questions are asked on the transition that is explored; when the
	// history is executed again to rebuild this state (lib/bfs replays it after
	// every operation that changed the state) the change alone is applied.
	// (A (state, letter) pair is explored once, by one process: first = explored now.)
	if s.asked == nil {
		s.asked = map[string]bool{}
	}

	memo := hash(s.lastKey, o.String())
	first := !s.asked[memo]
	s.asked[memo] = true

	// --- the questions, before
	var asked []probeRun

	if first {
		for _, pi := range s.probes {
			po := s.ops[pi]

			t, why := s.resolve(po)
			if why != "" || t.twRecv == nil || isNilPtr(t.twRecv) || (t.fsl != nil && t.fsl.kind != "file") {
				continue // nothing pooled there, or nothing to compare it with
			}

			q := probeRun{o: po, t: t, real: invoke(t.recv, t.helper, idm, po)}

			// (the answers before the change are compared by the ordinary step of the
			// same operation in this state; the twin is asked here for the values it hands out)
			if len(q.real.Keep) > 0 {
				q.twin = invoke(t.twRecv, t.twHelper, twIdm, po)
			}

			asked = append(asked, q)
		}
	}

	// the questions leave the base alone (each of them is also an ordinary
	// step in this state, which names the call; here the letter is named)
	if len(asked) > 0 {
		snapA, k, msg := s.snapshot(true)
		if k != "" {
			return harness("snapshot of the base after the questions: " + k + " " + msg)
		}

		if what, diff := changeClass(before, snapA); what != "" {
			s.haveSnap = false

			v := s.viol(o, "rofs", variant, "base-changed", "by the read-only calls asked before base."+o.Method+": "+what, detail{
				Expected: "base snapshot identical before and after read-only calls through the wrapper", Observed: "changed: " + what, BaseDiff: diff,
			})

			return bfs.StepResult{Changed: true, Broken: true, Key: "BROKEN|" + hash(strings.Join(snapA.v, "\n")), Outcome: via + "." + o.Method + "/questions+base-changed", Viols: []bfs.Viol{v}}
		}
	}

	// --- the change, on the base and on the twin
	mr := invoke(s.base, s.base, idm, o)
	mt := invoke(s.tw, s.tw, twIdm, o)

	if mr.Kind != mt.Kind || mr.Val != mt.Val || mr.Kind == "PANIC" || mr.Kind == "DEADLOCK" || mr.Kind == "ARGPREP" {
		return harness(fmt.Sprintf("base answers %s (%s), twin answers %s (%s)", mr.String(), mr.Msg, mt.String(), mt.Msg))
	}

	mid, k, msg := s.snapshot(false)
	if k != "" {
		return harness("snapshot of the base after the change: " + k + " " + msg)
	}

	// the clock of both instances is the wall clock: nodes whose time moved get a fixed one
	if err := s.restamp(before, mid); err != nil {
		return harness(err.Error())
	}

	after, k, msg := s.snapshot(true)
	if k != "" {
		return harness("snapshot of the base after the change: " + k + " " + msg)
	}

	var twAfter snap

	if k, msg := fsx.Guard(func() {
		twAfter.v = s.tw.VerifDump()
		twAfter.api = apiDump(s.tw, twAfter.v)
	}); k != "" {
		return harness("snapshot of the twin after the change: " + k + " " + msg)
	}

	if a, b := append(append([]string{}, after.v...), maskLinkTimes(after.api)...), append(append([]string{}, twAfter.v...), maskLinkTimes(twAfter.api)...); !equalLines(a, b) {
		return harness("base and twin differ after the same change: " + fsx.DiffLines(a, b))
	}

	// --- the questions, after
	var viols []bfs.Viol

	poisoned := false
	where := "after base." + o.Method

	for _, q := range asked {
		real := invoke(q.t.recv, q.t.helper, idm, q.o)
		twin := invoke(q.t.twRecv, q.t.twHelper, twIdm, q.o)
		// (built when something is reported only: most questions are answered alike)
		report := func(viaSuffix, kind, what string, edit func(d *detail)) {
			qv := variantOf(twHelperOrNil(q.t.twHelper), s.win, q.o)

			if q.t.fsl != nil {
				qv = "handle of a file"
				if q.t.fsl.isDir {
					qv = "handle of a directory"
				}

				if q.t.fsl.closed {
					qv += ", closed"
				}

				if a := q.o.argString(); a != "" {
					qv += "," + a
				}
			}

			d := detail{
				Expected: "what the same call on the twin base (changed in the same way) returns now",
				Observed: real.String(), Real: real.String(), RealMsg: real.Msg, Twin: twin.String(), Receiver: fmt.Sprintf("%T", q.t.recv),
				Question: q.o.String(), AskedBefore: q.real.String(),
			}

			if edit != nil {
				edit(&d)
			}

			viols = append(viols, s.viol(q.o, q.t.via+viaSuffix, qv, kind, where+": "+what, d))
		}

		if real.Kind == "PANIC" || real.Kind == "DEADLOCK" {
			poisoned = true

			if twin.Kind != real.Kind {
				report("", strings.ToLower(real.Kind), panicClass(real.Msg), nil)
			}

			continue
		}

		if twin.Kind == "PANIC" || twin.Kind == "DEADLOCK" {
			poisoned = true
		}

		if real.Kind != twin.Kind || real.Val != twin.Val {
			what := "value"
			if real.Kind != twin.Kind {
				what = "base:" + twin.Kind + " wrapper:" + real.Kind
			}

			// told apart from an answer that is wrong at any time: the one given before the change, again
			if real.Kind == q.real.Kind && real.Val == q.real.Val {
				what += " (the answer given before the change)"
			}

			report("", "read-differs", what, nil)
		}

		// the values handed out before the change, asked again
		if len(q.real.Keep) == 0 || len(q.real.Keep) != len(q.twin.Keep) {
			continue
		}

		rv, rk, rmsg := reRender(q.t.helper, q.real.Keep)
		tv, tk, _ := reRender(q.t.twHelper, q.twin.Keep)

		if rv != tv || rk != tk {
			kind, what := "read-differs", "values handed out before the change"
			if rk != "" {
				kind, what = strings.ToLower(rk), "values handed out before the change: "+panicClass(rmsg)
			}

			report("-value", kind, what, func(d *detail) {
				d.Expected = "the FileInfo / DirEntry values returned before the change say what the values returned by the twin base before the change say"
				d.Observed, d.Real, d.RealMsg, d.Twin = rk+" "+rv, rk+" "+rv, rmsg, tk+" "+tv
			})
		}
	}

	// --- the questions leave the base alone
	final := after

	if len(asked) > 0 {
		if final, k, msg = s.snapshot(true); k != "" {
			return harness("snapshot of the base after the questions: " + k + " " + msg)
		}

		if what, diff := changeClass(after, final); what != "" {
			s.haveSnap = false

			viols = append(viols, s.viol(o, "rofs", variant, "base-changed", "by the read-only calls asked "+where+": "+what, detail{
				Expected: "base snapshot identical before and after read-only calls through the wrapper", Observed: "changed: " + what, BaseDiff: diff,
			}))

			return bfs.StepResult{Changed: true, Broken: true, Key: "BROKEN|" + hash(strings.Join(final.v, "\n")), Outcome: via + "." + o.Method + "/" + mr.Kind + "+base-changed", Viols: viols}
		}
	}

	outc := fmt.Sprintf("%s.%s/%s questions=%d", via, o.Method, mr.Kind, len(asked))

	if viewState(s.base) != viewState(s.tw) {
		s.haveSnap = false

		return bfs.StepResult{Changed: true, Broken: true, Key: "BROKEN|desync|" + viewState(s.base) + "|" + viewState(s.tw), Outcome: outc, Viols: viols}
	}

	key := s.key(final)
	changed := key != s.lastKey
	s.lastKey = key
	s.lastSnap, s.haveSnap = final, true

	return bfs.StepResult{Changed: changed, Key: key, Rebuild: poisoned, Outcome: outc, Viols: viols}
}

// apiField returns the field of a public-API dump line that starts with the
// prefix ("t": the modification time), "" if there is none.
func apiField(line, prefix string) string {
	f := strings.Fields(line)
	if len(f) < 5 {
		return ""
	}

	for _, x := range f[2:] {
		if strings.HasPrefix(x, prefix) && len(x) > len(prefix) && (x[len(prefix)] == '-' || (x[len(prefix)] >= '0' && x[len(prefix)] <= '9')) {
			return x
		}
	}

	return ""
}

// restamp gives every node that is new in b or whose modification time differs
// between a and b the time fsx.FixedTime+restampSeconds, on the base and on
// the twin. Symbolic links are left alone (their time cannot be set and is
// masked everywhere).
func (s *sys) restamp(a, b snap) error {
	old := map[string]string{}

	for _, l := range a.api {
		if !strings.Contains(l, " !") {
			old[dumpPath(l)] = apiField(l, "t")
		}
	}

	stamp := fsx.FixedTime.Add(restampSeconds * 1e9)

	var err error

	k, msg := fsx.Guard(func() {
		for _, l := range b.api {
			if strings.Contains(l, " !") || isLinkLine(l) {
				continue
			}

			pth := dumpPath(l)
			if t, ok := old[pth]; ok && t == apiField(l, "t") {
				continue
			}

			if e := s.base.Chtimes(pth, stamp, stamp); e != nil && err == nil {
				err = fmt.Errorf("Chtimes(%s) on the base: %v", pth, e)
			}

			if e := s.tw.Chtimes(pth, stamp, stamp); e != nil && err == nil {
				err = fmt.Errorf("Chtimes(%s) on the twin: %v", pth, e)
			}
		}
	})
	if k != "" {
		return fmt.Errorf("Chtimes after the change: %s %s", k, msg)
	}

	return err
}
