package main

import (
	"fmt"
	"io/fs"
	"os"
	"reflect"
	"sort"
	"strings"
	"time"

	"github.com/avfs/avfs"

	"verif/lib/fsx"
)

// argv is one serialisable argument of an alphabet operation.
//
//	str    a string (S)                       path   a path string (S), classified in signatures
//	pstr   a string that is read as a path or as a pattern of paths (S): rendered like str,
//	       but spelled for the OS type of the base like path//	int    an int (I)                         i64    an int64 (I)
//	mode   an fs.FileMode in Unix layout (I)  flag   open flags (I)
//	u8     a byte (I)                         data   a []byte to be written (S)
//	buf    a []byte of length I to read into  time   fsx.FixedTime + I seconds
//	finfo  the FileInfo that Lstat(S) of the receiver's file system returns
//	walkfn a collecting fs.WalkDirFunc        user   the user named S of the base's identity manager
//	idm    avfs.NotImplementedIdm             feat   an avfs.Features value (I)
//	bool   I != 0
type argv struct {
	K string
	S string
	I int64
}

func (a argv) String() string {
	switch a.K {
	case "str", "path", "pstr":
		return fmt.Sprintf("%q", a.S)
	case "int", "i64", "u8":
		return fmt.Sprint(a.I)
	case "bool":
		return fmt.Sprint(a.I != 0)
	case "mode":
		return fmt.Sprintf("%#o", a.I)
	case "flag":
		return fsx.FlagString(int(a.I))
	case "data":
		return fmt.Sprintf("[]byte(%q)", a.S)
	case "buf":
		return fmt.Sprintf("buf[%d]", a.I)
	case "time":
		if a.S == "zero" {
			return "time.Time{}"
		}

		return fmt.Sprintf("T0+%ds", a.I)
	case "finfo":
		return fmt.Sprintf("Lstat(%q)", a.S)
	case "walkfn":
		return "collect"
	case "user":
		return "user:" + a.S
	case "idm":
		return "NotImplementedIdm"
	case "feat":
		return avfs.Features(a.I).String()
	}

	return "?" + a.K
}

// opDesc is one operation of the (static) alphabet.
type opDesc struct {
	Recv   string // ro | sub0 | f0 | f1 | base (a change made directly on the base and on the twin, not through the wrapper) | world (another instance comes into being, see worldLetters)
	Method string
	Args   []argv
	Dst    string // slot receiving a returned File / VFS ("" if the method returns neither)
}

func (o opDesc) argString() string {
	a := make([]string, len(o.Args))
	for i, x := range o.Args {
		a[i] = x.String()
	}

	return strings.Join(a, ",")
}

func (o opDesc) String() string {
	s := o.Recv + "." + o.Method + "(" + o.argString() + ")"
	if o.Dst != "" {
		s = o.Dst + " := " + s
	}

	return s
}

var (
	tVFS      = reflect.TypeOf((*avfs.VFS)(nil)).Elem()
	tFile     = reflect.TypeOf((*avfs.File)(nil)).Elem()
	tError    = reflect.TypeOf((*error)(nil)).Elem()
	tString   = reflect.TypeOf("")
	tBytes    = reflect.TypeOf([]byte(nil))
	tStrings  = reflect.TypeOf([]string(nil))
	tMode     = reflect.TypeOf(fs.FileMode(0))
	tTime     = reflect.TypeOf(time.Time{})
	tFileInfo = reflect.TypeOf((*fs.FileInfo)(nil)).Elem()
	tWalkFn   = reflect.TypeOf(fs.WalkDirFunc(nil))
	tUser     = reflect.TypeOf((*avfs.UserReader)(nil)).Elem()
	tIdm      = reflect.TypeOf((*avfs.IdentityMgr)(nil)).Elem()
	tFeatures = reflect.TypeOf(avfs.Features(0))
)

// Method classes.
const (
	clMut     = "mut"          // must be refused with a permission-class error
	clRO      = "ro"           // must return what the same call on the twin base returns
	clView    = "view"         // changes (or refuses to change) view state only: cwd, umask, user, idm
	clNoCmp   = "nocmp"        // differs from the base by design (Type, Features, Idm, Fd)
	clHandout = "handout"      // hands out a file system (Sub): the result is pooled, not compared
	clUnspec  = "unspecified"  // OpenFile with O_EXCL/O_SYNC but no write intent: POSIX leaves it open
	clUnknown = "unclassified" // a method this driver does not know: only the base snapshot and panics are checked
	clBase    = "base-side"    // not a call through the wrapper: a change made directly on the base (and on the twin), see baseLetters
	clWorld   = "world-side"   // not a call on any pooled object: another read-only file system is created and used next to the one under test, see worldLetters
)

var vfsClass = map[string]string{
	"Chmod": clMut, "Chown": clMut, "Lchown": clMut, "Chtimes": clMut, "Create": clMut, "CreateTemp": clMut,
	"Link": clMut, "Mkdir": clMut, "MkdirAll": clMut, "MkdirTemp": clMut, "Remove": clMut, "RemoveAll": clMut,
	"Rename": clMut, "Symlink": clMut, "Truncate": clMut, "WriteFile": clMut,

	"Stat": clRO, "Lstat": clRO, "Open": clRO, "ReadDir": clRO, "ReadFile": clRO, "Readlink": clRO,
	"EvalSymlinks": clRO, "Glob": clRO, "WalkDir": clRO, "Getwd": clRO, "Abs": clRO, "Base": clRO, "Clean": clRO,
	"Dir": clRO, "FromSlash": clRO, "IsAbs": clRO, "IsPathSeparator": clRO, "Join": clRO, "Match": clRO,
	"Rel": clRO, "Split": clRO, "ToSlash": clRO, "PathSeparator": clRO, "TempDir": clRO, "SameFile": clRO,
	"ToSysStat": clRO, "UMask": clRO, "User": clRO, "OSType": clRO, "Name": clRO,

	"Chdir": clView, "SetUMask": clView, "SetUser": clView, "SetUserByName": clView, "SetIdm": clView,

	"Type": clNoCmp, "Features": clNoCmp, "HasFeature": clNoCmp, "Idm": clNoCmp,

	"Sub": clHandout,
	// OpenFile: by flags, see classOf.
}

var fileClass = map[string]string{
	"Write": clMut, "WriteAt": clMut, "WriteString": clMut, "Truncate": clMut, "Chmod": clMut, "Chown": clMut, "Sync": clMut,
	"Read": clRO, "ReadAt": clRO, "Seek": clRO, "Stat": clRO, "ReadDir": clRO, "Readdirnames": clRO, "Name": clRO, "Close": clRO,
	"Chdir": clView,
	"Fd":    clNoCmp,
}

const writeIntent = os.O_WRONLY | os.O_RDWR | os.O_APPEND | os.O_CREATE | os.O_TRUNC

func classOf(o opDesc) string {
	if o.Recv == "base" {
		return clBase
	}

	if o.Recv == "world" {
		return clWorld
	}

	if o.Recv == "f0" || o.Recv == "f1" {
		if c, ok := fileClass[o.Method]; ok {
			return c
		}

		return clUnknown
	}

	if o.Method == "OpenFile" && len(o.Args) > 1 && o.Args[1].K == "flag" {
		f := int(o.Args[1].I)

		switch {
		case f&writeIntent != 0:
			return clMut
		case f == os.O_RDONLY:
			return clRO
		}

		return clUnspec
	}

	if c, ok := vfsClass[o.Method]; ok {
		return c
	}

	return clUnknown
}

// methodNames lists the methods of an interface type through reflection.
func methodNames(t reflect.Type) []string {
	var n []string
	for i := 0; i < t.NumMethod(); i++ {
		n = append(n, t.Method(i).Name)
	}

	sort.Strings(n)

	return n
}

type domains struct {
	tier    string
	paths   []string // path operands
	lexical []string // operands of the purely lexical functions
	old     []string // first operand of two-path calls
	new     []string // second operand of two-path calls
	finfo   []string // paths whose FileInfo is passed to SameFile / ToSysStat
	flags   []int
	subFS   bool // receiver is a file system obtained from Sub
	vol2    bool // the base holds a second volume (Windows-typed MemFS): its root, a directory and a file are operands too
}

func p(s string) argv  { return argv{K: "path", S: s} }
func st(s string) argv { return argv{K: "str", S: s} }
func ps(s string) argv { return argv{K: "pstr", S: s} }
func md(m int64) argv  { return argv{K: "mode", I: m} }
func in(i int64) argv  { return argv{K: "int", I: i} }
func i64(i int64) argv { return argv{K: "i64", I: i} }

func each(ps []string, rest ...argv) [][]argv {
	var out [][]argv
	for _, x := range ps {
		out = append(out, append([]argv{p(x)}, rest...))
	}

	return out
}

func pairs(as, bs []string) [][]argv {
	var out [][]argv

	for _, a := range as {
		for _, b := range bs {
			out = append(out, []argv{p(a), p(b)})
		}
	}

	return out
}

// vfsArgs returns the argument tuples of one avfs.VFS method. Methods known to
// the driver get a tuned domain; any other method (a future addition to the
// interface) gets the product of small per-type domains, so it cannot be
// missed. ok=false: a parameter type the driver cannot build (harness error).
func vfsArgs(name string, mt reflect.Type, d domains) (tuples [][]argv, ok bool) {
	th := d.tier == "thorough"

	switch name {
	case "Abs", "Base", "Clean", "Dir", "FromSlash", "ToSlash", "IsAbs", "Split":
		return each(d.lexical), true
	case "Chdir", "Create", "EvalSymlinks", "Lstat", "Stat", "ReadDir", "ReadFile", "Readlink", "Remove", "RemoveAll", "Open", "Sub":
		return each(d.paths), true
	case "Chmod":
		t := each(d.paths, md(0o600))

		// the mode the node has (noOps)
		for _, x := range d.paths {
			if h, ok := held[x]; ok && h.mode != 0o600 {
				t = append(t, []argv{p(x), md(h.mode)})
			}
		}

		if th {
			t = append(t, each(d.paths, md(0o644))...)
			t = append(t, each(d.paths, md(0o755))...)
		}

		return t, true
	case "Mkdir", "MkdirAll":
		return each(d.paths, md(0o755)), true
	case "Chown", "Lchown":
		// 0:0 is the owner every node has; -1 leaves an id as it is (noOps)
		t := append(each(d.paths, in(0), in(0)), each(d.paths, in(-1), in(-1))...)
		if th {
			t = append(t, each(d.paths, in(1001), in(1001))...)
			t = append(t, each(d.paths, in(-1), in(1001))...)
			t = append(t, each(d.paths, in(0), in(-1))...)
		}

		return t, true
	case "Chtimes":
		// the zero time is os.Chtimes's "leave unchanged": still a mutator for a read-only wrapper
		return append(each(d.paths, argv{K: "time", I: 1}, argv{K: "time", I: 1}),
			each(d.paths, argv{K: "time", S: "zero"}, argv{K: "time", S: "zero"})...), true
	case "CreateTemp", "MkdirTemp":
		dirs := []string{"/d", "", "/nope"}
		if d.subFS {
			dirs = []string{"/", "/e", "", "/nope"}
		}

		if d.vol2 {
			dirs = append(dirs, vol2Dir)
		}

		// the pattern is not a path: every spelling of rawPatterns, in every directory
		t := each(dirs, st("t*"))
		for _, x := range tempPatterns(th) {
			t = append(t, each(dirs, st(x))...)
		}

		return t, true
	case "Glob":
		pats := []string{"/d/*", "/*/*", "*", "/nope/*", "[", ""}
		if d.subFS {
			pats = []string{"/*", "/*/*", "*", "/nope/*", "[", ""}
		}

		if d.vol2 {
			pats = append(pats, vol2Root+"*")
		}

		var t [][]argv
		for _, x := range pats {
			t = append(t, []argv{ps(x)})
		}

		// as written, under either OS type (rawPatterns)
		for _, x := range globRaw(th, d.subFS) {
			t = append(t, []argv{st(x)})
		}

		return t, true
	case "Match":
		t := [][]argv{{ps("*"), ps("f")}, {ps("["), ps("f")}, {ps("a/*"), ps("a/b")}}

		// as written, under either OS type (rawPatterns)
		for _, x := range matchRaw(th) {
			t = append(t, []argv{st(x[0]), st(x[1])})
		}

		return t, true
	case "Rel":
		t := [][]argv{{ps("/d"), ps("/d/e/g")}, {ps("/d"), ps("e")}, {ps("/d/e"), ps("/d")}}
		if d.vol2 {
			// no relative path leads from one volume to another
			t = append(t, []argv{ps("/d"), ps(vol2Dir)})
		}

		return t, true
	case "Join":
		return [][]argv{{ps("/d"), ps("f")}, {ps(""), ps("")}, {ps("/d/"), ps("../x")}}, true
	case "IsPathSeparator":
		return [][]argv{{{K: "u8", I: '/'}}, {{K: "u8", I: 'a'}}, {{K: "u8", I: '\\'}}}, true
	case "Link", "Rename", "Symlink":
		return pairs(d.old, d.new), true
	case "OpenFile":
		var t [][]argv

		for _, x := range d.paths {
			for _, f := range d.flags {
				t = append(t, []argv{p(x), {K: "flag", I: int64(f)}, md(0o644)})
			}
		}

		return t, true
	case "Truncate":
		t := each(d.paths, i64(0))

		// the size the file has (noOps)
		for _, x := range d.paths {
			if h, ok := held[x]; ok && h.size > 0 {
				t = append(t, []argv{p(x), i64(h.size)})
			}
		}

		if th {
			t = append(t, each(d.paths, i64(2))...)
			t = append(t, each(d.paths, i64(4))...)
			t = append(t, each(d.paths, i64(-1))...)
		}

		return t, true
	case "WriteFile":
		t := each(d.paths, argv{K: "data", S: "XY"}, md(0o644))
		if th {
			t = append(t, each(d.paths, argv{K: "data", S: ""}, md(0o644))...)
			t = append(t, each(d.paths, argv{K: "data", S: "data"}, md(0o644))...) // what /d/f holds
		}

		return t, true
	case "WalkDir":
		roots := []string{"/d", "/", "/nope", "/d/f", ""}
		if d.subFS {
			roots = []string{"/", "/e", "/nope", "/f", ""}
		}

		if d.vol2 {
			roots = append(roots, vol2Root)
		}

		return each(roots, argv{K: "walkfn"}), true
	case "SameFile":
		var t [][]argv

		for _, a := range d.finfo {
			for _, b := range d.finfo {
				t = append(t, []argv{{K: "finfo", S: a}, {K: "finfo", S: b}})
			}
		}

		return t, true
	case "ToSysStat":
		var t [][]argv
		for _, a := range d.finfo {
			t = append(t, []argv{{K: "finfo", S: a}})
		}

		return t, true
	case "SetUMask":
		return [][]argv{{md(0)}, {md(0o077)}, {md(0o022)}}, true
	case "SetUser":
		return [][]argv{{{K: "user", S: "root"}}, {{K: "user", S: "u1"}}}, true
	case "SetUserByName":
		return [][]argv{{st("root")}, {st("u1")}, {st("nobody")}}, true
	case "SetIdm":
		return [][]argv{{{K: "idm"}}}, true
	case "HasFeature":
		return [][]argv{{{K: "feat", I: int64(avfs.FeatReadOnly)}}, {{K: "feat", I: int64(avfs.FeatSymlink)}}}, true
	}

	return genericArgs(mt, d)
}

// rawPatterns: string arguments that are NOT paths - the pattern of CreateTemp
// and MkdirTemp, the patterns of Glob and Match.
//
// Lesson: the path operands of the alphabet are written once and spelled for
// the OS type of the base, so every one of them is well formed for the file
// system that receives it. A string that is not a path has no spelling: the
// caller writes what he writes, and the characters that matter are the ones
// the two OS types read differently - the backslash is a separator on a
// Windows-typed file system and an ordinary character of a name (an escape in
// a Match pattern) on a Linux-typed one; '/' is a separator for both but has no
// business in the pattern of a temporary name - and the degenerate ones: the
// empty pattern, a pattern that is nothing but '*'. Code that looks at such an
// argument BEFORE deciding (a wrapper that lets "the base report the bad
// pattern", a helper with its own idea of what a separator is) disagrees with
// the base on exactly these. They are handed over as written (argument kind
// str, never spelled) under either OS type: the mutating methods must refuse
// every one of them with an error of the permission class and leave the base
// alone, whatever the base would have said about the pattern; the read-only
// ones must answer what the twin base answers.
func tempPatterns(thorough bool) []string {
	// "t*" (an ordinary pattern) is in the domain already
	t := []string{"", "*", `t\*`, "a/t*"}
	if thorough {
		t = append(t, `\t`, "/t", `d\e\*.tmp`, "t*/", "**", `t*\`)
	}

	return t
}

func globRaw(thorough, sub bool) []string {
	// a backslash before a separator, before a letter of a name that exists, at the end
	t := []string{`/d\/*`, `/d/\f`, `\d\*`}
	if sub {
		t = []string{`/e\/*`, `/\f`, `\e\*`}
	}

	if thorough {
		t = append(t, `*\`, `C:/d/*`, `\`)
	}

	return t
}

func matchRaw(thorough bool) [][2]string {
	t := [][2]string{{`a\*`, "a*"}, {`a\*`, `a\b`}, {"", ""}, {"*", ""}, {`\`, "f"}}
	if thorough {
		t = append(t, [2]string{"*", `a\b`}, [2]string{"*", "a/b"}, [2]string{`a\\b`, `a\b`}, [2]string{"**", "f"})
	}

	return t
}

// noOps: the values with which a mutating call is documented (or bound) to
// change nothing.
//
// Lesson: nearly every mutator has an argument value that means "leave it as
// it is" - Chown with -1 for either id or for both, Chtimes with the zero
// time, Truncate to the size the file has, Chmod to the mode it has, Chown to
// the owner it has, Write / WriteAt / WriteString of no bytes, Rename of a
// name onto itself or onto another link of the same file, SetUMask of the mask
// in force, MkdirAll of a directory that exists, RemoveAll of a name that does
// not - and code that refuses mutations is tempted to let exactly these
// through ("nothing is written anyway"), forwarding them to a base that may
// read the value differently (an OrefaFS stores -1 as the owner). A read-only
// file system refuses them like any other mutation, with an error of the
// permission class, and the base must not change. The argument domain of every
// mutating method therefore holds, next to a value that would change
// something, the value(s) that would not: the setup of the tree is fixed, so
// "the size / mode / owner it has" are constants of the alphabet (/d/f: 4
// bytes, 0o644; /d/e/g: 2 bytes, 0o600; directories 0o755; every node 0:0;
// umask 0o022). vfsArgs and fileArgs mark them with "noOps".

// held: what the setup (build) gives the nodes the path operands name - size
// (-1: a directory) and permission bits - under the spellings of the alphabet
// (before spell): absolute, relative to the initial current directory, through
// the symbolic links of the MemFS, and as seen from a view rooted at /d or /d/e.
// The second volume of a Windows-typed MemFS: vol2Dir, vol2File.
var held = map[string]struct{ size, mode int64 }{
	"/d": {-1, 0o755}, "/d/e": {-1, 0o755}, "/d/sd": {-1, 0o755}, "/e": {-1, 0o755}, rootedDir: {-1, 0o755}, vol2Dir: {-1, 0o755},
	"/d/f": {4, 0o644}, "/d/h": {4, 0o644}, "/d/s": {4, 0o644}, "d/f": {4, 0o644}, "/f": {4, 0o644},
	"/d/e/g": {2, 0o600}, "/e/g": {2, 0o600}, "/g": {2, 0o600},
	vol2File: {2, 0o644},
}

// genericArgs builds the product of small per-type domains.
func genericArgs(mt reflect.Type, d domains) ([][]argv, bool) {
	tuples := [][]argv{{}}

	for i := 0; i < mt.NumIn(); i++ {
		pt := mt.In(i)
		if mt.IsVariadic() && i == mt.NumIn()-1 {
			pt = pt.Elem() // one element of the variadic tail
		}

		var dom []argv

		switch {
		case pt == tString:
			for _, x := range d.lexical {
				dom = append(dom, p(x))
			}
		case pt == tMode:
			dom = []argv{md(0o644)}
		case pt == tFeatures:
			dom = []argv{{K: "feat", I: int64(avfs.FeatSymlink)}}
		case pt == tBytes:
			dom = []argv{{K: "data", S: "XY"}}
		case pt == tTime:
			dom = []argv{{K: "time", I: 1}}
		case pt == tFileInfo:
			dom = []argv{{K: "finfo", S: d.finfo[0]}}
		case pt == tWalkFn:
			dom = []argv{{K: "walkfn"}}
		case pt == tUser:
			dom = []argv{{K: "user", S: "u1"}}
		case pt == tIdm:
			dom = []argv{{K: "idm"}}
		case pt.Kind() == reflect.Int:
			dom = []argv{in(0), in(1001), in(-1)}
		case pt.Kind() == reflect.Int64:
			dom = []argv{i64(0), i64(2), i64(-1)}
		case pt.Kind() == reflect.Uint8:
			dom = []argv{{K: "u8", I: '/'}}
		case pt.Kind() == reflect.Bool:
			dom = []argv{{K: "bool", I: 0}, {K: "bool", I: 1}}
		default:
			return nil, false
		}

		var next [][]argv

		for _, t := range tuples {
			for _, a := range dom {
				next = append(next, append(append([]argv{}, t...), a))
			}
		}

		tuples = next
	}

	return tuples, true
}

// fileArgs returns the argument tuples of one avfs.File method.
func fileArgs(name string, mt reflect.Type, d domains) ([][]argv, bool) {
	th := d.tier == "thorough"
	buf := func(n int64) argv { return argv{K: "buf", I: n} }
	data := func(s string) argv { return argv{K: "data", S: s} }

	switch name {
	case "Read":
		if th {
			return [][]argv{{buf(0)}, {buf(2)}, {buf(8)}}, true
		}

		return [][]argv{{buf(2)}, {buf(8)}}, true
	case "ReadAt":
		t := [][]argv{{buf(2), i64(0)}, {buf(2), i64(3)}, {buf(2), i64(-1)}}
		if th {
			t = append(t, []argv{buf(8), i64(0)}, []argv{buf(2), i64(10)}, []argv{buf(0), i64(0)})
		}

		return t, true
	case "Seek":
		if th {
			var t [][]argv

			for _, off := range []int64{0, 2, -1, 10} {
				for _, wh := range []int64{0, 1, 2, 3} {
					t = append(t, []argv{i64(off), in(wh)})
				}
			}

			return t, true
		}

		return [][]argv{{i64(0), in(0)}, {i64(2), in(0)}, {i64(-1), in(0)}, {i64(1), in(1)}, {i64(0), in(2)}, {i64(10), in(0)}, {i64(0), in(3)}}, true
	case "Write":
		// no bytes: nothing would be written (noOps)
		return [][]argv{{data("XY")}, {data("")}}, true
	case "WriteString":
		return [][]argv{{st("XY")}, {st("")}}, true
	case "WriteAt":
		t := [][]argv{{data("XY"), i64(0)}, {data(""), i64(0)}}
		if th {
			t = append(t, []argv{data("XY"), i64(-1)}, []argv{data(""), i64(10)}, []argv{data("XY"), i64(10)})
		}

		return t, true
	case "Truncate":
		// 4 is the size /d/f has, 2 the size /d/e/g has (noOps)
		if th {
			return [][]argv{{i64(0)}, {i64(2)}, {i64(4)}, {i64(-1)}, {i64(10)}}, true
		}

		return [][]argv{{i64(0)}, {i64(4)}, {i64(10)}}, true
	case "Chmod":
		// 0o644 is the mode /d/f has, 0o755 the mode the directories have (noOps)
		if th {
			return [][]argv{{md(0o777)}, {md(0)}, {md(0o644)}, {md(0o755)}, {md(0o600)}}, true
		}

		return [][]argv{{md(0o777)}, {md(0o644)}}, true
	case "Chown":
		// -1 leaves an id as it is; 0:0 is the owner every node has (noOps)
		if th {
			return [][]argv{{in(0), in(0)}, {in(1001), in(1001)}, {in(-1), in(-1)}, {in(-1), in(1001)}, {in(0), in(-1)}}, true
		}

		return [][]argv{{in(1001), in(1001)}, {in(-1), in(-1)}, {in(0), in(0)}}, true
	case "ReadDir", "Readdirnames":
		if th {
			return [][]argv{{in(-1)}, {in(0)}, {in(1)}, {in(5)}}, true
		}

		return [][]argv{{in(-1)}, {in(1)}}, true
	}

	return genericArgs(mt, d)
}

// Base-side letters.
//
// Lesson: a read-only wrapper is a WINDOW on a file system that other users of
// the base keep changing; "returns what the underlying file system returns"
// means what it returns NOW. As long as the only actor of a history is the
// wrapper (whose mutations are all refused) the base is a constant, and an
// answer computed once and kept (a cached FileInfo, a cached listing, a
// content read at open time) can never be told from a live one. The alphabet
// therefore holds a handful of changes that are applied directly to the base
// and, identically, to the twin: each of the things a read reports (size and
// content growing and shrinking, mode, mtime, the entries of a listed
// directory coming and going, the link count, the name an open file is known
// by) changes under the objects the wrapper handed out earlier.
//
// All operands are absolute, so the current directory of the base does not
// matter; the file that grows, shrinks and is renamed is the one with a second
// link and (MemFS) a symbolic link, so the change shows under other names too.
func baseLetters(d domains) []opDesc {
	data := func(s string) argv { return argv{K: "data", S: s} }
	later := argv{K: "time", I: restampSeconds}

	l := []opDesc{
		{Recv: "base", Method: "WriteFile", Args: []argv{p("/d/f"), data("longer data"), md(0o644)}}, // grows (seen through /d/h and /d/s too)
		{Recv: "base", Method: "WriteFile", Args: []argv{p("/d/f"), data("d"), md(0o644)}},           // shrinks
		{Recv: "base", Method: "Chmod", Args: []argv{p("/d/f"), md(0o600)}},
		{Recv: "base", Method: "Mkdir", Args: []argv{p("/d/new"), md(0o755)}}, // an entry appears in a listed directory (and a missing operand becomes a directory)
		{Recv: "base", Method: "Remove", Args: []argv{p("/d/h")}},             // an entry disappears, the link count of /d/f drops
		{Recv: "base", Method: "Rename", Args: []argv{p("/d/f"), p("/d/r")}},  // a file that may be open gets another name
	}

	if d.tier == "thorough" {
		l = append(l,
			opDesc{Recv: "base", Method: "Chtimes", Args: []argv{p("/d/e/g"), later, later}},
			opDesc{Recv: "base", Method: "Remove", Args: []argv{p("/d/e/g")}}, // a file that may be open loses its last name
			opDesc{Recv: "base", Method: "WriteFile", Args: []argv{p("/d/e/g"), data(""), md(0o600)}},
			opDesc{Recv: "base", Method: "Chmod", Args: []argv{p("/d/e"), md(0o700)}},
			opDesc{Recv: "base", Method: "Chtimes", Args: []argv{p("/d"), later, later}},
			opDesc{Recv: "base", Method: "WriteFile", Args: []argv{p("/d/e/n"), data("nn"), md(0o644)}}, // a new file
			opDesc{Recv: "base", Method: "RemoveAll", Args: []argv{p("/d/e")}},                          // a directory that may be open disappears with its content
			opDesc{Recv: "base", Method: "Rename", Args: []argv{p("/d/e"), p("/d/q")}},
		)

		if d.vol2 {
			l = append(l, opDesc{Recv: "base", Method: "WriteFile", Args: []argv{p(vol2File), data("www"), md(0o644)}})
		}
	}

	return l
}

// World-side letters.
//
// Lesson: every system of an enumeration lives alone - one wrapper over one
// base, built fresh for the history and dropped after it - while in a real
// program instances COEXIST: a read-only view of a Windows-typed tree next to
// one of a Linux-typed tree, views made by Sub next to the file system they
// came from. State that ought to belong to the instance and does not (a
// package-level value every constructor points to, a default that one
// constructor rewrites for all, a cache keyed by something instances share)
// behaves exactly like instance state as long as no second instance exists, so
// no history on a single object can tell the difference. "Which other
// instances exist, and when they were made" is a dimension of the alphabet like
// any other: the letter world.NewRoFS(<base>) builds another base - of the
// other OS type, and of the same - wraps it by the constructor under test and
// uses it the way any instance is used (it changes its directory and its mask,
// takes a view by Sub, opens a file, is refused a mutation). It may stand at
// any position of a history: before everything, or between a handle being
// opened and being used. The instance under test, its base and its twin are
// not touched by the letter and are judged exactly as before: the base is
// snapshotted around the letter, and every later call is held against the
// same oracles - the refusals of the instance under test must stay of the
// permission class of ITS OWN OS type, its reads must stay what its twin
// answers.
func worldLetters(d domains) []opDesc {
	names := []string{"MemFS", "MemFS@Windows"}
	if d.tier == "thorough" {
		names = append(names, "OrefaFS", "OrefaFS@Windows")
	}

	var l []opDesc
	for _, n := range names {
		l = append(l, opDesc{Recv: "world", Method: "NewRoFS", Args: []argv{st(n)}})
	}

	return l
}

// restampSeconds: after a base-side letter every node whose modification time
// moved is given fsx.FixedTime plus this many seconds on the base and on the
// twin (the clock of the two instances is the wall clock: without it base and
// twin would differ, and the state key would differ from run to run).
const restampSeconds = 60

// treeReads: the read-only methods of a file system whose answer is taken from
// the tree (the others are lexical, or report view state). true: asked in the
// quick tier too - attributes by name, listing, content, link resolution;
// false: thorough only - the two that traverse the tree (their answers are
// made of the listings and attributes the others report).
var treeReads = map[string]bool{
	"Stat": true, "Lstat": true, "ReadDir": true, "ReadFile": true, "Readlink": true, "EvalSymlinks": true,
	"Glob": false, "WalkDir": false,
}

// stillReads: the read-only methods of a handle that do not move it.
var stillReads = map[string]bool{"Stat": true, "Name": true, "ReadAt": true}

// isProbe: a read-only operation of the alphabet that reads the tree, hands
// nothing out that is pooled and leaves the state of its receiver alone. These
// are the questions a base-side letter asks every pooled object BEFORE and
// AFTER the change (see baseStep).
func isProbe(o opDesc, tier string) bool {
	if classOf(o) != clRO || o.Dst != "" {
		return false
	}

	if o.Recv == "f0" || o.Recv == "f1" {
		return stillReads[o.Method]
	}

	quick, ok := treeReads[o.Method]

	return ok && (quick || tier == "thorough")
}

// the 48 flag combinations of {RDONLY,WRONLY,RDWR} x APPEND x TRUNC x CREATE x EXCL
func allFlags() []int {
	var out []int

	for _, acc := range []int{os.O_RDONLY, os.O_WRONLY, os.O_RDWR} {
		for m := 0; m < 16; m++ {
			f := acc

			if m&1 != 0 {
				f |= os.O_APPEND
			}

			if m&2 != 0 {
				f |= os.O_TRUNC
			}

			if m&4 != 0 {
				f |= os.O_CREATE
			}

			if m&8 != 0 {
				f |= os.O_EXCL
			}

			out = append(out, f)
		}
	}

	return out
}

func quickFlags() []int {
	return []int{
		os.O_RDONLY,
		os.O_RDONLY | os.O_TRUNC,
		os.O_RDONLY | os.O_CREATE,
		os.O_RDONLY | os.O_APPEND,
		os.O_RDONLY | os.O_EXCL,
		os.O_RDONLY | os.O_CREATE | os.O_EXCL,
		os.O_WRONLY,
		os.O_WRONLY | os.O_CREATE | os.O_TRUNC,
		os.O_WRONLY | os.O_APPEND,
		os.O_RDWR,
		os.O_RDWR | os.O_CREATE,
		os.O_RDWR | os.O_CREATE | os.O_EXCL | os.O_TRUNC | os.O_APPEND,
	}
}

// Windows-typed bases. The alphabet is written once, in slash form, and
// spelled for the OS type of the base: "/d/f" is `C:\d\f` there, "d/f" is
// `d\f`. The operands that exist on a Windows-typed base only are written as
// they are (spell leaves them alone).
//
// Lesson: a file system that emulates Windows keeps one root per volume in a
// table that lives outside the tree; a view of the file system (Sub) is a
// copy of the handle, not of that table. What a wrapper must leave untouched
// is therefore more than the tree below one root: the base holds a second
// volume, the snapshot covers every volume, and the operands name the root, a
// directory and a file of the other volume and a rooted path without volume
// (resolved against the volume of the current directory).
const (
	winVolume = "C:"
	vol2      = "D:"
	vol2Root  = vol2 + `\`
	vol2Dir   = vol2 + `\v`
	vol2File  = vol2 + `\v\w`
	rootedDir = `\d` // volume of the current directory
)

// sysKind splits the name of a system: MemFS | OrefaFS, optionally followed by @Windows.
func sysKind(name string) (kind string, win bool) {
	kind, ost, _ := strings.Cut(name, "@")

	return kind, ost == "Windows"
}

// hasVol2: the Windows-typed MemFS manages volumes (avfs.VolumeManager), the OrefaFS has the default volume only.
func hasVol2(name string) bool {
	kind, win := sysKind(name)

	return win && kind == "MemFS"
}

// spell turns a path (or pattern) of the alphabet into the spelling of the OS type of the base.
func spell(win bool, pth string) string {
	if !win {
		return pth
	}

	if strings.HasPrefix(pth, "/") {
		pth = winVolume + pth
	}

	return strings.ReplaceAll(pth, "/", `\`)
}

// qualified: the path does not depend on the current directory (nor on its volume).
func qualified(win bool, pth string) bool {
	if !win {
		return strings.HasPrefix(pth, "/")
	}

	return len(pth) >= 3 && pth[1] == ':' && (pth[2] == '\\' || pth[2] == '/')
}

// buildOps builds the static alphabet of one system. The second result lists
// methods for which no argument tuple could be built (harness error if any).
func buildOps(base, tier string) (ops []opDesc, bad []string, info map[string]any) {
	th := tier == "thorough"
	kind, win := sysKind(base)
	v2 := hasVol2(base)

	roPaths := []string{"/d", "/d/f", "/d/h", "/d/e", "/d/e/g", "/d/new", "/nope", "/", "d/f", ""}
	if kind == "MemFS" {
		roPaths = append(roPaths, "/d/s", "/d/sd")
	}

	if win {
		roPaths = append(roPaths, rootedDir)
	}

	if v2 {
		roPaths = append(roPaths, vol2Root, vol2Dir, vol2File)
	}

	// a file system obtained from Sub sees the subtree: the same strings plus
	// the spellings that hit the tree when the view is rooted at /d or /d/e
	subPaths := append(append([]string{}, roPaths...), "/f", "/e", "/e/g", "/new", "/g")

	flags := quickFlags()
	if th {
		flags = allFlags()
	}

	dom := func(paths []string, sub bool) domains {
		d := domains{tier: tier, paths: paths, flags: flags, subFS: sub, vol2: v2}
		d.lexical = []string{"/d/f", "d/f", "", "/d/../x/"}
		d.old = []string{"/d/f", "/d/e", "/nope"}
		// (a name onto itself, onto another link of the same file: noOps)
		d.new = []string{"/d/new", "/d/h", "/d/f", "/d/e", "/x"}
		d.finfo = []string{"/d/f", "/d/h", "/d/e/g"}

		if sub {
			d.old = append(d.old, "/f", "/e")
			d.new = append(d.new, "/new", "/h")
			d.finfo = []string{"/f", "/h", "/e/g"}
		}

		if win {
			d.lexical = append(d.lexical, rootedDir, winVolume+"d") // C:d is relative to the current directory of volume C:
		}

		if v2 {
			d.lexical = append(d.lexical, vol2File)
			d.new = append(d.new, vol2Dir+`\new`) // across volumes
			d.finfo = append(d.finfo, vol2File)
		}

		if th {
			d.lexical = paths
			d.old, d.new = paths, paths
		}

		return d
	}

	slots := []string{"f0", "f1"}

	var unknownVFS, unknownFile []string

	for _, recv := range []string{"ro", "sub0"} {
		d := dom(roPaths, false)
		if recv == "sub0" {
			d = dom(subPaths, true)
		}

		for i := 0; i < tVFS.NumMethod(); i++ {
			m := tVFS.Method(i)

			tuples, ok := vfsArgs(m.Name, m.Type, d)
			if !ok {
				bad = append(bad, "VFS."+m.Name)

				continue
			}

			if _, known := vfsClass[m.Name]; !known && m.Name != "OpenFile" && recv == "ro" {
				unknownVFS = append(unknownVFS, m.Name)
			}

			retFile, retFS := false, false

			for j := 0; j < m.Type.NumOut(); j++ {
				switch m.Type.Out(j) {
				case tFile:
					retFile = true
				case tVFS:
					retFS = true
				}
			}

			for _, t := range tuples {
				switch {
				case retFile:
					for _, sl := range slots {
						ops = append(ops, opDesc{Recv: recv, Method: m.Name, Args: t, Dst: sl})
					}
				case retFS:
					ops = append(ops, opDesc{Recv: recv, Method: m.Name, Args: t, Dst: "sub0"})
				default:
					ops = append(ops, opDesc{Recv: recv, Method: m.Name, Args: t})
				}
			}
		}
	}

	for _, sl := range slots {
		d := dom(roPaths, false)

		for i := 0; i < tFile.NumMethod(); i++ {
			m := tFile.Method(i)

			tuples, ok := fileArgs(m.Name, m.Type, d)
			if !ok {
				bad = append(bad, "File."+m.Name)

				continue
			}

			if _, known := fileClass[m.Name]; !known && sl == "f0" {
				unknownFile = append(unknownFile, m.Name)
			}

			for _, t := range tuples {
				ops = append(ops, opDesc{Recv: sl, Method: m.Name, Args: t})
			}
		}
	}

	// changes made directly on the base (and on the twin)
	letters := baseLetters(dom(roPaths, false))
	ops = append(ops, letters...)

	// other instances coming into being next to the one under test
	nOwn := len(ops)
	ops = append(ops, worldLetters(dom(roPaths, false))...)

	// spelled for the OS type of the base
	sp := func(l []string) []string {
		out := make([]string, len(l))
		for i, x := range l {
			out[i] = spell(win, x)
		}

		return out
	}

	for i := range ops[:nOwn] {
		for j, a := range ops[i].Args {
			switch a.K {
			case "path", "pstr", "finfo":
				ops[i].Args[j].S = spell(win, a.S)
			}
		}
	}

	roPaths, subPaths = sp(roPaths), sp(subPaths)

	osName := "Linux"
	if win {
		osName = "Windows"
	}

	info = map[string]any{
		"base_kind":            kind,
		"base_os_type":         osName,
		"second_volume":        v2,
		"vfs_methods":          methodNames(tVFS),
		"file_methods":         methodNames(tFile),
		"unclassified_methods": append(unknownVFS, unknownFile...),
		"paths":                roPaths,
		"sub_paths":            subPaths,
		"open_flag_sets":       len(flags),
	}

	// the base-side letters, and the questions asked around each of them: operations per receiver and method
	var ls, ws []string

	pr := map[string]int{}

	for _, o := range ops {
		if o.Recv == "base" {
			ls = append(ls, o.String())
		}

		if o.Recv == "world" {
			ws = append(ws, o.String())
		}

		if isProbe(o, tier) {
			pr[o.Recv+"."+o.Method]++
		}
	}

	info["base_side_letters"] = ls
	info["world_side_letters"] = ws
	info["temp_patterns_as_written"] = append([]string{"t*"}, tempPatterns(th)...)
	info["glob_patterns_as_written"] = globRaw(th, false)
	info["match_operands_as_written"] = matchRaw(th)
	info["questions_asked_around_a_base_side_letter"] = pr

	return ops, bad, info
}
