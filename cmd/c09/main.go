// c09: a read-only file system (RoFS) never lets the underlying file system change.
//
// Engine A (lib/bfs): every history up to the depth bound over a static
// alphabet made of every avfs.VFS method on the RoFS and on a file system
// obtained from it through Sub, and every avfs.File method on pooled handles
// (methods enumerated by reflection over the interface types), executed on the
// real rofs.RoFS over a real MemFS / OrefaFS base holding a small tree. Every
// base exists Linux-typed and Windows-typed (build tag avfs_setostype; the
// alphabet is spelled for the OS type); the Windows-typed MemFS holds a second
// volume, whose root, directory and file are operands too.
// Oracles on every call:
//
//  1. the base (internal dump + public-API dump with mtimes, taken directly on
//     the base as administrator, over every volume; and what the base answers
//     its own readers - every directory listed through a handle by
//     Readdirnames and by ReadDir, thorough: also in pieces, by ReadDir of the
//     file system and by Glob - see answers in system.go) is identical before
//     and after;
//  2. a mutating call fails with errors.Is(err, fs.ErrPermission), also when
//     its arguments are the ones documented to change nothing (noOps in
//     alphabet.go);
//  3. a read-only call returns what the same call returns on a twin base with
//     identical content, driven directly (handles: a twin handle opened by the
//     mirrored call).
//
// The harness is a caller that uses what it is given as its own: buffers it
// passed and every slice a call returned ([]byte, []string, []fs.DirEntry) are
// written over up to their capacity once the call has returned and the value
// has been read (scribbleSlice in invoke.go), on the wrapper side and on the
// twin alike.
//
// The base does not stay what it was: the alphabet also holds base-side letters
// (baseside.go), changes made directly on the base and on the twin, each of
// which asks every pooled object every tree-reading question before and again
// after the change; oracle 3 means what the base returns NOW.
//
// The instance under test is not alone either: the alphabet holds world-side
// letters (worldLetters in alphabet.go, worldStep in system.go) that create and
// use ANOTHER read-only file system, over a base of the other OS type and of
// the same, at any position of a history; the instance under test is judged
// as before. And the string arguments that are not paths (temp patterns, Glob
// and Match patterns) are handed over as written, with the characters the two
// OS types read differently (rawPatterns in alphabet.go).
package main

import (
	"encoding/json"
	"flag"
	"fmt"
	"os"
	"path/filepath"
	"regexp"
	"sort"
	"strconv"
	"strings"
	"sync"
	"time"

	"github.com/avfs/avfs/verifrt"

	"verif/lib/bfs"
	"verif/lib/ev"
	"verif/lib/kf"
)

// reCounter: a counter at the end of an outcome (see the aggregation in main).
var reCounter = regexp.MustCompile(` (questions|lent|asked)=([0-9]+)$`)

func newSys(name, tier string) (*sys, []string, map[string]any) {
	s := &sys{name: name, tier: tier}
	s.kind, s.win = sysKind(name)

	var (
		bad  []string
		info map[string]any
	)

	s.ops, bad, info = buildOps(name, tier)

	for i := range s.ops {
		if isProbe(s.ops[i], tier) {
			s.probes = append(s.probes, i)
		}
	}

	return s, bad, info
}

func factory(tier string) func(string) bfs.System {
	return func(name string) bfs.System {
		verifrt.SetMode(verifrt.ModeSeq)

		s, _, _ := newSys(name, tier)

		return s
	}
}

func main() {
	id := flag.String("id", "C09", "")
	tier := flag.String("tier", "quick", "")
	depth := flag.Int("depth", 0, "history length bound (default: 2 quick, 3 thorough)")
	systems := flag.String("systems", "", "comma separated subset of MemFS,OrefaFS,MemFS@Windows,OrefaFS@Windows")
	workers := flag.Int("workers", 0, "")
	replayFile := flag.String("replay", "", "re-execute the history of a replay file")
	listOps := flag.Bool("ops", false, "print the alphabet and exit")

	var wflag string

	flag.StringVar(&wflag, "bfsworker", "", "")
	flag.Parse()

	bfs.MaybeWorker(factory(*tier))

	verifrt.SetMode(verifrt.ModeSeq)

	verifDir := os.Getenv("VERIF_DIR")
	if verifDir == "" {
		verifDir = "."
	}

	if *replayFile != "" {
		os.Exit(replay(*replayFile, *tier))
	}

	// the smaller system first: what it leaves of its share of the budget goes to the larger one
	// (<kind>@Windows: the base emulates Windows)
	sysNames := []string{"OrefaFS", "OrefaFS@Windows", "MemFS", "MemFS@Windows"}
	if *systems != "" {
		sysNames = strings.Split(*systems, ",")
	}

	if *listOps {
		for _, sn := range sysNames {
			s, _, _ := newSys(sn, *tier)
			for i := range s.ops {
				fmt.Printf("%s %4d %-12s %s\n", sn, i, classOf(s.ops[i]), s.ops[i])
			}
		}

		return
	}

	rep, err := kf.NewReporter(*id, filepath.Join(verifDir, "known_findings.txt"), filepath.Join(verifDir, "replays"))
	if err != nil {
		fmt.Fprintln(os.Stderr, err)
		os.Exit(2)
	}

	rep.Discover = os.Getenv("VERIF_DISCOVER") != ""

	d := *depth
	if d == 0 {
		d = 2
		if *tier == "thorough" {
			d = 3
		}
	}

	budget := 0
	if b, err := strconv.Atoi(os.Getenv("VERIF_BUDGET_S")); err == nil {
		budget = b
	} else if *tier == "thorough" {
		budget = 1200
	}

	var deadline time.Time
	if budget > 0 {
		// keep a margin for bookkeeping
		deadline = time.Now().Add(time.Duration(budget)*time.Second - 10*time.Second)
	}

	var (
		all        []bfs.Stats
		harnessErr string
		alphaInfo  = map[string]any{}
		mu         sync.Mutex
		violSample []any
		shortest   = map[string]int{} // signature -> length of the shortest history kept
		examples   = map[string]map[string]any{}
		exampleKey = map[string]string{}

		cfgDeadline time.Time
	)

	// precondition, one system after the other (the random source of the
	// harness is process-wide): the systems can be built and base == twin
	probes := make([]*sys, len(sysNames))

	for si, sn := range sysNames {
		probe, bad, info := newSys(sn, *tier)
		if len(bad) > 0 {
			fmt.Fprintf(os.Stderr, "harness error: cannot build arguments for %v (unknown parameter type): extend cmd/c09/alphabet.go\n", bad)
			os.Exit(2)
		}

		probe.fullCheck = true

		if err := probe.Reset(); err != nil {
			fmt.Fprintln(os.Stderr, "harness error:", err)
			os.Exit(2)
		}

		info["operations"] = probe.NumOps()
		alphaInfo[sn] = info
		probes[si] = probe
	}

	all = make([]bfs.Stats, len(sysNames))
	lines := make([]string, len(sysNames))

	runOne := func(si int, dl time.Time) {
		sn, probe := sysNames[si], probes[si]

		cfg := bfs.Config{
			System: sn, MaxDepth: d, Deadline: dl, Workers: *workers,
			Report: func(system string, hist []string, op string, v bfs.Viol) {
				var det map[string]any

				_ = json.Unmarshal([]byte(v.Detail), &det)
				if det == nil {
					det = map[string]any{"text": v.Detail}
				}

				// a history that ran in a process where earlier histories had made other
				// instances (everMade in system.go): they are part of its start state
				if e, ok := det["other_instances_made_earlier_in_this_process"].([]any); ok && len(e) > 0 {
					h := make([]string, 0, len(e)+len(hist))
					for _, n := range e {
						h = append(h, opDesc{Recv: "world", Method: "NewRoFS", Args: []argv{st(fmt.Sprint(n))}}.String())
					}

					hist = append(h, hist...)
				}

				obj := map[string]any{"system": system, "history": hist, "op": op, "detail": det, "tier": *tier}
				rep.Report(kf.Sig(v.Sig), obj)

				mu.Lock()
				defer mu.Unlock()

				k := kf.Sig(v.Sig).String()
				full := strings.Join(hist, "\x00") + "\x00" + op
				if n, ok := shortest[k]; !ok || len(hist) < n || (len(hist) == n && full < exampleKey[k]) {
					shortest[k] = len(hist)
					examples[k] = obj
					exampleKey[k] = full
				}

				if len(violSample) < 3 {
					violSample = append(violSample, map[string]any{"signature": v.Sig, "history": hist, "op": op})
				}
			},
		}

		st := bfs.Run(cfg, probe.OpString)

		exec := 0

		for k, n := range st.Outcomes {
			if !strings.HasPrefix(k, "skip/") {
				exec += n
			}
		}

		mu.Lock()
		defer mu.Unlock()

		all[si] = st

		if st.HarnessErr != "" {
			harnessErr = sn + ": " + st.HarnessErr
		}

		lines[si] = fmt.Sprintf("C09 %s: ops=%d states=%d steps=%d executed_calls=%d depth_completed=%d exhaustive=%v",
			sn, probe.NumOps(), st.States, st.Transitions, exec, st.DepthDone, st.Exhaustive)
	}

	if deadline.IsZero() {
		// no budget to share: the explorations are independent of each other
		// (own workers, own instances) and run side by side; the first level of
		// each of them is a single expansion that would leave the machine idle
		var wg sync.WaitGroup

		for si := range sysNames {
			wg.Add(1)

			go func(si int) {
				defer wg.Done()

				runOne(si, time.Time{})
			}(si)
		}

		wg.Wait()
	} else {
		for si := range sysNames {
			// the remaining budget is shared evenly among the bases still to run
			left := time.Until(deadline)
			cfgDeadline = time.Now().Add(left / time.Duration(len(sysNames)-si))

			runOne(si, cfgDeadline)
		}
	}

	for _, l := range lines {
		fmt.Println(l)
	}

	// ---- aggregate
	states, steps, executed, skipped := 0, 0, 0, 0
	baseSteps, questions := 0, 0 // base-side steps executed; questions asked before and again after the change, summed over them
	lent, asked := 0, 0          // slices returned through the wrapper and written over; calls around which the base was asked for its answers
	outcomes := map[string]int{}
	exh := true
	depthDone := d

	var samples []any

	for _, st := range all {
		states += st.States
		steps += st.Transitions

		for k, n := range st.Outcomes {
			if strings.HasPrefix(k, "skip/") {
				skipped += n

				continue
			}

			executed += n

			// counters carried by the outcome: a base-side step reports how many questions it
			// asked around the change, a call through the wrapper how many returned slices were
			// written over and whether the base was asked for its answers around it
			// (at its end; the class itself may hold blanks)
			for {
				m := reCounter.FindStringSubmatch(k)
				if m == nil {
					break
				}

				k = k[:len(k)-len(m[0])]
				q, _ := strconv.Atoi(m[2])

				switch m[1] {
				case "questions":
					baseSteps += n
					questions += q * n
				case "lent":
					lent += q * n
				case "asked":
					asked += n
				}
			}

			outcomes[k] += n
		}

		if !st.Exhaustive {
			exh = false
		}

		if st.DepthDone < depthDone {
			depthDone = st.DepthDone
		}

		for _, s := range st.Samples {
			samples = append(samples, map[string]any{"system": st.System, "history": s})
		}
	}

	samples = append(samples, violSample...)
	if len(samples) == 0 {
		samples = append(samples, "no successor state found")
	}

	// methods actually executed, per object kind (from the outcome classes)
	execMethods := map[string]bool{}
	viewChanges, refused, refusedOS, worldSteps := 0, 0, 0, 0

	for k, n := range outcomes {
		head := k
		if i := strings.Index(k, "/"); i >= 0 {
			head = k[:i]
		}

		execMethods[head] = true

		if head == "world.NewRoFS" {
			worldSteps += n
		}

		if strings.Contains(k, "+view") {
			viewChanges += n
		}

		if strings.Contains(k, "/refused:") {
			refused += n

			// Windows-typed base: the value package os answers on Windows whatever
			// the file system (Chown, Lchown: not supported; Symlink: privilege not held)
			if i := strings.Index(k, "/refused:WIN"); i >= 0 && !strings.HasPrefix(k[i:], "/refused:WIN5") {
				refusedOS += n
			}
		}
	}

	var execList []string
	for m := range execMethods {
		execList = append(execList, m)
	}

	sort.Strings(execList)

	// every interface method must have been executed through the RoFS itself
	// and, for File, through a handle it returned
	never := []string{}

	for _, m := range methodNames(tVFS) {
		if !execMethods["rofs."+m] {
			never = append(never, "rofs."+m)
		}
	}

	for _, m := range methodNames(tFile) {
		if !execMethods["file."+m] {
			never = append(never, "file."+m)
		}
	}

	if rep.Discover {
		// one concrete shortest history per signature, for the maintainer
		keys := make([]string, 0, len(examples))
		for k := range examples {
			keys = append(keys, k)
		}

		sort.Strings(keys)

		for _, k := range keys {
			e := examples[k]
			fmt.Printf("EXAMPLE sig=%s history=%q op=%q\n", k, e["history"], e["op"])
		}
	}

	code := rep.Finish()

	if harnessErr != "" {
		fmt.Fprintln(os.Stderr, "harness error:", harnessErr)

		code = 2
	}

	if len(never) > 0 && harnessErr == "" && exh {
		fmt.Fprintf(os.Stderr, "harness error: methods never executed (alphabet or pool does not reach them): %v\n", never)

		code = 2
	}

	e := ev.Evidence{
		PropertyID: *id, Tier: *tier, Seed: ev.Seed(), Level: "model_checking",
		Coverage: map[string]any{
			"states": states, "transitions": executed, "traces_validated_against_impl": executed,
			"evaluations": executed, "distinct_nontrivial": len(outcomes),
			"rule": "every history of length <= bound over the static alphabet (every avfs.VFS method on the RoFS and on a pooled Sub file system, every avfs.File method on two pooled handle slots; methods enumerated by reflection, small argument domain per parameter - for every mutating method a value that would change something and the value(s) documented or bound to change nothing: Chown/Lchown/File.Chown with the owner the node has and with -1 for both ids (thorough: for either), Chtimes with the zero time, Chmod/File.Chmod with the mode the node has, Truncate/File.Truncate with the size the file has, Write/WriteString/WriteAt of no bytes, Link/Rename/Symlink of a name onto itself and onto another link of the same file, SetUMask of the mask in force, MkdirAll of an existing directory, RemoveAll of a missing name; plus the base-side letters: a handful of changes made directly on the base and identically on the twin, not through the wrapper - a file with a second link grows, shrinks, changes mode, is renamed, loses a link, a directory appears in a listed directory; thorough: also mtime, a file losing its last name, a new file, a directory renamed or removed with its content, a file of the second volume; plus the world-side letters: another read-only file system - rofs.New over a freshly built MemFS, Linux-typed and Windows-typed (thorough: also over an OrefaFS of either type), holding the same tree - is created next to the instance under test and used (Chdir, SetUMask, a refused Mkdir and Chown, Sub and calls on the view, Open, a refused Write), at any position of a history, and stays alive; the base under test is snapshotted around the letter and every later call on the instance under test is judged as without it (world_side_steps; per system: alphabet.<system>.world_side_letters); the string arguments that are not paths are handed over as written under either OS type: CreateTemp/MkdirTemp with the patterns alphabet.<system>.temp_patterns_as_written (empty, '*' only, a backslash, a '/') in every directory of their domain, Glob and Match with patterns holding a backslash (a separator on a Windows-typed base, an escape or an ordinary character on a Linux-typed one); a handle handed out by a mutating call that was not refused is asked Write, WriteString, Truncate and Chmod at once, with another snapshot of the base (kind writable-handle)) executed on a fresh real RoFS over a real base with a twin base as reference; " +
				"a base-side letter asks every pooled object (the RoFS, the pooled Sub file system, the pooled handles) every question of the alphabet that reads the tree and does not move its receiver (file system: Stat, Lstat, ReadDir, ReadFile, Readlink, EvalSymlinks over the path domain, thorough: also Glob and WalkDir; handle: Stat, Name, ReadAt; per system: alphabet.<system>.questions_asked_around_a_base_side_letter) BEFORE the change and again AFTER it: after the change every answer must equal the answer of the twin, the FileInfo/DirEntry values handed out before the change must say what the twin's say, and the questions must leave the base as the change left it; " +
				"the harness uses every value it is given as its own: after a call has returned and its results have been read, every slice it returned ([]byte, []string of Readdirnames/Glob, []fs.DirEntry of ReadDir, whole listings and pieces read with n > 0 alike) is overwritten element by element up to its CAPACITY (what sorting, renaming an element or appending to a piece does), on the wrapper side (returned_slices_written_over) and on the twin alike; around every call that carries a slice or a function across the wrapper (quick) / around every call (thorough), and around every base-side letter, the snapshot also holds what the base answers its own readers, asked directly on the base: a handle of every directory read at once by Readdirnames and another by ReadDir (thorough: also both in pieces of one entry, ReadDir of the file system, Glob dir/*, ReadFile of every file, Readlink of every link) - these answers must be the same before and after the call (change class 'answers'; calls_with_answers_of_the_base_in_the_snapshot); " +
				"bases: MemFS and OrefaFS, each Linux-typed and Windows-typed (<kind>@Windows; same tree on volume C:, paths spelled with volume and backslashes, plus a rooted path without volume; the Windows-typed MemFS holds a second volume D: with a directory and a file, which are operands of every path method, of Sub, WalkDir, Glob, Rel, SameFile and of the second operand of Link/Rename/Symlink); " +
				"transitions = calls actually executed (alphabet operations whose receiver slot is empty are skipped and counted apart; a base-side step counts once, its questions (each asked before and again after the change) are counted in base_side_questions); distinct_nontrivial = distinct (object kind, method, outcome class) triples observed",
			"samples":                      samples,
			"exhaustive":                   exh,
			"bound":                        fmt.Sprintf("histories of length <= %d (completed %d); a base-side letter and a world-side letter (another read-only file system created and used) may stand at every position of a history", d, depthDone),
			"systems":                      all,
			"alphabet":                     alphaInfo,
			"steps_including_skips":        steps,
			"skipped_empty_receiver":       skipped,
			"base_side_steps":              baseSteps,
			"base_side_questions":          questions,
			"world_side_steps":             worldSteps,
			"returned_slices_written_over": lent,
			"calls_with_answers_of_the_base_in_the_snapshot":        asked + baseSteps,
			"mutating_calls_refused_with_permission_error":          refused,
			"of_which_windows_typed_chown_lchown_symlink_os_answer": refusedOS,
			"view_state_changes_recorded":                           viewChanges,
			"object_kind_methods_executed":                          execList,
			"methods_never_executed":                                never,
			"outcome_classes":                                       outcomes,
			"known_findings_matched":                                append([]string{}, rep.KnownMatched()...),
			"budget_s":                                              budget,
		},
		Assumptions: []string{
			"what the base answers its own readers (third part of the snapshot) is compared before/after a call only when both snapshots were given to the same user of the base (SetUser through the wrapper is view state and changes what a reader may see); in the quick tier it is taken around the calls whose signature carries a slice or a function (and around base-side letters) only, so a call without such a parameter or result that damaged a listing kept inside the base would be noticed at the next call that has one, and attributed to that call",
			"slices are written over on both sides (wrapper and twin): what a handle shares with its own caller only (MemFile/OrefaFile.Readdirnames and ReadDir with n > 0 return sub-slices of the listing the handle keeps for the following pieces) stays equal on both sides and is not a change of the underlying file system; it is not judged here",
			"the base snapshot is the injected internal dump (tree, bytes, modes, owners, link counts; every volume of the volume table of a Windows-typed MemFS, so that a volume added, removed or re-rooted is a change) plus a public-API dump with mtimes taken directly on the base as administrator; the OrefaFS root directory is not addressable through the API (under either OS type), so its own mtime is not observed",
			"Windows-typed bases are the library's own emulation (Options.OSType = avfs.OsWindows, build tag avfs_setostype) on a Linux host; the OrefaFS has no volume management, so only the MemFS holds a second volume",
			"permission CLASS: errors.Is(err, fs.ErrPermission); no particular errno is demanded. On a Windows-typed base Chown/Lchown of a file system answer avfs.ErrWinNotSupported and Symlink answers avfs.ErrWinPrivilegeNotHeld on the base itself as through the RoFS, as package os does on Windows whatever the file system; neither is fs.ErrPermission (for package os either): the check stays strict, reports them as wrong-error-class and the deviation is listed as known finding KF-C09-001. On a handle that was returned together with an error (typed nil or zero RoFile) any error is accepted for a mutating call, on a closed handle a closed-file error is accepted too; a panic never is",
			"Name() on a typed nil handle panics by design (as (*os.File)(nil).Name()) and is not reported",
			"view state of the base that the statement does not list (cwd, umask, user, identity manager) is recorded (view_state_changes_recorded) and is not a violation; a view-state call that returns nil is mirrored on the twin, one that returns an error is assumed to have had no effect",
			"OpenFile with O_EXCL but without O_CREATE and without any write/append/truncate flag is unspecified: only the base snapshot and the absence of a panic are checked; Sub, Type, Features, HasFeature, Idm, Fd are not compared with the base (different by design)",
			"mutating calls are never executed on the twin; objects handed out by a mutating call that was not refused have no twin and only oracles 1 and 2 apply to them",
			"after a change of the base that came about through the wrapper (or through a question asked around a base-side letter) the state is not expanded further; after a base-side letter the search goes on, and the snapshot the following calls are held against is the one taken after it",
			"base-side letters are applied to the base and to the twin by the same call, as administrator, with absolute operands; both must answer alike and their snapshots must be equal afterwards (anything else is a harness error, never a verdict). The clock of both instances is the wall clock: every node whose modification time moved is given fsx.FixedTime+60s on both sides before anything is compared, so a stale modification time is told from a live one, but the time a change leaves behind is not itself observed. The questions around a base-side letter are asked on the transition being explored, not again each time lib/bfs re-executes the history to rebuild the state; what the questions answer BEFORE the change is compared by the ordinary steps of the same operations in the same state",
			"random part of temp names is supplied by the harness (deterministic)",
			"world-side letters: the other instance is built by the steps that build the base under test and is used by a fixed sequence of calls whose results are not judged (it is not the instance under test; a panic is reported); which other instances exist is part of the state key as a set (a second instance over the same kind of base adds nothing). The histories of one exploration are executed one after the other in the same worker processes: process-wide state that a history leaves behind (the very defect the letters look for) also reaches the histories executed after it in that process, so a violation may be observed on a history that does not itself hold the letter: it is then reported with the letters of the instances made earlier in the process in front of its history (they were part of its start state; the history shown can then be longer than the bound), so that the replay reproduces in a fresh process",
			"base and twin are built by the same deterministic steps; their dumps are compared after the first construction in every process (and with the full public-API dump by the parent), not after every construction. Without a time budget (quick tier) the four explorations run side by side, each with its own workers",
		},
		Violations: rep.NewCount(),
	}

	if code != 2 {
		_ = ev.Write(filepath.Join(verifDir, "evidence", *id+".json"), e)
	}

	fmt.Printf("C09 summary: bases=%d states=%d executed_calls=%d (skipped %d) outcome_classes=%d bound=histories<=%d completed=%d exhaustive=%v new_violation_signatures=%d known=%v wall=%.1fs\n",
		len(all), states, executed, skipped, len(outcomes), d, depthDone, exh, rep.NewCount(), rep.KnownMatched(), ev.Elapsed())

	os.Exit(code)
}

// replay re-executes the history and the operation of a replay file and
// prints what the oracles say. Exit 1 if a violation is observed on the final
// operation, 0 otherwise, 2 on a harness problem.
func replay(file, tier string) int {
	b, err := os.ReadFile(file)
	if err != nil {
		fmt.Fprintln(os.Stderr, err)

		return 2
	}

	var r struct {
		Signature map[string]string `json:"signature"`
		Replay    struct {
			System  string   `json:"system"`
			History []string `json:"history"`
			Op      string   `json:"op"`
			Tier    string   `json:"tier"`
		} `json:"replay"`
	}

	if err := json.Unmarshal(b, &r); err != nil {
		fmt.Fprintln(os.Stderr, err)

		return 2
	}

	if r.Replay.Tier != "" {
		tier = r.Replay.Tier
	}

	s, _, _ := newSys(r.Replay.System, tier)

	idx := map[string]int{}
	for i := range s.ops {
		idx[s.ops[i].String()] = i
	}

	if err := s.Reset(); err != nil {
		fmt.Fprintln(os.Stderr, "harness error:", err)

		return 2
	}

	code := 0

	for i, o := range append(append([]string{}, r.Replay.History...), r.Replay.Op) {
		n, ok := idx[o]
		if !ok {
			fmt.Fprintf(os.Stderr, "operation %q is not in the %s alphabet of %s\n", o, tier, r.Replay.System)

			return 2
		}

		sr := s.Step(n)
		fmt.Printf("%d. %s\n   outcome %s\n   state   %s\n", i+1, o, sr.Outcome, sr.Key)

		last := i == len(r.Replay.History)

		for _, v := range sr.Viols {
			fmt.Printf("   VIOLATED %s\n            %s\n", kf.Sig(v.Sig), v.Detail)

			if last {
				code = 1
			}
		}
	}

	return code
}
