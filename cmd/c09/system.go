package main

import (
	"crypto/sha1"
	"encoding/hex"
	"encoding/json"
	"errors"
	"fmt"
	"io"
	"io/fs"
	"reflect"
	"sort"
	"strconv"
	"strings"

	"github.com/avfs/avfs"
	"github.com/avfs/avfs/verifrt"
	"github.com/avfs/avfs/vfs/memfs"
	"github.com/avfs/avfs/vfs/orefafs"
	"github.com/avfs/avfs/vfs/rofs"

	"verif/lib/bfs"
	"verif/lib/fsx"
)

// hooked is a base file system with the injected observers.
type hooked interface {
	avfs.VFS
	VerifDump() []string
	CurDir() string
}

// slot is one pooled file handle handed out by the wrapper (or by a file
// system obtained from it) together with the twin handle opened by the
// mirrored call on the twin base.
type slot struct {
	kind     string // "" (empty) | file | nil-file | zero-file
	from     string // ro | sub0
	real     avfs.File
	twin     avfs.File // nil: no twin (mutating open that was not refused, or the twin call failed)
	how      string    // the call that produced it, with its arguments (and the cwd for relative names)
	rtype    string    // dynamic type of real
	isDir    bool
	closed   bool
	writable bool     // produced by an open with write intent that was not refused
	trace    []string // state-affecting calls since the open (directories and twin-less handles)

	helper, twHelper avfs.VFS // the file systems that produced real / twin (ToSysStat when rendering)
}

type subSlot struct {
	real  avfs.VFS
	twin  avfs.VFS
	how   string
	rtype string // dynamic type of the real object
}

type snap struct {
	v   []string // VerifDump of the base (internal node graph: tree, bytes, modes, owners, link counts)
	api []string // one Lstat line per entry through the public API of the base, as administrator: type, mode, owner, mtime, size, link count
	ans []string // what the base answers to its own readers about every entry, see answers
	who string   // the user of the base the answers were given to (a view-state call can change it)
}

type sys struct {
	name string // MemFS | OrefaFS, Linux-typed; MemFS@Windows | OrefaFS@Windows, Windows-typed
	kind string // MemFS | OrefaFS
	win  bool   // the base emulates Windows (build tag avfs_setostype)
	tier string
	ops  []opDesc

	base, tw hooked
	ro       *rofs.RoFS
	f        [2]slot
	sub      subSlot

	fullCheck   bool // Reset also compares base and twin with the full lib/fsx dump
	twinChecked bool // base and twin were compared after a construction in this process

	digest     string // digest of digestOf, see key
	digestOf   snap
	haveDigest bool

	lending    map[string]bool // see lends
	probes     []int           // the operations of the alphabet asked around a base-side letter (isProbe)
	asked      map[string]bool // (state, base-side letter) pairs whose questions were asked in this process
	pendingErr error           // harness problem met inside a step: the next Reset reports it

	// the other instances made so far in the history (world-side letters), by the
	// name of their base; they are kept alive next to the instance under test
	siblings map[string]*rofs.RoFS

	rnd      int
	lastKey  string
	lastSnap snap
	haveSnap bool
}

func (s *sys) NumOps() int           { return len(s.ops) }
func (s *sys) OpString(i int) string { return s.ops[i].String() }
func (s *sys) Close()                {}
func (s *sys) Key() string           { return s.lastKey }

// build returns a base holding the tree every base holds; every node gets
// fsx.FixedTime. A Windows-typed base holds the same tree on its default
// volume and, where the file system manages volumes, a second volume with a
// directory and a file.
//
// dump = false: the snapshot is not taken (and the times are not checked).
// The tier decides how much the snapshot asks (answers).
func build(name, tier string, dump bool) (hooked, snap, error) {
	kind, win := sysKind(name)
	sp := func(pth string) string { return spell(win, pth) }
	root := sp("/")
	dirs := []avfs.DirInfo{{Path: sp("/tmp"), Perm: 0o777}}

	ost := avfs.OsLinux
	if win {
		ost = avfs.OsWindows
	}

	var v hooked

	k, msg := fsx.Guard(func() {
		switch kind {
		case "MemFS":
			v = memfs.NewWithOptions(&memfs.Options{OSType: ost, SystemDirs: dirs})
		case "OrefaFS":
			v = orefafs.NewWithOptions(&orefafs.Options{OSType: ost, SystemDirs: dirs})
		}
	})
	if k != "" || v == nil {
		return nil, snap{}, fmt.Errorf("constructor of %s: %s %s", name, k, msg)
	}

	if got := v.OSType(); got != ost {
		return nil, snap{}, fmt.Errorf("constructor of %s produced OS type %v: the driver must be built with the tag avfs_setostype (see the TAGS case of ./check)", name, got)
	}

	var (
		err error
		sn  snap
	)

	step := func(what string, e error) {
		if e != nil && err == nil {
			err = fmt.Errorf("setup of %s: %s: %v", name, what, e)
		}
	}

	k, msg = fsx.Guard(func() {
		// the OrefaFS root is not addressable (Chdir to it fails there); its
		// constructor already starts in it
		if e := v.Chdir(root); e != nil && v.CurDir() != root {
			step("Chdir", e)
		}

		step("SetUMask", v.SetUMask(0o022))
		step("MkdirAll", v.MkdirAll(sp("/d/e"), 0o755))
		step("WriteFile f", v.WriteFile(sp("/d/f"), []byte("data"), 0o644))
		step("Link", v.Link(sp("/d/f"), sp("/d/h")))
		step("WriteFile g", v.WriteFile(sp("/d/e/g"), []byte("gg"), 0o600))

		nodes := []string{"/d/e/g", "/d/e", "/d/f", "/d", "/tmp"}

		if kind == "MemFS" {
			step("Symlink s", v.Symlink("f", sp("/d/s")))
			step("Symlink sd", v.Symlink("e", sp("/d/sd")))

			nodes = append(nodes, "/")

			if _, e := v.Idm().AddUser("u1", v.Idm().AdminGroup().Name()); e != nil {
				step("AddUser", e)
			}
		}

		if hasVol2(name) {
			vm, ok := v.(avfs.VolumeManager)
			if !ok {
				step("VolumeAdd", fmt.Errorf("%T does not manage volumes", v))

				return
			}

			step("VolumeAdd", vm.VolumeAdd(vol2))
			step("Mkdir "+vol2Dir, v.Mkdir(vol2Dir, 0o755))
			step("WriteFile "+vol2File, v.WriteFile(vol2File, []byte("ww"), 0o644))

			nodes = append(nodes, vol2File, vol2Dir, vol2Root)
		}

		for _, n := range nodes {
			step("Chtimes "+sp(n), v.Chtimes(sp(n), fsx.FixedTime, fsx.FixedTime))
		}

		if !dump {
			return
		}

		// every node must now carry the fixed time (otherwise twin comparisons
		// of FileInfo values would be meaningless)
		// (the time of a symbolic link itself cannot be set through the API)
		sn.v = v.VerifDump()
		sn.api = apiDump(v, sn.v)
		sn.ans, sn.who = answers(v, sn.v, tier == "thorough"), userName(v)
		fixed := fmt.Sprintf(" t%d ", fsx.FixedTime.UnixNano())

		for _, l := range sn.api {
			if strings.HasPrefix(l, root+" !lstat:") && kind == "OrefaFS" {
				continue // the OrefaFS root is not addressable
			}

			if strings.Contains(l, " !") || (!isLinkLine(l) && !strings.Contains(l, fixed)) {
				step("fixed mtimes", fmt.Errorf("unexpected dump line %q", l))
			}
		}

		// the snapshot must cover every volume
		if hasVol2(name) {
			seen := false

			for _, l := range sn.v {
				seen = seen || dumpPath(l) == vol2File
			}

			if !seen {
				step("volumes", fmt.Errorf("the internal dump does not show %s", vol2File))
			}
		}
	})
	if k != "" {
		return nil, snap{}, fmt.Errorf("setup of %s: %s %s", name, k, msg)
	}

	return v, sn, err
}

// isRootPath: "/", or the root directory of a volume (`C:\`).
func isRootPath(pth string) bool {
	return pth == "/" || (len(pth) == 3 && pth[1] == ':' && pth[2] == '\\')
}

// apiRoots: MemFS is dumped from the root directory of every volume ("/" when
// Linux-typed); the OrefaFS root is not addressable, so its top-level entries
// (taken from the internal dump) are the roots.
func apiRoots(v hooked, name string) []string {
	kind, _ := sysKind(name)
	sep := string(v.PathSeparator())

	var roots []string

	for _, l := range v.VerifDump() {
		pth := dumpPath(l)

		switch {
		case kind == "MemFS" && isRootPath(pth):
			roots = append(roots, pth)
		case kind != "MemFS" && !isRootPath(pth) && strings.Count(pth, sep) == 1:
			roots = append(roots, pth)
		}
	}

	sort.Strings(roots)

	return roots
}

// fullDump is the canonical public-API dump of lib/fsx with mtimes (used once
// per run to validate the setup; too slow for every call).
func fullDump(v hooked, name string) []string {
	var out []string
	for _, r := range apiRoots(v, name) {
		out = append(out, fsx.Dump(v, r, fsx.DumpOpts{Mtime: true})...)
	}

	return out
}

// apiDump adds what the internal dump lacks, the modification times, and
// cross-checks it through the public API: one Lstat per entry of the internal
// dump, taken directly on the base (whose user is the administrator).
func apiDump(v hooked, lines []string) []string {
	out := make([]string, 0, len(lines))

	for _, l := range lines {
		pth := dumpPath(l)

		fi, err := v.Lstat(pth)
		if err != nil {
			out = append(out, pth+" !lstat:"+fsx.ErrKind(err))

			continue
		}

		m := fi.Mode()
		t := "f"

		switch {
		case m.IsDir():
			t = "d"
		case m&fs.ModeSymlink != 0:
			t = "l"
		case m&fs.ModeType != 0:
			t = "o"
		}

		// "<path> <type> <mode> <uid>:<gid> t<mtime> sz<size> n<links>" (taken around every call: no fmt)
		st := v.ToSysStat(fi)
		b := make([]byte, 0, len(pth)+64)
		b = append(append(append(b, pth...), ' '), t...)
		b = append(append(b, ' '), fsx.ModeString(m)...)
		b = strconv.AppendInt(append(b, ' '), int64(st.Uid()), 10)
		b = strconv.AppendInt(append(b, ':'), int64(st.Gid()), 10)
		b = strconv.AppendInt(append(b, " t"...), fi.ModTime().UnixNano(), 10)
		b = strconv.AppendInt(append(b, " sz"...), fi.Size(), 10)
		b = strconv.AppendUint(append(b, " n"...), st.Nlink(), 10)
		out = append(out, string(b))
	}

	return out
}

// answers is the third part of the snapshot: what the base ANSWERS, asked
// directly (never through the wrapper) by every read-only method that reports
// the tree, about every entry of the internal dump.
//
// Lesson: "the underlying file system is identical before and after" is judged
// by what its users get from it, and a file system holds more than its node
// graph: whatever it keeps to answer faster (the sorted names of a directory,
// a listing, a resolved path) is state too, reached by some of its read
// methods and not by others. A dump that walks the nodes, or asks Lstat alone,
// is blind to all of it: a listing kept by a directory and rewritten through a
// slice the wrapper handed out leaves every node as it was, while a handle of
// the base lists names that do not exist and Glob returns paths nobody can
// open. So the listing methods are asked, each its own way. Every tier: a handle
// of every directory read at once by Readdirnames and another by ReadDir (the
// two primitives: each has its own source inside MemFS and OrefaFS). Thorough
// also: the handles read in pieces of one entry, and the methods that are
// built on the primitives or repeat the internal dump - ReadDir of the file
// system, Glob, ReadFile of every file, Readlink of every link. The answers
// must be the same before and after every call made through the wrapper, as
// long as they are given to the same user (who).
func answers(v hooked, lines []string, thorough bool) []string {
	sep := string(v.PathSeparator())
	out := make([]string, 0, 6*len(lines))

	errOf := func(err error) string {
		if err == nil {
			return ""
		}

		return " !" + fsx.ErrKind(err)
	}

	// a handle of the directory, read at once (n <= 0) or in pieces of n entries
	handle := func(pth, what string, n int, read func(f avfs.File, n int) ([]string, error)) {
		b := append(make([]byte, 0, len(pth)+64), pth...)
		b = append(append(b, ' '), what...)

		f, err := v.OpenFile(pth, 0, 0) // O_RDONLY
		if err != nil {
			out = append(out, string(b)+" !open:"+fsx.ErrKind(err))

			return
		}

		for i := 0; i < 64; i++ {
			names, err := read(f, n)

			b = append(b, " ["...)
			b = append(b, strings.Join(names, " ")...)
			b = append(append(b, ']'), errOf(err)...)

			if n <= 0 || err != nil || len(names) == 0 {
				break
			}
		}

		out = append(out, string(b)+errOf(f.Close()))
	}

	entryNames := func(es []fs.DirEntry) []string {
		names := make([]string, len(es))
		for i, e := range es {
			names[i] = e.Name() + fsx.TypeChar(e.Type())
		}

		return names
	}

	names := func(f avfs.File, n int) ([]string, error) { return f.Readdirnames(n) }
	entries := func(f avfs.File, n int) ([]string, error) {
		es, err := f.ReadDir(n)

		return entryNames(es), err
	}

	for _, l := range lines {
		pth := dumpPath(l)

		_, typ, _ := strings.Cut(l, " ")
		if i := strings.IndexByte(typ, ' '); i >= 0 {
			typ = typ[:i]
		}

		switch {
		case typ == "d":
			handle(pth, "names", -1, names)
			handle(pth, "entries", -1, entries)

			if thorough {
				handle(pth, "names-in-pieces", 1, names)
				handle(pth, "entries-in-pieces", 1, entries)

				es, err := v.ReadDir(pth)
				out = append(out, pth+" readdir ["+strings.Join(entryNames(es), " ")+"]"+errOf(err))

				pat := pth + sep + "*"
				if isRootPath(pth) {
					pat = pth + "*"
				}

				m, err := v.Glob(pat)
				out = append(out, pth+" glob ["+strings.Join(m, " ")+"]"+errOf(err))
			}
		case typ == "f" && thorough:
			b, err := v.ReadFile(pth)
			out = append(out, pth+" content "+strconv.Quote(string(b))+errOf(err))
		case typ == "l" && thorough:
			t, err := v.Readlink(pth)
			out = append(out, pth+" target "+strconv.Quote(t)+errOf(err))
		}
	}

	return out
}

// isLinkLine reports whether a dump line (path, type, ...) describes a symbolic link.
func isLinkLine(l string) bool {
	_, rest, _ := strings.Cut(l, " ")

	return rest == "l" || strings.HasPrefix(rest, "l ")
}

// maskLinkTimes replaces the mtime of symbolic links (creation time: differs
// between instances and cannot be set) in an fsx.Dump.
func maskLinkTimes(lines []string) []string {
	out := make([]string, len(lines))

	for i, l := range lines {
		if isLinkLine(l) {
			l = stripMtime(l)
		}

		out[i] = l
	}

	return out
}

func dumpPath(line string) string {
	i := strings.Index(line, " ")
	if i < 0 {
		return line
	}

	// directories are dumped with a trailing separator: a root directory keeps it
	pth := line[:i]
	if !isRootPath(pth) {
		pth = strings.TrimSuffix(strings.TrimSuffix(pth, "/"), `\`)
	}

	return pth
}

func (s *sys) Reset() error {
	if err := s.pendingErr; err != nil {
		s.pendingErr = nil

		return err
	}

	s.rnd = 0
	verifrt.SetRandom(func() string { s.rnd++; return strconv.Itoa(s.rnd % 2) })

	var err error

	var sn, tsn snap

	// the construction is deterministic: the twin is dumped and compared with
	// the base after the first construction of every process (and by the probe)
	cmpTwin := s.fullCheck || !s.twinChecked

	if s.base, sn, err = build(s.name, s.tier, true); err != nil {
		return err
	}

	if s.tw, tsn, err = build(s.name, s.tier, cmpTwin); err != nil {
		return err
	}

	s.ro = rofs.New(s.base)
	s.f = [2]slot{}
	s.sub = subSlot{}
	s.siblings = nil
	s.haveSnap = false

	if cmpTwin {
		a := append(append(append([]string{}, sn.v...), maskLinkTimes(sn.api)...), sn.ans...)
		b := append(append(append([]string{}, tsn.v...), maskLinkTimes(tsn.api)...), tsn.ans...)

		if strings.Join(a, "\n") != strings.Join(b, "\n") {
			return fmt.Errorf("base and twin differ after setup: %s", fsx.DiffLines(a, b))
		}

		s.twinChecked = true
	}

	if s.fullCheck {
		a, b := maskLinkTimes(fullDump(s.base, s.name)), maskLinkTimes(fullDump(s.tw, s.name))
		if strings.Join(a, "\n") != strings.Join(b, "\n") {
			return fmt.Errorf("base and twin differ after setup (full dump): %s", fsx.DiffLines(a, b))
		}

		for _, l := range a {
			if strings.Contains(l, " !") && !(s.kind == "OrefaFS" && strings.HasPrefix(l, spell(s.win, "/")+" !")) {
				return fmt.Errorf("setup: full dump of the base reports %q", l)
			}
		}

		// the "value it has" arguments of the alphabet (held) are what the setup gave the nodes
		// (sizes everywhere; permission bits where the base is Linux-typed)
		for pth, h := range held {
			fi, err := s.base.Stat(spell(s.win, pth))
			if err != nil {
				continue // a spelling of a view, or a node this base does not hold
			}

			if (h.size >= 0 && fi.Size() != h.size) || (h.size < 0) != fi.IsDir() || (!s.win && int64(fi.Mode().Perm()) != h.mode) {
				return fmt.Errorf("setup: %s is %v with %d bytes, the alphabet takes it for %#o with %d bytes", pth, fi.Mode(), fi.Size(), h.mode, h.size)
			}
		}
	}

	s.lastSnap, s.haveSnap = sn, true
	s.lastKey = s.key(sn)

	return nil
}

// snapshot of the base, taken directly on it (never through the wrapper).
// ask: the snapshot holds what the base answers its own readers too (answers).
// The thorough tier asks around every call; the quick tier around every call
// that carries a value with reference semantics across the wrapper, in either
// direction (lends), and around every base-side letter.
func (s *sys) snapshot(ask bool) (sn snap, kind, msg string) {
	kind, msg = fsx.Guard(func() {
		sn.v = s.base.VerifDump()
		sn.api = apiDump(s.base, sn.v)

		if ask {
			sn.ans, sn.who = answers(s.base, sn.v, s.tier == "thorough"), userName(s.base)
		}
	})

	return
}

// askNow completes a snapshot that was taken without the answers; nothing
// must have been done to the base since it was taken.
func (s *sys) askNow(sn *snap) (kind, msg string) {
	if sn.ans != nil {
		return "", ""
	}

	return fsx.Guard(func() {
		sn.ans, sn.who = answers(s.base, sn.v, s.tier == "thorough"), userName(s.base)
	})
}

// lends: a value with reference semantics crosses the wrapper with this call -
// a slice or a function among the parameters or the results of the method
// (read from the interface type: a method added later is judged by its
// signature). These are the calls after which the harness writes over what it
// was given (invoke, scribbleSlice) and around which the base is asked for its
// answers in every tier.
func (s *sys) lends(o opDesc) bool {
	it, key := tVFS, "vfs."+o.Method
	if o.Recv == "f0" || o.Recv == "f1" {
		it, key = tFile, "file."+o.Method
	}

	if l, ok := s.lending[key]; ok {
		return l
	}

	l := false

	if m, ok := it.MethodByName(o.Method); ok {
		ref := func(t reflect.Type) bool { return t.Kind() == reflect.Slice || t.Kind() == reflect.Func }

		for i := 0; i < m.Type.NumIn(); i++ {
			l = l || ref(m.Type.In(i))
		}

		for i := 0; i < m.Type.NumOut(); i++ {
			l = l || ref(m.Type.Out(i))
		}
	}

	if s.lending == nil {
		s.lending = map[string]bool{}
	}

	s.lending[key] = l

	return l
}

func hash(ss ...string) string {
	h := sha1.New()
	for _, x := range ss {
		_, _ = io.WriteString(h, x)
		_, _ = h.Write([]byte{0})
	}

	return hex.EncodeToString(h.Sum(nil)[:10])
}

func userName(v avfs.VFS) (n string) {
	defer func() {
		if recover() != nil {
			n = "?"
		}
	}()

	u := v.User()
	if u == nil {
		return "<nil>"
	}

	return u.Name()
}

func idmType(v avfs.VFS) (n string) {
	defer func() {
		if recover() != nil {
			n = "?"
		}
	}()

	return v.Idm().Type()
}

func viewState(v hooked) string {
	return fmt.Sprintf("cwd=%s umask=%04o user=%s idm=%s", v.CurDir(), uint32(v.UMask()), userName(v), idmType(v))
}

// key = base snapshot (with mtimes) + view state of the base + pool shape.
func (s *sys) key(sn snap) string {
	var b strings.Builder

	// the snapshot is the same around nearly every call: its digest is kept
	if !s.haveDigest || !equalLines(sn.v, s.digestOf.v) || !equalLines(sn.api, s.digestOf.api) {
		s.digest = hash(strings.Join(sn.v, "\n"), strings.Join(maskLinkTimes(sn.api), "\n"))
		s.digestOf, s.haveDigest = sn, true
	}

	b.WriteString(s.digest)
	b.WriteString(" base{" + viewState(s.base) + "}")

	for i := range s.f {
		sl := &s.f[i]
		b.WriteString(fmt.Sprintf(" f%d{", i))

		if sl.kind != "" && sl.kind != "file" {
			// typed nil / zero handles carry no state: which call produced them is irrelevant
			b.WriteString(sl.kind + " " + sl.rtype + " from=" + sl.from)
		}

		if sl.kind == "file" {
			b.WriteString(sl.kind + " " + sl.rtype + " " + sl.how)

			if sl.twin == nil {
				b.WriteString(" notwin")
			}

			if sl.closed {
				b.WriteString(" closed")
			}

			switch {
			case sl.kind != "file":
			case sl.twin != nil && !sl.isDir:
				off := "?"

				if k, _ := fsx.Guard(func() {
					n, err := sl.twin.Seek(0, io.SeekCurrent)
					if err != nil {
						off = "!" + fsx.ErrKind(err)
					} else {
						off = strconv.FormatInt(n, 10)
					}
				}); k != "" {
					off = k
				}

				b.WriteString(" off=" + off)
			default:
				b.WriteString(" trace=" + strings.Join(sl.trace, ";"))
			}
		}

		b.WriteString("}")
	}

	b.WriteString(" sub0{")

	if s.sub.real != nil {
		b.WriteString(s.sub.rtype + " " + s.sub.how)

		if s.sub.twin != nil {
			cwd := "?"

			_, _ = fsx.Guard(func() {
				d, err := s.sub.twin.Getwd()
				cwd = d

				if err != nil {
					cwd = "!" + fsx.ErrKind(err)
				}
			})

			b.WriteString(fmt.Sprintf(" cwd=%s umask=%04o user=%s idm=%s", cwd, uint32(s.sub.twin.UMask()), userName(s.sub.twin), idmType(s.sub.twin)))
		} else {
			b.WriteString(" notwin")
		}
	}

	b.WriteString("}")

	// which other instances exist (what they are does not depend on the history)
	if len(s.siblings) > 0 {
		names := make([]string, 0, len(s.siblings))
		for n := range s.siblings {
			names = append(names, n)
		}

		sort.Strings(names)
		b.WriteString(" world{" + strings.Join(names, ",") + "}")
	}

	return b.String()
}

// ----------------------------------------------------------------------------

type dumpEnt struct{ typ, mode, owner, nlink, content string }

func parseDump(lines []string) map[string]dumpEnt {
	m := map[string]dumpEnt{}

	for _, l := range lines {
		f := strings.Fields(l)
		if len(f) < 2 {
			continue
		}

		e := dumpEnt{typ: f[1]}

		switch f[1] {
		case "d":
			if len(f) >= 4 {
				e.mode, e.owner = f[2], f[3]
			}
		case "f":
			if len(f) >= 6 {
				e.mode, e.owner, e.nlink = f[2], f[3], f[4]

				if i := strings.Index(l, f[5]); i >= 0 {
					e.content = strings.TrimSpace(l[i+len(f[5]):])
				}
			}
		case "l":
			if len(f) >= 3 {
				e.owner = f[2]

				if i := strings.Index(l, " -> "); i >= 0 {
					e.content = l[i+4:]
				}
			}
		default:
			e.content = l
		}

		m[dumpPath(l)] = e
	}

	return m
}

func equalLines(a, b []string) bool {
	if len(a) != len(b) {
		return false
	}

	for i := range a {
		if a[i] != b[i] {
			return false
		}
	}

	return true
}

func stripMtime(l string) string {
	f := strings.Fields(l)
	for i, x := range f {
		if len(x) > 1 && x[0] == 't' && (x[1] >= '0' && x[1] <= '9' || x[1] == '-') {
			f[i] = "t*"
		}
	}

	return strings.Join(f, " ")
}

// changeClass names what differs between two snapshots of the base:
// new-entry | removed-entry | type | content | mode | owner | nlink | mtime | api-visible | answers.
func changeClass(a, b snap) (class, diff string) {
	// answers given to different users are not compared (the user of the base is view state)
	// (nor is a snapshot taken without them)
	ansSame := a.ans == nil || b.ans == nil || a.who != b.who || equalLines(a.ans, b.ans)

	if equalLines(a.v, b.v) && equalLines(a.api, b.api) && ansSame {
		return "", ""
	}

	set := map[string]bool{}
	am, bm := parseDump(a.v), parseDump(b.v)

	for pth, x := range am {
		y, ok := bm[pth]
		if !ok {
			set["removed-entry"] = true

			continue
		}

		if x.typ != y.typ {
			set["type"] = true

			continue
		}

		if x.mode != y.mode {
			set["mode"] = true
		}

		if x.owner != y.owner {
			set["owner"] = true
		}

		if x.nlink != y.nlink {
			set["nlink"] = true
		}

		if x.content != y.content {
			set["content"] = true
		}
	}

	for pth := range bm {
		if _, ok := am[pth]; !ok {
			set["new-entry"] = true
		}
	}

	vd := fsx.DiffLines(a.v, b.v)
	ad := fsx.DiffLines(a.api, b.api)

	if len(set) == 0 && vd != "" {
		set["internal-dump"] = true
	}

	if len(set) == 0 && ad != "" {
		// only the public-API dump differs: mtimes, or something else
		as, bs := make([]string, len(a.api)), make([]string, len(b.api))
		for i, l := range a.api {
			as[i] = stripMtime(l)
		}

		for i, l := range b.api {
			bs[i] = stripMtime(l)
		}

		if strings.Join(as, "\n") == strings.Join(bs, "\n") {
			set["mtime"] = true
		} else {
			set["api-visible"] = true
		}
	}

	// nodes and attributes are what they were, and yet the base answers its readers otherwise
	if len(set) == 0 && !ansSame {
		set["answers"] = true
	}

	var cl []string
	for c := range set {
		cl = append(cl, c)
	}

	sort.Strings(cl)

	d := vd
	if ad != "" {
		if d != "" {
			d += " || "
		}

		d += "api: " + ad
	}

	if !ansSame {
		if d != "" {
			d += " || "
		}

		d += "answers: " + fsx.DiffLines(a.ans, b.ans)
	}

	return strings.Join(cl, "+"), d
}

// ----------------------------------------------------------------------------

// pathClass classifies a path operand on the twin side of the receiver (never
// on the code under test): empty | [rel:|rooted:|vol2:]root|dir|file|file(links)|symlink|missing|err:<kind>
// (rooted: a Windows path without volume; vol2: a path of the second volume).
func pathClass(tw avfs.VFS, win bool, pth string) string {
	if pth == "" {
		return "empty"
	}

	pre := ""

	switch {
	case qualified(win, pth):
		if win && !strings.HasPrefix(pth, winVolume) {
			pre = "vol2:"
		}
	case win && strings.HasPrefix(pth, `\`):
		pre = "rooted:"
	default:
		pre = "rel:"
	}

	if tw == nil {
		return pre + "?"
	}

	if isRootPath(pth) {
		return pre + "root"
	}

	cl := "?"

	_, _ = fsx.Guard(func() {
		fi, err := tw.Lstat(pth)

		switch {
		case err != nil && errors.Is(err, fs.ErrNotExist):
			cl = "missing"
		case err != nil:
			cl = "err:" + fsx.ErrKind(err)
		case fi.IsDir():
			cl = "dir"
		case fi.Mode()&fs.ModeSymlink != 0:
			cl = "symlink"
		default:
			cl = "file"

			if tw.ToSysStat(fi).Nlink() > 1 {
				cl = "file(links)"
			}
		}
	})

	return pre + cl
}

func variantOf(tw avfs.VFS, win bool, o opDesc) string {
	var parts []string

	for _, a := range o.Args {
		switch a.K {
		case "path":
			parts = append(parts, pathClass(tw, win, a.S))
		case "finfo":
			parts = append(parts, "info("+pathClass(tw, win, a.S)+")")
		default:
			parts = append(parts, a.String())
		}
	}

	return strings.Join(parts, ",")
}

// detail is the replay payload of one violation (JSON in bfs.Viol.Detail).
type detail struct {
	Expected string `json:"expected"`
	Observed string `json:"observed"`
	Real     string `json:"result_through_wrapper"`
	RealMsg  string `json:"message,omitempty"`
	Twin     string `json:"result_on_twin_base,omitempty"`
	BaseDiff string `json:"base_before_after_diff,omitempty"`
	Receiver string `json:"receiver"`
	ViewNote string `json:"view_state,omitempty"`

	// other instances that were made in this process by EARLIER histories (world-side letters) and
	// are not part of this one: see everMade
	Earlier []string `json:"other_instances_made_earlier_in_this_process,omitempty"`

	// a question asked around a base-side letter (the operation of the replay is the letter)
	Question    string `json:"question_asked_through_wrapper,omitempty"`
	AskedBefore string `json:"answer_before_the_change,omitempty"`
}

func (s *sys) fileSlot(name string) *slot {
	switch name {
	case "f0":
		return &s.f[0]
	case "f1":
		return &s.f[1]
	}

	return nil
}

func skip(why string) bfs.StepResult { return bfs.StepResult{Outcome: "skip/" + why} }

// target is the receiver of an operation on both sides.
type target struct {
	recv, twRecv     any // twRecv nil: no twin object
	helper, twHelper avfs.VFS
	via              string
	fsl              *slot // the handle slot, for File methods
}

// resolve finds the receiver of an operation in the pool; why != "": the slot is empty.
func (s *sys) resolve(o opDesc) (t target, why string) {
	switch o.Recv {
	case "ro":
		t.recv, t.twRecv, t.helper, t.twHelper, t.via = s.ro, s.tw, s.ro, s.tw, "rofs"
	case "sub0":
		if s.sub.real == nil {
			return t, "no-sub"
		}

		t.recv, t.helper, t.via = s.sub.real, s.sub.real, "sub"

		if s.sub.twin != nil {
			t.twRecv, t.twHelper = s.sub.twin, s.sub.twin
		}
	default:
		fsl := s.fileSlot(o.Recv)
		if fsl.kind == "" {
			return t, "empty-slot"
		}

		t.fsl = fsl
		t.recv, t.via = fsl.real, fsl.kind

		t.helper, t.twHelper = fsl.helper, fsl.twHelper
		if fsl.from == "sub0" {
			t.via = "sub-" + fsl.kind
		}

		if fsl.writable {
			t.via += "(writable)"
		}

		if fsl.twin != nil {
			t.twRecv = fsl.twin
		}
	}

	return t, ""
}

// Step applies one operation through the wrapper side, runs the three oracles
// and mirrors the call on the twin where that is meaningful.
func (s *sys) Step(op int) bfs.StepResult {
	o := s.ops[op]
	cls := classOf(o)

	if o.Recv == "base" {
		return s.baseStep(o)
	}

	if o.Recv == "world" {
		return s.worldStep(o)
	}

	// --- resolve receiver on both sides
	tg, why := s.resolve(o)
	if why != "" {
		return skip(why)
	}

	recv, twRecv, helper, twHelper, via, fsl := tg.recv, tg.twRecv, tg.helper, tg.twHelper, tg.via, tg.fsl

	var idm, twIdm avfs.IdentityMgr

	_, _ = fsx.Guard(func() { idm, twIdm = s.base.Idm(), s.tw.Idm() })

	variant := variantOf(twHelperOrNil(twHelper), s.win, o)

	// --- snapshot before
	ask := s.tier == "thorough" || s.lends(o)

	before := s.lastSnap
	if !s.haveSnap {
		var k, msg string

		before, k, msg = s.snapshot(ask)
		if k != "" {
			return bfs.StepResult{Changed: true, Broken: true, Key: "BROKEN|snapshot-" + k, Outcome: "harness/snapshot-" + k,
				Viols: []bfs.Viol{s.viol(o, via, variant, strings.ToLower(k), "snapshot of the base before the call: "+panicClass(msg), detail{Observed: msg})}}
		}
	}

	if ask {
		if k, msg := s.askNow(&before); k != "" {
			return bfs.StepResult{Changed: true, Broken: true, Key: "BROKEN|snapshot-" + k, Outcome: "harness/snapshot-" + k,
				Viols: []bfs.Viol{s.viol(o, via, variant, strings.ToLower(k), "answers of the base before the call: "+panicClass(msg), detail{Observed: msg})}}
		}
	}

	baseViewBefore := viewState(s.base)

	// cwd of the receiving view before the call (twin side for Sub views)
	cwdBefore := s.base.CurDir()
	if o.Recv == "sub0" {
		cwdBefore = "?"

		if s.sub.twin != nil {
			_, _ = fsx.Guard(func() { cwdBefore, _ = s.sub.twin.Getwd() })
		}
	}

	// --- the call through the wrapper
	real := invoke(recv, helper, idm, o)
	if real.Kind == "ARGPREP" {
		s.lastSnap, s.haveSnap = before, true

		return skip("argument-not-available")
	}

	if real.Via != "" {
		via = real.Via
	}

	poisoned := real.Kind == "PANIC" || real.Kind == "DEADLOCK"

	var viols []bfs.Viol

	add := func(kind, what string, d detail) {
		d.Real = real.String()
		d.RealMsg = real.Msg
		d.Receiver = fmt.Sprintf("%T", recv)
		viols = append(viols, s.viol(o, via, variant, kind, what, d))
	}

	// --- oracle 1: the base is identical before and after
	after, k, msg := s.snapshot(ask)
	if k != "" {
		// the base cannot even be dumped any more
		if !poisoned {
			add(strings.ToLower(k), "snapshot of the base after the call: "+panicClass(msg), detail{Expected: "base can be walked after the call", Observed: msg})
		} else {
			add(strings.ToLower(real.Kind), panicClass(real.Msg), detail{Expected: "call returns", Observed: real.Kind + " (and the base can no longer be walked: " + msg + ")"})
		}

		s.haveSnap = false

		return bfs.StepResult{Changed: true, Broken: true, Key: "BROKEN|nodump|" + o.String(), Outcome: via + "." + o.Method + "/" + real.Kind + "+nodump", Viols: viols}
	}

	baseChanged, notRefused := false, false

	if what, diff := changeClass(before, after); what != "" {
		baseChanged = true

		add("base-changed", what, detail{Expected: "base snapshot (tree, bytes, modes, owners, link counts, mtimes; where asked, the listings the base gives its own readers) identical before and after the call", Observed: "changed: " + what, BaseDiff: diff})
	}

	// --- twin call
	var (
		twin    outcome
		hasTwin bool
	)

	runTwin := func() {
		if twRecv == nil || isNilPtr(twRecv) {
			return
		}

		twin = invoke(twRecv, twHelper, twIdm, o)
		hasTwin = twin.Kind != "ARGPREP"
	}

	nameOnNil := o.Method == "Name" && fsl != nil && fsl.kind == "nil-file" // panics by design, as (*os.File)(nil).Name()

	// --- oracles 2 and 3
	switch cls {
	case clMut:
		anyErr := fsl != nil && (fsl.kind == "nil-file" || fsl.kind == "zero-file")
		closedOK := fsl != nil && fsl.closed

		switch {
		case poisoned:
			add(strings.ToLower(real.Kind), panicClass(real.Msg), detail{Expected: "permission-class error", Observed: real.Kind})
		case real.Err == nil:
			what := "ok"
			if real.HasFile && !isNilPtr(real.File) {
				what = "ok+handle"
			}

			notRefused = true

			add("not-refused", what, detail{Expected: "non-nil error with errors.Is(err, fs.ErrPermission)", Observed: "nil error"})

			if what == "ok+handle" {
				if w, diff := s.tryHandle(real.File, after); w != "" {
					add("writable-handle", w, detail{Expected: "a handle handed out by a read-only file system refuses Write, WriteString, Truncate and Chmod and leaves the base alone", Observed: w, BaseDiff: diff})
				}
			}
		case s.refusal(o, real.Err):
		case anyErr:
			// invalid handle (returned together with an error): any error will do
		case closedOK && real.Kind == "closed":
		default:
			add("wrong-error-class", real.Kind, detail{Expected: "errors.Is(err, fs.ErrPermission)", Observed: real.Kind + ": " + real.Msg})
		}
	case clRO:
		runTwin()

		switch {
		case nameOnNil:
		case hasTwin:
			if real.Kind != twin.Kind || real.Val != twin.Val {
				kind, what := "read-differs", "value"

				if real.Kind != twin.Kind {
					what = "base:" + twin.Kind + " wrapper:" + real.Kind
				}

				if poisoned {
					kind, what = strings.ToLower(real.Kind), panicClass(real.Msg)
				}

				add(kind, what, detail{Expected: "what the same call on the twin base returns", Observed: real.String(), Twin: twin.String()})
			}
		case poisoned:
			add(strings.ToLower(real.Kind), panicClass(real.Msg), detail{Expected: "call returns (no twin object to compare with)", Observed: real.Kind})
		}
	case clView:
		// mirrored when it took effect (returned nil), or to compare a panic
		if real.Err == nil || poisoned {
			runTwin()
		}

		if poisoned && !(hasTwin && twin.Kind == real.Kind) {
			add(strings.ToLower(real.Kind), panicClass(real.Msg), detail{Expected: "call returns", Observed: real.Kind, Twin: twin.String()})
		}
	default: // nocmp, handout, unspecified, unclassified
		if poisoned {
			add(strings.ToLower(real.Kind), panicClass(real.Msg), detail{Expected: "call returns", Observed: real.Kind})
		}
	}

	// --- pool: everything handed out is kept
	switch {
	case o.Dst == "sub0":
		if real.HasFS {
			ns := subSlot{real: real.FS, how: o.String(), rtype: fmt.Sprintf("%T", real.FS)}

			if real.Err == nil && twRecv != nil {
				// mirror: Sub reads only
				t := invoke(twRecv, twHelper, twIdm, o)
				if t.HasFS && t.Err == nil {
					ns.twin = t.FS
				}
			}

			s.sub = ns
		}
	case o.Dst != "":
		dst := s.fileSlot(o.Dst)

		switch {
		case !real.HasFile:
			*dst = slot{} // nil interface: nothing was handed out
		default:
			ns := slot{from: o.Recv, real: real.File, how: o.Recv + "." + o.Method + "(" + o.argString() + ")", helper: helper, twHelper: twHelper, rtype: fmt.Sprintf("%T", real.File)}

			// a name that is resolved against the current directory (or against its volume)
			if len(o.Args) > 0 && o.Args[0].K == "path" && !qualified(s.win, o.Args[0].S) {
				ns.how += "@" + cwdBefore
			}

			switch {
			case isNilPtr(real.File):
				ns.kind = "nil-file"
			case real.Err != nil || poisoned:
				ns.kind = "zero-file"
			default:
				ns.kind = "file"
				ns.writable = cls == clMut
			}

			// only a read-only open is mirrored: a handle from any other open
			// (not refused, or unspecified flags) has no twin
			if ns.kind == "file" && cls == clRO && hasTwin && twin.HasFile && twin.Err == nil && !isNilPtr(twin.File) {
				ns.twin = twin.File

				_, _ = fsx.Guard(func() {
					if fi, err := ns.twin.Stat(); err == nil {
						ns.isDir = fi.IsDir()
					}
				})
			}

			*dst = ns
		}
	case fsl != nil && fsl.kind == "file":
		// state of the handle
		switch o.Method {
		case "Stat", "Name", "Fd", "ReadAt", "Chdir", "Sync", "Chmod", "Chown":
		case "Close":
			if real.Err == nil {
				fsl.closed = true
			}
		default:
			if fsl.isDir || fsl.twin == nil {
				fsl.trace = append(fsl.trace, o.Method+"("+o.argString()+")="+real.Kind)
			}
		}
	}

	// --- view state (cwd, umask, user, idm of the base): recorded, never a violation
	viewNote := ""
	if v := viewState(s.base); v != baseViewBefore {
		viewNote = "+view"
	}

	desync := viewState(s.base) != viewState(s.tw)

	// --- result
	outc := via + "." + o.Method + "/" + real.Kind + viewNote
	if cls == clMut && real.Err != nil && s.refusal(o, real.Err) {
		outc = via + "." + o.Method + "/refused:" + real.Kind + viewNote
	}

	// counted apart by the parent (main.go): slices returned through the wrapper and
	// written over, calls around which the base was asked for its answers
	tail := ""
	if real.Lent > 0 {
		tail += " lent=" + strconv.Itoa(real.Lent)
	}

	if ask {
		tail += " asked=1"
	}

	twinPoisoned := hasTwin && (twin.Kind == "PANIC" || twin.Kind == "DEADLOCK")

	if baseChanged {
		s.haveSnap = false

		return bfs.StepResult{Changed: true, Broken: true, Key: "BROKEN|" + hash(strings.Join(after.v, "\n")), Outcome: outc + "+base-changed" + tail, Viols: viols}
	}

	if notRefused {
		// the property is already violated on this history (a mutating call
		// went through): what was handed out is pooled for the record, but the
		// futures of this state are not explored
		s.haveSnap = false

		return bfs.StepResult{Changed: true, Broken: true, Key: "BROKEN|not-refused|" + s.key(after), Outcome: outc + "+not-refused" + tail, Viols: viols}
	}

	if desync {
		// the twin can no longer serve as reference: stop here, no verdict
		s.haveSnap = false

		return bfs.StepResult{Changed: true, Broken: true, Key: "BROKEN|desync|" + viewState(s.base) + "|" + viewState(s.tw), Outcome: outc + "+twin-desync" + tail, Viols: viols}
	}

	key := s.key(after)
	changed := key != s.lastKey
	s.lastKey = key
	s.lastSnap, s.haveSnap = after, true

	return bfs.StepResult{
		Changed: changed, Key: key, Broken: false, Rebuild: poisoned || twinPoisoned,
		Outcome: outc + tail, Viols: viols,
	}
}

// everMade: the other instances made in this PROCESS by world-side letters,
// whatever the history (never reset). The histories of an exploration are
// executed one after the other in the same worker processes, and the defect a
// world-side letter looks for is state that is not per instance: where it
// exists, what a letter left behind also reaches the histories executed after
// it in the process. Such a history really ran in a start state "another
// instance was made (and dropped) before the history began", so a violation
// reported on it says so (detail.Earlier), and the replay file holds the
// letters in front of the history (main.go): it reproduces in a fresh process.
var everMade = map[string]bool{}

// madeEarlier: the instances made earlier in this process that are not part of the current history.
func (s *sys) madeEarlier() []string {
	var out []string

	for n := range everMade {
		if _, ok := s.siblings[n]; !ok {
			out = append(out, n)
		}
	}

	sort.Strings(out)

	return out
}

// worldStep executes a world-side letter (worldLetters in alphabet.go): another
// base of the named kind and OS type is built (the tree every base holds),
// wrapped by rofs.New and used the way any instance is used; it stays alive
// for the rest of the history. Nothing of the instance under test is touched:
// oracle 1 (the base under test, with its answers, is identical before and
// after) applies to the letter itself, a panic of the constructor or of the
// sibling is reported, and everything else is judged by the calls that follow
// on the instance under test, exactly as without the letter.
func (s *sys) worldStep(o opDesc) bfs.StepResult {
	name := o.Args[0].S
	via, variant := "world", name

	fail := func(k, what, msg string) bfs.StepResult {
		return bfs.StepResult{Changed: true, Broken: true, Key: "BROKEN|world-" + k, Outcome: "harness/world-" + k,
			Viols: []bfs.Viol{s.viol(o, via, variant, strings.ToLower(k), what+": "+panicClass(msg), detail{Observed: msg})}}
	}

	before := s.lastSnap
	if !s.haveSnap {
		var k, msg string

		if before, k, msg = s.snapshot(true); k != "" {
			return fail(k, "snapshot of the base before the letter", msg)
		}
	}

	if k, msg := s.askNow(&before); k != "" {
		return fail(k, "answers of the base before the letter", msg)
	}

	viewBefore, twViewBefore := viewState(s.base), viewState(s.tw)

	var (
		sib  *rofs.RoFS
		berr error
	)

	_, win := sysKind(name)
	sp := func(pth string) string { return spell(win, pth) }

	k, msg := fsx.Guard(func() {
		var b hooked

		if b, _, berr = build(name, s.tier, false); berr != nil {
			return
		}

		everMade[name] = true
		sib = rofs.New(b)

		// an instance in use: it moves, takes a view, reads, is refused
		_ = sib.Chdir(sp("/d/e"))
		_ = sib.SetUMask(0o077)
		_ = sib.Mkdir(sp("/d/new"), 0o755)
		_ = sib.Chown(sp("/d/f"), 0, 0)

		if v, err := sib.Sub(sp("/d")); err == nil && v != nil {
			_ = v.Remove(sp("/f"))
			_, _ = v.ReadDir(sp("/"))
		}

		if f, err := sib.Open(sp("/d/f")); err == nil {
			_, _ = f.Write([]byte("XY"))
			_ = f.Close()
		}
	})

	if berr != nil {
		// the sibling cannot be built: a problem of the harness, not a verdict
		s.pendingErr = fmt.Errorf("world-side letter %s: %v", o, berr)

		return bfs.StepResult{Changed: true, Broken: true, Key: "BROKEN|world-setup", Outcome: "harness/world-setup"}
	}

	var viols []bfs.Viol

	add := func(kind, what string, d detail) {
		d.Receiver = "rofs.New over another " + name
		viols = append(viols, s.viol(o, via, variant, kind, what, d))
	}

	poisoned := k != ""
	if poisoned {
		add(strings.ToLower(k), panicClass(msg), detail{Expected: "another read-only file system can be created and used", Observed: k + ": " + msg})
	}

	after, k2, msg2 := s.snapshot(true)
	if k2 != "" {
		add(strings.ToLower(k2), "snapshot of the base after the letter: "+panicClass(msg2), detail{Expected: "base can be walked after the letter", Observed: msg2})

		s.haveSnap = false

		return bfs.StepResult{Changed: true, Broken: true, Key: "BROKEN|nodump|" + o.String(), Outcome: "world.NewRoFS/" + name + "+nodump", Viols: viols}
	}

	outc := "world.NewRoFS/" + name

	if what, diff := changeClass(before, after); what != "" {
		add("base-changed", what, detail{Expected: "the base of the instance under test is identical before and after another instance is created and used", Observed: "changed: " + what, BaseDiff: diff})

		s.haveSnap = false

		return bfs.StepResult{Changed: true, Broken: true, Key: "BROKEN|" + hash(strings.Join(after.v, "\n")), Outcome: outc + "+base-changed", Viols: viols}
	}

	// the view state of the base under test and of its twin belongs to them
	if v, tv := viewState(s.base), viewState(s.tw); v != viewBefore || tv != twViewBefore {
		add("base-changed", "view-state", detail{Expected: "current directory, mask, user and identity manager of the base under test as before: " + viewBefore, Observed: v})

		s.haveSnap = false

		return bfs.StepResult{Changed: true, Broken: true, Key: "BROKEN|world-view|" + v + "|" + tv, Outcome: outc + "+view", Viols: viols}
	}

	if sib != nil && !poisoned {
		if s.siblings == nil {
			s.siblings = map[string]*rofs.RoFS{}
		}

		s.siblings[name] = sib
	}

	key := s.key(after)
	changed := key != s.lastKey
	s.lastKey = key
	s.lastSnap, s.haveSnap = after, true

	return bfs.StepResult{Changed: changed, Key: key, Rebuild: poisoned, Outcome: outc + " asked=1", Viols: viols}
}

// tryHandle: a mutating call was not refused AND handed out a handle. The
// state is not expanded (the property is violated already), so the handle is
// asked here what the File letters would ask it later: can the underlying file
// system be changed through it? A read-only file system must never hand out
// the handle of its base as it is. since: the snapshot taken after the call.
// what == "": every call was refused and the base stayed as it was.
func (s *sys) tryHandle(f avfs.File, since snap) (what, diff string) {
	var went []string

	k, msg := fsx.Guard(func() {
		if _, err := f.Write([]byte("XY")); err == nil {
			went = append(went, "Write")
		}

		if _, err := f.WriteString("XY"); err == nil {
			went = append(went, "WriteString")
		}

		if err := f.Truncate(1); err == nil {
			went = append(went, "Truncate")
		}

		if err := f.Chmod(fsx.UnixMode(0o600)); err == nil {
			went = append(went, "Chmod")
		}
	})
	if k != "" {
		went = append(went, k+":"+panicClass(msg))
	}

	now, k, msg := s.snapshot(since.ans != nil)
	if k != "" {
		return strings.Join(append(went, "nodump:"+panicClass(msg)), "+"), ""
	}

	if cl, d := changeClass(since, now); cl != "" {
		went, diff = append(went, "base:"+cl), d
	}

	return strings.Join(went, "+"), diff
}

// refusal: the error of a mutating call belongs to the permission class,
// errors.Is(err, fs.ErrPermission), as the statement demands for every
// mutating call. On a Windows-typed file system RoFS answers Chown and Lchown
// with "not supported by windows" and Symlink with "a required privilege is not
// held" (what package os answers there for any file system); neither is
// fs.ErrPermission: reported, and listed as a known finding.
func (s *sys) refusal(_ opDesc, err error) bool {
	return errors.Is(err, fs.ErrPermission)
}

func twHelperOrNil(v avfs.VFS) avfs.VFS {
	if v == nil || isNilPtr(v) {
		return nil
	}

	return v
}

func (s *sys) viol(o opDesc, via, variant, kind, what string, d detail) bfs.Viol {
	d.Earlier = s.madeEarlier()

	b, _ := json.Marshal(d)

	return bfs.Viol{
		Sig: map[string]string{
			"base": s.name, "via": via, "call": o.Method, "variant": variant, "kind": kind, "what": what,
		},
		Detail: string(b),
	}
}
