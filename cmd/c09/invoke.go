package main

import (
	"fmt"
	"io/fs"
	"reflect"
	"regexp"
	"strings"
	"time"

	"github.com/avfs/avfs"

	"verif/lib/fsx"
)

// outcome of one reflective call.
type outcome struct {
	Kind string // ok | errno name / error class | PANIC | DEADLOCK | ARGPREP (argument could not be built)
	Val  string // canonical rendering of every returned value except files / file systems
	Msg  string // error text or panic message (never compared)
	Err  error

	File    avfs.File // returned File (possibly a typed nil pointer)
	HasFile bool      // the method returns a File and the interface value was not nil
	FS      avfs.VFS
	HasFS   bool

	// Via is set when the panic happened while reading a returned
	// FileInfo / DirEntry rather than inside the call itself.
	Via string

	// Keep holds the FileInfo / []DirEntry values the call returned: objects
	// handed out, which can be asked again later (see reRender). A slice is kept
	// as a copy: the one the call returned is the caller's and is written over.
	Keep []any

	// Lent counts the slices the call returned (not the buffers the caller
	// passed) and the harness wrote over, see scribbleSlice.
	Lent int
}

func (o outcome) String() string {
	if o.Val == "" {
		return o.Kind
	}

	return o.Kind + " " + o.Val
}

// isNilPtr reports whether the interface holds a typed nil pointer.
func isNilPtr(x any) bool {
	if x == nil {
		return false
	}

	v := reflect.ValueOf(x)

	return v.Kind() == reflect.Ptr && v.IsNil()
}

// userOf looks a user up in the identity manager of helper's base.
func userOf(idm avfs.IdentityMgr, name string) (avfs.UserReader, bool) {
	if idm == nil {
		return nil, false
	}

	if name == "root" {
		return idm.AdminUser(), true
	}

	u, err := idm.LookupUser(name)
	if err != nil {
		return nil, false
	}

	return u, true
}

// invoke calls o.Method on recv through reflection. helper is the file system
// the receiver belongs to (the receiver itself for VFS calls): it supplies
// FileInfo arguments and ToSysStat for rendering. idm supplies users.
func invoke(recv any, helper avfs.VFS, idm avfs.IdentityMgr, o opDesc) (out outcome) {
	m := reflect.ValueOf(recv).MethodByName(o.Method)
	if !m.IsValid() {
		panic(fmt.Sprintf("c09: %T has no method %s", recv, o.Method))
	}

	mt := m.Type()

	var (
		args   []reflect.Value
		bufs   [][]byte
		datas  [][]byte // buffers handed to the call, overwritten once it has returned
		walked []string
		rets   []reflect.Value
		prepOK = true
	)

	k, msg := fsx.Guard(func() {
		for i, a := range o.Args {
			var pt reflect.Type

			switch {
			case mt.IsVariadic() && i >= mt.NumIn()-1:
				pt = mt.In(mt.NumIn() - 1).Elem()
			case i < mt.NumIn():
				pt = mt.In(i)
			default:
				panic("c09: too many arguments for " + o.Method)
			}

			var v reflect.Value

			switch a.K {
			case "str", "path", "pstr":
				v = reflect.ValueOf(a.S)
			case "int", "i64", "u8", "mode", "flag", "feat":
				v = reflect.New(pt).Elem()

				switch {
				case a.K == "mode":
					v.SetUint(uint64(fsx.UnixMode(uint32(a.I))))
				case pt.Kind() >= reflect.Uint && pt.Kind() <= reflect.Uintptr:
					v.SetUint(uint64(a.I))
				default:
					v.SetInt(a.I)
				}
			case "bool":
				v = reflect.ValueOf(a.I != 0)
			case "data":
				d := []byte(a.S)
				datas = append(datas, d)
				v = reflect.ValueOf(d)
			case "buf":
				b := make([]byte, a.I)
				bufs = append(bufs, b)
				v = reflect.ValueOf(b)
			case "time":
				if a.S == "zero" {
					v = reflect.ValueOf(time.Time{})
				} else {
					v = reflect.ValueOf(fsx.FixedTime.Add(time.Duration(a.I) * time.Second))
				}
			case "finfo":
				fi, err := helper.Lstat(a.S)
				if err != nil {
					prepOK = false

					return
				}

				v = reflect.ValueOf(&fi).Elem()
			case "walkfn":
				fn := fs.WalkDirFunc(func(p string, d fs.DirEntry, err error) error {
					if len(walked) > 512 {
						return fmt.Errorf("walk-too-long")
					}

					if err != nil {
						walked = append(walked, p+"!"+fsx.ErrKind(err))

						return nil
					}

					walked = append(walked, p+fsx.TypeChar(d.Type()))

					return nil
				})
				v = reflect.ValueOf(fn)
			case "user":
				u, ok := userOf(idm, a.S)
				if !ok {
					prepOK = false

					return
				}

				v = reflect.ValueOf(&u).Elem()
			case "idm":
				im := avfs.IdentityMgr(avfs.NotImplementedIdm)
				v = reflect.ValueOf(&im).Elem()
			default:
				panic("c09: unknown argument kind " + a.K)
			}

			if v.Type() != pt && v.Type().ConvertibleTo(pt) {
				v = v.Convert(pt)
			}

			args = append(args, v)
		}

		rets = m.Call(args)
	})

	for _, d := range datas {
		fsx.Scribble(d)
	}

	if k != "" {
		return outcome{Kind: k, Msg: msg}
	}

	if !prepOK {
		return outcome{Kind: "ARGPREP"}
	}

	// second phase: read the returned values (FileInfo / DirEntry methods are
	// calls on objects handed out by the wrapper)
	via := ""

	k, msg = fsx.Guard(func() {
		var vals []string

		for i, r := range rets {
			rt := mt.Out(i)

			switch {
			case rt == tError:
				if !r.IsNil() {
					out.Err = r.Interface().(error)
					out.Msg = out.Err.Error()
				}
			case rt == tFile:
				if !r.IsNil() {
					out.File = r.Interface().(avfs.File)
					out.HasFile = true
				}
			case rt == tVFS:
				if !r.IsNil() {
					out.FS = r.Interface().(avfs.VFS)
					out.HasFS = true
				}
			case rt == tFileInfo:
				via = "fileinfo"

				if r.IsNil() {
					vals = append(vals, "<nil>")
				} else {
					out.Keep = append(out.Keep, r.Interface().(fs.FileInfo))
					vals = append(vals, renderInfo(helper, r.Interface().(fs.FileInfo)))
				}

				via = ""
			case rt == reflect.TypeOf([]fs.DirEntry(nil)):
				via = "direntry"

				es := r.Interface().([]fs.DirEntry)
				parts := make([]string, 0, len(es))
				out.Keep = append(out.Keep, append([]fs.DirEntry(nil), es...))

				for _, e := range es {
					parts = append(parts, renderEntry(helper, e))
				}

				s := "[" + strings.Join(parts, " | ") + "]"
				if es == nil {
					s = "<nil>"
				}

				vals = append(vals, s)
				via = ""
			case rt == tBytes:
				if r.IsNil() {
					vals = append(vals, "<nil>")
				} else {
					vals = append(vals, fmt.Sprintf("%q", r.Bytes()))
					// a returned slice must not be storage of the base file system:
					// what the caller does with it later cannot change the base
					fsx.Scribble(r.Bytes())

					out.Lent++
				}
			case rt == tStrings:
				if r.IsNil() {
					vals = append(vals, "<nil>")
				} else {
					vals = append(vals, fmt.Sprintf("%q", r.Interface()))
				}
			case rt == tString:
				vals = append(vals, fmt.Sprintf("%q", r.String()))
			case rt == tMode:
				vals = append(vals, fsx.ModeString(fs.FileMode(r.Uint())))
			case rt == tUser:
				if r.IsNil() {
					vals = append(vals, "<nil>")
				} else {
					u := r.Interface().(avfs.UserReader)
					vals = append(vals, fmt.Sprintf("user %s %d:%d admin=%v", u.Name(), u.Uid(), u.Gid(), u.IsAdmin()))
				}
			case rt == tIdm:
				if r.IsNil() {
					vals = append(vals, "<nil>")
				} else {
					vals = append(vals, "idm "+r.Interface().(avfs.IdentityMgr).Type())
				}
			case rt == reflect.TypeOf((*avfs.SysStater)(nil)).Elem():
				if r.IsNil() {
					vals = append(vals, "<nil>")
				} else {
					s := r.Interface().(avfs.SysStater)
					vals = append(vals, fmt.Sprintf("sys %d:%d n%d", s.Uid(), s.Gid(), s.Nlink()))
				}
			default:
				vals = append(vals, fmt.Sprintf("%v", r.Interface()))
			}
		}

		// every slice the call handed out is the caller's: once it has been
		// read it is written over, up to its capacity
		for i, r := range rets {
			if mt.Out(i) != tBytes && scribbleSlice(r) {
				out.Lent++
			}
		}

		// bytes read into the buffer (Read / ReadAt: first result is the count)
		if len(bufs) > 0 && len(rets) > 0 && rets[0].Kind() == reflect.Int {
			n := int(rets[0].Int())
			if n >= 0 && n <= len(bufs[0]) {
				vals = append(vals, fmt.Sprintf("%q", bufs[0][:n]))
			} else {
				vals = append(vals, "count-out-of-range")
			}
		}

		if walked != nil || hasWalk(o) {
			vals = append(vals, "walk["+strings.Join(walked, ",")+"]")
		}

		out.Val = strings.Join(vals, " ; ")
	})

	if k != "" {
		return outcome{Kind: k, Msg: msg, Via: via, File: out.File, HasFile: out.HasFile, FS: out.FS, HasFS: out.HasFS}
	}

	out.Kind = fsx.ErrKind(out.Err)

	return out
}

// Values with reference semantics.
//
// Lesson: a read-only call cannot change the base, but what it RETURNS can be
// a way in. Every value with reference semantics that a call hands out - a
// []byte, but just as well the []string of Readdirnames and Glob, the
// []fs.DirEntry of ReadDir, any slice a future method returns - belongs to the
// caller (package os allocates each of them for the call), and callers do use
// them as their own: they sort a listing in another order, rename an element
// for display, append the next piece to the first one. If the slice is storage
// of the underlying file system (a listing it keeps, or a piece of one, whose
// spare capacity is the rest of that listing) the caller has rewritten the
// file system without a single mutating call. So the harness plays the
// caller: once the value has been read, every element of every returned slice
// is overwritten (which is also what sorting it differently amounts to) and so
// is everything between its length and its capacity (where append would
// write); this holds for whole listings and for the pieces of a listing read
// with n > 0 alike. The damage, if any, is not in the tree: it shows in what
// the base ANSWERS afterwards, which is part of the snapshot (answers,
// system.go). Both sides, wrapper and twin, are treated alike, so what a handle
// shares with its own caller only (the pending part of a listing read in
// pieces) stays equal on both sides and is not mistaken for a change of the
// file system.

// scribbled stands where a caller put something of its own into a listing.
type scribbled struct{}

const scribbledName = "\x00scribbled"

func (scribbled) Name() string               { return scribbledName }
func (scribbled) IsDir() bool                { return true }
func (scribbled) Type() fs.FileMode          { return fs.ModeIrregular }
func (scribbled) Info() (fs.FileInfo, error) { return scribbled{}, nil }
func (scribbled) Size() int64                { return -1 }
func (scribbled) Mode() fs.FileMode          { return fs.ModeIrregular }
func (scribbled) ModTime() time.Time         { return time.Time{} }
func (scribbled) Sys() any                   { return nil }

// scribbleSlice overwrites every element of a returned slice, and everything
// up to its capacity: names get a name no entry has, DirEntry / FileInfo
// elements a value of the harness, anything else its zero value. false: not a
// slice, or nothing to write to.
func scribbleSlice(v reflect.Value) bool {
	if v.Kind() != reflect.Slice || v.IsNil() || v.Cap() == 0 {
		return false
	}

	et := v.Type().Elem()
	junk := reflect.Zero(et)

	switch {
	case et.Kind() == reflect.String:
		junk = reflect.ValueOf(scribbledName).Convert(et)
	case et.Kind() == reflect.Interface && reflect.TypeOf(scribbled{}).Implements(et):
		junk = reflect.ValueOf(scribbled{})
	}

	full := v.Slice(0, v.Cap())
	for i := 0; i < full.Len(); i++ {
		full.Index(i).Set(junk)
	}

	return true
}

// reRender asks the FileInfo / DirEntry values kept from an earlier call
// again: every method of every one of them, rendered as invoke renders them.
func reRender(helper avfs.VFS, keep []any) (val, kind, msg string) {
	kind, msg = fsx.Guard(func() {
		var vals []string

		for _, x := range keep {
			switch v := x.(type) {
			case fs.FileInfo:
				vals = append(vals, renderInfo(helper, v))
			case []fs.DirEntry:
				parts := make([]string, 0, len(v))
				for _, e := range v {
					parts = append(parts, renderEntry(helper, e))
				}

				vals = append(vals, "["+strings.Join(parts, " | ")+"]")
			}
		}

		val = strings.Join(vals, " ; ")
	})

	return
}

func hasWalk(o opDesc) bool {
	for _, a := range o.Args {
		if a.K == "walkfn" {
			return true
		}
	}

	return false
}

// renderInfo calls every method of a FileInfo (Sys through ToSysStat of the
// file system that produced it).
func renderInfo(v avfs.VFS, fi fs.FileInfo) string {
	m := fi.Mode()
	mt := fmt.Sprintf("t%d", fi.ModTime().UnixNano())

	if m&fs.ModeSymlink != 0 {
		// the time of a symbolic link itself is its creation time and cannot be
		// set through the API: base and twin legitimately differ
		mt = "t(link)"
	}

	s := fmt.Sprintf("%q %v sz%d %s dir=%v", fi.Name(), m, fi.Size(), mt, fi.IsDir())

	if fi.Sys() == nil {
		return s + " sys=nil"
	}

	if v != nil {
		st := v.ToSysStat(fi)
		s += fmt.Sprintf(" %d:%d n%d", st.Uid(), st.Gid(), st.Nlink())
	}

	return s
}

// renderEntry calls every method of a DirEntry.
func renderEntry(v avfs.VFS, e fs.DirEntry) string {
	s := fmt.Sprintf("%q %v dir=%v", e.Name(), e.Type(), e.IsDir())

	fi, err := e.Info()
	if err != nil {
		return s + " info!" + fsx.ErrKind(err)
	}

	if fi == nil {
		return s + " info=nil"
	}

	return s + " {" + renderInfo(v, fi) + "}"
}

var (
	reHex   = regexp.MustCompile(`0x[0-9a-fA-F]+`)
	reNum   = regexp.MustCompile(`[0-9]+`)
	reFrame = regexp.MustCompile(`github\.com/avfs/avfs/[^\s(]*(\([^)]*\))?[^\s(]*`)
)

// panicClass turns a panic message (as produced by fsx.Guard: "<msg> @ <first
// avfs frame>") into a class: no addresses, no numbers.
func panicClass(msg string) string {
	text, frame := msg, ""

	if i := strings.Index(msg, " @ "); i >= 0 {
		text, frame = msg[:i], msg[i+3:]
	}

	text = reHex.ReplaceAllString(text, "ADDR")
	text = reNum.ReplaceAllString(text, "N")

	if len(text) > 100 {
		text = text[:100]
	}

	if f := reFrame.FindString(frame); f != "" {
		f = strings.TrimPrefix(f, "github.com/avfs/avfs/")

		return text + " @ " + f
	}

	return text
}
