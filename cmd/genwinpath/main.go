// Command genwinpath generates /verif/ref/winpath: a mechanically retargeted
// copy of the toolchain's *Windows* implementation of path/filepath that
// compiles and runs on any host. It is the reference of property C13 for
// file systems emulating Windows.
//
//	genwinpath [-goroot DIR] -out /verif/ref/winpath
//
// Sources (read from GOROOT, never modified):
//
//	src/internal/filepathlite/{path.go,path_windows.go}   -> <out>/filepathlite/
//	src/path/filepath/{path.go,path_windows.go,match.go}  -> <out>/
//	src/path/filepath/{path_test.go,match_test.go}        -> <out>/selftest/ (tables + test bodies)
//
// Transformations, all of them asserted (the generator fails, writing nothing,
// if a hunk does not apply the expected number of times, if a declaration that
// must be dropped or kept is missing, or if a reference to a package other than
// the whitelisted ones survives):
//
//   - build constraints: none of the source files carries one besides the
//     _windows file name suffix, which is dropped by renaming (asserted);
//   - internal/stringslite.X -> strings.X, bytealg.IndexByteString -> strings.IndexByte,
//     bytealg.CountString(s, c) -> strings.Count(s, string(c));
//   - runtime.GOOS != "windows" -> false, runtime.GOOS == "windows" -> true;
//   - Separator = os.PathSeparator -> '\\', ListSeparator = os.PathListSeparator -> ';',
//     os.IsPathSeparator -> filepathlite.IsPathSeparator (the Windows one);
//   - import "internal/filepathlite" -> "verif/ref/winpath/filepathlite";
//   - functions that need the Win32 API or the file system are dropped whole:
//     Abs, EvalSymlinks, Glob, Walk, WalkDir, IsLocal, Localize and helpers.
//
// Nothing else is touched: function bodies are copied byte for byte.
package main

import (
	"bytes"
	"crypto/sha256"
	"encoding/hex"
	"flag"
	"fmt"
	"go/ast"
	"go/format"
	"go/parser"
	"go/token"
	"os"
	"os/exec"
	"path/filepath"
	"runtime"
	"sort"
	"strings"
)

const modPath = "verif/ref/winpath"

// hunk is a textual replacement that must apply exactly Count times
// (Count < 0: at least once).
type hunk struct {
	Old, New string
	Count    int
}

// unit describes one generated file.
type unit struct {
	Src     string   // path below GOROOT/src
	Dst     string   // path below the output directory
	Package string   // package clause of the result
	Drop    []string // top-level declarations removed (must exist); nil if Keep is used
	Keep    []string // if non-nil: only these top-level declarations are kept (must exist)
	DotPkg  string   // import path imported with "." (test files using dot imports)
	Post    []hunk   // textual replacements applied to the kept text (after selection)
}

// imports that may be referenced by generated code: identifier -> import spec.
// An empty spec means "declared inside the generated package, no import".
var allowed = map[string]string{
	"errors":       `"errors"`,
	"strings":      `"strings"`,
	"slices":       `"slices"`,
	"utf8":         `"unicode/utf8"`,
	"fs":           `"io/fs"`,
	"fmt":          `"fmt"`,
	"reflect":      `"reflect"`,
	"runtime":      `"runtime"`,
	"filepathlite": `"` + modPath + `/filepathlite"`,
	"filepath":     `filepath "` + modPath + `"`,
	"testing":      ``, // shim variable of package selftest
}

// In the library packages nothing but these may be imported: in particular
// no os, syscall, runtime, internal/*.
var libAllowed = map[string]bool{"errors": true, "strings": true, "slices": true, "utf8": true, "filepathlite": true}

var units = []unit{
	{
		Src: "internal/filepathlite/path.go", Dst: "filepathlite/path.go", Package: "filepathlite",
		Post: []hunk{{"stringslite.", "strings.", 1}},
		Drop: []string{"errInvalidPath", "IsLocal", "unixIsLocal", "Localize"},
	},
	{
		Src: "internal/filepathlite/path_windows.go", Dst: "filepathlite/path_win.go", Package: "filepathlite",
		// isLocal/localize/isReservedName need syscall.FullPath; equalFold and
		// isReservedBaseName are only used by them.
		Drop: []string{"isLocal", "localize", "isReservedName", "isReservedBaseName", "equalFold"},
	},
	{
		Src: "path/filepath/path.go", Dst: "path.go", Package: "winpath",
		Post: []hunk{
			{"Separator     = os.PathSeparator", `Separator     = '\\'`, 1},
			{"ListSeparator = os.PathListSeparator", "ListSeparator = ';'", 1},
			{"bytealg.CountString(base[b0:bl], Separator)", "strings.Count(base[b0:bl], string(Separator))", 1},
		},
		Drop: []string{
			"IsLocal", "Localize", "EvalSymlinks", "Abs", "unixAbs", "SkipDir", "SkipAll", "WalkFunc",
			"lstat", "walkDir", "walk", "WalkDir", "Walk", "readDirNames",
		},
	},
	{
		Src: "path/filepath/path_windows.go", Dst: "path_win.go", Package: "winpath",
		Post: []hunk{{"os.IsPathSeparator(", "filepathlite.IsPathSeparator(", 3}},
		Drop: []string{"abs"},
	},
	{
		Src: "path/filepath/match.go", Dst: "match.go", Package: "winpath",
		Post: []hunk{{`runtime.GOOS != "windows"`, `false /* runtime.GOOS != "windows" */`, 3}},
		Drop: []string{"Glob", "globWithLimit", "cleanGlobPath", "cleanGlobPathWindows", "glob", "hasMeta"},
	},
	{
		Src: "path/filepath/path_test.go", Dst: "selftest/tables_path.go", Package: "selftest",
		Keep: []string{
			"PathTest", "cleantests", "nonwincleantests", "wincleantests", "TestClean",
			"sep", "slashtests", "TestFromAndToSlash",
			"SplitTest", "unixsplittests", "winsplittests", "TestSplit",
			"JoinTest", "jointests", "nonwinjointests", "winjointests", "TestJoin",
			"ExtTest", "exttests", "TestExt",
			"basetests", "winbasetests", "TestBase",
			"dirtests", "nonwindirtests", "windirtests", "TestDir",
			"IsAbsTest", "isabstests", "winisabstests", "TestIsAbs",
			"RelTests", "reltests", "winreltests", "TestRel",
			"VolumeNameTest", "volumenametests", "TestVolumeName",
		},
		Post: []hunk{
			{`runtime.GOOS == "windows"`, `true /* runtime.GOOS == "windows" */`, 7},
			{`runtime.GOOS != "windows"`, `false /* runtime.GOOS != "windows" */`, 1},
			{"t *testing.T", "t *T", 10},
		},
	},
	{
		Src: "path/filepath/match_test.go", Dst: "selftest/tables_match.go", Package: "selftest",
		Keep:   []string{"MatchTest", "matchTests", "errp", "TestMatch"},
		DotPkg: modPath,
		Post: []hunk{
			{`runtime.GOOS == "windows"`, `true /* runtime.GOOS == "windows" */`, 1},
			{"t *testing.T", "t *T", 1},
		},
	},
}

// test functions and tables of package selftest (for Run and Rows).
var selfTests = []string{
	"TestClean", "TestFromAndToSlash", "TestSplit", "TestJoin", "TestExt", "TestBase", "TestDir",
	"TestIsAbs", "TestRel", "TestVolumeName", "TestMatch",
}

var selfTables = []string{
	"cleantests", "wincleantests", "slashtests", "unixsplittests", "winsplittests", "jointests", "winjointests",
	"exttests", "basetests", "winbasetests", "dirtests", "windirtests", "isabstests", "winisabstests",
	"reltests", "winreltests", "volumenametests", "matchTests",
}

func fatalf(format string, args ...any) {
	fmt.Fprintf(os.Stderr, "genwinpath: "+format+"\n", args...)
	os.Exit(2)
}

func main() {
	goroot := flag.String("goroot", "", "GOROOT (default: go env GOROOT)")
	out := flag.String("out", "", "output directory (…/ref/winpath)")
	flag.Parse()

	if *out == "" {
		fatalf("usage: genwinpath [-goroot DIR] -out DIR")
	}

	if *goroot == "" {
		b, err := exec.Command("go", "env", "GOROOT").Output()
		if err != nil {
			fatalf("go env GOROOT: %v", err)
		}

		*goroot = strings.TrimSpace(string(b))
	}

	version := runtime.Version()
	if b, err := os.ReadFile(filepath.Join(*goroot, "VERSION")); err == nil {
		if v := strings.Fields(string(b)); len(v) > 0 && v[0] != version {
			fatalf("generator built with %s but GOROOT %s holds %s", version, *goroot, v[0])
		}
	}

	files := map[string][]byte{}
	var sums []string

	for _, u := range units {
		srcPath := filepath.Join(*goroot, "src", u.Src)

		src, err := os.ReadFile(srcPath)
		if err != nil {
			fatalf("%v", err)
		}

		h := sha256.Sum256(src)
		sums = append(sums, fmt.Sprintf("%s sha256:%s", u.Src, hex.EncodeToString(h[:])))

		res, err := transform(u, src, version)
		if err != nil {
			fatalf("%s: %v", u.Src, err)
		}

		files[u.Dst] = res
	}

	files["generated.go"] = mustFormat("generated.go", genInfo(version, sums))
	files["selftest/t.go"] = mustFormat("selftest/t.go", selftestShim(version))
	files["selftest/selftest_test.go"] = mustFormat("selftest/selftest_test.go", selftestTest(version))

	// All hunks applied: now, and only now, write.
	for _, dir := range []string{"", "filepathlite", "selftest"} {
		d := filepath.Join(*out, dir)
		if err := os.MkdirAll(d, 0o755); err != nil {
			fatalf("%v", err)
		}

		old, _ := filepath.Glob(filepath.Join(d, "*.go"))
		for _, f := range old {
			if err := os.Remove(f); err != nil {
				fatalf("%v", err)
			}
		}
	}

	names := make([]string, 0, len(files))
	for n := range files {
		names = append(names, n)
	}

	sort.Strings(names)

	for _, n := range names {
		if err := os.WriteFile(filepath.Join(*out, n), files[n], 0o644); err != nil {
			fatalf("%v", err)
		}
	}

	fmt.Printf("genwinpath: %d files written to %s from %s (%s)\n", len(names), *out, *goroot, version)
}

func header(version, src string) string {
	return fmt.Sprintf("// Code generated by verif/cmd/genwinpath from GOROOT/src/%s (%s); DO NOT EDIT.\n"+
		"// Retargeted to Windows semantics on any host; see cmd/genwinpath/main.go for the list of edits.\n\n", src, version)
}

func applyHunks(text string, hs []hunk) (string, error) {
	for _, h := range hs {
		n := strings.Count(text, h.Old)
		if (h.Count >= 0 && n != h.Count) || (h.Count < 0 && n == 0) {
			return "", fmt.Errorf("hunk %q -> %q: found %d occurrence(s), expected %d", h.Old, h.New, n, h.Count)
		}

		text = strings.ReplaceAll(text, h.Old, h.New)
	}

	return text, nil
}

type span struct{ from, to int }

// declNames returns the names a top-level declaration declares.
func declNames(d ast.Decl) []string {
	switch d := d.(type) {
	case *ast.FuncDecl:
		if d.Recv != nil {
			return nil // methods stay with their type
		}

		return []string{d.Name.Name}
	case *ast.GenDecl:
		if d.Tok == token.IMPORT {
			return nil
		}

		var ns []string

		for _, s := range d.Specs {
			switch s := s.(type) {
			case *ast.TypeSpec:
				ns = append(ns, s.Name.Name)
			case *ast.ValueSpec:
				for _, n := range s.Names {
					ns = append(ns, n.Name)
				}
			}
		}

		return ns
	}

	return nil
}

func declSpan(fset *token.FileSet, d ast.Decl) span {
	from := d.Pos()

	switch d := d.(type) {
	case *ast.FuncDecl:
		if d.Doc != nil {
			from = d.Doc.Pos()
		}
	case *ast.GenDecl:
		if d.Doc != nil {
			from = d.Doc.Pos()
		}
	}

	return span{fset.Position(from).Offset, fset.Position(d.End()).Offset}
}

func transform(u unit, src []byte, version string) ([]byte, error) {
	if bytes.Contains(src, []byte("//go:build")) || bytes.Contains(src, []byte("// +build")) {
		return nil, fmt.Errorf("unexpected build constraint in source")
	}

	text := string(src)

	fset := token.NewFileSet()

	f, err := parser.ParseFile(fset, u.Src, text, parser.ParseComments)
	if err != nil {
		return nil, err
	}

	want := map[string]bool{}
	for _, n := range append(append([]string{}, u.Drop...), u.Keep...) {
		if want[n] {
			return nil, fmt.Errorf("declaration %s listed twice", n)
		}

		want[n] = true
	}

	seen := map[string]bool{}

	var (
		body    strings.Builder
		cuts    []span
		pkgEnd  = fset.Position(f.Name.End()).Offset
		lastImp = pkgEnd
	)

	for _, d := range f.Decls {
		sp := declSpan(fset, d)

		if g, ok := d.(*ast.GenDecl); ok && g.Tok == token.IMPORT {
			cuts = append(cuts, sp)
			lastImp = sp.to

			continue
		}

		names := declNames(d)
		listed := 0

		for _, n := range names {
			if want[n] {
				listed++
				seen[n] = true
			}
		}

		if listed != 0 && listed != len(names) {
			return nil, fmt.Errorf("declaration group %v is only partly listed", names)
		}

		switch {
		case u.Keep != nil:
			if listed > 0 {
				body.WriteString(text[sp.from:sp.to])
				body.WriteString("\n\n")
			}
		case listed > 0:
			cuts = append(cuts, sp)
		}
	}

	for n := range want {
		if !seen[n] {
			return nil, fmt.Errorf("expected top-level declaration %s not found", n)
		}
	}

	var kept string

	if u.Keep != nil {
		kept = body.String()
	} else {
		// everything after the import block minus the dropped spans
		sort.Slice(cuts, func(i, j int) bool { return cuts[i].from < cuts[j].from })

		pos := lastImp

		for _, c := range cuts {
			if c.to <= lastImp {
				continue
			}

			body.WriteString(text[pos:c.from])
			pos = c.to
		}

		body.WriteString(text[pos:])
		kept = body.String()
	}

	if kept, err = applyHunks(kept, u.Post); err != nil {
		return nil, err
	}

	// Which packages does the kept code refer to?
	// (a resolving parse: an identifier that no declaration of the file binds and
	// that is the operand of a selector is a package reference.)
	probe := "package " + u.Package + "\n" + kept

	rf, err := parser.ParseFile(token.NewFileSet(), u.Dst, probe, 0)
	if err != nil {
		return nil, fmt.Errorf("result does not parse: %v", err)
	}

	unresolved := map[*ast.Ident]bool{}
	for _, id := range rf.Unresolved {
		unresolved[id] = true
	}

	refs := map[string]bool{}

	ast.Inspect(rf, func(n ast.Node) bool {
		if se, ok := n.(*ast.SelectorExpr); ok {
			if id, ok := se.X.(*ast.Ident); ok && unresolved[id] {
				if _, isPkg := allowed[id.Name]; isPkg || isForbiddenPkg(id.Name) {
					refs[id.Name] = true
				}
			}
		}

		return true
	})

	var imps []string

	for name := range refs {
		spec, ok := allowed[name]
		if !ok {
			return nil, fmt.Errorf("reference to package %q survives the transformation", name)
		}

		if u.Package != "selftest" && !libAllowed[name] {
			return nil, fmt.Errorf("library file must not import %q", name)
		}

		if spec != "" {
			imps = append(imps, spec)
		}
	}

	if u.DotPkg != "" {
		imps = append(imps, `. "`+u.DotPkg+`"`)
	}

	sort.Strings(imps)

	var outb strings.Builder

	outb.WriteString(header(version, u.Src))
	outb.WriteString(strings.TrimRight(text[:fset.Position(f.Package).Offset], "\n") + "\n\n") // original licence header (and package doc)
	outb.WriteString("package " + u.Package + "\n\n")

	if len(imps) > 0 {
		outb.WriteString("import (\n")

		for _, i := range imps {
			outb.WriteString("\t" + i + "\n")
		}

		outb.WriteString(")\n\n")
	}

	outb.WriteString(kept)

	return mustFormatErr(u.Dst, outb.String())
}

// isForbiddenPkg lists package identifiers of the original import blocks
// which must not survive.
func isForbiddenPkg(name string) bool {
	switch name {
	case "os", "syscall", "bytealg", "stringslite", "testenv", "windows", "unsafe", "exec":
		return true
	}

	return false
}

func mustFormatErr(name, src string) ([]byte, error) {
	b, err := format.Source([]byte(src))
	if err != nil {
		return nil, fmt.Errorf("%s: gofmt: %v", name, err)
	}

	return b, nil
}

func mustFormat(name, src string) []byte {
	b, err := mustFormatErr(name, src)
	if err != nil {
		fatalf("%v", err)
	}

	return b
}

func genInfo(version string, sums []string) string {
	var b strings.Builder

	b.WriteString("// Code generated by verif/cmd/genwinpath; DO NOT EDIT.\n\n")
	b.WriteString("// Package winpath is the Windows implementation of path/filepath of the\n")
	b.WriteString("// toolchain named by GeneratedFrom, retargeted so that it runs on any host\n")
	b.WriteString("// (no os, syscall or runtime dependence). Abs, EvalSymlinks, Glob, Walk,\n")
	b.WriteString("// WalkDir, IsLocal and Localize are not part of it.\n")
	b.WriteString("package winpath\n\n")
	b.WriteString("import \"" + modPath + "/filepathlite\"\n\n")
	fmt.Fprintf(&b, "// GeneratedFrom is the version of the toolchain whose sources were retargeted.\nconst GeneratedFrom = %q\n\n", version)
	b.WriteString("// Sources lists the source files and their digests.\nvar Sources = []string{\n")

	for _, s := range sums {
		fmt.Fprintf(&b, "\t%q,\n", s)
	}

	b.WriteString("}\n\n")
	b.WriteString("// VolumeNameLen returns the length of the leading volume name (Windows rules).\n")
	b.WriteString("func VolumeNameLen(path string) int { return filepathlite.VolumeNameLen(path) }\n\n")
	b.WriteString("// IsPathSeparator reports whether c is a directory separator character (Windows rules).\n")
	b.WriteString("func IsPathSeparator(c uint8) bool { return filepathlite.IsPathSeparator(c) }\n")

	return b.String()
}

func selftestShim(version string) string {
	var b strings.Builder

	b.WriteString("// Code generated by verif/cmd/genwinpath; DO NOT EDIT.\n\n")
	b.WriteString("// Package selftest holds the Windows rows of the toolchain's own path/filepath\n")
	b.WriteString("// test tables together with the unmodified test bodies (tables_*.go), and a\n")
	b.WriteString("// minimal stand-in for *testing.T so that they can be run inside a driver.\n")
	b.WriteString("package selftest\n\nimport \"fmt\"\n\n")
	b.WriteString(`// T stands in for testing.T.
type T struct {
	name  string
	fails *[]string
}

type skipped struct{}

func (t *T) Errorf(format string, args ...any) {
	*t.fails = append(*t.fails, t.name+": "+fmt.Sprintf(format, args...))
}

func (t *T) Log(args ...any) {}

func (t *T) Skip(args ...any) { panic(skipped{}) }

// testing stands in for the functions of package testing used by the copied
// test bodies: the allocation-count part of TestClean is skipped (Short).
var testing = struct {
	Short        func() bool
	AllocsPerRun func(runs int, f func()) float64
}{
	Short:        func() bool { return true },
	AllocsPerRun: func(int, func()) float64 { return 0 },
}

`)
	b.WriteString("var tests = []struct {\n\tname string\n\tf func(*T)\n}{\n")

	for _, n := range selfTests {
		fmt.Fprintf(&b, "\t{%q, %s},\n", n, n)
	}

	b.WriteString("}\n\n")
	b.WriteString("// Rows returns the number of rows of the tables used (before any test ran).\nfunc Rows() int {\n\treturn ")

	for i, n := range selfTables {
		if i > 0 {
			b.WriteString(" + ")
		}

		fmt.Fprintf(&b, "len(%s)", n)
	}

	b.WriteString("\n}\n\n")
	b.WriteString(`// Run executes every copied test once against package winpath and returns the
// number of test functions run and the failure messages. A panic is a failure.
func Run() (n int, failures []string) {
	for _, tc := range tests {
		n++

		func() {
			t := &T{name: tc.name, fails: &failures}

			defer func() {
				if r := recover(); r != nil {
					if _, ok := r.(skipped); !ok {
						failures = append(failures, fmt.Sprintf("%s: panic: %v", tc.name, r))
					}
				}
			}()

			tc.f(t)
		}()
	}

	return n, failures
}
`)

	_ = version

	return b.String()
}

func selftestTest(version string) string {
	_ = version

	return `// Code generated by verif/cmd/genwinpath; DO NOT EDIT.

package selftest_test

import (
	"testing"

	"` + modPath + `/selftest"
)

// TestToolchainTables runs the retargeted reference against the Windows rows of
// the toolchain's own tables.
func TestToolchainTables(t *testing.T) {
	rows := selftest.Rows()

	n, failures := selftest.Run()
	for _, f := range failures {
		t.Error(f)
	}

	if n < 11 || rows < 200 {
		t.Errorf("only %d tests / %d rows", n, rows)
	}

	t.Logf("%d test functions, %d table rows", n, rows)
}
`
}
