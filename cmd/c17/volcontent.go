package main

import (
	"fmt"
	"sort"
	"strings"

	"github.com/avfs/avfs"

	"verif/lib/fsx"
	"verif/lib/kf"
)

// Part (B'): what a volume HOLDS when it is deleted.  The set model of part (B)
// says "content gone"; names are not the whole content of a tree with hard
// links: a file of the deleted volume may have another name on a volume that
// stays (and a file of a staying volume a name on the deleted one).  After a
// successful VolumeDelete every name that is left must show a link count equal
// to the number of names that are left for its file, with its content, and a
// volume added again under the same name must be empty.
//
// Enumerated exhaustively: content shape of the volume x names linking across
// the volumes x spelling of the VolumeDelete argument x current directory.

type volContentStats struct {
	Scenarios  int            `json:"scenarios"`
	Calls      int            `json:"calls_executed"`
	Checks     int            `json:"names_checked_after_delete"`
	Outcomes   map[string]int `json:"outcome_classes"`
	Dimensions []string       `json:"dimensions"`
}

type volContent struct {
	name  string
	setup []fsx.Call // on D:
}

func volContents() []volContent {
	wf := func(p string) fsx.Call { return fsx.Call{Op: "WriteFile", A: p, Data: "D", Perm: 0o644} }
	md := func(p string) fsx.Call { return fsx.Call{Op: "Mkdir", A: p, Perm: 0o755} }

	return []volContent{
		{"empty", nil},
		{"file-at-root", []fsx.Call{wf(`D:\f`)}},
		{"file-in-dir", []fsx.Call{md(`D:\dir`), wf(`D:\dir\f`)}},
		{"file-two-levels", []fsx.Call{md(`D:\dir`), md(`D:\dir\sub`), wf(`D:\dir\sub\f`)}},
		{"two-names-on-volume", []fsx.Call{md(`D:\dir`), wf(`D:\dir\f`), {Op: "Link", A: `D:\dir\f`, B: `D:\f`}}},
	}
}

// cross-volume links made after the content: from is an existing file.
type volLink struct{ from, to string }

func volLinkSets(c volContent) [][]volLink {
	file := ""

	for _, s := range c.setup {
		if s.Op == "WriteFile" {
			file = s.A
		}
	}

	sets := [][]volLink{nil, {{`C:\k`, `D:\h`}}}
	if file != "" {
		sets = append(sets,
			[]volLink{{file, `C:\g`}},
			[]volLink{{file, `C:\g`}, {file, `C:\tmp\g2`}},
			[]volLink{{file, `C:\g`}, {`C:\k`, `D:\h`}},
		)
	}

	return sets
}

func runVolumeContent(rep *kf.Reporter, st *volContentStats) error {
	st.Outcomes = map[string]int{}
	delArgs := []string{`D:`, `D:\`, `D:\dir`, `D:/`}
	cwds := []string{`C:\`, `C:\tmp`}
	st.Dimensions = []string{
		"content of the volume: empty, a file at its root, in a directory, two levels down, a file with two names on the volume",
		"hard links across volumes: none, a name on C: for a file of D: (one, two), a name on D: for a file of C:, both",
		"VolumeDelete argument: " + strings.Join(delArgs, " "),
		"current directory: " + strings.Join(cwds, " "),
	}

	for _, c := range volContents() {
		for _, links := range volLinkSets(c) {
			for _, da := range delArgs {
				for _, cwd := range cwds {
					if err := volContentOne(rep, st, c, links, da, cwd); err != nil {
						return err
					}
				}
			}
		}
	}

	return nil
}

func volContentOne(rep *kf.Reporter, st *volContentStats, c volContent, links []volLink, delArg, cwd string) error {
	s, _, err := newSide("MemFS", true)
	if err != nil {
		return err
	}

	vm := s.v.(avfs.VolumeManager)
	st.Scenarios++

	var hist []string

	step := func(what string, f func() error) (string, string) {
		var e error

		k, msg := fsx.Guard(func() { e = f() })
		st.Calls++

		hist = append(hist, what)

		if k != "" {
			return k, msg
		}

		if e != nil {
			return "error", e.Error()
		}

		return "ok", ""
	}

	report := func(kind, call, what string, det map[string]any) {
		sig := kf.Sig{
			"fs": "MemFS", "part": "volume-content", "call": call, "variant": delArg, "operands": c.name,
			"linux": "", "windows": what, "kind": kind, "what": what,
		}

		det["history"] = append([]string{}, hist...)
		det["note"] = "fresh Windows-typed MemFS (SystemDirs: one tmp dir), then the history"
		rep.Report(sig, det)
	}

	must := func(what string, f func() error) bool {
		got, note := step(what, f)
		if got == "ok" {
			return true
		}

		if got == "PANIC" || got == "DEADLOCK" {
			report(strings.ToLower(got), strings.SplitN(what, "(", 2)[0], got, map[string]any{"error": note})
		} else {
			// the setup uses calls judged elsewhere (part C); a refusal here is not this part's verdict
			st.Outcomes["setup-refused/"+strings.SplitN(what, "(", 2)[0]]++
		}

		return false
	}

	if !must(`VolumeAdd("D:")`, func() error { return vm.VolumeAdd("D:") }) {
		return nil
	}

	if !must(`WriteFile(C:\k)`, func() error { return s.v.WriteFile(`C:\k`, []byte("C"), 0o644) }) {
		return nil
	}

	for _, cc := range c.setup {
		cc := cc
		if !must(cc.String(), func() error { _, e := s.rawCall(cc); return e }) {
			return nil
		}
	}

	for _, l := range links {
		l := l
		if !must(fmt.Sprintf("Link(%s,%s)", l.from, l.to), func() error { return s.v.Link(l.from, l.to) }) {
			return nil
		}
	}

	if !must("Chdir("+cwd+")", func() error { return s.v.Chdir(cwd) }) {
		return nil
	}

	got, note := step("VolumeDelete("+delArg+")", func() error { return vm.VolumeDelete(delArg) })
	st.Outcomes["VolumeDelete/"+got]++

	if got != "ok" {
		kind := "volume-content"
		if k := map[string]string{"PANIC": "panic", "DEADLOCK": "deadlock"}[got]; k != "" {
			kind = k
		}

		report(kind, "VolumeDelete", "VolumeDelete of an existing volume: "+got, map[string]any{"error": note})

		return nil
	}

	// what is left: the names on C:
	left := map[string]avfs.SysStater{}
	infos := map[string]string{}

	var names []string

	for _, p := range []string{`C:\k`, `C:\g`, `C:\tmp\g2`} {
		fi, e := s.v.Lstat(p)
		if e != nil {
			continue
		}

		names = append(names, p)
		left[p] = s.v.ToSysStat(fi)

		b, _ := s.v.ReadFile(p)
		infos[p] = string(b)
	}

	sort.Strings(names)

	for _, p := range names {
		st.Checks++

		fiP, _ := s.v.Lstat(p)
		same := 0

		for _, q := range names {
			fiQ, _ := s.v.Lstat(q)
			if s.v.SameFile(fiP, fiQ) {
				same++
			}
		}

		if n := left[p].Nlink(); n != uint64(same) {
			report("volume-content", "VolumeDelete", "link count of a name on the remaining volume differs from the number of names left for its file",
				map[string]any{"name": p, "nlink": n, "names_left_for_the_file": same})

			return nil
		}

		want := "D"
		if p == `C:\k` {
			want = "C"
		}

		if infos[p] != want {
			report("volume-content", "VolumeDelete", "content of a name on the remaining volume changed",
				map[string]any{"name": p, "content": infos[p], "expected": want})

			return nil
		}
	}

	for _, l := range links {
		if strings.HasPrefix(l.to, `C:`) {
			if _, ok := left[l.to]; !ok {
				report("volume-content", "VolumeDelete", "a name on the remaining volume disappeared", map[string]any{"name": l.to})

				return nil
			}
		}
	}

	// the volume is gone, and one added again under its name is empty
	if _, e := s.v.Stat(`D:\`); e == nil {
		report("volume-content", "VolumeDelete", "the root of the deleted volume still resolves", map[string]any{})

		return nil
	}

	if !must(`VolumeAdd("D:") again`, func() error { return vm.VolumeAdd("D:") }) {
		report("volume-content", "VolumeAdd", "a deleted volume cannot be added again", map[string]any{})

		return nil
	}

	ents, e := s.v.ReadDir(`D:\`)
	if e != nil || len(ents) != 0 {
		var l []string
		for _, en := range ents {
			l = append(l, en.Name())
		}

		report("volume-content", "VolumeAdd", "a volume added again after its deletion is not empty", map[string]any{"entries": l, "error": fmt.Sprint(e)})
	}

	return nil
}
