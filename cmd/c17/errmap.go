package main

import (
	"errors"
	"fmt"
	"io/fs"
	"os"
	"path/filepath"
	"strings"
	"syscall"

	"github.com/avfs/avfs"

	"verif/lib/fsx"
)

// Error families. The property: a Windows-typed file system "returns Windows
// error values", a Linux-typed one "keeps POSIX behaviour". errors.go defines
// three value types: avfs.LinuxError, avfs.WindowsError and avfs.CustomError
// (OS-independent: negative offset, closed file, pattern separator, volumes).
const (
	famOK      = "ok"
	famLinux   = "LinuxError"
	famWindows = "WindowsError"
	famCustom  = "CustomError"
)

// innerErr unwraps the os-style wrappers.
func innerErr(err error) error {
	for i := 0; i < 8 && err != nil; i++ {
		switch e := err.(type) {
		case *fs.PathError:
			err = e.Err
		case *os.LinkError:
			err = e.Err
		case *os.SyscallError:
			err = e.Err
		default:
			return err
		}
	}

	return err
}

// family returns the type family of the innermost error value.
func family(err error) string {
	if err == nil {
		return famOK
	}

	switch e := innerErr(err).(type) {
	case nil:
		return "nil-inner"
	case avfs.LinuxError:
		return famLinux
	case avfs.WindowsError:
		return famWindows
	case avfs.CustomError:
		return famCustom
	default:
		if e == fs.ErrClosed || e == fs.ErrInvalid || e == fs.ErrExist || e == fs.ErrNotExist || e == fs.ErrPermission {
			return "io/fs sentinel"
		}

		// path/filepath's sentinel for a malformed pattern (Glob, Match): the one
		// value package path/filepath itself returns on every OS
		if e == filepath.ErrBadPattern {
			return "io/fs sentinel"
		}

		return fmt.Sprintf("%T", e)
	}
}

// familyOK says whether an error of family fam may be returned by an instance
// of the given OS type. CustomError is accepted on both (documented in
// errors.go as OS-independent values).
func familyOK(win bool, fam string) bool {
	switch fam {
	case famOK, famCustom:
		return true
	case famWindows:
		return win
	case famLinux:
		return !win
	}

	return false
}

// Error classes. The correspondence Linux value <-> Windows value is read off
// avfs.Errors.SetOSType (errors.go:222-249), which is the code's own statement
// of "the same failure on the other OS":
//
//	BadFileDesc     EBADF     <-> ErrWinAccessDenied (5)
//	DirNotEmpty     ENOTEMPTY <-> ErrWinDirNotEmpty (145)
//	FileExists      EEXIST    <-> ErrWinFileExists (80)
//	InvalidArgument EINVAL    <-> ErrWinNegativeSeek (131)
//	IsADirectory    EISDIR    <-> ErrWinIsADirectory (21)
//	NoSuchDir       ENOENT    <-> ErrWinPathNotFound (3)
//	NoSuchFile      ENOENT    <-> ErrWinFileNotFound (2)
//	NotADirectory   ENOTDIR   <-> ErrWinPathNotFound (3)
//	OpNotPermitted  EPERM     <-> ErrWinNotSupported (0x20000082)
//	PermDenied      EACCES    <-> ErrWinAccessDenied (5)
//	TooManySymlinks ELOOP     <-> ELOOP (same value; its *family* is checked separately)
//
// plus the explicit `OSType() == avfs.OsWindows` branches inside single calls
// (memfs.go / orefafs.go / *_file.go), listed per call below.
var genericCompat = map[string][]string{
	"EBADF":     {"WIN5"},
	"ENOTEMPTY": {"WIN145"},
	"EEXIST":    {"WIN80"},
	"EINVAL":    {"WIN131"},
	"EISDIR":    {"WIN21"},
	"ENOENT":    {"WIN2", "WIN3"},
	"ENOTDIR":   {"WIN3"},
	"EPERM":     {"WIN536871042"},
	"EACCES":    {"WIN5"},
	"ELOOP":     {"ELOOP"},
}

// callCompat: pairs stated by an `OSType() == avfs.OsWindows` branch in the
// body of one call (memfs.go, orefafs.go, *_file.go).
var callCompat = map[string]map[string][]string{
	// Chdir on a non-directory: ErrWinDirNameInvalid
	"Chdir": {"ENOTDIR": {"WIN267"}},
	// Link: new name exists -> ErrWinAlreadyExists; old name is a directory -> ErrWinAccessDenied
	"Link": {"EEXIST": {"WIN183"}, "EPERM": {"WIN5"}},
	// Readlink of a non-link: ErrWinNotReparsePoint (MemFS EINVAL, OrefaFS EACCES)
	"Readlink": {"EINVAL": {"WIN4390"}, "EACCES": {"WIN4390"}},
	// Rename over an existing directory / of a directory over something: ErrWinAccessDenied
	"Rename": {"EEXIST": {"WIN5"}},
	// OrefaFS.Symlink (not supported): ErrWinPrivilegeNotHeld
	"Symlink": {"EACCES": {"WIN1314"}},
	// Truncate: "truncate(2) rejects a negative length before looking at the name"
	// on non-Windows types only; a Windows type opens the name first, so EINVAL
	// faces whatever the lookup reports.
	"Truncate": {"EINVAL": {"WIN2", "WIN3", "WIN21", "ELOOP"}},
	// File.ReadDir / File.Chdir on a non-directory: ErrWinDirNameInvalid or NotADirectory
	"ReadDir":   {"ENOTDIR": {"WIN267"}},
	"F.ReadDir": {"ENOTDIR": {"WIN3", "WIN267"}, "closed": {"WIN6"}},
	"F.Chdir":   {"ENOTDIR": {"WIN267"}},
	// File.Read on a directory: ErrWinIncorrectFunc; on a closed handle: ErrWinInvalidHandle
	"ReadFile": {"EISDIR": {"WIN1"}},
	"F.Read":   {"EISDIR": {"WIN1"}, "closed": {"WIN6"}},
	"F.ReadAt": {"EISDIR": {"WIN1"}, "closed": {"WIN6"}},
	"F.Stat":   {"closed": {"WIN6"}},
	"F.Seek":   {"closed": {"WIN6"}},
	// File.Truncate on a handle not open for writing / on a directory: ErrWinAccessDenied
	"F.Truncate": {"EINVAL": {"WIN5"}},
}

// classCompatible: do a Linux-side and a Windows-side failure denote the same
// failure class? lf, wf are the families of the two values: an OS-independent
// value (CustomError, io/fs sentinel) is its own counterpart.
func classCompatible(call, lk, wk, lf, wf string) bool {
	if lk == wk && permissive(lf) == famCustom && permissive(wf) == famCustom {
		return true
	}

	for _, w := range genericCompat[lk] {
		if w == wk {
			return true
		}
	}

	for _, w := range callCompat[call][lk] {
		if w == wk {
			return true
		}
	}

	return false
}

// permissive folds the OS-independent library sentinels (fs.ErrClosed,
// fs.ErrInvalid, fs.ErrExist ... — what package os itself returns on every OS)
// into the accepted OS-independent family.
func permissive(fam string) string {
	if fam == "io/fs sentinel" {
		return famCustom
	}

	return fam
}

// portableClass names the class of a failure kind independent of the OS type
// (used inside tree dumps, where a failing Lstat/ReadDir is part of the dump).
func portableClass(kind string) string {
	switch kind {
	case "ENOENT", "ENOTDIR", "WIN2", "WIN3":
		return "notfound"
	case "EEXIST", "WIN80", "WIN183":
		return "exists"
	case "ENOTEMPTY", "WIN145":
		return "notempty"
	case "EISDIR", "WIN21", "WIN1":
		return "isdir"
	case "EACCES", "EPERM", "EBADF", "WIN5", "WIN536871042":
		return "denied"
	case "EINVAL", "WIN131", "WIN4390":
		return "invalid"
	case "ELOOP":
		return "loop"
	}

	return kind
}

// Portable error classes.
//
// General lesson: "the call fails on both types" is not yet an answer a
// portable caller can use. What a caller written once for both OS types does
// with a failure is ask for its CLASS — errors.Is(err, fs.ErrNotExist /
// fs.ErrExist / fs.ErrPermission), avfs.IsNotExist, avfs.IsExist — and branch
// (Exists, DirExists, IsEmpty, MkdirTemp's retry loop, MkdirAll-like code of
// users). The class is a function of the error VALUE coded in the value type's
// Is method, one switch per OS type, and a value dropped from one switch is
// invisible as long as failures are compared as nil / non-nil or by the
// number of the value. So the class is part of the compared answer of every
// failing call:
//
//  1. per side ("returns Windows error values", "keeps POSIX behaviour"): the
//     value has the class the same errno has on the OS it stands for — on the
//     Linux type the class of syscall.Errno(n) on this (Linux) host, on the
//     Windows type the table of syscall.Errno.Is of GOOS=windows
//     ($GOROOT/src/syscall/syscall_windows.go), winClass below;
//  2. pairwise: a failure that is in a class on the Linux type is in the same
//     class on the Windows type, unless an `OSType() == OsWindows` branch in the
//     body of the call (callCompat) states another value. The converse is not
//     demanded: Errors.SetOSType maps ENOTDIR to ErrWinPathNotFound and EBADF
//     to ErrWinAccessDenied, which have a class where the Linux value has none
//     (what Windows itself answers; rule 1 judges that side).
//
// and the helpers of the root package that branch on the class are calls of
// the alphabet (classHelperOps, pair.go), where the difference is one of
// success or failure.
var portableTargets = []struct {
	name   string
	target error
}{
	{"notexist", fs.ErrNotExist},
	{"exist", fs.ErrExist},
	{"permission", fs.ErrPermission},
}

// errClass names the portable classes err is in ("" = none; several are joined
// by "+"). avfs.IsNotExist / avfs.IsExist are asked too: an answer that differs
// from errors.Is is marked.
func errClass(err error) string {
	if err == nil {
		return ""
	}

	var cl []string

	for _, t := range portableTargets {
		is := errors.Is(err, t.target)
		if is {
			cl = append(cl, t.name)
		}

		switch t.name {
		case "notexist":
			if avfs.IsNotExist(err) != is {
				cl = append(cl, "IsNotExist-differs")
			}
		case "exist":
			if avfs.IsExist(err) != is {
				cl = append(cl, "IsExist-differs")
			}
		}
	}

	return strings.Join(cl, "+")
}

// winClass: the classes of the Windows error numbers, syscall.Errno.Is of
// GOOS=windows (ERROR_FILE_NOT_FOUND 2, ERROR_PATH_NOT_FOUND 3,
// ERROR_BAD_NETPATH 53; ERROR_ACCESS_DENIED 5; ERROR_FILE_EXISTS 80,
// ERROR_DIR_NOT_EMPTY 145, ERROR_ALREADY_EXISTS 183).
var winClass = map[uintptr]string{
	2: "notexist", 3: "notexist", 53: "notexist",
	5:  "permission",
	80: "exist", 145: "exist", 183: "exist",
}

// wantClass is the class the innermost value of err has on the OS its type
// stands for; ok is false for values that are not an errno of either OS
// (CustomError, io/fs sentinels, a helper's own error): nothing to compare with.
func wantClass(err error) (class string, ok bool) {
	switch e := innerErr(err).(type) {
	case avfs.LinuxError:
		return errClass(syscall.Errno(e)), true
	case avfs.WindowsError:
		return winClass[uintptr(e)], true
	}

	return "", false
}

// classFindings judges the classes of a call that failed on both sides (see
// "Portable error classes"): the "what" of every finding, kind error-class.
func classFindings(call string, lr, wr result) (whats []string) {
	if lr.HasWant && lr.Class != lr.Want {
		whats = append(whats, fmt.Sprintf("Linux-typed instance: the value is in class %q for errors.Is, the errno is in %q on Linux", lr.Class, lr.Want))
	}

	if wr.HasWant && wr.Class != wr.Want {
		whats = append(whats, fmt.Sprintf("Windows-typed instance: the value is in class %q for errors.Is, the errno is in %q on Windows", wr.Class, wr.Want))
	}

	if lr.Class != "" && lr.Class != wr.Class {
		for _, w := range callCompat[call][lr.Kind] {
			if w == wr.Kind {
				return whats // another value by an OS branch of the call itself
			}
		}

		whats = append(whats, fmt.Sprintf("the failure is in class %q on the Linux type and in %q on the Windows type", lr.Class, wr.Class))
	}

	return whats
}

// Which of the two not-found values.
//
// General lesson: an error table that maps ONE value of the emulated-from OS
// to TWO values of the emulated OS (ENOENT -> ERROR_FILE_NOT_FOUND 2 /
// ERROR_PATH_NOT_FOUND 3) cannot be judged by family and class alone: both
// values are Windows values and both are in fs.ErrNotExist, so the branch that
// chooses between them (one per call, written by hand in each emulation) is
// free to look at the wrong thing — the other operand of a two-path call, the
// wrong directory — without any caller that asks "did it fail / is it
// not-exist" noticing. The choice needs no Windows host to be judged: Windows
// answers ERROR_PATH_NOT_FOUND when a DIRECTORY on the way to the name is
// missing and ERROR_FILE_NOT_FOUND when only the last element is, and which of
// the two holds is a fact of the tree before the call, which the driver
// already computes for the signature (operandClass: "missing" / "missing(parent
// missing)"). So for every call that fails with ENOENT on the Linux type
// because an operand is missing (not below a file, not through a link: those
// classes have other answers), the value on the Windows type is determined by
// the class of the RESPONSIBLE operand; for the two-path calls (Rename, Link)
// the responsible operand is the one the Linux side's rules name: the old name
// is looked up first, the new name only matters when the old one exists. Both
// operands are enumerated independently, so states where exactly one of the
// two parent directories exists are reached (a choice made from the other
// operand's directory agrees with the right one whenever both exist or both
// are missing). CreateTemp names a DIRECTORY: the entry to create is below it,
// so a missing operand of either class is a directory on the way. MkdirTemp
// does too, but (as os.MkdirTemp) answers a failed creation with the error of
// a Stat of that directory: it goes by the class of the operand like Stat.
const (
	clsMissing       = "missing"
	clsParentMissing = "missing(parent missing)"
)

// notFoundWant returns the Windows not-found value ("WIN2"/"WIN3") the operand
// classes of a call failing with ENOENT on the Linux type determine, which
// operand is responsible (role "operand" / "old name" / "new name" /
// "directory", its class, idx 0 = c.A, 1 = c.B); want "" when the classes do
// not determine it (operands below links or files, default locations,
// patterns).
func notFoundWant(c fsx.Call, operands string) (want, role, class string, idx int) {
	byClass := func(cl string) string {
		switch strings.TrimPrefix(cl, "rel:") {
		case clsMissing:
			return "WIN2"
		case clsParentMissing:
			return "WIN3"
		}

		return ""
	}

	switch c.Op {
	case "Rename", "Link":
		f := strings.SplitN(operands, ",", 3)
		if len(f) < 2 {
			return "", "", "", 0
		}

		if w := byClass(f[0]); w != "" {
			return w, "old name", strings.TrimPrefix(f[0], "rel:"), 0
		}

		// the old name exists as itself (no link on the way or at the end, whose
		// resolution could be what failed): only a missing directory of the new
		// name is left as the reason of ENOENT
		switch f[0] {
		case "file", "file(links)", "dirEmpty", "dirNonEmpty":
			if byClass(f[1]) == "WIN3" {
				return "WIN3", "new name", clsParentMissing, 1
			}
		}

		return "", "", "", 0
	case "CreateTemp":
		if byClass(operands) != "" {
			return "WIN3", "directory", strings.TrimPrefix(operands, "rel:"), 0
		}

		return "", "", "", 0
	case "Symlink":
		// the operand class is the one of the new name (c.B); c.A is content
		return byClass(operands), "new name", strings.TrimPrefix(operands, "rel:"), 1
	}

	return byClass(operands), "operand", strings.TrimPrefix(operands, "rel:"), 0
}

// notFoundFinding is one deviation from the rule of "Which of the two
// not-found values".
type notFoundFinding struct {
	what, role, class string
	idx               int  // responsible operand: 0 = A, 1 = B
	dirItself         bool // CreateTemp: the operand is the directory
}

// notFoundFindings judges the value of a call that failed on both sides with
// ENOENT on the Linux type and one of the two not-found values on the Windows
// type (see "Which of the two not-found values"): kind error-value.
func notFoundFindings(c fsx.Call, operands string, lr, wr result) (fs []notFoundFinding) {
	if lr.Kind != "ENOENT" || (wr.Kind != "WIN2" && wr.Kind != "WIN3") {
		return nil
	}

	want, role, class, idx := notFoundWant(c, operands)
	if want == "" || want == wr.Kind {
		return nil
	}

	names := map[string]string{"WIN2": "ErrWinFileNotFound (only the last element is missing)", "WIN3": "ErrWinPathNotFound (a directory on the way is missing)"}

	return []notFoundFinding{{
		what: fmt.Sprintf("ENOENT on the Linux type for %s %s: the Windows type owes %s, it answers %s", role, class, names[want], wr.Kind),
		role: role, class: class, idx: idx, dirItself: c.Op == "CreateTemp",
	}}
}

// The calls of the unchanged tree that break the rule above are listed in
// known_findings.txt (KF-C17-006, KF-C17-007): a Windows-typed OrefaFS answers
// ErrWinFileNotFound where a directory on the way to the responsible operand
// is missing in Chdir, Chtimes, Remove, Truncate, Rename (either name) and Link
// (new name) — these calls look the name up in the flat node map and never
// look at its directory; the Windows-typed MemFS answers ErrWinPathNotFound.
