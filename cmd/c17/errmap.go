package main

import (
	"fmt"
	"io/fs"
	"os"
	"path/filepath"

	"github.com/avfs/avfs"
)

// Error families. The property: a Windows-typed file system "returns Windows
// error values", a Linux-typed one "keeps POSIX behaviour". errors.go defines
// three value types: avfs.LinuxError, avfs.WindowsError and avfs.CustomError
// (OS-independent: negative offset, closed file, pattern separator, volumes).
const (
	famOK      = "ok"
	famLinux   = "LinuxError"
	famWindows = "WindowsError"
	famCustom  = "CustomError"
)

// innerErr unwraps the os-style wrappers.
func innerErr(err error) error {
	for i := 0; i < 8 && err != nil; i++ {
		switch e := err.(type) {
		case *fs.PathError:
			err = e.Err
		case *os.LinkError:
			err = e.Err
		case *os.SyscallError:
			err = e.Err
		default:
			return err
		}
	}

	return err
}

// family returns the type family of the innermost error value.
func family(err error) string {
	if err == nil {
		return famOK
	}

	switch e := innerErr(err).(type) {
	case nil:
		return "nil-inner"
	case avfs.LinuxError:
		return famLinux
	case avfs.WindowsError:
		return famWindows
	case avfs.CustomError:
		return famCustom
	default:
		if e == fs.ErrClosed || e == fs.ErrInvalid || e == fs.ErrExist || e == fs.ErrNotExist || e == fs.ErrPermission {
			return "io/fs sentinel"
		}

		// path/filepath's sentinel for a malformed pattern (Glob, Match): the one
		// value package path/filepath itself returns on every OS
		if e == filepath.ErrBadPattern {
			return "io/fs sentinel"
		}

		return fmt.Sprintf("%T", e)
	}
}

// familyOK says whether an error of family fam may be returned by an instance
// of the given OS type. CustomError is accepted on both (documented in
// errors.go as OS-independent values).
func familyOK(win bool, fam string) bool {
	switch fam {
	case famOK, famCustom:
		return true
	case famWindows:
		return win
	case famLinux:
		return !win
	}

	return false
}

// Error classes. The correspondence Linux value <-> Windows value is read off
// avfs.Errors.SetOSType (errors.go:222-249), which is the code's own statement
// of "the same failure on the other OS":
//
//	BadFileDesc     EBADF     <-> ErrWinAccessDenied (5)
//	DirNotEmpty     ENOTEMPTY <-> ErrWinDirNotEmpty (145)
//	FileExists      EEXIST    <-> ErrWinFileExists (80)
//	InvalidArgument EINVAL    <-> ErrWinNegativeSeek (131)
//	IsADirectory    EISDIR    <-> ErrWinIsADirectory (21)
//	NoSuchDir       ENOENT    <-> ErrWinPathNotFound (3)
//	NoSuchFile      ENOENT    <-> ErrWinFileNotFound (2)
//	NotADirectory   ENOTDIR   <-> ErrWinPathNotFound (3)
//	OpNotPermitted  EPERM     <-> ErrWinNotSupported (0x20000082)
//	PermDenied      EACCES    <-> ErrWinAccessDenied (5)
//	TooManySymlinks ELOOP     <-> ELOOP (same value; its *family* is checked separately)
//
// plus the explicit `OSType() == avfs.OsWindows` branches inside single calls
// (memfs.go / orefafs.go / *_file.go), listed per call below.
var genericCompat = map[string][]string{
	"EBADF":     {"WIN5"},
	"ENOTEMPTY": {"WIN145"},
	"EEXIST":    {"WIN80"},
	"EINVAL":    {"WIN131"},
	"EISDIR":    {"WIN21"},
	"ENOENT":    {"WIN2", "WIN3"},
	"ENOTDIR":   {"WIN3"},
	"EPERM":     {"WIN536871042"},
	"EACCES":    {"WIN5"},
	"ELOOP":     {"ELOOP"},
}

// callCompat: pairs stated by an `OSType() == avfs.OsWindows` branch in the
// body of one call (memfs.go, orefafs.go, *_file.go).
var callCompat = map[string]map[string][]string{
	// Chdir on a non-directory: ErrWinDirNameInvalid
	"Chdir": {"ENOTDIR": {"WIN267"}},
	// Link: new name exists -> ErrWinAlreadyExists; old name is a directory -> ErrWinAccessDenied
	"Link": {"EEXIST": {"WIN183"}, "EPERM": {"WIN5"}},
	// Readlink of a non-link: ErrWinNotReparsePoint (MemFS EINVAL, OrefaFS EACCES)
	"Readlink": {"EINVAL": {"WIN4390"}, "EACCES": {"WIN4390"}},
	// Rename over an existing directory / of a directory over something: ErrWinAccessDenied
	"Rename": {"EEXIST": {"WIN5"}},
	// OrefaFS.Symlink (not supported): ErrWinPrivilegeNotHeld
	"Symlink": {"EACCES": {"WIN1314"}},
	// Truncate: "truncate(2) rejects a negative length before looking at the name"
	// on non-Windows types only; a Windows type opens the name first, so EINVAL
	// faces whatever the lookup reports.
	"Truncate": {"EINVAL": {"WIN2", "WIN3", "WIN21", "ELOOP"}},
	// File.ReadDir / File.Chdir on a non-directory: ErrWinDirNameInvalid or NotADirectory
	"ReadDir":   {"ENOTDIR": {"WIN267"}},
	"F.ReadDir": {"ENOTDIR": {"WIN3", "WIN267"}, "closed": {"WIN6"}},
	"F.Chdir":   {"ENOTDIR": {"WIN267"}},
	// File.Read on a directory: ErrWinIncorrectFunc; on a closed handle: ErrWinInvalidHandle
	"ReadFile": {"EISDIR": {"WIN1"}},
	"F.Read":   {"EISDIR": {"WIN1"}, "closed": {"WIN6"}},
	"F.ReadAt": {"EISDIR": {"WIN1"}, "closed": {"WIN6"}},
	"F.Stat":   {"closed": {"WIN6"}},
	"F.Seek":   {"closed": {"WIN6"}},
	// File.Truncate on a handle not open for writing / on a directory: ErrWinAccessDenied
	"F.Truncate": {"EINVAL": {"WIN5"}},
}

// classCompatible: do a Linux-side and a Windows-side failure denote the same
// failure class? lf, wf are the families of the two values: an OS-independent
// value (CustomError, io/fs sentinel) is its own counterpart.
func classCompatible(call, lk, wk, lf, wf string) bool {
	if lk == wk && permissive(lf) == famCustom && permissive(wf) == famCustom {
		return true
	}

	for _, w := range genericCompat[lk] {
		if w == wk {
			return true
		}
	}

	for _, w := range callCompat[call][lk] {
		if w == wk {
			return true
		}
	}

	return false
}

// permissive folds the OS-independent library sentinels (fs.ErrClosed,
// fs.ErrInvalid, fs.ErrExist ... — what package os itself returns on every OS)
// into the accepted OS-independent family.
func permissive(fam string) string {
	if fam == "io/fs sentinel" {
		return famCustom
	}

	return fam
}

// portableClass names the class of a failure kind independent of the OS type
// (used inside tree dumps, where a failing Lstat/ReadDir is part of the dump).
func portableClass(kind string) string {
	switch kind {
	case "ENOENT", "ENOTDIR", "WIN2", "WIN3":
		return "notfound"
	case "EEXIST", "WIN80", "WIN183":
		return "exists"
	case "ENOTEMPTY", "WIN145":
		return "notempty"
	case "EISDIR", "WIN21", "WIN1":
		return "isdir"
	case "EACCES", "EPERM", "EBADF", "WIN5", "WIN536871042":
		return "denied"
	case "EINVAL", "WIN131", "WIN4390":
		return "invalid"
	case "ELOOP":
		return "loop"
	}

	return kind
}
