package main

import (
	"fmt"
	"io/fs"
	"os"
	"strings"

	"github.com/avfs/avfs"
)

// Error families. The property: a Windows-typed file system "returns Windows
// error values", a Linux-typed one "keeps POSIX behaviour". errors.go defines
// three value types: avfs.LinuxError, avfs.WindowsError and avfs.CustomError
// (OS-independent: negative offset, closed file, pattern separator, volumes).
const (
	famOK      = "ok"
	famLinux   = "LinuxError"
	famWindows = "WindowsError"
	famCustom  = "CustomError"
)

// innerErr unwraps the os-style wrappers.
func innerErr(err error) error {
	for i := 0; i < 8 && err != nil; i++ {
		switch e := err.(type) {
		case *fs.PathError:
			err = e.Err
		case *os.LinkError:
			err = e.Err
		case *os.SyscallError:
			err = e.Err
		default:
			return err
		}
	}

	return err
}

// family returns the type family of the innermost error value.
func family(err error) string {
	if err == nil {
		return famOK
	}

	switch e := innerErr(err).(type) {
	case nil:
		return "nil-inner"
	case avfs.LinuxError:
		return famLinux
	case avfs.WindowsError:
		return famWindows
	case avfs.CustomError:
		return famCustom
	default:
		if e == fs.ErrClosed || e == fs.ErrInvalid || e == fs.ErrExist || e == fs.ErrNotExist || e == fs.ErrPermission {
			return "io/fs sentinel"
		}

		return fmt.Sprintf("%T", e)
	}
}

// kindFamily infers the family from an fsx outcome kind (fsx.ErrKind): "WINn"
// is produced only for avfs.WindowsError, errno names for avfs.LinuxError
// (or a host errno, which avfs never returns from the emulated file systems),
// the remaining names for CustomError / library sentinels.
func kindFamily(kind string) string {
	switch {
	case kind == "ok":
		return famOK
	case strings.HasPrefix(kind, "WIN"):
		return famWindows
	case kind == "negative-offset", kind == "closed", kind == "pattern-sep", strings.HasPrefix(kind, "custom:"):
		return famCustom
	case kind == "PANIC", kind == "DEADLOCK":
		return kind
	case len(kind) > 1 && kind[0] == 'E' && strings.ToUpper(kind) == kind, strings.HasPrefix(kind, "errno"):
		return famLinux
	}

	return "other"
}

// familyOK says whether an error of family fam may be returned by an instance
// of the given OS type. CustomError is accepted on both (documented in
// errors.go as OS-independent values).
func familyOK(win bool, fam string) bool {
	switch fam {
	case famOK, famCustom:
		return true
	case famWindows:
		return win
	case famLinux:
		return !win
	}

	return false
}

// Error classes. The correspondence Linux value <-> Windows value is read off
// avfs.Errors.SetOSType (errors.go:222-249), which is the code's own statement
// of "the same failure on the other OS":
//
//	BadFileDesc     EBADF     <-> ErrWinAccessDenied (5)
//	DirNotEmpty     ENOTEMPTY <-> ErrWinDirNotEmpty (145)
//	FileExists      EEXIST    <-> ErrWinFileExists (80)
//	InvalidArgument EINVAL    <-> ErrWinNegativeSeek (131)
//	IsADirectory    EISDIR    <-> ErrWinIsADirectory (21)
//	NoSuchDir       ENOENT    <-> ErrWinPathNotFound (3)
//	NoSuchFile      ENOENT    <-> ErrWinFileNotFound (2)
//	NotADirectory   ENOTDIR   <-> ErrWinPathNotFound (3)
//	OpNotPermitted  EPERM     <-> ErrWinNotSupported (0x20000082)
//	PermDenied      EACCES    <-> ErrWinAccessDenied (5)
//	TooManySymlinks ELOOP     <-> ELOOP (same value; its *family* is checked separately)
//
// plus the explicit `OSType() == avfs.OsWindows` branches inside single calls
// (memfs.go / orefafs.go / *_file.go), listed per call below.
var genericCompat = map[string][]string{
	"EBADF":     {"WIN5"},
	"ENOTEMPTY": {"WIN145"},
	"EEXIST":    {"WIN80"},
	"EINVAL":    {"WIN131"},
	"EISDIR":    {"WIN21"},
	"ENOENT":    {"WIN2", "WIN3"},
	"ENOTDIR":   {"WIN3"},
	"EPERM":     {"WIN536871042"},
	"EACCES":    {"WIN5"},
	"ELOOP":     {"ELOOP"},
}

// callCompat: pairs stated by an OS branch in the body of one call.
var callCompat = map[string]map[string][]string{
	"Chdir":    {"ENOTDIR": {"WIN267"}},              // memfs.go:65, orefafs.go:66 ErrWinDirNameInvalid
	"Link":     {"EEXIST": {"WIN183"}, "EPERM": {"WIN5"}}, // memfs.go:330,346; orefafs.go:369,378
	"Readlink": {"EINVAL": {"WIN4390"}, "EACCES": {"WIN4390"}}, // memfs.go:629; orefafs.go:663
	"Rename":   {"EEXIST": {"WIN5"}},                 // memfs.go:793,809; orefafs.go:797
	"Symlink":  {"EACCES": {"WIN1314"}},              // orefafs.go:927
	"ReadDir":  {"ENOTDIR": {"WIN267"}},              // *_file.go ReadDir/Chdir on a non-directory handle
	"ReadFile": {"EISDIR": {"WIN1"}},                 // *_file.go Read on a directory: ErrWinIncorrectFunc
	"F.Read":   {"EISDIR": {"WIN1"}, "closed": {"WIN6"}},
	"F.ReadAt": {"EISDIR": {"WIN1"}, "closed": {"WIN6"}},
	"F.ReadDir": {"ENOTDIR": {"WIN3", "WIN267"}, "closed": {"WIN6"}},
	"F.Stat":   {"closed": {"WIN6"}},
	"F.Seek":   {"closed": {"WIN6"}},
	"F.Chdir":  {"ENOTDIR": {"WIN267"}},
	"F.Truncate": {"EINVAL": {"WIN5"}},               // *_file.go:586 Truncate on a handle not open for writing
}

// classCompatible: do a Linux-side and a Windows-side failure kind denote the
// same failure class?
func classCompatible(call, lk, wk string) bool {
	if lk == wk && kindFamily(lk) == famCustom {
		return true
	}

	for _, w := range genericCompat[lk] {
		if w == wk {
			return true
		}
	}

	for _, w := range callCompat[call][lk] {
		if w == wk {
			return true
		}
	}

	return false
}

// portableClass names the class of a failure kind independent of the OS type
// (used inside tree dumps, where a failing Lstat/ReadDir is part of the dump).
func portableClass(kind string) string {
	switch kind {
	case "ENOENT", "ENOTDIR", "WIN2", "WIN3":
		return "notfound"
	case "EEXIST", "WIN80", "WIN183":
		return "exists"
	case "ENOTEMPTY", "WIN145":
		return "notempty"
	case "EISDIR", "WIN21", "WIN1":
		return "isdir"
	case "EACCES", "EPERM", "EBADF", "WIN5", "WIN536871042":
		return "denied"
	case "EINVAL", "WIN131", "WIN4390":
		return "invalid"
	case "ELOOP":
		return "loop"
	}

	return kind
}
