package main

import (
	"fmt"
	"io"
	"os"
	"strings"

	"github.com/avfs/avfs"

	"verif/lib/fsx"
	"verif/lib/kf"
)

// Part (A): static facts of freshly constructed instances and the family of
// the error values returned by deliberately failing calls.

type staticStats struct {
	Facts        []map[string]any `json:"facts"`
	FailingCalls int              `json:"failing_calls_checked"`
	Families     map[string]int   `json:"error_families_seen"` // "<os>/<family>" -> count
	NotFailing   []string         `json:"calls_that_did_not_fail_on_either_side,omitempty"`
	Checked      int              `json:"checks"`
	Defaults     []map[string]any `json:"default_configurations"`
}

// failCase is one deliberately failing call: a portable namespace call or a
// handle scenario.
type failCase struct {
	label  string
	call   fsx.Call                      // when handle == nil
	name   string                        // call name of a handle scenario ("F.Read", ...)
	handle func(s *side) (string, error) // returns the concrete description and the error
	memfs  bool                          // needs symbolic links
}

func openAt(s *side, p string, flag int) (avfs.File, error) {
	return s.v.OpenFile(s.path(p), flag, 0o644)
}

func staticCases() []failCase {
	h := func(p string, flag int, closeFirst bool, f func(avfs.File) error) func(s *side) (string, error) {
		return func(s *side) (string, error) {
			fh, err := openAt(s, p, flag)
			if err != nil {
				return "open " + s.path(p), fmt.Errorf("fixture open failed: %w", err)
			}

			if closeFirst {
				_ = fh.Close()
			} else {
				defer fh.Close()
			}

			return "handle on " + s.path(p), f(fh)
		}
	}

	return []failCase{
		{label: "Stat missing", call: fsx.Call{Op: "Stat", A: "/nope"}},
		{label: "Stat missing parent", call: fsx.Call{Op: "Stat", A: "/nope/x"}},
		{label: "Stat below file", call: fsx.Call{Op: "Stat", A: "/f/x"}},
		{label: "Lstat missing", call: fsx.Call{Op: "Lstat", A: "/nope"}},
		{label: "Mkdir existing dir", call: fsx.Call{Op: "Mkdir", A: "/d", Perm: 0o755}},
		{label: "Mkdir existing file", call: fsx.Call{Op: "Mkdir", A: "/f", Perm: 0o755}},
		{label: "Mkdir missing parent", call: fsx.Call{Op: "Mkdir", A: "/nope/x", Perm: 0o755}},
		{label: "Mkdir below file", call: fsx.Call{Op: "Mkdir", A: "/f/x", Perm: 0o755}},
		{label: "MkdirAll below file", call: fsx.Call{Op: "MkdirAll", A: "/f/x/y", Perm: 0o755}},
		{label: "Remove non-empty dir", call: fsx.Call{Op: "Remove", A: "/d"}},
		{label: "Remove missing", call: fsx.Call{Op: "Remove", A: "/nope"}},
		{label: "OpenFile create, missing parent", call: fsx.Call{Op: "OpenFile", A: "/nope/x", Flag: os.O_RDWR | os.O_CREATE, Perm: 0o644}},
		{label: "OpenFile missing", call: fsx.Call{Op: "OpenFile", A: "/nope", Flag: os.O_RDONLY}},
		{label: "OpenFile dir for writing", call: fsx.Call{Op: "OpenFile", A: "/d", Flag: os.O_WRONLY}},
		{label: "OpenFile excl existing", call: fsx.Call{Op: "OpenFile", A: "/f", Flag: os.O_RDWR | os.O_CREATE | os.O_EXCL, Perm: 0o644}},
		{label: "OpenFile create read-only", call: fsx.Call{Op: "OpenFile", A: "/new", Flag: os.O_RDONLY | os.O_CREATE, Perm: 0o644}},
		{label: "Rename missing", call: fsx.Call{Op: "Rename", A: "/nope", B: "/x"}},
		{label: "Rename file over dir", call: fsx.Call{Op: "Rename", A: "/f", B: "/e"}},
		{label: "Rename dir over file", call: fsx.Call{Op: "Rename", A: "/e", B: "/f"}},
		{label: "Rename dir over dir", call: fsx.Call{Op: "Rename", A: "/e", B: "/d"}},
		{label: "Link missing", call: fsx.Call{Op: "Link", A: "/nope", B: "/x"}},
		{label: "Link directory", call: fsx.Call{Op: "Link", A: "/e", B: "/x"}},
		{label: "Link over existing", call: fsx.Call{Op: "Link", A: "/f", B: "/d/f"}},
		{label: "Readlink non-link", call: fsx.Call{Op: "Readlink", A: "/f"}},
		{label: "Readlink missing", call: fsx.Call{Op: "Readlink", A: "/nope"}},
		{label: "Truncate negative", call: fsx.Call{Op: "Truncate", A: "/f", N: -1}},
		{label: "Truncate dir", call: fsx.Call{Op: "Truncate", A: "/d", N: 0}},
		{label: "Truncate missing", call: fsx.Call{Op: "Truncate", A: "/nope", N: 0}},
		{label: "Chdir on a file", call: fsx.Call{Op: "Chdir", A: "/f"}},
		{label: "Chdir missing", call: fsx.Call{Op: "Chdir", A: "/nope"}},
		{label: "ReadDir on a file", call: fsx.Call{Op: "ReadDir", A: "/f"}},
		{label: "ReadDir missing", call: fsx.Call{Op: "ReadDir", A: "/nope"}},
		{label: "ReadFile on a dir", call: fsx.Call{Op: "ReadFile", A: "/d"}},
		{label: "ReadFile missing", call: fsx.Call{Op: "ReadFile", A: "/nope"}},
		{label: "Chtimes missing", call: fsx.Call{Op: "Chtimes", A: "/nope", N: 1}},
		{label: "WriteFile on a dir", call: fsx.Call{Op: "WriteFile", A: "/d", Data: "x", Perm: 0o644}},
		{label: "CreateTemp missing dir", call: fsx.Call{Op: "CreateTemp", A: "/nope", B: "t*"}},
		{label: "MkdirTemp below file", call: fsx.Call{Op: "MkdirTemp", A: "/f", B: "t*"}},
		{label: "CreateTemp pattern with separator", call: fsx.Call{Op: "CreateTemp", A: "/d", B: "x/y*"}},
		{label: "Symlink over existing", call: fsx.Call{Op: "Symlink", A: "f", B: "/d"}},
		{label: "EvalSymlinks missing", call: fsx.Call{Op: "EvalSymlinks", A: "/nope"}},
		{label: "Stat symlink loop", call: fsx.Call{Op: "Stat", A: "/loop"}, memfs: true},
		{label: "OpenFile symlink loop", call: fsx.Call{Op: "OpenFile", A: "/loop", Flag: os.O_RDONLY}, memfs: true},
		{label: "EvalSymlinks symlink loop", call: fsx.Call{Op: "EvalSymlinks", A: "/loop"}, memfs: true},
		{label: "Mkdir below symlink loop", call: fsx.Call{Op: "Mkdir", A: "/loop/x", Perm: 0o755}, memfs: true},

		{label: "Read after Close", name: "F.Read", handle: h("/f", os.O_RDONLY, true, func(f avfs.File) error {
			_, err := f.Read(make([]byte, 1))

			return err
		})},
		{label: "Stat after Close", name: "F.Stat", handle: h("/f", os.O_RDONLY, true, func(f avfs.File) error {
			_, err := f.Stat()

			return err
		})},
		{label: "ReadDir after Close", name: "F.ReadDir", handle: h("/d", os.O_RDONLY, true, func(f avfs.File) error {
			_, err := f.ReadDir(-1)

			return err
		})},
		{label: "ReadDir on a file handle", name: "F.ReadDir", handle: h("/f", os.O_RDONLY, false, func(f avfs.File) error {
			_, err := f.ReadDir(-1)

			return err
		})},
		{label: "Read on a directory handle", name: "F.Read", handle: h("/d", os.O_RDONLY, false, func(f avfs.File) error {
			_, err := f.Read(make([]byte, 1))

			return err
		})},
		{label: "Seek before start", name: "F.Seek", handle: h("/f", os.O_RDONLY, false, func(f avfs.File) error {
			_, err := f.Seek(-1, io.SeekStart)

			return err
		})},
		{label: "Seek with an invalid whence", name: "F.Seek", handle: h("/f", os.O_RDONLY, false, func(f avfs.File) error {
			_, err := f.Seek(0, 3)

			return err
		})},
		{label: "Write on read-only handle", name: "F.Write", handle: h("/f", os.O_RDONLY, false, func(f avfs.File) error {
			_, err := f.Write([]byte("z"))

			return err
		})},
		{label: "Read on write-only handle", name: "F.Read", handle: h("/f", os.O_WRONLY, false, func(f avfs.File) error {
			_, err := f.Read(make([]byte, 1))

			return err
		})},
		{label: "Truncate on read-only handle", name: "F.Truncate", handle: h("/f", os.O_RDONLY, false, func(f avfs.File) error {
			return f.Truncate(0)
		})},
		{label: "Truncate negative on handle", name: "F.Truncate", handle: h("/f", os.O_RDWR, false, func(f avfs.File) error {
			return f.Truncate(-1)
		})},
		{label: "Chdir on a file handle", name: "F.Chdir", handle: h("/f", os.O_RDONLY, false, func(f avfs.File) error {
			return f.Chdir()
		})},
		{label: "ReadAt negative offset", name: "F.ReadAt", handle: h("/f", os.O_RDONLY, false, func(f avfs.File) error {
			_, err := f.ReadAt(make([]byte, 1), -1)

			return err
		})},
	}
}

// fixture: /d (dir) with /d/f, /e (empty dir), /f (file "x"), MemFS: /loop -> loop.
func staticFixture(s *side) error {
	steps := []fsx.Call{
		{Op: "Mkdir", A: "/d", Perm: 0o755},
		{Op: "WriteFile", A: "/d/f", Data: "x", Perm: 0o644},
		{Op: "Mkdir", A: "/e", Perm: 0o755},
		{Op: "WriteFile", A: "/f", Data: "x", Perm: 0o644},
	}

	if s.kind == "MemFS" {
		steps = append(steps, fsx.Call{Op: "Symlink", A: "loop", B: "/loop"})
	}

	for _, c := range steps {
		if cc, r := s.do(c); r.Kind != "ok" {
			return fmt.Errorf("fixture step %s on %s-typed %s: %s %s", cc, s.osName(), s.kind, r.Kind, r.Msg)
		}
	}

	return nil
}

// runStatic checks part (A). It returns false when a constructor did not
// produce the requested OS type (one violation, nothing else is run).
func runStatic(rep *kf.Reporter, st *staticStats) (constructorsOK bool, harness error) {
	st.Families = map[string]int{}

	kinds := []string{"MemFS", "OrefaFS"}

	// constructors first: no cascade
	for _, kind := range kinds {
		for _, win := range []bool{false, true} {
			if _, _, err := newSide(kind, win); err != nil {
				rep.Report(kf.Sig{"part": "static", "kind": "static", "what": "constructor did not produce requested OS type"},
					map[string]any{"fs": kind, "requested": osTypeOf(win).String(), "detail": err.Error(),
						"go": fmt.Sprintf("%s.NewWithOptions(&Options{OSType: avfs.Os%s}) built with -tags avfs_setostype", kind, osTypeOf(win))})

				st.Facts = append(st.Facts, map[string]any{"fs": kind, "requested": osTypeOf(win).String(), "constructed": false, "detail": err.Error()})

				return false, nil
			}
		}
	}

	for _, kind := range kinds {
		for _, win := range []bool{false, true} {
			s, chdir, err := newSide(kind, win)
			if err != nil {
				return false, err
			}

			wantSep := uint8('/')

			if win {
				wantSep = '\\'
			}

			_, isVM := s.v.(avfs.VolumeManager)
			fact := map[string]any{
				"fs": kind, "requested": osTypeOf(win).String(), "OSType": s.v.OSType().String(),
				"PathSeparator": string(rune(s.v.PathSeparator())), "Features": s.v.Features().String(),
				"HasFeature(FeatSetOSType)": s.v.HasFeature(avfs.FeatSetOSType), "implements VolumeManager": isVM,
				"Chdir(root)": chdir.Kind, "root": s.root,
			}
			st.Facts = append(st.Facts, fact)

			bad := func(what string, got any) {
				rep.Report(kf.Sig{"fs": kind, "part": "static", "call": "", "variant": s.osName() + "-typed", "operands": "",
					"linux": "", "windows": "", "kind": "static", "what": what},
					map[string]any{"fact": fact, "got": fmt.Sprint(got)})
			}

			st.Checked += 4

			if s.v.PathSeparator() != wantSep {
				bad("PathSeparator is not the separator of the requested OS type", string(rune(s.v.PathSeparator())))
			}

			if !s.v.HasFeature(avfs.FeatSetOSType) || s.v.Features()&avfs.FeatSetOSType == 0 {
				bad("Features() lacks FeatSetOSType in an avfs_setostype build", s.v.Features())
			}

			if sep := string(rune(wantSep)); s.v.Join("a", "b") != "a"+sep+"b" || !s.v.IsAbs(s.root) {
				bad("Join / IsAbs do not follow the requested OS type", s.v.Join("a", "b"))
			}

			if vn := avfs.VolumeName(s.v, s.root); (win && vn != "C:") || (!win && vn != "") {
				bad("VolumeName of the root is not the drive volume / empty", vn)
			}

			if win && !isVM {
				// The statement lists VolumeAdd/VolumeDelete/VolumeList for "a MemFS or
				// OrefaFS created with OSType Windows".
				st.Checked++

				bad("Windows-typed instance has no volume management (does not implement avfs.VolumeManager)", isVM)
			}
		}

		for _, fc := range staticCases() {
			if fc.memfs && kind != "MemFS" {
				continue
			}

			var (
				desc [2]string
				res  [2]result
			)

			callName := fc.name

			for i, win := range []bool{false, true} {
				s, _, err := newSide(kind, win) // fresh instance + fixture per case
				if err != nil {
					return true, err
				}

				if err := staticFixture(s); err != nil {
					return true, err
				}

				if fc.handle == nil {
					callName = fc.call.Op

					cc, r := s.do(fc.call)
					desc[i], res[i] = cc.String(), r

					continue
				}

				var herr error

				k, msg := fsx.Guard(func() { desc[i], herr = fc.handle(s) })
				if k != "" {
					res[i] = result{Res: fsx.Res{Kind: k, Msg: msg}, Fam: k}

					continue
				}

				res[i] = errResult("", herr)
			}

			lr, wr := res[0], res[1]

			st.Families["Linux/"+lr.Fam]++
			st.Families["Windows/"+wr.Fam]++

			replay := map[string]any{
				"fs": kind, "fixture": "fresh instance; Mkdir d; WriteFile d/f; Mkdir e; WriteFile f; (MemFS) Symlink loop -> loop",
				"case":    fc.label,
				"linux":   map[string]string{"call": desc[0], "kind": lr.Kind, "family": lr.Fam, "error": lr.Msg},
				"windows": map[string]string{"call": desc[1], "kind": wr.Kind, "family": wr.Fam, "error": wr.Msg},
			}

			sig := func(k, what string) kf.Sig {
				return kf.Sig{"fs": kind, "part": "static", "call": callName, "variant": fc.label, "operands": "",
					"linux": lr.Kind, "windows": wr.Kind, "kind": k, "what": what}
			}

			if lr.Kind == "ok" && wr.Kind == "ok" {
				st.NotFailing = append(st.NotFailing, kind+": "+fc.label)

				continue
			}

			st.FailingCalls++
			st.Checked++

			abn := func(k string) bool { return k == "PANIC" || k == "DEADLOCK" }

			switch {
			case abn(lr.Kind) && lr.Kind == wr.Kind:
				continue // same abnormal behaviour on both OS types: C07's business
			case abn(lr.Kind) || abn(wr.Kind):
				k := wr.Kind
				if abn(lr.Kind) {
					k = lr.Kind
				}

				rep.Report(sig(map[string]string{"PANIC": "panic", "DEADLOCK": "deadlock"}[k], "call does not return normally on one OS type only"), replay)

				continue
			case (lr.Kind == "ok") != (wr.Kind == "ok"):
				rep.Report(sig("outcome", "success on one OS type, failure on the other"), replay)
			}

			if lr.Kind != "ok" && !familyOK(false, permissive(lr.Fam)) {
				rep.Report(sig("error-family", "Linux-typed instance returned a value of family "+lr.Fam), replay)
			}

			if wr.Kind != "ok" && !familyOK(true, permissive(wr.Fam)) {
				rep.Report(sig("error-family", "Windows-typed instance returned a value of family "+wr.Fam), replay)
			}

			if lr.Kind != "ok" && wr.Kind != "ok" {
				// the portable class of the two values (errmap.go "Portable error classes")
				for _, what := range classFindings(callName, lr, wr) {
					rep.Report(sig("error-class", what), replay)
				}
			}

			if errClassReport && lr.Kind != "ok" && wr.Kind != "ok" && !classCompatible(callName, lr.Kind, wr.Kind, lr.Fam, wr.Fam) {
				rep.Report(sig("error-class", "failure kinds are not counterparts in Errors.SetOSType / the call's OS branch"), replay)
			}
		}
	}

	return true, nil
}

// runDefaults judges the default configuration of each kind: the instance is
// built by the constructor alone (its own system directories) with, for MemFS,
// either the identity manager the constructor picks or one of the same emulated
// OS type. Facts, per pair of instances: every default location (role) is, or
// is not, an existing directory on BOTH types, and the calls that rely on the
// default temporary directory (dir == "") agree.
//
// General lesson: see sideCfg. What an instance is right after construction is
// part of the emulation, and it is the one state no history of calls can set up.
func runDefaults(rep *kf.Reporter, st *staticStats) error {
	type cfgOf struct {
		kind string
		cfg  sideCfg
	}

	for _, kc := range []cfgOf{
		{"MemFS", sideCfg{sysDirs: true}},
		{"MemFS", sideCfg{sysDirs: true, idmSame: true}},
		{"OrefaFS", sideCfg{sysDirs: true}},
	} {
		l, _, err := newSideCfg(kc.kind, false, kc.cfg)
		if err != nil {
			return err
		}

		w, _, err := newSideCfg(kc.kind, true, kc.cfg)
		if err != nil {
			return err
		}

		fact := map[string]any{"fs": kc.kind, "config": kc.cfg.String()}

		for _, s := range []*side{l, w} {
			f := map[string]any{"user": s.v.User().Name(), "user_is_admin": s.v.User().IsAdmin(), "idm_os_type": s.v.Idm().OSType().String()}
			for _, r := range s.roles() {
				f[r] = s.rolePath(r)
			}

			fact[s.osName()] = f
		}

		sig := func(call, variant, lk, wk, kind, what string) kf.Sig {
			return kf.Sig{"fs": kc.kind, "part": "static", "call": call, "variant": variant, "operands": "", "config": kc.cfg.String(),
				"linux": lk, "windows": wk, "kind": kind, "what": what}
		}

		// the tree the constructor created, in portable spelling
		ld, _ := l.dump()
		wd, _ := w.dump()
		lm, wm := parseDump(ld), parseDump(wd)
		fact["linux_tree"], fact["windows_tree"] = ld, wd

		for _, r := range l.roles() {
			st.Checked++

			cls := func(e entry) string {
				if e.typ == "" {
					return strings.TrimSuffix(e.bad, ";")
				}

				return e.typ
			}

			if lc, wc := cls(lm[r]), cls(wm[r]); lc != wc {
				rep.Report(sig("", "default location "+r, lc, wc, "default-location",
					"right after construction a default location of the current user (the administrator) is an existing directory on one OS type only"),
					map[string]any{"fact": fact, "role": r, "linux": l.rolePath(r) + ": " + lc, "windows": w.rolePath(r) + ": " + wc,
						"go": fmt.Sprintf("v := %s.NewWithOptions(&Options{OSType: T%s}); v.Lstat(<%s>) for T = Linux, Windows", strings.ToLower(kc.kind),
							map[bool]string{true: ", Idm: memidm.NewWithOptions(&memidm.Options{OSType: T})", false: ""}[kc.cfg.idmSame], r)})
			}
		}

		// calls on the default temporary directory, each on fresh instances
		for _, c := range []fsx.Call{{Op: "CreateTemp", A: "", B: "t*"}, {Op: "MkdirTemp", A: "", B: "t*"}} {
			l2, _, err := newSideCfg(kc.kind, false, kc.cfg)
			if err != nil {
				return err
			}

			w2, _, err := newSideCfg(kc.kind, true, kc.cfg)
			if err != nil {
				return err
			}

			_, lr := l2.do(c)
			_, wr := w2.do(c)
			st.Checked++

			fact[c.String()] = map[string]string{"linux": lr.String(), "windows": wr.String()}

			if (lr.Kind == "ok") != (wr.Kind == "ok") {
				rep.Report(sig(c.Op, "default directory", lr.Kind, wr.Kind, "outcome", "success on one OS type, failure on the other"),
					map[string]any{"fact": fact, "call": c.String(), "linux": lr.String() + " " + lr.Msg, "windows": wr.String() + " " + wr.Msg})
			}
		}

		// the default locations as the helpers spell them for base path "" (the
		// spelling of the library's own test suite and examples), as operands from
		// the root and from another current directory: what a helper returns has
		// to name the same directory from anywhere, on both types
		if err := bothDo(l, w, fsx.Call{Op: "Mkdir", A: "/a", Perm: 0o755}); err != nil {
			return err
		}

		spellings := []struct {
			role, expr string
			get        func(s *side) string
		}{
			{"$TMP", `vfs.TempDir()`, func(s *side) string { return s.v.TempDir() }},
			{"$HOME", `avfs.HomeDir(vfs, "")`, func(s *side) string { return avfs.HomeDir(s.v, "") }},
			{"$HOMEUSER", `avfs.HomeDirUser(vfs, "", vfs.User())`, func(s *side) string { return avfs.HomeDirUser(s.v, "", s.v.User()) }},
		}

		for _, cwd := range []string{"/", "/a"} {
			if cwd != "/" || kc.kind != "OrefaFS" { // OrefaFS cannot address its root (either type); it starts there
				if err := bothDo(l, w, fsx.Call{Op: "Chdir", A: cwd}); err != nil {
					return err
				}
			}

			for _, sp := range spellings {
				if lm[sp.role].typ != "d" || wm[sp.role].typ != "d" {
					continue // not a role of this kind, or judged above
				}

				lc, lr := l.doConcrete(fsx.Call{Op: "Stat", A: sp.get(l)})
				wc, wr := w.doConcrete(fsx.Call{Op: "Stat", A: sp.get(w)})
				st.Checked++

				if (lr.Kind == "ok") != (wr.Kind == "ok") {
					rep.Report(sig("Stat", sp.expr+" from the current directory "+cwd, lr.Kind, wr.Kind, "outcome", "success on one OS type, failure on the other"),
						map[string]any{"fact": fact, "history": []string{"Mkdir(/a)", "Chdir(" + cwd + ")"},
							"linux": lc.String() + ": " + lr.String() + " " + lr.Msg, "windows": wc.String() + ": " + wr.String() + " " + wr.Msg})
				}
			}
		}

		st.Defaults = append(st.Defaults, fact)
	}

	return nil
}

// errClassReport enables the informational error-class comparison (not part
// of the property: it only demands agreement on success or failure).
var errClassReport = os.Getenv("VERIF_C17_ERRCLASS") != ""
