package main

import (
	"fmt"
	"io/fs"
	"sort"
	"strings"

	"github.com/avfs/avfs"

	"verif/lib/fsx"
	"verif/lib/kf"
)

// Part (B): every sequence of volume-management calls up to a length, with
// Mkdir/Stat on the volumes in between, against a set model.
//
// Model of a Windows-typed instance: a set of volume names, initially {C:},
// and per volume whether <vol>\dir exists.
//   VolumeAdd(s)    name(s) == ""      -> ErrVolumeNameInvalid
//                   name(s) in set     -> ErrVolumeAlreadyExists
//                   otherwise          -> nil, set += name(s) (empty volume)
//   VolumeDelete(s) name(s) == ""      -> ErrVolumeNameInvalid
//                   name(s) not in set -> some error
//                   otherwise          -> nil, set -= name(s), content gone
//   VolumeList()    == set (order unspecified)
//   Mkdir(v\dir)    v in set and dir absent -> nil; otherwise an error
//   Stat(v\dir)     v in set and dir present -> nil; otherwise an error
//   Stat(v\)        v in set -> nil; otherwise an error
// name(s) is the leading drive specification "X:" of s (the documented meaning
// of VolumeName for drive-letter paths); the model computes it itself.
// Linux-typed instance: VolumeAdd/VolumeDelete -> ErrVolumeWindows, VolumeList
// empty, whatever happened before.
//
// Case of drive letters: nothing in the code documents whether `d:` and `D:`
// name the same volume. The behaviour of VolumeAdd("D:"); VolumeAdd("d:") is
// observed once, recorded in the evidence, and the model follows it; what is
// checked is that all calls treat case the same way.

type volOp struct {
	Call string // VolumeAdd | VolumeDelete | VolumeList | Mkdir | Stat
	Arg  string
}

func (o volOp) String() string {
	if o.Call == "VolumeList" {
		return "VolumeList()"
	}

	return fmt.Sprintf("%s(%q)", o.Call, o.Arg)
}

func volAlphabet() []volOp {
	var ops []volOp

	for _, v := range []string{`C:`, `D:`, `d:`, `D:\x`, `x`, ``} {
		ops = append(ops, volOp{"VolumeAdd", v}, volOp{"VolumeDelete", v})
	}

	ops = append(ops, volOp{"VolumeList", ""})

	for _, v := range []string{`C:`, `D:`, `d:`} {
		ops = append(ops, volOp{"Mkdir", v + `\dir`}, volOp{"Stat", v + `\dir`}, volOp{"Stat", v + `\`})
	}

	return ops
}

func driveName(s string) string {
	if len(s) >= 2 && s[1] == ':' && (s[0] >= 'a' && s[0] <= 'z' || s[0] >= 'A' && s[0] <= 'Z') {
		return s[:2]
	}

	return ""
}

type volModel struct {
	caseSensitive bool
	vols          map[string]bool // volume -> <vol>\dir exists
}

func (m *volModel) key(name string) string {
	if m.caseSensitive {
		return name
	}

	return strings.ToUpper(name)
}

func (m *volModel) list() []string {
	var l []string
	for v := range m.vols {
		l = append(l, v)
	}

	sort.Strings(l)

	return l
}

// expect returns the expected outcome of op ("ok", a CustomError name, "error")
// the operand class for the signature, and applies the transition.
func (m *volModel) expect(op volOp) (want, class string) {
	name := driveName(op.Arg)
	k := m.key(name)
	hasDir, present := m.vols[k]

	switch {
	case name == "":
		class = "no volume name"
	case present:
		class = "volume present"
	default:
		class = "volume absent"
	}

	switch op.Call {
	case "VolumeAdd":
		switch {
		case name == "":
			return "ErrVolumeNameInvalid", class
		case present:
			return "ErrVolumeAlreadyExists", class
		}

		m.vols[k] = false

		return "ok", class
	case "VolumeDelete":
		switch {
		case name == "":
			return "ErrVolumeNameInvalid", class
		case !present:
			return "error", class
		}

		delete(m.vols, k)

		return "ok", class
	case "VolumeList":
		return "set:" + strings.Join(m.list(), ","), strings.Join(m.list(), ",")
	case "Mkdir":
		if present && !hasDir {
			m.vols[k] = true

			return "ok", class + ", dir absent"
		}

		if present {
			class += ", dir present"
		}

		return "error", class
	case "Stat":
		if strings.HasSuffix(op.Arg, `\dir`) {
			if present && hasDir {
				return "ok", class + ", dir present"
			}

			if present {
				class += ", dir absent"
			}

			return "error", class
		}

		if present {
			return "ok", class + ", volume root"
		}

		return "error", class + ", volume root"
	}

	panic("volModel: " + op.Call)
}

// apply performs op on the real instance and renders the observation in the
// vocabulary of expect.
func volApply(s *side, vm avfs.VolumeManager, m *volModel, op volOp) (got, note string) {
	var (
		err  error
		list []string
	)

	k, msg := fsx.Guard(func() {
		switch op.Call {
		case "VolumeAdd":
			err = vm.VolumeAdd(op.Arg)
		case "VolumeDelete":
			err = vm.VolumeDelete(op.Arg)
		case "VolumeList":
			list = vm.VolumeList()
		case "Mkdir":
			err = s.v.Mkdir(op.Arg, 0o755)
		case "Stat":
			_, err = s.v.Stat(op.Arg)
		}
	})
	if k != "" {
		return k, msg
	}

	if op.Call == "VolumeList" {
		seen := map[string]bool{}
		dup := false

		var l []string

		for _, v := range list {
			kk := v
			if m != nil {
				kk = m.key(v)
			}

			if seen[kk] {
				dup = true
			}

			seen[kk] = true
			l = append(l, kk)
		}

		sort.Strings(l)

		if dup {
			return "set-with-duplicates:" + strings.Join(l, ","), ""
		}

		return "set:" + strings.Join(l, ","), ""
	}

	if err == nil {
		return "ok", ""
	}

	note = err.Error()

	if op.Call == "VolumeAdd" || op.Call == "VolumeDelete" {
		if _, ok := err.(*fs.PathError); !ok {
			return fmt.Sprintf("error not *fs.PathError (%T)", err), note
		}
	}

	switch innerErr(err) {
	case avfs.ErrVolumeAlreadyExists:
		return "ErrVolumeAlreadyExists", note
	case avfs.ErrVolumeNameInvalid:
		return "ErrVolumeNameInvalid", note
	case avfs.ErrVolumeWindows:
		return "ErrVolumeWindows", note
	}

	return "error:" + fsx.ErrKind(err), note
}

func volMatches(want, got string) bool {
	if want == "error" {
		return got != "ok" && got != "PANIC" && got != "DEADLOCK" && !strings.HasPrefix(got, "set") &&
			!strings.HasPrefix(got, "error not")
	}

	return want == got
}

type volStats struct {
	Implements     map[string]bool `json:"implements_VolumeManager"`
	CaseObserved   string          `json:"drive_letter_case_observed"`
	AlphabetSize   int             `json:"alphabet_size"`
	MaxLen         int             `json:"max_sequence_length"`
	Sequences      int             `json:"sequences_enumerated"`
	Calls          int             `json:"calls_executed"`
	ChecksWindows  int             `json:"checks_windows_typed"`
	ChecksLinux    int             `json:"checks_linux_typed"`
	SkippedPrefix  int             `json:"sequences_behind_a_reported_prefix"`
	Outcomes       map[string]int  `json:"outcome_classes"` // "<os>/<call>/<observed>"
	Exhaustive     bool            `json:"exhaustive"`
	SampleSequence []string        `json:"sample_sequence"`
}

func runVolumes(rep *kf.Reporter, maxLen int, st *volStats) error {
	st.Implements = map[string]bool{}
	st.Outcomes = map[string]int{}
	st.MaxLen = maxLen
	st.Exhaustive = true

	for _, kind := range []string{"MemFS", "OrefaFS"} {
		s, _, err := newSide(kind, true)
		if err != nil {
			return err
		}

		_, st.Implements[kind] = s.v.(avfs.VolumeManager)
	}

	// calibration of the undocumented letter-case behaviour
	caseSensitive := true
	{
		s, _, err := newSide("MemFS", true)
		if err != nil {
			return err
		}

		vm := s.v.(avfs.VolumeManager)
		g1, _ := volApply(s, vm, nil, volOp{"VolumeAdd", "D:"})
		g2, _ := volApply(s, vm, nil, volOp{"VolumeAdd", "d:"})

		switch {
		case g1 == "ok" && g2 == "ok":
			st.CaseObserved = "case-sensitive: VolumeAdd(\"D:\"); VolumeAdd(\"d:\") both succeed (undocumented, not judged)"
		case g1 == "ok" && g2 == "ErrVolumeAlreadyExists":
			caseSensitive = false
			st.CaseObserved = "case-insensitive: VolumeAdd(\"d:\") after VolumeAdd(\"D:\") fails with ErrVolumeAlreadyExists (undocumented, not judged)"
		default:
			st.CaseObserved = fmt.Sprintf("undetermined: VolumeAdd(\"D:\") -> %s, VolumeAdd(\"d:\") -> %s; model uses case-sensitive names", g1, g2)
		}
	}

	alpha := volAlphabet()
	st.AlphabetSize = len(alpha)

	for _, win := range []bool{true, false} {
		seq := make([]int, 0, maxLen)

		var rec func() error

		rec = func() error {
			if len(seq) > 0 {
				if err := volRunOne(rep, win, caseSensitive, alpha, seq, st); err != nil {
					return err
				}
			}

			if len(seq) == maxLen {
				return nil
			}

			for i := range alpha {
				seq = append(seq, i)

				if err := rec(); err != nil {
					return err
				}

				seq = seq[:len(seq)-1]
			}

			return nil
		}

		if err := rec(); err != nil {
			return err
		}
	}

	return nil
}

// volRunOne executes one sequence on a fresh MemFS and checks its LAST call
// (the earlier ones were checked when the shorter sequence was enumerated; a
// sequence whose prefix already disagreed with the model is not judged again).
func volRunOne(rep *kf.Reporter, win, caseSensitive bool, alpha []volOp, seq []int, st *volStats) error {
	s, _, err := newSide("MemFS", win)
	if err != nil {
		return err
	}

	vm, ok := s.v.(avfs.VolumeManager)
	if !ok {
		return fmt.Errorf("MemFS does not implement avfs.VolumeManager")
	}

	st.Sequences++

	m := &volModel{caseSensitive: caseSensitive, vols: map[string]bool{"C:": false}}

	var hist []string

	for i, oi := range seq {
		op := alpha[oi]
		last := i == len(seq)-1

		var want, class string

		if win {
			want, class = m.expect(op)
		} else {
			switch op.Call {
			case "VolumeAdd", "VolumeDelete":
				want, class = "ErrVolumeWindows", "linux-typed"
			case "VolumeList":
				want, class = "set:", "linux-typed"
			default:
				want, class = "", "linux-typed" // plain file names on a Linux-typed instance: not judged
			}
		}

		got, note := volApply(s, vm, m, op)
		st.Calls++

		okStep := want == "" || volMatches(want, got)

		if !last {
			if !okStep {
				st.SkippedPrefix++

				return nil
			}

			hist = append(hist, op.String())

			continue
		}

		if want == "" {
			return nil
		}

		if win {
			st.ChecksWindows++
		} else {
			st.ChecksLinux++
		}

		st.Outcomes[s.osName()+"/"+op.Call+"/"+strings.SplitN(got, ":", 2)[0]]++

		if len(st.SampleSequence) == 0 && len(seq) == st.MaxLen && win && op.Call == "VolumeList" && len(m.vols) > 1 {
			st.SampleSequence = append(append([]string{}, hist...), op.String()+" -> "+got)
		}

		if okStep {
			return nil
		}

		sig := kf.Sig{
			"fs": "MemFS", "part": "volumes", "call": op.Call, "variant": op.Arg, "operands": class,
			"linux": "", "windows": "", "kind": "volume-model", "what": "expected " + want,
		}

		if k := map[string]string{"PANIC": "panic", "DEADLOCK": "deadlock"}[got]; k != "" {
			sig["kind"] = k
		}

		sig[strings.ToLower(s.osName())] = got

		rep.Report(sig, map[string]any{
			"fs": "MemFS", "os_type": s.osName(), "history": hist, "op": op.String(),
			"expected": want, "observed": got, "error": note,
			"model_after": m.list(), "observed_VolumeList": vm.VolumeList(),
			"note": "fresh MemFS (SystemDirs: one tmp dir), then the history, then op",
		})
	}

	return nil
}
