package main

import (
	"fmt"
	"io/fs"
	"regexp"
	"sort"
	"strings"
	"time"

	"github.com/avfs/avfs"
	"github.com/avfs/avfs/idm/memidm"
	"github.com/avfs/avfs/verifrt"
	"github.com/avfs/avfs/vfs/memfs"
	"github.com/avfs/avfs/vfs/orefafs"

	"verif/lib/fsx"
)

// sideCfg is the configuration dimension of an instance.
//
// General lesson: an emulation has two halves, the file system and whatever it
// takes its defaults from. An instance built by the harness's own recipe (one
// system directory chosen by the harness, the default identity manager, which
// is typed after the HOST) never reaches the code that derives names from the
// emulated type: the administrator's name, the home and temporary directories,
// the tree the constructor creates by itself. The emulation therefore has to be
// judged in the default configuration of the emulated OS as well, and every
// component that takes an OS type has to be given the same one.
type sideCfg struct {
	sysDirs bool // the constructor creates its default system directories (avfs.SystemDirs) instead of the harness's single /tmp
	idmSame bool // identity manager of the same emulated OS type (kinds that take one: MemFS); false = the constructor's default
}

func (c sideCfg) String() string {
	if c == (sideCfg{}) {
		return ""
	}

	sd, idm := "harness", "default"

	if c.sysDirs {
		sd = "default"
	}

	if c.idmSame {
		idm = "same-type"
	}

	return "sysdirs=" + sd + ",idm=" + idm
}

// side is one real instance of a twin pair.
type side struct {
	kind string // MemFS | OrefaFS
	win  bool
	v    avfs.VFS
	root string // "/" or `C:\` (the added volume's root for "@D" systems)
	// sysRoot is the root the constructor worked on ("/" or `C:\`): the system
	// area and the default locations stay there when the instance is moved to an
	// added volume
	sysRoot string
	cfg     sideCfg
	sysTop  map[string]bool // cfg.sysDirs: names present in the root directory right after construction (the system area)
	// hideSys: the running call lists from outside the default locations; the
	// entries of the system area (different names, depths and number on the two
	// types) are left out of what it returns
	hideSys bool
}

func (s *side) osName() string {
	if s.win {
		return "Windows"
	}

	return "Linux"
}

func osTypeOf(win bool) avfs.OSType {
	if win {
		return avfs.OsWindows
	}

	return avfs.OsLinux
}

// newSide builds a fresh instance with one system directory (the temp dir),
// umask 022 and the current directory set to the root (explicit Chdir; its
// result is returned: OrefaFS cannot address its root, under either OS type).
func newSide(kind string, win bool) (s *side, chdir result, err error) {
	return newSideCfg(kind, win, sideCfg{})
}

// newSideCfg is newSide for any configuration: with cfg.sysDirs the system
// directories are the constructor's own, with cfg.idmSame a MemFS gets a
// MemIdm of its own OS type.
func newSideCfg(kind string, win bool, cfg sideCfg) (s *side, chdir result, err error) {
	s = &side{kind: kind, win: win, root: "/", cfg: cfg}
	tmp := "/tmp"

	if win {
		s.root, tmp = `C:\`, `C:\tmp`
	}

	s.sysRoot = s.root

	dirs := []avfs.DirInfo{{Path: tmp, Perm: 0o777}}
	if cfg.sysDirs {
		dirs = nil
	}

	ost := osTypeOf(win)

	k, msg := fsx.Guard(func() {
		switch kind {
		case "MemFS":
			o := &memfs.Options{OSType: ost, SystemDirs: dirs}
			if cfg.idmSame {
				o.Idm = memidm.NewWithOptions(&memidm.Options{OSType: ost})
			}

			s.v = memfs.NewWithOptions(o)
		case "OrefaFS":
			s.v = orefafs.NewWithOptions(&orefafs.Options{OSType: ost, SystemDirs: dirs})
		default:
			panic("unknown fs kind " + kind)
		}
	})
	if k != "" {
		return nil, chdir, fmt.Errorf("constructor of %s (%s-typed): %s %s", kind, s.osName(), k, msg)
	}

	if got := s.v.OSType(); got != ost {
		return nil, chdir, fmt.Errorf("constructor of %s did not produce OS type %v (got %v)", kind, ost, got)
	}

	if cfg.sysDirs {
		s.sysTop = map[string]bool{}

		_, _ = fsx.Guard(func() {
			es, _ := s.v.ReadDir(s.root)
			for _, e := range es {
				s.sysTop[e.Name()] = true
			}
		})
	}

	_ = s.v.SetUMask(0o022)
	_, chdir = s.do(fsx.Call{Op: "Chdir", A: "/"})

	return s, chdir, nil
}

// Default locations ("roles"). The directories an OS keeps for temporary files
// and for its users have different names and different depths on the two types
// (/tmp, /home, /root against C:\Users\<name>\AppData\Local\Temp, C:\Users,
// C:\Users\<name>): their portable spelling is the role, resolved on each
// instance by the library's own helper for the instance's current user.
//
//	"$TMP"       vfs.TempDir()              ("" as dir of CreateTemp/MkdirTemp means the same directory)
//	"$HOME"      avfs.HomeDir(vfs, vol)
//	"$HOMEUSER"  avfs.HomeDirUser(vfs, vol, vfs.User())   (kinds with an identity manager)
//	"$TMP/a"     Join(vfs.TempDir(), "a")
//
// vol is the volume the constructor worked on ("" resp. "C:", also when the
// instance was moved to an added volume afterwards: system "@D+sys"), the base
// path the constructors themselves give to avfs.SystemDirs. The other spelling in use,
// base path "" on both types (a rooted path without volume on the Windows
// type), is judged in part (A), runDefaults.
var allRoles = []string{"$TMP", "$HOME", "$HOMEUSER"}

// roles lists the roles of this instance (none outside the default
// configuration: there the only system directory is the harness's own /tmp).
func (s *side) roles() []string {
	if !s.cfg.sysDirs {
		return nil
	}

	if !s.v.HasFeature(avfs.FeatIdentityMgr) {
		return allRoles[:2]
	}

	return allRoles
}

// rolePath resolves a role through the library's helpers.
func (s *side) rolePath(role string) string {
	switch role {
	case "$TMP":
		return s.v.TempDir()
	case "$HOME":
		return avfs.HomeDir(s.v, avfs.VolumeName(s.v, s.sysRoot))
	case "$HOMEUSER":
		return avfs.HomeDirUser(s.v, avfs.VolumeName(s.v, s.sysRoot), s.v.User())
	}

	panic("c17: unknown role " + role)
}

// obsRolePath is the role's directory for the harness's own observations (tree
// dump): should a helper return a rooted path without volume it is anchored on
// the volume of the root, so that the observation never depends on the current
// directory. The operands of the calls under test stay as the helper spelled them.
func (s *side) obsRolePath(role string) string {
	p := s.v.Join(s.rolePath(role))

	if !s.v.IsAbs(p) && p != "" && avfs.IsPathSeparator(s.v, p[0]) {
		p = avfs.VolumeName(s.v, s.sysRoot) + p
	}

	return p
}

func isRolePath(p string) bool { return strings.HasPrefix(p, "$") }

// roleOf splits "$ROLE/rest" into the role and the remaining components.
func roleOf(p string) (role string, rest []string) {
	comps := strings.Split(p, "/")

	return comps[0], comps[1:]
}

// Portable paths. The alphabet is written once, in slash form:
//
//	"/"        the root of the file system (Linux "/", Windows `C:\`)
//	"/a/b"     Join(root, "a", "b") through the instance's own Join
//	"a/b"      Join("a", "b") (relative to the current directory)
//	"$TMP/a"   Join(<default location>, "a") (roles, see rolePath)
//	""         not a path (unused operand; the default directory of CreateTemp/MkdirTemp)
//
// so no path string of one OS is ever given to the other. Glob patterns are
// written the same way: their elements hold no separator and no '\\' (an
// escape on one type, a separator on the other), Join leaves them as they are.
func (s *side) path(p string) string {
	tag, p := splitSpell(p)
	if tag != "" {
		return s.spell(tag, s.path(p))
	}

	if p == "" {
		return ""
	}

	if p == "/" {
		return s.root
	}

	if isRolePath(p) {
		role, rest := roleOf(p)

		return s.v.Join(append([]string{s.rolePath(role)}, rest...)...)
	}

	comps := strings.Split(strings.TrimPrefix(p, "/"), "/")

	if strings.HasPrefix(p, "/") {
		return s.v.Join(append([]string{s.root}, comps...)...)
	}

	return s.v.Join(comps...)
}

// Spellings. General lesson: a portable path is a NAME, and on one OS type a
// name has several legitimate spellings; the path builder of the library
// (Join, FromUnixPath) produces exactly one of them, so histories written with
// the builder alone never reach the code that recognises the others. On the
// Windows type both '\\' and '/' are separators and the volume may be left out
// (a path starting with a separator is rooted on the volume of the current
// directory), which gives for "/a/b":
//
//	`C:\a\b`   (no tag)  what Join under the root gives
//	`C:/a/b`   "f:"      forward slashes
//	`\a\b`     "r:"      rooted, volume of the current directory
//	`/a/b`     "rf:"     rooted with forward slashes: the POSIX spelling itself
//
// and for the relative "a/b": `a\b` and, "f:", `a/b`. A spelled operand is
// written "<tag>:<portable path>" in the alphabet; the tag applies to the
// Windows-typed side only (the Linux type has the one spelling, its twin keeps
// "/a/b"), the oracle is unchanged: the call has to do what the untagged call
// does. Where the volume is left out the meaning depends on the current
// directory, which is why the dimension is crossed with Chdir (itself spelled).
// A rooted spelling is only used while the current directory is on the volume
// of the path (an instance of part (C) lives on one volume, except the default
// locations of system "@D+sys", which stay on C: while the current directory
// is on D:); otherwise spell keeps the volume.
var (
	absSpellings = []string{"f", "r", "rf"}
	relSpellings = []string{"f"}
)

// splitSpell splits "<tag>:<portable path>" ("" when the operand has no tag).
func splitSpell(p string) (tag, rest string) {
	for _, t := range absSpellings {
		if strings.HasPrefix(p, t+":") {
			return t, p[len(t)+1:]
		}
	}

	return "", p
}

// plain is the portable path without its spelling tag.
func plain(p string) string {
	_, rest := splitSpell(p)

	return rest
}

// plainCall is c with the spelling tags removed (classification, Linux side).
func plainCall(c fsx.Call) fsx.Call {
	c.A, c.B = plain(c.A), plain(c.B)

	return c
}

// spellingOf names the spellings of the operands of c ("" when none is tagged).
func spellingOf(c fsx.Call) string {
	ta, _ := splitSpell(c.A)
	tb, _ := splitSpell(c.B)

	switch {
	case ta == "" && tb == "":
		return ""
	case c.B == "" || c.Op == "CreateTemp" || c.Op == "MkdirTemp" || c.Op == "Symlink":
		return ta + tb
	}

	return "A=" + ta + ",B=" + tb
}

// spell rewrites the concrete path p of this instance in the spelling tag
// (Windows type only).
func (s *side) spell(tag, p string) string {
	if !s.win || p == "" {
		return p
	}

	vol := avfs.VolumeName(s.v, p)

	if strings.Contains(tag, "r") && vol != "" && len(p) > len(vol) && avfs.IsPathSeparator(s.v, p[len(vol)]) {
		var cwd string

		_, _ = fsx.Guard(func() { cwd, _ = s.v.Getwd() })

		if strings.EqualFold(avfs.VolumeName(s.v, cwd), vol) {
			p = p[len(vol):]
		}
	}

	if strings.Contains(tag, "f") {
		p = strings.ReplaceAll(p, `\`, "/")
	}

	return p
}

// concrete turns a portable call into the call for this instance.
func (s *side) concrete(c fsx.Call) fsx.Call {
	switch c.Op {
	case "CreateTemp", "MkdirTemp":
		c.A = s.path(c.A) // B is the pattern
	case "Symlink":
		// the target is content, not an operand resolved by the call: never spelled
		c.A = s.path(plain(c.A))
		c.B = s.path(c.B)
	default:
		c.A = s.path(c.A)
		c.B = s.path(c.B)
	}

	return c
}

// result is the classified outcome of a call plus the type family of the
// innermost error value (family()).
type result struct {
	fsx.Res
	Fam string
	// portable class of the error (errClass), the class its errno has on the OS
	// the value stands for and whether there is such an errno (wantClass)
	Class, Want string
	HasWant     bool
}

// errResult classifies the error of a call that returned.
func errResult(val string, err error) result {
	r := result{Res: fsx.Res{Kind: fsx.ErrKind(err), Val: val}, Fam: family(err), Class: errClass(err)}
	if err != nil {
		r.Msg = err.Error()
		r.Want, r.HasWant = wantClass(err)
	}

	return r
}

// do executes the portable call with a harness-owned, per-call deterministic
// random sequence ("0","1","0",...) so that both sides see the same temp names
// and collisions are forced. Panics and decided deadlocks are outcomes.
func (s *side) do(c fsx.Call) (fsx.Call, result) {
	s.hideSys = s.cfg.sysDirs && !isRolePath(plain(c.A))
	defer func() { s.hideSys = false }()

	return s.doConcrete(s.concrete(c))
}

// hidden says whether a path returned by a listing call lies in the system
// area (hideSys only).
func (s *side) hidden(p string) bool {
	if !s.hideSys {
		return false
	}

	if !s.v.IsAbs(p) {
		cwd, _ := s.v.Getwd()

		if p != "" && avfs.IsPathSeparator(s.v, p[0]) {
			p = avfs.VolumeName(s.v, cwd) + p // rooted on the volume of the current directory
		} else {
			p = s.v.Join(cwd, p)
		}
	}

	top := strings.TrimPrefix(s.plainNorm(p), "/")
	if i := strings.Index(top, "/"); i >= 0 {
		top = top[:i]
	}

	return s.sysTop[top]
}

func (s *side) doConcrete(cc fsx.Call) (fsx.Call, result) {
	n := 0

	verifrt.SetRandom(func() string { n++; return string(rune('0' + (n-1)%2)) })

	var (
		val string
		err error
	)

	k, msg := fsx.Guard(func() { val, err = s.rawCall(cc) })

	verifrt.SetRandom(nil)

	if k != "" {
		return cc, result{Res: fsx.Res{Kind: k, Msg: msg}, Fam: k}
	}

	r := errResult(val, err)

	// a helper's own error (IsEmpty: fmt.Errorf("%q path does not exist")) is not
	// a value of either OS: one kind whatever the path in its text
	if classHelperOps[cc.Op] && strings.HasPrefix(r.Kind, "other:") {
		r.Kind, r.Fam = "helper-error", famCustom
	}

	return cc, r
}

// rawCall performs one namespace call and returns the canonical rendering of
// the returned value (as fsx.Do does; the paths returned by Glob and handed to
// the function of WalkDir already in portable spelling) and the raw error.
func (s *side) rawCall(c fsx.Call) (val string, err error) {
	v := s.v
	perm := fsx.UnixMode(c.Perm)

	closeIf := func(f avfs.File, err error) {
		if err == nil {
			_ = f.Close()
		}
	}

	switch c.Op {
	case "Mkdir":
		return "", v.Mkdir(c.A, perm)
	case "MkdirAll":
		return "", v.MkdirAll(c.A, perm)
	case "Remove":
		return "", v.Remove(c.A)
	case "RemoveAll":
		return "", v.RemoveAll(c.A)
	case "Create":
		f, err := v.Create(c.A)
		closeIf(f, err)

		return "", err
	case "OpenFile":
		f, err := v.OpenFile(c.A, c.Flag, perm)
		closeIf(f, err)

		return "", err
	case "WriteFile":
		return "", v.WriteFile(c.A, []byte(c.Data), perm)
	case "Truncate":
		return "", v.Truncate(c.A, c.N)
	case "Chtimes":
		t := fsx.FixedTime.Add(time.Duration(c.N) * time.Second)

		return "", v.Chtimes(c.A, t, t)
	case "Chdir":
		return "", v.Chdir(c.A)
	case "CreateTemp":
		f, err := v.CreateTemp(c.A, c.B)
		if err == nil {
			val = f.Name()
			_ = f.Close()
		}

		return val, err
	case "MkdirTemp":
		return v.MkdirTemp(c.A, c.B)
	case "Stat", "Lstat":
		var fi fs.FileInfo

		if c.Op == "Stat" {
			fi, err = v.Stat(c.A)
		} else {
			fi, err = v.Lstat(c.A)
		}

		if err == nil {
			val = fi.Name() + " " + fsx.InfoString(v, fi)
		}

		return val, err
	case "ReadDir":
		es, err := v.ReadDir(c.A)

		var names []string

		for _, e := range es {
			if !s.hidden(v.Join(c.A, e.Name())) {
				names = append(names, e.Name()+fsx.TypeChar(e.Type()))
			}
		}

		return strings.Join(names, ","), err
	case "ReadFile":
		b, err := v.ReadFile(c.A)
		val := fmt.Sprintf("%q", b)
		fsx.Scribble(b) // a returned slice is the caller's: no file may change with it

		return val, err
	case "Readlink":
		return v.Readlink(c.A)
	case "EvalSymlinks":
		return v.EvalSymlinks(c.A)
	case "Glob":
		ms, err := v.Glob(c.A)
		out := make([]string, 0, len(ms))

		for _, m := range ms {
			if !s.hidden(m) {
				out = append(out, s.normPath(m))
			}
		}

		return strings.Join(out, ","), err
	case "WalkDir":
		var out []string

		err := v.WalkDir(c.A, func(p string, d fs.DirEntry, err error) error {
			switch {
			case len(out) > 4096:
				return fmt.Errorf("walk-too-long")
			case s.hidden(p):
			case err != nil:
				out = append(out, s.normPath(p)+"!"+portableClass(fsx.ErrKind(err)))
			default:
				out = append(out, s.normPath(p)+fsx.TypeChar(d.Type()))
			}

			return nil
		})

		return strings.Join(out, ","), err
	case "Exists", "DirExists", "IsDir", "IsEmpty":
		var b bool

		switch c.Op {
		case "Exists":
			b, err = avfs.Exists(v, c.A)
		case "DirExists":
			b, err = avfs.DirExists(v, c.A)
		case "IsDir":
			b, err = avfs.IsDir(v, c.A)
		default:
			b, err = avfs.IsEmpty(v, c.A)
		}

		return fmt.Sprint(b), err
	case "Rename":
		return "", v.Rename(c.A, c.B)
	case "Link":
		return "", v.Link(c.A, c.B)
	case "Symlink":
		return "", v.Symlink(c.A, c.B)
	}

	panic("c17: unknown op " + c.Op)
}

// normPath makes an absolute or relative path of this instance portable:
// volume stripped, separators turned into '/', and in the default
// configuration a default location replaced by its role (the longest one:
// on the Windows type the roles are nested).
func (s *side) normPath(p string) string {
	return s.roleNorm(s.plainNorm(p))
}

// roleNorm replaces a default location at the head of a portable path by its role.
func (s *side) roleNorm(q string) string {
	best, bestLen := "", 0

	for _, r := range s.roles() {
		rp := s.plainNorm(s.rolePath(r))
		// "/..." or, the instance living on an added volume, "C:/..." (plainNorm)
		if len(rp) > bestLen && (strings.HasPrefix(rp, "/") || foreignVolRe.MatchString(rp)) && (q == rp || strings.HasPrefix(q, rp+"/")) {
			best, bestLen = r, len(rp)
		}
	}

	if best != "" {
		return best + q[bestLen:]
	}

	return q
}

// foreignVolRe matches a portable path that kept its volume (plainNorm).
var foreignVolRe = regexp.MustCompile(`^[A-Za-z]:/`)

func (s *side) plainNorm(p string) string {
	if p == "" {
		return ""
	}

	vol := avfs.VolumeName(s.v, p)
	q := s.v.ToSlash(p[len(vol):])

	if vol != "" && vol+`\` != s.root {
		q = vol + q // a foreign volume stays visible
	}

	return q
}

func (s *side) cwd() string {
	var d string

	if k, _ := fsx.Guard(func() { d, _ = s.v.Getwd() }); k != "" {
		return "!" + k
	}

	return s.normPath(d)
}

// topCandidates are the top-level names that can exist in the explored universe
// (used only when the root directory itself cannot be listed). "tmp" is the
// harness's own system directory: in the default configuration the temporary
// directory is the role $TMP. "A", "B": the names of the alphabet in the other
// letter case (entries of their own on both types), in the order of a listing.
var topCandidates = []string{"A", "B", "a", "b", "t0", "t1", "tmp"}

// dump returns the portable tree dump: fsx.Dump without permission bits and
// owners (documented as OS-specific), names relative to the root in slash form,
// relative link targets in slash form, error kinds inside the dump as classes.
// rootOK is false when the root cannot be Lstat-ed (then the candidates are
// dumped one by one).
//
// In the default configuration the tree the constructor created is compared in
// portable spelling: one line per role ("$HOME d", "$TMP !lstat:notfound" ...)
// and the whole tree below $TMP under that name; the other entries that exist
// right after construction (the system area: home, root, tmp / Users, Windows)
// have no counterpart on the other type and are left out, everything created
// later beside them is dumped as usual.
func (s *side) dump() (lines []string, rootOK bool) {
	lines, rootOK = s.dumpUser()
	if !s.cfg.sysDirs {
		return lines, rootOK
	}

	kept := lines[:0:0]
	seen := map[string]bool{}

	// the system area is part of the dump of a root that can be listed: its
	// lines are renamed after the roles or dropped
	for _, l := range lines {
		name, rest := l, ""
		if i := strings.Index(l, " "); i >= 0 {
			name, rest = l[:i], l[i:]
		}

		if name == "." {
			kept = append(kept, l)

			continue
		}

		top := name
		if i := strings.Index(top, "/"); i >= 0 {
			top = top[:i]
		}

		pn := s.roleNorm("/" + name)

		switch {
		case pn == "$TMP" || strings.HasPrefix(pn, "$TMP/"):
			seen["$TMP"] = true
			kept = append(kept, pn+rest)
		case isRolePath(pn) && !strings.Contains(pn, "/"):
			seen[pn] = true
			kept = append(kept, pn+" "+strings.Fields(rest + " ?")[0])
		case s.sysTop[top]:
		default:
			kept = append(kept, l)
		}
	}

	for _, r := range s.roles() {
		if seen[r] {
			continue
		}

		rp := s.obsRolePath(r)

		var sub []string

		k, msg := fsx.Guard(func() {
			sub = fsx.Dump(s.v, rp, fsx.DumpOpts{NoPerm: true, NoOwner: true, StripPfx: rp})
		})
		if k != "" {
			kept = append(kept, r+" !"+k+" "+msg)

			continue
		}

		for i, l := range sub {
			l = s.normLine(l)

			switch {
			case strings.HasPrefix(l, ". "):
				l = r + l[1:]
			case strings.HasPrefix(l, "/"):
				l = r + l
			}

			if r != "$TMP" { // the type of the location only
				if i == 0 {
					kept = append(kept, r+" "+strings.Fields(l)[1])
				}

				continue
			}

			// hard-link classes of a separate dump are a numbering of their own
			kept = append(kept, strings.Replace(l, " #", " #T", 1))
		}
	}

	sort.SliceStable(kept, func(i, j int) bool {
		return strings.SplitN(kept[i], " ", 2)[0] < strings.SplitN(kept[j], " ", 2)[0]
	})

	// hard-link classes are numbered in the order of the dump: number them
	// again in the order of the portable names
	classes := map[string]string{}

	for i, l := range kept {
		m := classRe.FindStringSubmatchIndex(l)
		if m == nil {
			continue
		}

		c := l[m[2]:m[3]]
		if _, ok := classes[c]; !ok {
			classes[c] = fmt.Sprint(len(classes))
		}

		kept[i] = l[:m[2]] + classes[c] + l[m[3]:]
	}

	return kept, rootOK
}

// classRe finds the hard-link class of a file line ("name f ---- -:- szN nN #C content").
var classRe = regexp.MustCompile(`^\S+ f \S+ \S+ sz\d+ n\d+ #(\S+) `)

// dumpUser dumps the tree below the root of the instance.
func (s *side) dumpUser() (lines []string, rootOK bool) {
	o := fsx.DumpOpts{NoPerm: true, NoOwner: true, StripPfx: s.root}

	var raw []string

	k, msg := fsx.Guard(func() { raw = fsx.Dump(s.v, s.root, o) })
	if k != "" {
		return []string{". !" + k + " " + msg}, false
	}

	rootOK = true

	if len(raw) == 1 && strings.HasPrefix(raw[0], ". !lstat:") {
		rootOK = false
		raw = []string{raw[0]}

		for _, n := range topCandidates {
			if s.cfg.sysDirs && n == "tmp" {
				continue
			}

			var sub []string

			k, msg := fsx.Guard(func() { sub = fsx.Dump(s.v, s.v.Join(s.root, n), o) })
			if k != "" {
				raw = append(raw, n+" !"+k+" "+msg)

				continue
			}

			if len(sub) == 1 && strings.Contains(sub[0], " !lstat:") &&
				portableClass(sub[0][strings.Index(sub[0], " !lstat:")+8:]) == "notfound" {
				continue // does not exist
			}

			raw = append(raw, sub...)
		}
	}

	for _, l := range raw {
		lines = append(lines, s.normLine(l))
	}

	return lines, rootOK
}

var szRe = regexp.MustCompile(` sz\d+`)

func (s *side) normLine(l string) string {
	i := strings.Index(l, " ")
	if i < 0 {
		return s.v.ToSlash(l)
	}

	name, rest := s.v.ToSlash(l[:i]), l[i:]

	if j := strings.Index(rest, " !"); j >= 0 { // "!lstat:KIND", "!readdir:KIND", ...
		if c := strings.Index(rest[j:], ":"); c >= 0 {
			kind := rest[j+c+1:]
			tail := ""

			if sp := strings.Index(kind, " "); sp >= 0 {
				kind, tail = kind[:sp], kind[sp:]
			}

			rest = rest[:j+c+1] + portableClass(kind) + tail
		}
	}

	if j := strings.Index(rest, " -> "); j >= 0 && strings.HasPrefix(strings.TrimSpace(rest), "l ") {
		t := rest[j+4:]

		switch {
		case strings.HasPrefix(t, "!readlink:"):
			t = "!readlink:" + portableClass(strings.TrimPrefix(t, "!readlink:"))
		case s.v.IsAbs(t):
			t = "abs:" + s.normPath(t)
			// the size of a link is the length of its target: an absolute target is
			// spelled with the volume on one side only, the sizes are not comparable
			rest = szRe.ReplaceAllString(rest[:j], " sz=abs") + rest[j:]
			j = strings.Index(rest, " -> ")
		default:
			t = s.v.ToSlash(t)
		}

		rest = rest[:j+4] + t
	}

	return name + rest
}

// entry is one parsed line of a portable dump.
type entry struct {
	name, typ, size, nlink, class, content, target, bad string
}

func parseDump(lines []string) map[string]entry {
	m := map[string]entry{}

	for _, l := range lines {
		f := strings.Fields(l)
		if len(f) < 2 {
			continue
		}

		e := entry{name: f[0]}

		if strings.HasPrefix(f[1], "!") {
			old := m[e.name]
			old.name = e.name
			old.bad += strings.Join(f[1:], " ") + ";"
			m[e.name] = old

			continue
		}

		e.typ = f[1]

		for _, x := range f[2:] {
			switch {
			case strings.HasPrefix(x, "sz"):
				e.size = x
			case len(x) > 1 && x[0] == 'n' && x[1] >= '0' && x[1] <= '9' && e.nlink == "":
				e.nlink = x
			case strings.HasPrefix(x, "#") && e.class == "":
				e.class = x
			}
		}

		if i := strings.Index(l, " -> "); i >= 0 && e.typ == "l" {
			e.target = l[i+4:]
		} else if i := strings.Index(l, " #"); i >= 0 && e.typ == "f" {
			if j := strings.Index(l[i+2:], " "); j >= 0 {
				e.content = l[i+2+j+1:]
			}
		}

		e.bad = m[e.name].bad
		m[e.name] = e
	}

	return m
}

// treeDiff names the first attribute class in which two portable dumps differ
// ("" when they are equal).
func treeDiff(l, w []string) string {
	if strings.Join(l, "\n") == strings.Join(w, "\n") {
		return ""
	}

	lm, wm := parseDump(l), parseDump(w)

	for n := range lm {
		if _, ok := wm[n]; !ok {
			return "names (entry only on the Linux-typed side)"
		}
	}

	for n := range wm {
		if _, ok := lm[n]; !ok {
			return "names (entry only on the Windows-typed side)"
		}
	}

	order := []struct {
		what string
		get  func(e entry) string
	}{
		{"dump failure (Lstat/ReadDir/ReadFile/Readlink of a listed entry)", func(e entry) string { return e.bad }},
		{"type", func(e entry) string { return e.typ }},
		{"link target", func(e entry) string { return e.target }},
		{"content", func(e entry) string { return e.content }},
		{"size", func(e entry) string { return e.size }},
		{"link count", func(e entry) string { return e.nlink }},
		{"hard-link class", func(e entry) string { return e.class }},
	}

	for _, o := range order {
		for n, le := range lm {
			if o.get(le) != o.get(wm[n]) {
				return o.what
			}
		}
	}

	return "order of entries"
}
