package main

import (
	"fmt"
	"io/fs"
	"regexp"
	"strings"
	"time"

	"github.com/avfs/avfs"
	"github.com/avfs/avfs/verifrt"
	"github.com/avfs/avfs/vfs/memfs"
	"github.com/avfs/avfs/vfs/orefafs"

	"verif/lib/fsx"
)

// side is one real instance of a twin pair.
type side struct {
	kind string // MemFS | OrefaFS
	win  bool
	v    avfs.VFS
	root string // "/" or `C:\`
}

func (s *side) osName() string {
	if s.win {
		return "Windows"
	}

	return "Linux"
}

func osTypeOf(win bool) avfs.OSType {
	if win {
		return avfs.OsWindows
	}

	return avfs.OsLinux
}

// newSide builds a fresh instance with one system directory (the temp dir),
// umask 022 and the current directory set to the root (explicit Chdir; its
// result is returned: OrefaFS cannot address its root, under either OS type).
func newSide(kind string, win bool) (s *side, chdir result, err error) {
	s = &side{kind: kind, win: win, root: "/"}
	tmp := "/tmp"

	if win {
		s.root, tmp = `C:\`, `C:\tmp`
	}

	dirs := []avfs.DirInfo{{Path: tmp, Perm: 0o777}}
	ost := osTypeOf(win)

	k, msg := fsx.Guard(func() {
		switch kind {
		case "MemFS":
			s.v = memfs.NewWithOptions(&memfs.Options{OSType: ost, SystemDirs: dirs})
		case "OrefaFS":
			s.v = orefafs.NewWithOptions(&orefafs.Options{OSType: ost, SystemDirs: dirs})
		default:
			panic("unknown fs kind " + kind)
		}
	})
	if k != "" {
		return nil, chdir, fmt.Errorf("constructor of %s (%s-typed): %s %s", kind, s.osName(), k, msg)
	}

	if got := s.v.OSType(); got != ost {
		return nil, chdir, fmt.Errorf("constructor of %s did not produce OS type %v (got %v)", kind, ost, got)
	}

	_ = s.v.SetUMask(0o022)
	_, chdir = s.do(fsx.Call{Op: "Chdir", A: "/"})

	return s, chdir, nil
}

// Portable paths. The alphabet is written once, in slash form:
//
//	"/"        the root of the file system (Linux "/", Windows `C:\`)
//	"/a/b"     Join(root, "a", "b") through the instance's own Join
//	"a/b"      Join("a", "b") (relative to the current directory)
//	""         not a path (unused operand)
//
// so no path string of one OS is ever given to the other.
func (s *side) path(p string) string {
	if p == "" {
		return ""
	}

	if p == "/" {
		return s.root
	}

	comps := strings.Split(strings.TrimPrefix(p, "/"), "/")

	if strings.HasPrefix(p, "/") {
		return s.v.Join(append([]string{s.root}, comps...)...)
	}

	return s.v.Join(comps...)
}

// concrete turns a portable call into the call for this instance.
func (s *side) concrete(c fsx.Call) fsx.Call {
	switch c.Op {
	case "CreateTemp", "MkdirTemp":
		c.A = s.path(c.A) // B is the pattern
	default:
		c.A = s.path(c.A)
		c.B = s.path(c.B)
	}

	return c
}

// result is the classified outcome of a call plus the type family of the
// innermost error value (family()).
type result struct {
	fsx.Res
	Fam string
}

// do executes the portable call with a harness-owned, per-call deterministic
// random sequence ("0","1","0",...) so that both sides see the same temp names
// and collisions are forced. Panics and decided deadlocks are outcomes.
func (s *side) do(c fsx.Call) (fsx.Call, result) {
	return s.doConcrete(s.concrete(c))
}

func (s *side) doConcrete(cc fsx.Call) (fsx.Call, result) {
	n := 0

	verifrt.SetRandom(func() string { n++; return string(rune('0' + (n-1)%2)) })

	var (
		val string
		err error
	)

	k, msg := fsx.Guard(func() { val, err = rawCall(s.v, cc) })

	verifrt.SetRandom(nil)

	if k != "" {
		return cc, result{Res: fsx.Res{Kind: k, Msg: msg}, Fam: k}
	}

	r := result{Res: fsx.Res{Kind: fsx.ErrKind(err), Val: val}, Fam: family(err)}
	if err != nil {
		r.Msg = err.Error()
	}

	return cc, r
}

// rawCall performs one namespace call and returns the canonical rendering of
// the returned value (as fsx.Do does) and the raw error.
func rawCall(v avfs.VFS, c fsx.Call) (val string, err error) {
	perm := fsx.UnixMode(c.Perm)

	closeIf := func(f avfs.File, err error) {
		if err == nil {
			_ = f.Close()
		}
	}

	switch c.Op {
	case "Mkdir":
		return "", v.Mkdir(c.A, perm)
	case "MkdirAll":
		return "", v.MkdirAll(c.A, perm)
	case "Remove":
		return "", v.Remove(c.A)
	case "RemoveAll":
		return "", v.RemoveAll(c.A)
	case "Create":
		f, err := v.Create(c.A)
		closeIf(f, err)

		return "", err
	case "OpenFile":
		f, err := v.OpenFile(c.A, c.Flag, perm)
		closeIf(f, err)

		return "", err
	case "WriteFile":
		return "", v.WriteFile(c.A, []byte(c.Data), perm)
	case "Truncate":
		return "", v.Truncate(c.A, c.N)
	case "Chtimes":
		t := fsx.FixedTime.Add(time.Duration(c.N) * time.Second)

		return "", v.Chtimes(c.A, t, t)
	case "Chdir":
		return "", v.Chdir(c.A)
	case "CreateTemp":
		f, err := v.CreateTemp(c.A, c.B)
		if err == nil {
			val = f.Name()
			_ = f.Close()
		}

		return val, err
	case "MkdirTemp":
		return v.MkdirTemp(c.A, c.B)
	case "Stat", "Lstat":
		var fi fs.FileInfo

		if c.Op == "Stat" {
			fi, err = v.Stat(c.A)
		} else {
			fi, err = v.Lstat(c.A)
		}

		if err == nil {
			val = fi.Name() + " " + fsx.InfoString(v, fi)
		}

		return val, err
	case "ReadDir":
		es, err := v.ReadDir(c.A)

		var names []string
		for _, e := range es {
			names = append(names, e.Name()+fsx.TypeChar(e.Type()))
		}

		return strings.Join(names, ","), err
	case "ReadFile":
		b, err := v.ReadFile(c.A)
		val := fmt.Sprintf("%q", b)
		fsx.Scribble(b) // a returned slice is the caller's: no file may change with it

		return val, err
	case "Readlink":
		return v.Readlink(c.A)
	case "EvalSymlinks":
		return v.EvalSymlinks(c.A)
	case "Rename":
		return "", v.Rename(c.A, c.B)
	case "Link":
		return "", v.Link(c.A, c.B)
	case "Symlink":
		return "", v.Symlink(c.A, c.B)
	}

	panic("c17: unknown op " + c.Op)
}

// normPath makes an absolute or relative path of this instance portable:
// volume stripped, separators turned into '/'.
func (s *side) normPath(p string) string {
	if p == "" {
		return ""
	}

	vol := avfs.VolumeName(s.v, p)
	q := s.v.ToSlash(p[len(vol):])

	if vol != "" && vol+`\` != s.root {
		q = vol + q // a foreign volume stays visible
	}

	return q
}

func (s *side) cwd() string {
	var d string

	if k, _ := fsx.Guard(func() { d, _ = s.v.Getwd() }); k != "" {
		return "!" + k
	}

	return s.normPath(d)
}

// topCandidates are the top-level names that can exist in the explored universe
// (used only when the root directory itself cannot be listed).
var topCandidates = []string{"a", "b", "t0", "t1", "tmp"}

// dump returns the portable tree dump: fsx.Dump without permission bits and
// owners (documented as OS-specific), names relative to the root in slash form,
// relative link targets in slash form, error kinds inside the dump as classes.
// rootOK is false when the root cannot be Lstat-ed (then the candidates are
// dumped one by one).
func (s *side) dump() (lines []string, rootOK bool) {
	o := fsx.DumpOpts{NoPerm: true, NoOwner: true, StripPfx: s.root}

	var raw []string

	k, msg := fsx.Guard(func() { raw = fsx.Dump(s.v, s.root, o) })
	if k != "" {
		return []string{". !" + k + " " + msg}, false
	}

	rootOK = true

	if len(raw) == 1 && strings.HasPrefix(raw[0], ". !lstat:") {
		rootOK = false
		raw = []string{raw[0]}

		for _, n := range topCandidates {
			var sub []string

			k, msg := fsx.Guard(func() { sub = fsx.Dump(s.v, s.v.Join(s.root, n), o) })
			if k != "" {
				raw = append(raw, n+" !"+k+" "+msg)

				continue
			}

			if len(sub) == 1 && strings.Contains(sub[0], " !lstat:") &&
				portableClass(sub[0][strings.Index(sub[0], " !lstat:")+8:]) == "notfound" {
				continue // does not exist
			}

			raw = append(raw, sub...)
		}
	}

	for _, l := range raw {
		lines = append(lines, s.normLine(l))
	}

	return lines, rootOK
}

var szRe = regexp.MustCompile(` sz\d+`)

func (s *side) normLine(l string) string {
	i := strings.Index(l, " ")
	if i < 0 {
		return s.v.ToSlash(l)
	}

	name, rest := s.v.ToSlash(l[:i]), l[i:]

	if j := strings.Index(rest, " !"); j >= 0 { // "!lstat:KIND", "!readdir:KIND", ...
		if c := strings.Index(rest[j:], ":"); c >= 0 {
			kind := rest[j+c+1:]
			tail := ""

			if sp := strings.Index(kind, " "); sp >= 0 {
				kind, tail = kind[:sp], kind[sp:]
			}

			rest = rest[:j+c+1] + portableClass(kind) + tail
		}
	}

	if j := strings.Index(rest, " -> "); j >= 0 && strings.HasPrefix(strings.TrimSpace(rest), "l ") {
		t := rest[j+4:]

		switch {
		case strings.HasPrefix(t, "!readlink:"):
			t = "!readlink:" + portableClass(strings.TrimPrefix(t, "!readlink:"))
		case s.v.IsAbs(t):
			t = "abs:" + s.normPath(t)
			// the size of a link is the length of its target: an absolute target is
			// spelled with the volume on one side only, the sizes are not comparable
			rest = szRe.ReplaceAllString(rest[:j], " sz=abs") + rest[j:]
			j = strings.Index(rest, " -> ")
		default:
			t = s.v.ToSlash(t)
		}

		rest = rest[:j+4] + t
	}

	return name + rest
}

// entry is one parsed line of a portable dump.
type entry struct {
	name, typ, size, nlink, class, content, target, bad string
}

func parseDump(lines []string) map[string]entry {
	m := map[string]entry{}

	for _, l := range lines {
		f := strings.Fields(l)
		if len(f) < 2 {
			continue
		}

		e := entry{name: f[0]}

		if strings.HasPrefix(f[1], "!") {
			old := m[e.name]
			old.name = e.name
			old.bad += strings.Join(f[1:], " ") + ";"
			m[e.name] = old

			continue
		}

		e.typ = f[1]

		for _, x := range f[2:] {
			switch {
			case strings.HasPrefix(x, "sz"):
				e.size = x
			case len(x) > 1 && x[0] == 'n' && x[1] >= '0' && x[1] <= '9' && e.nlink == "":
				e.nlink = x
			case strings.HasPrefix(x, "#") && e.class == "":
				e.class = x
			}
		}

		if i := strings.Index(l, " -> "); i >= 0 && e.typ == "l" {
			e.target = l[i+4:]
		} else if i := strings.Index(l, " #"); i >= 0 && e.typ == "f" {
			if j := strings.Index(l[i+2:], " "); j >= 0 {
				e.content = l[i+2+j+1:]
			}
		}

		e.bad = m[e.name].bad
		m[e.name] = e
	}

	return m
}

// treeDiff names the first attribute class in which two portable dumps differ
// ("" when they are equal).
func treeDiff(l, w []string) string {
	if strings.Join(l, "\n") == strings.Join(w, "\n") {
		return ""
	}

	lm, wm := parseDump(l), parseDump(w)

	for n := range lm {
		if _, ok := wm[n]; !ok {
			return "names (entry only on the Linux-typed side)"
		}
	}

	for n := range wm {
		if _, ok := lm[n]; !ok {
			return "names (entry only on the Windows-typed side)"
		}
	}

	order := []struct {
		what string
		get  func(e entry) string
	}{
		{"dump failure (Lstat/ReadDir/ReadFile/Readlink of a listed entry)", func(e entry) string { return e.bad }},
		{"type", func(e entry) string { return e.typ }},
		{"link target", func(e entry) string { return e.target }},
		{"content", func(e entry) string { return e.content }},
		{"size", func(e entry) string { return e.size }},
		{"link count", func(e entry) string { return e.nlink }},
		{"hard-link class", func(e entry) string { return e.class }},
	}

	for _, o := range order {
		for n, le := range lm {
			if o.get(le) != o.get(wm[n]) {
				return o.what
			}
		}
	}

	return "order of entries"
}
