package main

import (
	"fmt"
	"io/fs"
	"syscall"

	"github.com/avfs/avfs"

	"verif/lib/fsx"
)

// selfCheck exercises the comparators on real instances with deliberately
// different contents, so that a vacuous oracle (dumps that are always equal,
// a compatibility table that accepts everything) is a harness error and not a
// silent pass.
func selfCheck() error {
	for _, kind := range []string{"MemFS", "OrefaFS"} {
		l, _, err := newSide(kind, false)
		if err != nil {
			return err
		}

		w, _, err := newSide(kind, true)
		if err != nil {
			return err
		}

		both := func(c fsx.Call) error {
			for _, s := range []*side{l, w} {
				if cc, r := s.do(c); r.Kind != "ok" {
					return fmt.Errorf("selfcheck %s: %s on %s-typed: %s %s", kind, cc, s.osName(), r.Kind, r.Msg)
				}
			}

			return nil
		}

		diff := func() string {
			ld, _ := l.dump()
			wd, _ := w.dump()

			return treeDiff(ld, wd)
		}

		expect := func(step, want string) error {
			if got := diff(); got != want {
				ld, _ := l.dump()
				wd, _ := w.dump()

				return fmt.Errorf("selfcheck %s after %s: treeDiff = %q, want %q\n linux:   %q\n windows: %q", kind, step, got, want, ld, wd)
			}

			return nil
		}

		if err := expect("construction", ""); err != nil {
			return err
		}

		if err := both(fsx.Call{Op: "Mkdir", A: "/a", Perm: 0o755}); err != nil {
			return err
		}

		if err := both(fsx.Call{Op: "WriteFile", A: "/a/b", Data: "x", Perm: 0o644}); err != nil {
			return err
		}

		if err := expect("Mkdir a; WriteFile a/b", ""); err != nil {
			return err
		}

		ld, _ := l.dump()
		if e, ok := parseDump(ld)["a/b"]; !ok || e.typ != "f" || e.content != `"x"` || e.nlink != "n1" || e.size != "sz1" {
			return fmt.Errorf("selfcheck %s: dump does not show a/b as a 1-byte file with one link: %q", kind, ld)
		}

		// different bytes on the Windows-typed side only
		if _, r := w.do(fsx.Call{Op: "WriteFile", A: "/a/b", Data: "y", Perm: 0o644}); r.Kind != "ok" {
			return fmt.Errorf("selfcheck %s: WriteFile: %s", kind, r.Kind)
		}

		if err := expect("different bytes", "content"); err != nil {
			return err
		}

		if _, r := w.do(fsx.Call{Op: "WriteFile", A: "/a/b", Data: "x", Perm: 0o644}); r.Kind != "ok" {
			return fmt.Errorf("selfcheck %s: WriteFile: %s", kind, r.Kind)
		}

		// an extra hard link on the Linux-typed side only
		if _, r := l.do(fsx.Call{Op: "Link", A: "/a/b", B: "/b"}); r.Kind != "ok" {
			return fmt.Errorf("selfcheck %s: Link: %s", kind, r.Kind)
		}

		if err := expect("extra link", "names (entry only on the Linux-typed side)"); err != nil {
			return err
		}

		if _, r := w.do(fsx.Call{Op: "WriteFile", A: "/b", Data: "x", Perm: 0o644}); r.Kind != "ok" {
			return fmt.Errorf("selfcheck %s: WriteFile: %s", kind, r.Kind)
		}

		if err := expect("link vs copy", "link count"); err != nil {
			return err
		}
	}

	// default configuration: the role spelling must not be vacuous. Only the
	// Linux-typed instance is looked at (what the Windows-typed one creates is
	// the subject of the check, not a premise of the harness).
	for _, kind := range []string{"MemFS", "OrefaFS"} {
		l, _, err := newSideCfg(kind, false, sideCfg{sysDirs: true, idmSame: kind == "MemFS"})
		if err != nil {
			return err
		}

		if _, r := l.do(fsx.Call{Op: "CreateTemp", A: "", B: "t*"}); r.Kind != "ok" {
			continue
		}

		ld, _ := l.dump()
		m := parseDump(ld)

		if e, ok := m["$TMP/t0"]; !ok || e.typ != "f" || m["$TMP"].typ != "d" {
			return fmt.Errorf("selfcheck %s: default configuration: dump does not show $TMP and $TMP/t0: %q", kind, ld)
		}

		for n := range m {
			if n != "." && !isRolePath(n) {
				return fmt.Errorf("selfcheck %s: default configuration: system entry %q left in the portable dump: %q", kind, n, ld)
			}
		}

		if got := l.normPath(l.v.Join(l.v.TempDir(), "x")); got != "$TMP/x" {
			return fmt.Errorf("selfcheck %s: normPath below TempDir() = %q", kind, got)
		}

		// listings from outside the default locations leave the system area out,
		// listings of a default location do not
		if _, r := l.do(fsx.Call{Op: "WalkDir", A: "$TMP"}); r.Kind != "ok" || r.Val != "$TMP/,$TMP/t0" {
			return fmt.Errorf("selfcheck %s: WalkDir($TMP) = %s", kind, r)
		}

		if _, r := l.do(fsx.Call{Op: "Glob", A: "/*/*"}); r.Kind != "ok" || r.Val != "" {
			return fmt.Errorf("selfcheck %s: Glob(/*/*) shows the system area: %s", kind, r)
		}
	}

	// the spelling dimension must not be vacuous: each tag gives a different
	// string on the Windows type and the plain portable path on the Linux type
	for _, kind := range []string{"MemFS", "OrefaFS"} {
		l, _, err := newSide(kind, false)
		if err != nil {
			return err
		}

		w, _, err := newSide(kind, true)
		if err != nil {
			return err
		}

		for _, c := range [][3]string{
			{"/a/b", `C:\a\b`, "/a/b"}, {"f:/a/b", "C:/a/b", "/a/b"}, {"r:/a/b", `\a\b`, "/a/b"}, {"rf:/a/b", "/a/b", "/a/b"},
			{"r:/", `\`, "/"}, {"rf:/", "/", "/"}, {"f:/", "C:/", "/"}, {"a/b", `a\b`, "a/b"}, {"f:a/b", "a/b", "a/b"}, {"rf:a", "a", "a"},
		} {
			if gw, gl := w.path(c[0]), l.path(c[0]); gw != c[1] || gl != c[2] {
				return fmt.Errorf("selfcheck %s: spelling of %q = %q (Windows-typed, want %q), %q (Linux-typed, want %q)", kind, c[0], gw, c[1], gl, c[2])
			}
		}

		if got := spellingOf(fsx.Call{Op: "Rename", A: "rf:/a", B: "b"}); got != "A=rf,B=" {
			return fmt.Errorf("selfcheck: spellingOf = %q", got)
		}

		if got := plainCall(fsx.Call{Op: "Rename", A: "rf:/a", B: "f:a/b"}); got.A != "/a" || got.B != "a/b" {
			return fmt.Errorf("selfcheck: plainCall = %v", got)
		}
	}

	if got := shapeOf("/a*/b/[a"); got != "/W/L/B" {
		return fmt.Errorf("selfcheck: shapeOf = %q", got)
	}

	if n := len(patOperands([]string{"a", "*"}, 3)); n != 2+4+8 {
		return fmt.Errorf("selfcheck: patOperands enumerates %d operands, want 14", n)
	}

	type cc struct {
		call, l, w string
		want       bool
	}

	for _, c := range []cc{
		{"Stat", "ENOENT", "WIN2", true}, {"Stat", "ENOENT", "WIN3", true}, {"Stat", "ENOTDIR", "WIN3", true},
		{"Mkdir", "EEXIST", "WIN80", true}, {"Mkdir", "EEXIST", "WIN2", false}, {"Remove", "ENOTEMPTY", "WIN145", true},
		{"Remove", "ENOTEMPTY", "WIN5", false}, {"Stat", "ENOENT", "ENOENT", false}, {"Link", "EEXIST", "WIN183", true},
		{"Mkdir", "EEXIST", "WIN183", false},
	} {
		if got := classCompatible(c.call, c.l, c.w, famLinux, famWindows); got != c.want {
			return fmt.Errorf("selfcheck: classCompatible(%s,%s,%s) = %v", c.call, c.l, c.w, got)
		}
	}

	if !familyOK(true, famWindows) || familyOK(true, famLinux) || familyOK(false, famWindows) || !familyOK(false, famLinux) || !familyOK(true, famCustom) {
		return fmt.Errorf("selfcheck: familyOK")
	}

	// the class oracle on values of its own making (not the library's: a fault
	// there is a violation, not a harness error): the class of an errno of this
	// host, a value that lost its class, a class differing between the types,
	// a difference stated by a branch of the call itself
	if got := errClass(&fs.PathError{Op: "stat", Path: "x", Err: syscall.ENOENT}); got != "notexist" {
		return fmt.Errorf("selfcheck: errClass(ENOENT) = %q", got)
	}

	if c, ok := wantClass(&fs.PathError{Err: avfs.WindowsError(3)}); !ok || c != "notexist" {
		return fmt.Errorf("selfcheck: wantClass(WIN3) = %q, %v", c, ok)
	}

	if c, ok := wantClass(&fs.PathError{Err: avfs.LinuxError(syscall.ENOTDIR)}); !ok || c != "" {
		return fmt.Errorf("selfcheck: wantClass(ENOTDIR) = %q, %v", c, ok)
	}

	mk := func(kind, class, want string) result {
		return result{Res: fsx.Res{Kind: kind}, Class: class, Want: want, HasWant: true}
	}

	for _, c := range []struct {
		call string
		l, w result
		want int
	}{
		{"Stat", mk("ENOENT", "notexist", "notexist"), mk("WIN3", "notexist", "notexist"), 0},
		{"Stat", mk("ENOENT", "notexist", "notexist"), mk("WIN3", "", "notexist"), 2},
		{"Stat", mk("ENOTDIR", "", ""), mk("WIN3", "notexist", "notexist"), 0},
		{"Mkdir", mk("EEXIST", "exist", "exist"), mk("WIN5", "permission", "permission"), 1},
		{"Rename", mk("EEXIST", "exist", "exist"), mk("WIN5", "permission", "permission"), 0},
	} {
		if got := classFindings(c.call, c.l, c.w); len(got) != c.want {
			return fmt.Errorf("selfcheck: classFindings(%s,%s,%s) = %q", c.call, c.l.Kind, c.w.Kind, got)
		}
	}

	if got := statVal("b f 0644 0:0 sz1 n2"); got != "b f sz1 n2" {
		return fmt.Errorf("selfcheck: statVal = %q", got)
	}

	return nil
}
