package main

import (
	"encoding/json"
	"fmt"
	"github.com/avfs/avfs"
	"os"
	"strings"

	"verif/lib/bfs"
	"verif/lib/fsx"
)

// pairSys is engine A's system for part (C): a Linux-typed and a Windows-typed
// real instance of one file-system kind driven in lock-step.
type pairSys struct {
	name    string // system name as given
	tree    bool
	vol     string
	kind    string // MemFS | OrefaFS
	cfg     sideCfg
	tier    string
	ops     []fsx.Call // portable form
	l, w    *side
	lastKey string
	// Linux-typed dump and current directory of the state the instances are in
	// (taken after Reset and after every Step: nothing runs in between)
	curDump   []string
	curRootOK bool
	curCwd    string
}

func (s *pairSys) NumOps() int           { return len(s.ops) }
func (s *pairSys) OpString(i int) string { return s.ops[i].String() }
func (s *pairSys) Close()                {}
func (s *pairSys) Key() string           { return s.lastKey }

func (s *pairSys) Reset() error {
	var err error

	if s.l, s.w, err = newTwins(s.kind, s.vol, s.cfg); err != nil {
		return err
	}

	if s.tree {
		for _, c := range []fsx.Call{
			{Op: "Mkdir", A: "/a", Perm: 0o755},
			{Op: "WriteFile", A: "/a/a", Data: "hello", Perm: 0o644},
			{Op: "Link", A: "/a/a", B: "/b"},
		} {
			if err := bothDo(s.l, s.w, c); err != nil {
				return err
			}
		}
	}

	s.curDump, s.curRootOK = s.l.dump()
	s.curCwd = s.l.cwd()
	s.lastKey = keyOf(s.curDump, s.curCwd)

	return nil
}

// newTwins builds a fresh Linux-typed and a fresh Windows-typed instance of one
// kind; with vol != "" the Windows-typed one works on that added volume.
func newTwins(kind, vol string, cfg sideCfg) (l, w *side, err error) {
	if l, _, err = newSideCfg(kind, false, cfg); err != nil {
		return nil, nil, err
	}

	if w, _, err = newSideCfg(kind, true, cfg); err != nil {
		return nil, nil, err
	}

	if vol != "" {
		vm, ok := w.v.(avfs.VolumeManager)
		if !ok {
			return nil, nil, fmt.Errorf("%s has no volume management", kind)
		}

		if err := vm.VolumeAdd(vol); err != nil {
			return nil, nil, fmt.Errorf("VolumeAdd(%s): %v", vol, err)
		}

		w.root = vol + `\`

		// the harness's own temporary directory; in the default configuration
		// ("@D+sys") the system area and the default locations stay where the
		// constructor made them (w.sysRoot, C:): only the user's tree and the
		// current directory live on the added volume
		if !cfg.sysDirs {
			if err := w.v.MkdirAll(w.root+"tmp", 0o777); err != nil {
				return nil, nil, fmt.Errorf("MkdirAll on %s: %v", vol, err)
			}
		}

		if _, r := w.do(fsx.Call{Op: "Chdir", A: "/"}); r.Kind != "ok" {
			return nil, nil, fmt.Errorf("Chdir to %s: %s", w.root, r.Kind)
		}
	}

	return l, w, nil
}

// bothDo applies a set-up call that has to succeed on both instances.
func bothDo(l, w *side, c fsx.Call) error {
	for _, sd := range []*side{l, w} {
		if cc, r := sd.do(c); r.Kind != "ok" {
			return fmt.Errorf("setup (%s-typed %s) %s: %s %s", sd.osName(), sd.kind, cc, r.Kind, r.Msg)
		}
	}

	return nil
}

func keyOf(dump []string, cwd string) string {
	return strings.Join(dump, "\n") + "\ncwd=" + cwd
}

// detail is the replay payload carried through bfs.Viol.Detail.
type detail struct {
	LinuxCall   string   `json:"linux_call"`
	LinuxRes    string   `json:"linux_result"`
	LinuxMsg    string   `json:"linux_error,omitempty"`
	WindowsCall string   `json:"windows_call"`
	WindowsRes  string   `json:"windows_result"`
	WindowsMsg  string   `json:"windows_error,omitempty"`
	DumpDiff    string   `json:"dump_diff,omitempty"` // "-" Linux-typed only, "+" Windows-typed only
	LinuxCwd    string   `json:"linux_cwd"`
	WindowsCwd  string   `json:"windows_cwd"`
	Before      []string `json:"linux_tree_before"`
	Note        string   `json:"note,omitempty"`
}

func (s *pairSys) Step(op int) bfs.StepResult {
	c := s.ops[op]

	before, rootOK, cwdBefore := s.curDump, s.curRootOK, s.curCwd
	pc := plainCall(c) // classes and compared values do not depend on the spelling
	operands := operandClass(pc, before, cwdBefore, rootOK)

	// spelling of the operands on the Windows-typed side and whether the current
	// directory is the volume root (what a path without volume is resolved from)
	spelling := spellingOf(c)
	if spelling != "" {
		spelling += " cwd=" + map[bool]string{true: "root", false: "below-root"}[cwdBefore == "/" || cwdBefore == ""]
	}

	lc, lr := s.l.do(c)
	wc, wr := s.w.do(c)

	ld, lRootOK := s.l.dump()
	wd, _ := s.w.dump()
	lcwd, wcwd := s.l.cwd(), s.w.cwd()
	s.curDump, s.curRootOK, s.curCwd = ld, lRootOK, lcwd

	det := detail{
		LinuxCall: lc.String(), LinuxRes: lr.String(), LinuxMsg: lr.Msg,
		WindowsCall: wc.String(), WindowsRes: wr.String(), WindowsMsg: wr.Msg,
		LinuxCwd: lcwd, WindowsCwd: wcwd, Before: before,
	}

	td := treeDiff(ld, wd)
	if td != "" {
		det.DumpDiff = fsx.DiffLines(ld, wd)
	}

	var (
		viols []bfs.Viol
	)

	add := func(kind, what string) {
		b, _ := json.Marshal(det)
		sig := map[string]string{
			"fs": s.kind, "part": "pair", "call": c.Op, "variant": variantOf(pc), "operands": operands,
			"linux": lr.Kind, "windows": wr.Kind, "kind": kind, "what": what,
		}

		if spelling != "" {
			sig["spelling"] = spelling
		}

		if cs := s.cfg.String(); cs != "" {
			sig["config"] = cs
		}

		viols = append(viols, bfs.Viol{Sig: sig, Detail: string(b)})
	}

	lAbn := lr.Kind == "PANIC" || lr.Kind == "DEADLOCK"
	wAbn := wr.Kind == "PANIC" || wr.Kind == "DEADLOCK"
	poisoned := lAbn || wAbn

	switch {
	case poisoned && lr.Kind == wr.Kind:
		// both emulations fail to return in the same way: not a difference between
		// OS types (C07 owns panics and deadlocks as such)
	case poisoned:
		k := wr.Kind
		side := "Windows-typed"

		if lAbn {
			k, side = lr.Kind, "Linux-typed"

			if wAbn {
				side = "both (differently)"
			}
		}

		add(strings.ToLower(k), "call does not return normally on the "+side+" instance only")
	case (lr.Kind == "ok") != (wr.Kind == "ok"):
		add("outcome", "success on one OS type, failure on the other")
	default:
		if lr.Kind != "ok" {
			if !familyOK(false, permissive(lr.Fam)) {
				add("error-family", "Linux-typed instance returned a value of family "+lr.Fam)
			}

			if !familyOK(true, permissive(wr.Fam)) {
				add("error-family", "Windows-typed instance returned a value of family "+wr.Fam)
			}

			// the portable class of the two values (errmap.go "Portable error
			// classes"): what a caller written for both types branches on
			for _, what := range classFindings(c.Op, lr, wr) {
				det.Note = fmt.Sprintf("errors.Is classes: linux %q (errno on Linux: %q), windows %q (errno on Windows: %q)", lr.Class, lr.Want, wr.Class, wr.Want)
				add("error-class", what)
			}

			// which of the two not-found values of the Windows type (errmap.go
			// "Which of the two not-found values"): decided by the class of the
			// responsible operand in the tree before the call
			for _, f := range notFoundFindings(pc, operands, lr, wr) {
				// the class is a fact of the Linux-typed tree: the Windows-typed
				// instance's own Lstat of that directory has to state the same fact
				// (an emulation may keep entries no listing shows; what it answers
				// then is not this rule's business)
				if s.winDirMissing(pc, f) != (f.class == clsParentMissing || f.dirItself) {
					continue
				}

				add("error-value", f.what)
			}

			// the correspondence of the error NUMBERS (Errors.SetOSType) is
			// informational (VERIF_C17_ERRCLASS=1 lists it)
			if errClassReport && !classCompatible(c.Op, lr.Kind, wr.Kind, lr.Fam, wr.Fam) {
				add("error-class", "failure kinds are not counterparts in Errors.SetOSType / the call's OS branch")
			}
		} else if lv, wv, cmp := s.values(pc, lr, wr); cmp && lv != wv {
			det.Note = fmt.Sprintf("portable result: linux %q windows %q", lv, wv)
			add("value", "returned value of a successful read-only call differs")
		}

		if td != "" {
			add("tree", td)
		}

		if lcwd != wcwd {
			add("cwd", "current directories differ after the call")
		}
	}

	diverged := td != "" || lcwd != wcwd
	key := keyOf(ld, lcwd)

	if diverged {
		key = "diverged:" + key + "\n--windows--\n" + keyOf(wd, wcwd)
	}

	if poisoned {
		key = "poisoned:" + c.String() + "\n" + key
	}

	outcome := c.Op + "/" + lr.Kind
	if spelling != "" {
		outcome = c.Op + "[" + spelling + "]/" + lr.Kind
	}

	changed := key != s.lastKey
	s.lastKey = key

	return bfs.StepResult{
		Changed: changed, Key: key, Broken: diverged || poisoned, Rebuild: poisoned,
		Outcome: outcome, Viols: viols,
	}
}

// baseKind is the file system of a system name kind[@D][+tree][+sys].
func baseKind(kind string) string {
	if i := strings.IndexAny(kind, "@+"); i >= 0 {
		return kind[:i]
	}

	return kind
}

// winDirMissing asks the Windows-typed instance itself whether the directory
// of the responsible operand of c (CreateTemp: the operand, a directory,
// itself) is missing: Lstat, which changes nothing.
func (s *pairSys) winDirMissing(c fsx.Call, f notFoundFinding) (missing bool) {
	cc := s.w.concrete(c)

	p := cc.A
	if f.idx == 1 {
		p = cc.B
	}

	_, _ = fsx.Guard(func() {
		if !f.dirItself {
			p = s.w.v.Dir(p)
		}

		_, err := s.w.v.Lstat(p)
		missing = err != nil
	})

	return missing
}

// values returns the portable rendering of what a successful call returned on
// both sides, and whether the call's value is compared at all. Permission bits
// and owners are never part of it.
func (s *pairSys) values(c fsx.Call, lr, wr result) (lv, wv string, compare bool) {
	switch c.Op {
	case "ReadDir":
		// the content of the home directories is the layout of the OS (on the
		// Windows type the temporary directory lives below them)
		if c.A == "$HOME" || c.A == "$HOMEUSER" {
			return "", "", false
		}

		return lr.Val, wr.Val, true
	case "IsEmpty":
		// in the default configuration the root holds the system area, which has
		// no counterpart (the listing calls leave it out, hideSys; with "@D" it
		// stays on another volume): whether the root is empty is not comparable
		if s.cfg.sysDirs && !isRolePath(c.A) && lexAbs(s.curCwd, c.A) == "" {
			return "", "", false
		}

		return lr.Val, wr.Val, true
	case "ReadFile", "Glob", "WalkDir", "Exists", "DirExists", "IsDir":
		// the paths of Glob and WalkDir were made portable one by one (rawCall)
		return lr.Val, wr.Val, true
	case "Readlink":
		// an absolute target is spelled with the instance's volume and separator
		norm := func(sd *side, t string) string {
			if sd.v.IsAbs(t) {
				return "abs:" + sd.normPath(t)
			}

			return sd.v.ToSlash(t)
		}

		return norm(s.l, lr.Val), norm(s.w, wr.Val), true
	case "EvalSymlinks", "CreateTemp", "MkdirTemp":
		return s.l.normPath(lr.Val), s.w.normPath(wr.Val), true
	case "Stat", "Lstat":
		lv, wv = statVal(lr.Val), statVal(wr.Val)

		if isRolePath(c.A) && !strings.Contains(c.A, "/") {
			// the name of a default location is the OS's own (tmp, Temp)
			lv, wv = c.A+lv[strings.Index(lv+" ", " "):], c.A+wv[strings.Index(wv+" ", " "):]
		}

		// the size of a symbolic link is the length of its target, which is not
		// comparable when the target is absolute (volume on one side only)
		if c.Op == "Lstat" && strings.Contains(" "+lv+" ", " l ") && strings.Contains(" "+wv+" ", " l ") {
			lt, _ := s.l.v.Readlink(s.l.concrete(c).A)
			if s.l.v.IsAbs(lt) {
				lv, wv = szRe.ReplaceAllString(lv, " sz=abs"), szRe.ReplaceAllString(wv, " sz=abs")
			}
		}

		return lv, wv, true
	}

	return "", "", false
}

// statVal keeps name, type, size and link count of fsx's Stat rendering
// ("name t mode uid:gid [szN nN]").
func statVal(v string) string {
	i := strings.Index(v, " ")
	if i < 0 {
		return v
	}

	f := strings.Fields(v[i+1:])
	out := []string{v[:i]}

	for j, x := range f {
		if j == 1 || j == 2 { // mode, owner
			continue
		}

		out = append(out, x)
	}

	return strings.Join(out, " ")
}

func variantOf(c fsx.Call) string {
	switch c.Op {
	case "OpenFile":
		return fsx.FlagString(c.Flag)
	case "Truncate":
		switch {
		case c.N < 0:
			return "size<0"
		case c.N == 0:
			return "size=0"
		}

		return "size>0"
	case "WriteFile":
		return fmt.Sprintf("%dB", len(c.Data))
	case "CreateTemp", "MkdirTemp":
		return "pattern " + c.B
	case "Symlink":
		return "target " + c.A
	case "Glob":
		return "pattern " + c.A
	}

	return ""
}

// lexical join/clean of portable slash paths (operand classification only).
func lexAbs(cwd, p string) string {
	if !strings.HasPrefix(p, "/") {
		p = cwd + "/" + p
	}

	var out []string

	for _, e := range strings.Split(p, "/") {
		switch e {
		case "", ".":
		case "..":
			if len(out) > 0 {
				out = out[:len(out)-1]
			}
		default:
			out = append(out, e)
		}
	}

	if len(out) == 0 {
		return ""
	}

	return "/" + strings.Join(out, "/")
}

// operandClass describes the operands of c in the Linux-typed tree before the
// call: root | file | file(links) | dirEmpty | dirNonEmpty | symlink>… |
// missing | missing(parent missing) | below-file | below-symlink>…, "rel:"
// prefix for relative operands, plus the aliasing relation of two-path calls.
func operandClass(c fsx.Call, dump []string, cwd string, rootOK bool) string {
	ti := fsx.IndexDump(dump, "")
	if !rootOK {
		ti.Typ[""] = "d" // root exists but is not addressable (OrefaFS)
	}

	cls := func(p string) (string, string) {
		if p == "" {
			return "default-dir", ""
		}

		abs := lexAbs(cwd, p)
		note := ""

		switch {
		case isRolePath(p): // a default location: an entry of the portable dump under its role
			r, _ := roleOf(p)
			abs, note = "/"+p, "role "+r+":"

			if cwd != "" && cwd != "/" {
				return note + ti.Class(abs) + " cwd=" + cwd, abs
			}
		case !strings.HasPrefix(p, "/"):
			note = "rel:"
		}

		if abs == "" {
			return note + "root", abs
		}

		return note + ti.Class(abs), abs
	}

	switch c.Op {
	case "Rename", "Link":
		ca, aa := cls(c.A)
		cb, ab := cls(c.B)

		return ca + "," + cb + "," + ti.Relation(aa, ab, func(a, b string) bool {
			return ti.Typ[a] == "f" && ti.Typ[b] == "f" && sameClass(dump, a, b)
		})
	case "Symlink":
		cb, _ := cls(c.B)

		return cb
	case "Glob":
		// the pattern is in the variant; the operand is the directory its first
		// wildcard element is looked up in
		elems := strings.Split(c.A, "/")
		for i, e := range elems {
			if strings.ContainsAny(e, "*?[") {
				elems = elems[:i]

				break
			}
		}

		dir := strings.Join(elems, "/")
		if dir == "" && strings.HasPrefix(c.A, "/") {
			dir = "/"
		}

		if dir == "" {
			dir = "."
		}

		cd, _ := cls(dir)

		return "in " + cd
	}

	ca, _ := cls(c.A)

	return ca
}

func sameClass(dump []string, a, b string) bool {
	m := parseDump(dump)
	ea, oka := m[strings.TrimPrefix(a, "/")]
	eb, okb := m[strings.TrimPrefix(b, "/")]

	return oka && okb && ea.class != "" && ea.class == eb.class
}

// classHelperNames: the exported functions of package avfs that take a file
// system and a path and answer by the CLASS of the failure of a Stat
// (errors.Is(err, fs.ErrNotExist) -> "no" instead of an error) — explicit
// list, vfs_aferoutils.go. General lesson: see errmap.go "Portable error
// classes"; as calls of the alphabet they turn a value that lost its class on
// one OS type into success on one type and failure on the other.
var (
	classHelperNames = []string{"Exists", "DirExists", "IsDir", "IsEmpty"}
	classHelperOps   = map[string]bool{"Exists": true, "DirExists": true, "IsDir": true, "IsEmpty": true}
)

// buildOps is the alphabet of part (C), in portable form. No Chown, Lchown,
// Chmod (documented as OS-specific); absolute link targets are written in
// portable form and translated per instance.
func buildOps(kind, tier string, cfg sideCfg) []fsx.Call {
	abs := []string{"/", "/a", "/b", "/a/a", "/a/b", "/b/a", "/b/b"}
	rel := []string{"a", "b"}

	if tier == "thorough" {
		rel = append(rel, "a/b", "..")
	}

	all := append(append([]string{}, abs...), rel...)

	flagSets := []int{
		os.O_RDONLY,
		os.O_WRONLY,
		os.O_RDWR | os.O_CREATE,
		os.O_RDWR | os.O_CREATE | os.O_EXCL,
		os.O_WRONLY | os.O_CREATE | os.O_TRUNC,
		os.O_WRONLY | os.O_TRUNC,
		os.O_WRONLY | os.O_APPEND,
		os.O_RDONLY | os.O_CREATE,
	}

	contents := []string{"x"}
	if tier == "thorough" {
		contents = append(contents, "yz")
	}

	var ops []fsx.Call

	// single: the one-path calls on p
	single := func(p string, chdir bool) {
		ops = append(ops,
			fsx.Call{Op: "Mkdir", A: p, Perm: 0o755},
			fsx.Call{Op: "MkdirAll", A: p, Perm: 0o755},
			fsx.Call{Op: "Remove", A: p},
			fsx.Call{Op: "RemoveAll", A: p},
			fsx.Call{Op: "Create", A: p},
		)

		for _, d := range contents {
			ops = append(ops, fsx.Call{Op: "WriteFile", A: p, Data: d, Perm: 0o644})
		}

		for _, f := range flagSets {
			ops = append(ops, fsx.Call{Op: "OpenFile", A: p, Flag: f, Perm: 0o644})
		}

		ops = append(ops,
			fsx.Call{Op: "Truncate", A: p, N: 0},
			fsx.Call{Op: "Truncate", A: p, N: 3},
			fsx.Call{Op: "Truncate", A: p, N: -1},
			fsx.Call{Op: "Stat", A: p},
			fsx.Call{Op: "Lstat", A: p},
			fsx.Call{Op: "ReadDir", A: p},
			fsx.Call{Op: "ReadFile", A: p},
		)

		if chdir {
			ops = append(ops, fsx.Call{Op: "Chdir", A: p})
		}

		ops = append(ops,
			fsx.Call{Op: "Chtimes", A: p, N: 60},
			fsx.Call{Op: "CreateTemp", A: p, B: "t*"},
			fsx.Call{Op: "MkdirTemp", A: p, B: "t*"},
		)

		// the helpers of the root package that branch on the class of a failure
		// (classHelperOps): on every operand of the one-path calls, in every
		// spelling — a name whose last element is missing, one whose PARENT is
		// missing ("/a/b" without "/a": another Windows value), one below a file
		for _, h := range classHelperNames {
			ops = append(ops, fsx.Call{Op: h, A: p})
		}

		if kind == "MemFS" { // OrefaFS does not advertise FeatSymlink
			ops = append(ops,
				fsx.Call{Op: "Readlink", A: p},
				fsx.Call{Op: "EvalSymlinks", A: p},
			)
		}
	}

	for _, p := range all {
		single(p, true)
	}

	// The spelling dimension (see "Spellings" in sides.go). General lesson: one
	// name has several legitimate spellings on one OS type and the library's
	// path builder produces a single one of them; every path-taking call has to
	// be made with every spelling of its operands, from the volume root and
	// from a directory below it (Chdir, spelled too, is in the alphabet: the
	// spellings without volume mean something only relative to the current
	// directory). The operands: the root itself, a name directly below it and
	// a name two levels down (the cut between volume, root and first element and
	// a separator inside the path), existing or not, directory or file
	// depending on the state; thorough: every absolute operand of the alphabet
	// and the relative ones holding a separator.
	spAbs := []string{"/", "/a", "/b", "/a/b"}
	if tier == "thorough" {
		spAbs = abs
	}

	// spelled gives the operand p in spelling tag ("" when p has no other
	// spelling under that tag: a relative path has no volume to leave out and a
	// single name no separator).
	spelled := func(tag, p string) string {
		switch {
		case strings.HasPrefix(p, "/"):
			return tag + ":" + p
		case strings.Contains(tag, "f") && strings.Contains(p, "/"):
			return "f:" + p
		}

		return ""
	}

	spAll := append([]string{}, spAbs...)

	for _, p := range rel {
		if spelled("f", p) != "" {
			spAll = append(spAll, p)
		}
	}

	for _, tag := range absSpellings {
		for _, p := range spAll {
			if sp := spelled(tag, p); sp != "" && (tag != "rf" || strings.HasPrefix(p, "/")) {
				single(sp, true)
			}
		}
	}

	// Letter case. General lesson: code that asks "are these two the same
	// entry?" (the shortcut of Rename/Link for identical operands, the look-up
	// of a name in a directory, the comparison of a path with a prefix) can do
	// so with a lexical helper, and the lexical helpers of one OS type fold
	// case while the emulated tree does not (it is case sensitive on both
	// types: that is what the Linux-typed twin demands). An alphabet written in
	// one case never tells the two apart. So: names that differ from a name of
	// the alphabet only by the case of ONE element (the last one, a directory
	// on the way), as entries of their own (the creating, removing and reading
	// one-path calls; thorough: all of them) and as the two operands of Rename
	// and Link, in both directions. "a" next to "A" exists in reached states
	// (Mkdir /A after the start state "+tree", Rename /a -> /A ...).
	caseBase := []string{"/a", "/a/a", "a"}
	if tier == "thorough" {
		caseBase = all
	}

	var casePairs [][2]string

	caseSeen := map[string]bool{}

	for _, p := range caseBase {
		for _, q := range caseVariants(p) {
			casePairs = append(casePairs, [2]string{p, q})

			if caseSeen[q] {
				continue
			}

			caseSeen[q] = true

			if tier == "thorough" {
				single(q, true)

				continue
			}

			ops = append(ops,
				fsx.Call{Op: "Mkdir", A: q, Perm: 0o755},
				fsx.Call{Op: "WriteFile", A: q, Data: "x", Perm: 0o644},
				fsx.Call{Op: "Remove", A: q},
				fsx.Call{Op: "Stat", A: q},
				fsx.Call{Op: "ReadDir", A: q},
				fsx.Call{Op: "Chdir", A: q},
			)
		}
	}

	if cfg.sysDirs {
		// RemoveAll of the root removes the default locations, which are nested
		// on one type only: what a later MkdirAll of one of them brings back differs
		kept := ops[:0]

		for _, c := range ops {
			if a := plain(c.A); c.Op != "RemoveAll" || (a != "/" && a != "..") {
				kept = append(kept, c)
			}
		}

		ops = kept
	}

	for _, p := range all {
		for _, q := range all {
			ops = append(ops, fsx.Call{Op: "Rename", A: p, B: q}, fsx.Call{Op: "Link", A: p, B: q})
		}
	}

	// the same name in two cases as the two operands (see "Letter case" above)
	for _, pq := range casePairs {
		ops = append(ops,
			fsx.Call{Op: "Rename", A: pq[0], B: pq[1]}, fsx.Call{Op: "Rename", A: pq[1], B: pq[0]},
			fsx.Call{Op: "Link", A: pq[0], B: pq[1]}, fsx.Call{Op: "Link", A: pq[1], B: pq[0]},
		)
	}

	// two-path calls: every pair with at least one operand that has another
	// spelling, both operands in the same spelling (each operand is resolved on
	// its own: a fault in the resolution of either shows whatever the other
	// is); thorough: also one operand spelled and the other as Join gives it
	pairSet := append(append([]string{}, spAbs...), rel...)

	for _, tag := range absSpellings {
		for _, p := range pairSet {
			for _, q := range pairSet {
				sp, sq := spelled(tag, p), spelled(tag, q)
				if tag == "rf" && !strings.HasPrefix(p, "/") && !strings.HasPrefix(q, "/") {
					continue // two relative operands: spelled under "f" already
				}

				var variants [][2]string

				switch {
				case sp == "" && sq == "":
					continue
				case sp == "":
					variants = [][2]string{{p, sq}}
				case sq == "":
					variants = [][2]string{{sp, q}}
				default:
					variants = [][2]string{{sp, sq}}
					if tier == "thorough" {
						variants = append(variants, [2]string{sp, q}, [2]string{p, sq})
					}
				}

				for _, v := range variants {
					ops = append(ops, fsx.Call{Op: "Rename", A: v[0], B: v[1]}, fsx.Call{Op: "Link", A: v[0], B: v[1]})
				}
			}
		}
	}

	if kind == "MemFS" {
		// "/a" and "/nope" are absolute in the instance's own spelling (Linux
		// "/a", Windows `C:\a`): concrete() translates the target like any operand
		targets := []string{"a", "../b", "nope", "/a", "/nope"}
		if tier == "thorough" {
			targets = append(targets, "b", "a/b", "/b/a")
		}

		for _, t := range targets {
			for _, q := range all {
				if q == ".." {
					continue
				}

				ops = append(ops, fsx.Call{Op: "Symlink", A: t, B: q})
			}
		}

		// the new name is an operand and is spelled; the target is content
		spTargets := []string{"a", "/a"}
		if tier == "thorough" {
			spTargets = targets
		}

		for _, tag := range absSpellings {
			for _, t := range spTargets {
				for _, q := range spAbs {
					ops = append(ops, fsx.Call{Op: "Symlink", A: t, B: spelled(tag, q)})
				}
			}
		}
	}

	// Pattern- and root-taking calls. General lesson: code that takes a path
	// apart (volume, root, directory, last element) has a case of its own for
	// every place the cut can fall; the operand whose directory part IS the
	// volume root (`C:\x*`) is the one a tree of test directories never
	// produces. So: a wildcard directly below the root, in the first, a middle
	// and the last element, absolute and relative, and the walk rooted at the
	// root itself, in every reached state (the exhaustive pattern set on a
	// deeper tree is part (D), patterns.go).
	globs := []string{"/*", "/a*", "/?", "/*/*", "/[ab]/*", "/*/a", "/a/*", "/*/*/*", "/a/*/a", "*", "*/*", "a/*"}
	walks := []string{"/", "/a", "/b", "a", "."}

	if tier == "thorough" {
		globs = append(globs, "/[a-b]", "/?/?", "/b/*", "/*/b", "/*/a/*", "b/*", "*/a", "../*")
		walks = append(walks, "/a/a", "b", "..")
	}

	for _, g := range globs {
		ops = append(ops, fsx.Call{Op: "Glob", A: g})
	}

	for _, w := range walks {
		ops = append(ops, fsx.Call{Op: "WalkDir", A: w})
	}

	// spelled patterns and walk roots: the results come back in the spelling of
	// the operand and are compared in portable form
	spGlobs := []string{"/*", "/a*", "/*/*", "/a/*", "/*/a", "*/*", "a/*"}
	spWalks := []string{"/", "/a"}

	if tier == "thorough" {
		spGlobs, spWalks = globs, walks
	}

	for _, tag := range absSpellings {
		for _, g := range spGlobs {
			if sp := spelled(tag, g); sp != "" && (tag != "rf" || strings.HasPrefix(g, "/")) {
				ops = append(ops, fsx.Call{Op: "Glob", A: sp})
			}
		}

		for _, w := range spWalks {
			if sp := spelled(tag, w); sp != "" && (tag != "rf" || strings.HasPrefix(w, "/")) {
				ops = append(ops, fsx.Call{Op: "WalkDir", A: sp})
			}
		}
	}

	// Default locations (only in the default configuration: elsewhere the
	// harness's /tmp is not what TempDir() names). General lesson: a call with
	// a default ("" = the temporary directory of the current user) is a call
	// on a path that only the library knows; it has to be in the alphabet as
	// such, together with the calls on the location spelled by the library's
	// own helper. The current directory is never set inside a default location
	// and no link is created there: their depth below the root differs between
	// the types by documentation, so ".." from inside is not portable.
	if cfg.sysDirs {
		ops = append(ops,
			fsx.Call{Op: "CreateTemp", A: "", B: "t*"},
			fsx.Call{Op: "MkdirTemp", A: "", B: "t*"},
			fsx.Call{Op: "Glob", A: "$TMP/*"},
			fsx.Call{Op: "WalkDir", A: "$TMP"},
		)

		single("$TMP", false)
		single("$TMP/a", false)

		if tier == "thorough" {
			// the default locations in the other spellings (the helpers return one)
			for _, tag := range absSpellings {
				single(tag+":$TMP", false)
				single(tag+":$TMP/a", false)
			}
		}

		// the home directories hold the other default locations on one type
		// only: no call that removes or replaces them
		for _, p := range allRoles[1:] {
			if p == "$HOMEUSER" && kind != "MemFS" {
				continue // no identity manager: no user whose home would exist
			}

			ops = append(ops,
				fsx.Call{Op: "Mkdir", A: p, Perm: 0o755},
				fsx.Call{Op: "MkdirAll", A: p, Perm: 0o755},
				fsx.Call{Op: "OpenFile", A: p, Flag: os.O_RDONLY},
				fsx.Call{Op: "OpenFile", A: p, Flag: os.O_WRONLY},
				fsx.Call{Op: "Stat", A: p},
				fsx.Call{Op: "Lstat", A: p},
				fsx.Call{Op: "ReadDir", A: p},
				fsx.Call{Op: "ReadFile", A: p},
			)
		}
	}

	// one operand can come out of two rules (a relative path has the same
	// spelling under "f" and "rf"): every call once
	seen := map[string]bool{}
	kept := ops[:0]

	for _, c := range ops {
		if k := c.String(); !seen[k] {
			seen[k] = true
			kept = append(kept, c)
		}
	}

	return kept
}

// caseVariants returns the portable paths that differ from p by the letter
// case of exactly one element ("/a/b": "/A/b", "/a/B"); none for "/", "..".
func caseVariants(p string) []string {
	var out []string

	elems := strings.Split(p, "/")

	for i, e := range elems {
		u := strings.ToUpper(e)
		if u == e {
			continue
		}

		v := append(append(append([]string{}, elems[:i]...), u), elems[i+1:]...)
		out = append(out, strings.Join(v, "/"))
	}

	return out
}

func pairFactory(tier string) func(string) bfs.System {
	return func(name string) bfs.System {
		setSeq()

		// name = kind[@D][+tree][+sys]: "@D" puts the Windows-typed side on an added
		// volume D: (with "+sys": the user's tree and the current directory only,
		// the system area stays on C:), "+tree" starts from a non-initial state (/a/{a}, /b second
		// name of /a/a), "+sys" is the default configuration of the emulated OS
		// (system directories of the constructor, MemFS: identity manager of the
		// same OS type)
		ps := &pairSys{name: name, tier: tier}
		ps.kind = name

		if i := strings.IndexAny(name, "@+"); i >= 0 {
			ps.kind = name[:i]
		}

		ps.tree = strings.Contains(name, "+tree")

		if strings.Contains(name, "@D") {
			ps.vol = "D:"
		}

		if strings.Contains(name, "+sys") {
			ps.cfg = sideCfg{sysDirs: true, idmSame: ps.kind == "MemFS"}
		}

		ps.ops = buildOps(ps.kind, tier, ps.cfg)

		return ps
	}
}
