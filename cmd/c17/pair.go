package main

import (
	"encoding/json"
	"fmt"
	"github.com/avfs/avfs"
	"os"
	"strings"

	"verif/lib/bfs"
	"verif/lib/fsx"
)

// pairSys is engine A's system for part (C): a Linux-typed and a Windows-typed
// real instance of one file-system kind driven in lock-step.
type pairSys struct {
	name    string // system name as given
	tree    bool
	vol     string
	kind    string // MemFS | OrefaFS
	tier    string
	ops     []fsx.Call // portable form
	l, w    *side
	lastKey string
}

func (s *pairSys) NumOps() int           { return len(s.ops) }
func (s *pairSys) OpString(i int) string { return s.ops[i].String() }
func (s *pairSys) Close()                {}
func (s *pairSys) Key() string           { return s.lastKey }

func (s *pairSys) Reset() error {
	var err error

	if s.l, _, err = newSide(s.kind, false); err != nil {
		return err
	}

	if s.w, _, err = newSide(s.kind, true); err != nil {
		return err
	}

	if s.vol != "" {
		vm, ok := s.w.v.(avfs.VolumeManager)
		if !ok {
			return fmt.Errorf("%s has no volume management", s.kind)
		}

		if err := vm.VolumeAdd(s.vol); err != nil {
			return fmt.Errorf("VolumeAdd(%s): %v", s.vol, err)
		}

		s.w.root = s.vol + `\`

		if err := s.w.v.MkdirAll(s.w.root+"tmp", 0o777); err != nil {
			return fmt.Errorf("MkdirAll on %s: %v", s.vol, err)
		}

		if _, r := s.w.do(fsx.Call{Op: "Chdir", A: "/"}); r.Kind != "ok" {
			return fmt.Errorf("Chdir to %s: %s", s.w.root, r.Kind)
		}
	}

	if s.tree {
		for _, c := range []fsx.Call{
			{Op: "Mkdir", A: "/a", Perm: 0o755},
			{Op: "WriteFile", A: "/a/a", Data: "hello", Perm: 0o644},
			{Op: "Link", A: "/a/a", B: "/b"},
		} {
			if _, r := s.l.do(c); r.Kind != "ok" {
				return fmt.Errorf("setup (Linux-typed) %s: %s", c, r.Kind)
			}

			if _, r := s.w.do(c); r.Kind != "ok" {
				return fmt.Errorf("setup (Windows-typed) %s: %s", c, r.Kind)
			}
		}
	}

	ld, _ := s.l.dump()
	s.lastKey = keyOf(ld, s.l.cwd())

	return nil
}

func keyOf(dump []string, cwd string) string {
	return strings.Join(dump, "\n") + "\ncwd=" + cwd
}

// detail is the replay payload carried through bfs.Viol.Detail.
type detail struct {
	LinuxCall   string   `json:"linux_call"`
	LinuxRes    string   `json:"linux_result"`
	LinuxMsg    string   `json:"linux_error,omitempty"`
	WindowsCall string   `json:"windows_call"`
	WindowsRes  string   `json:"windows_result"`
	WindowsMsg  string   `json:"windows_error,omitempty"`
	DumpDiff    string   `json:"dump_diff,omitempty"` // "-" Linux-typed only, "+" Windows-typed only
	LinuxCwd    string   `json:"linux_cwd"`
	WindowsCwd  string   `json:"windows_cwd"`
	Before      []string `json:"linux_tree_before"`
	Note        string   `json:"note,omitempty"`
}

func (s *pairSys) Step(op int) bfs.StepResult {
	c := s.ops[op]

	before, rootOK := s.l.dump()
	cwdBefore := s.l.cwd()
	operands := operandClass(c, before, cwdBefore, rootOK)

	lc, lr := s.l.do(c)
	wc, wr := s.w.do(c)

	ld, _ := s.l.dump()
	wd, _ := s.w.dump()
	lcwd, wcwd := s.l.cwd(), s.w.cwd()

	det := detail{
		LinuxCall: lc.String(), LinuxRes: lr.String(), LinuxMsg: lr.Msg,
		WindowsCall: wc.String(), WindowsRes: wr.String(), WindowsMsg: wr.Msg,
		LinuxCwd: lcwd, WindowsCwd: wcwd, Before: before,
	}

	td := treeDiff(ld, wd)
	if td != "" {
		det.DumpDiff = fsx.DiffLines(ld, wd)
	}

	var viols []bfs.Viol

	add := func(kind, what string) {
		b, _ := json.Marshal(det)
		viols = append(viols, bfs.Viol{
			Sig: map[string]string{
				"fs": s.kind, "part": "pair", "call": c.Op, "variant": variantOf(c), "operands": operands,
				"linux": lr.Kind, "windows": wr.Kind, "kind": kind, "what": what,
			},
			Detail: string(b),
		})
	}

	lAbn := lr.Kind == "PANIC" || lr.Kind == "DEADLOCK"
	wAbn := wr.Kind == "PANIC" || wr.Kind == "DEADLOCK"
	poisoned := lAbn || wAbn

	switch {
	case poisoned && lr.Kind == wr.Kind:
		// both emulations fail to return in the same way: not a difference between
		// OS types (C07 owns panics and deadlocks as such)
	case poisoned:
		k := wr.Kind
		side := "Windows-typed"

		if lAbn {
			k, side = lr.Kind, "Linux-typed"

			if wAbn {
				side = "both (differently)"
			}
		}

		add(strings.ToLower(k), "call does not return normally on the "+side+" instance only")
	case (lr.Kind == "ok") != (wr.Kind == "ok"):
		add("outcome", "success on one OS type, failure on the other")
	default:
		if lr.Kind != "ok" {
			if !familyOK(false, permissive(lr.Fam)) {
				add("error-family", "Linux-typed instance returned a value of family "+lr.Fam)
			}

			if !familyOK(true, permissive(wr.Fam)) {
				add("error-family", "Windows-typed instance returned a value of family "+wr.Fam)
			}

			// the property requires agreement on success or failure only: a
			// mismatch of error classes is informational (VERIF_C17_ERRCLASS=1 lists it)
			if errClassReport && !classCompatible(c.Op, lr.Kind, wr.Kind, lr.Fam, wr.Fam) {
				add("error-class", "failure kinds are not counterparts in Errors.SetOSType / the call's OS branch")
			}
		} else if lv, wv, cmp := s.values(c, lr, wr); cmp && lv != wv {
			det.Note = fmt.Sprintf("portable result: linux %q windows %q", lv, wv)
			add("value", "returned value of a successful read-only call differs")
		}

		if td != "" {
			add("tree", td)
		}

		if lcwd != wcwd {
			add("cwd", "current directories differ after the call")
		}
	}

	diverged := td != "" || lcwd != wcwd
	key := keyOf(ld, lcwd)

	if diverged {
		key = "diverged:" + key + "\n--windows--\n" + keyOf(wd, wcwd)
	}

	if poisoned {
		key = "poisoned:" + c.String() + "\n" + key
	}

	changed := key != s.lastKey
	s.lastKey = key

	return bfs.StepResult{
		Changed: changed, Key: key, Broken: diverged || poisoned, Rebuild: poisoned,
		Outcome: c.Op + "/" + lr.Kind, Viols: viols,
	}
}

// values returns the portable rendering of what a successful call returned on
// both sides, and whether the call's value is compared at all. Permission bits
// and owners are never part of it.
func (s *pairSys) values(c fsx.Call, lr, wr result) (lv, wv string, compare bool) {
	switch c.Op {
	case "ReadDir", "ReadFile":
		return lr.Val, wr.Val, true
	case "Readlink":
		// an absolute target is spelled with the instance's volume and separator
		norm := func(sd *side, t string) string {
			if sd.v.IsAbs(t) {
				return "abs:" + sd.normPath(t)
			}

			return sd.v.ToSlash(t)
		}

		return norm(s.l, lr.Val), norm(s.w, wr.Val), true
	case "EvalSymlinks", "CreateTemp", "MkdirTemp":
		return s.l.normPath(lr.Val), s.w.normPath(wr.Val), true
	case "Stat", "Lstat":
		lv, wv = statVal(lr.Val), statVal(wr.Val)

		// the size of a symbolic link is the length of its target, which is not
		// comparable when the target is absolute (volume on one side only)
		if c.Op == "Lstat" && strings.Contains(" "+lv+" ", " l ") && strings.Contains(" "+wv+" ", " l ") {
			lt, _ := s.l.v.Readlink(s.l.concrete(c).A)
			if s.l.v.IsAbs(lt) {
				lv, wv = szRe.ReplaceAllString(lv, " sz=abs"), szRe.ReplaceAllString(wv, " sz=abs")
			}
		}

		return lv, wv, true
	}

	return "", "", false
}

// statVal keeps name, type, size and link count of fsx's Stat rendering
// ("name t mode uid:gid [szN nN]").
func statVal(v string) string {
	i := strings.Index(v, " ")
	if i < 0 {
		return v
	}

	f := strings.Fields(v[i+1:])
	out := []string{v[:i]}

	for j, x := range f {
		if j == 1 || j == 2 { // mode, owner
			continue
		}

		out = append(out, x)
	}

	return strings.Join(out, " ")
}

func variantOf(c fsx.Call) string {
	switch c.Op {
	case "OpenFile":
		return fsx.FlagString(c.Flag)
	case "Truncate":
		switch {
		case c.N < 0:
			return "size<0"
		case c.N == 0:
			return "size=0"
		}

		return "size>0"
	case "WriteFile":
		return fmt.Sprintf("%dB", len(c.Data))
	case "CreateTemp", "MkdirTemp":
		return "pattern " + c.B
	case "Symlink":
		return "target " + c.A
	}

	return ""
}

// lexical join/clean of portable slash paths (operand classification only).
func lexAbs(cwd, p string) string {
	if !strings.HasPrefix(p, "/") {
		p = cwd + "/" + p
	}

	var out []string

	for _, e := range strings.Split(p, "/") {
		switch e {
		case "", ".":
		case "..":
			if len(out) > 0 {
				out = out[:len(out)-1]
			}
		default:
			out = append(out, e)
		}
	}

	if len(out) == 0 {
		return ""
	}

	return "/" + strings.Join(out, "/")
}

// operandClass describes the operands of c in the Linux-typed tree before the
// call: root | file | file(links) | dirEmpty | dirNonEmpty | symlink>… |
// missing | missing(parent missing) | below-file | below-symlink>…, "rel:"
// prefix for relative operands, plus the aliasing relation of two-path calls.
func operandClass(c fsx.Call, dump []string, cwd string, rootOK bool) string {
	ti := fsx.IndexDump(dump, "")
	if !rootOK {
		ti.Typ[""] = "d" // root exists but is not addressable (OrefaFS)
	}

	cls := func(p string) (string, string) {
		abs := lexAbs(cwd, p)
		note := ""

		if !strings.HasPrefix(p, "/") {
			note = "rel:"
		}

		if abs == "" {
			return note + "root", abs
		}

		return note + ti.Class(abs), abs
	}

	switch c.Op {
	case "Rename", "Link":
		ca, aa := cls(c.A)
		cb, ab := cls(c.B)

		return ca + "," + cb + "," + ti.Relation(aa, ab, func(a, b string) bool {
			return ti.Typ[a] == "f" && ti.Typ[b] == "f" && sameClass(dump, a, b)
		})
	case "Symlink":
		cb, _ := cls(c.B)

		return cb
	}

	ca, _ := cls(c.A)

	return ca
}

func sameClass(dump []string, a, b string) bool {
	m := parseDump(dump)
	ea, oka := m[strings.TrimPrefix(a, "/")]
	eb, okb := m[strings.TrimPrefix(b, "/")]

	return oka && okb && ea.class != "" && ea.class == eb.class
}

// buildOps is the alphabet of part (C), in portable form. No Chown, Lchown,
// Chmod (documented as OS-specific); absolute link targets are written in
// portable form and translated per instance.
func buildOps(kind, tier string) []fsx.Call {
	abs := []string{"/", "/a", "/b", "/a/a", "/a/b", "/b/a", "/b/b"}
	rel := []string{"a", "b"}

	if tier == "thorough" {
		rel = append(rel, "a/b", "..")
	}

	all := append(append([]string{}, abs...), rel...)

	flagSets := []int{
		os.O_RDONLY,
		os.O_WRONLY,
		os.O_RDWR | os.O_CREATE,
		os.O_RDWR | os.O_CREATE | os.O_EXCL,
		os.O_WRONLY | os.O_CREATE | os.O_TRUNC,
		os.O_WRONLY | os.O_TRUNC,
		os.O_WRONLY | os.O_APPEND,
		os.O_RDONLY | os.O_CREATE,
	}

	contents := []string{"x"}
	if tier == "thorough" {
		contents = append(contents, "yz")
	}

	var ops []fsx.Call

	for _, p := range all {
		ops = append(ops,
			fsx.Call{Op: "Mkdir", A: p, Perm: 0o755},
			fsx.Call{Op: "MkdirAll", A: p, Perm: 0o755},
			fsx.Call{Op: "Remove", A: p},
			fsx.Call{Op: "RemoveAll", A: p},
			fsx.Call{Op: "Create", A: p},
		)

		for _, d := range contents {
			ops = append(ops, fsx.Call{Op: "WriteFile", A: p, Data: d, Perm: 0o644})
		}

		for _, f := range flagSets {
			ops = append(ops, fsx.Call{Op: "OpenFile", A: p, Flag: f, Perm: 0o644})
		}

		ops = append(ops,
			fsx.Call{Op: "Truncate", A: p, N: 0},
			fsx.Call{Op: "Truncate", A: p, N: 3},
			fsx.Call{Op: "Truncate", A: p, N: -1},
			fsx.Call{Op: "Stat", A: p},
			fsx.Call{Op: "Lstat", A: p},
			fsx.Call{Op: "ReadDir", A: p},
			fsx.Call{Op: "ReadFile", A: p},
			fsx.Call{Op: "Chdir", A: p},
			fsx.Call{Op: "Chtimes", A: p, N: 60},
			fsx.Call{Op: "CreateTemp", A: p, B: "t*"},
			fsx.Call{Op: "MkdirTemp", A: p, B: "t*"},
		)

		if kind == "MemFS" { // OrefaFS does not advertise FeatSymlink
			ops = append(ops,
				fsx.Call{Op: "Readlink", A: p},
				fsx.Call{Op: "EvalSymlinks", A: p},
			)
		}
	}

	for _, p := range all {
		for _, q := range all {
			ops = append(ops, fsx.Call{Op: "Rename", A: p, B: q}, fsx.Call{Op: "Link", A: p, B: q})
		}
	}

	if kind == "MemFS" {
		// "/a" and "/nope" are absolute in the instance's own spelling (Linux
		// "/a", Windows `C:\a`): concrete() translates the target like any operand
		targets := []string{"a", "../b", "nope", "/a", "/nope"}
		if tier == "thorough" {
			targets = append(targets, "b", "a/b", "/b/a")
		}

		for _, t := range targets {
			for _, q := range all {
				if q == ".." {
					continue
				}

				ops = append(ops, fsx.Call{Op: "Symlink", A: t, B: q})
			}
		}
	}

	return ops
}

func pairFactory(tier string) func(string) bfs.System {
	return func(name string) bfs.System {
		setSeq()

		// name = kind[@D][+tree]: "@D" puts the Windows-typed side on an added
		// volume D:, "+tree" starts from a non-initial state (/a/{a}, /b second
		// name of /a/a)
		ps := &pairSys{name: name, tier: tier}
		ps.kind = name

		if i := strings.IndexAny(name, "@+"); i >= 0 {
			ps.kind = name[:i]
		}

		ps.tree = strings.Contains(name, "+tree")

		if strings.Contains(name, "@D") {
			ps.vol = "D:"
		}

		ps.ops = buildOps(ps.kind, tier)

		return ps
	}
}
