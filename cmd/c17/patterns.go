package main

import (
	"fmt"
	"strings"

	"verif/lib/fsx"
	"verif/lib/kf"
)

// Part (D): the pattern- and root-taking calls (Glob, WalkDir, ReadDir) over
// the exhaustive set of operands up to a number of elements, on a fixed tree
// deep enough for every element of an operand to name something.
//
// General lesson: code that takes a path apart (volume, root, directory part,
// last element, trailing separator) has a case of its own for every place the
// cut can fall, and the Windows variant of such code has more of them (`C:`,
// `C:\`, `\`, `C:x`). The histories of part (C) live in a universe two names
// deep and would need most of their length to build a tree worth matching, so
// the operand is enumerated here instead: every sequence of <= n elements over
// {literal names, wildcard elements}, hence with the first wildcard DIRECTLY
// BELOW THE VOLUME ROOT (`C:\a*`), in a middle element and in the last one,
// absolute and relative to two current directories, on the default volume and
// on an added one. The oracle is the twin: the Linux-typed instance, given the
// same portable operand, names the expected matches.

type patStats struct {
	Systems        []string       `json:"systems"`
	Elements       []string       `json:"elements"`
	MaxElems       int            `json:"max_elements"`
	Operands       int            `json:"operands"` // distinct portable operands (absolute + relative)
	Cwds           []string       `json:"current_directories"`
	Tree           []string       `json:"tree"`
	Calls          int            `json:"calls_per_side"`
	NonEmpty       int            `json:"calls_with_non_empty_result"`
	WildBelowRoot  int            `json:"glob_calls_with_first_wildcard_directly_below_the_root_that_match"`
	OutcomeClasses map[string]int `json:"outcome_classes"`
	Sample         map[string]any `json:"sample,omitempty"`
}

// patElements: literal names of the tree (l: a symbolic link to a directory,
// MemFS only; on OrefaFS the name does not exist), the wildcard forms of
// Match (star alone, star after a prefix, one character, a class) and a
// malformed class. No '\': an escape on one type, the separator on the other.
func patElements(tier string) []string {
	e := []string{"a", "b", "l", "*", "a*", "?", "[ab]", "[a"}

	if tier == "thorough" {
		e = append(e, "ab", "*b", "[^a]", "??")
	}

	return e
}

func patMaxElems(tier string) int {
	if tier == "thorough" {
		return 4
	}

	return 3
}

// patTree is the fixture, as portable set-up calls: directories a, a/a, b,
// b/a (thorough: b/a/a), files at every depth, a name that extends another
// (ab), MemFS: l -> a.
func patTree(kind, tier string) []fsx.Call {
	cs := []fsx.Call{
		{Op: "Mkdir", A: "/a", Perm: 0o755},
		{Op: "Mkdir", A: "/a/a", Perm: 0o755},
		{Op: "WriteFile", A: "/a/a/a", Data: "1", Perm: 0o644},
		{Op: "WriteFile", A: "/a/a/b", Data: "2", Perm: 0o644},
		{Op: "WriteFile", A: "/a/b", Data: "3", Perm: 0o644},
		{Op: "Mkdir", A: "/b", Perm: 0o755},
		{Op: "Mkdir", A: "/b/a", Perm: 0o755},
		{Op: "WriteFile", A: "/b/a/b", Data: "4", Perm: 0o644},
		{Op: "WriteFile", A: "/ab", Data: "5", Perm: 0o644},
	}

	if tier == "thorough" {
		cs = append(cs,
			fsx.Call{Op: "Mkdir", A: "/b/a/a", Perm: 0o755},
			fsx.Call{Op: "WriteFile", A: "/b/a/a/a", Data: "6", Perm: 0o644},
			fsx.Call{Op: "WriteFile", A: "/b/a/a/ab", Data: "7", Perm: 0o644},
		)
	}

	if kind == "MemFS" {
		cs = append(cs, fsx.Call{Op: "Symlink", A: "a", B: "/l"})
	}

	return cs
}

func isWild(e string) bool { return strings.ContainsAny(e, "*?[") }

// shapeOf abbreviates an operand for the signature: one letter per element
// (L literal, W wildcard, B malformed), "/" in front of absolute ones.
func shapeOf(operand string) string {
	abs := strings.HasPrefix(operand, "/")

	var sh []string

	for _, e := range strings.Split(strings.TrimPrefix(operand, "/"), "/") {
		switch {
		case e == "" || e == ".":
			continue
		case e == "[a":
			sh = append(sh, "B")
		case isWild(e):
			sh = append(sh, "W")
		default:
			sh = append(sh, "L")
		}
	}

	s := strings.Join(sh, "/")
	if abs {
		s = "/" + s
	}

	return s
}

// patOperands enumerates every sequence of 1..n elements (relative form).
func patOperands(elems []string, n int) []string {
	var (
		out []string
		rec func(prefix string, left int)
	)

	rec = func(prefix string, left int) {
		for _, e := range elems {
			p := e
			if prefix != "" {
				p = prefix + "/" + e
			}

			out = append(out, p)

			if left > 1 {
				rec(p, left-1)
			}
		}
	}

	rec("", n)

	return out
}

func runPatterns(rep *kf.Reporter, tier string, st *patStats) error {
	st.Elements = patElements(tier)
	st.MaxElems = patMaxElems(tier)
	st.OutcomeClasses = map[string]int{}
	st.Cwds = []string{"/", "/a"}

	rels := patOperands(st.Elements, st.MaxElems)
	st.Operands = 2 * len(rels)

	type sys struct{ name, kind, vol string }

	for _, sy := range []sys{{"MemFS", "MemFS", ""}, {"OrefaFS", "OrefaFS", ""}, {"MemFS@D", "MemFS", "D:"}} {
		st.Systems = append(st.Systems, sy.name)

		for _, cwd := range st.Cwds {
			var l, w *side

			tree := patTree(sy.kind, tier)

			// build: fresh twins with the fixture and the current directory
			build := func() error {
				var err error

				if l, w, err = newTwins(sy.kind, sy.vol, sideCfg{}); err != nil {
					return err
				}

				for _, c := range append(append([]fsx.Call{}, tree...), fsx.Call{Op: "Chdir", A: cwd}) {
					if c.Op == "Chdir" && c.A == "/" && sy.kind == "OrefaFS" {
						continue // cannot address its root (either type); it starts there
					}

					if err := bothDo(l, w, c); err != nil {
						return err
					}
				}

				return nil
			}

			if err := build(); err != nil {
				return err
			}

			if len(st.Tree) == 0 {
				for _, c := range tree {
					st.Tree = append(st.Tree, c.String())
				}
			}

			before, _ := l.dump()

			var calls []fsx.Call

			for _, root := range []string{"/", "."} {
				calls = append(calls, fsx.Call{Op: "WalkDir", A: root}, fsx.Call{Op: "ReadDir", A: root}, fsx.Call{Op: "Glob", A: root})
			}

			for _, r := range rels {
				for _, o := range []string{"/" + r, r} {
					calls = append(calls, fsx.Call{Op: "Glob", A: o})

					if !isWild(o) {
						calls = append(calls, fsx.Call{Op: "WalkDir", A: o}, fsx.Call{Op: "ReadDir", A: o})
					}
				}
			}

			for _, c := range calls {
				lc, lr := l.do(c)
				wc, wr := w.do(c)

				st.Calls++
				st.OutcomeClasses[c.Op+"/"+lr.Kind]++

				if lr.Kind == "ok" && lr.Val != "" {
					st.NonEmpty++

					if c.Op == "Glob" && strings.HasPrefix(c.A, "/") && isWild(strings.Split(c.A, "/")[1]) {
						st.WildBelowRoot++
					}

					if st.Sample == nil && strings.HasPrefix(shapeOf(c.A), "/W/") {
						st.Sample = map[string]any{"fs": sy.name, "cwd": cwd, "linux_call": lc.String(), "linux_result": lr.String(),
							"windows_call": wc.String(), "windows_result": wr.String()}
					}
				}

				report := func(kind, what string) {
					rep.Report(kf.Sig{
						"fs": sy.kind, "part": "patterns", "call": c.Op, "variant": "operand " + shapeOf(c.A), "operands": "cwd " + cwd,
						"linux": lr.Kind, "windows": wr.Kind, "kind": kind, "what": what,
					}, map[string]any{
						"part": "patterns", "fs": sy.name, "setup": append(append([]string{}, st.Tree...), "Chdir("+cwd+")"), "op": c.String(),
						"detail": map[string]any{
							"linux_call": lc.String(), "linux_result": lr.String(), "linux_error": lr.Msg,
							"windows_call": wc.String(), "windows_result": wr.String(), "windows_error": wr.Msg,
							"linux_tree": before,
						},
						"how": "fresh Linux-typed and Windows-typed " + sy.name + " (harness /tmp, umask 022); apply the set-up calls (portable paths, each instance's own Join under its root) then the call on both; results compared after volume stripping and ToSlash",
					})
				}

				lAbn := lr.Kind == "PANIC" || lr.Kind == "DEADLOCK"
				wAbn := wr.Kind == "PANIC" || wr.Kind == "DEADLOCK"

				switch {
				case (lAbn || wAbn) && lr.Kind == wr.Kind:
					// C07's business
				case lAbn || wAbn:
					report("abnormal", "call does not return normally on one OS type only")
				case (lr.Kind == "ok") != (wr.Kind == "ok"):
					report("outcome", "success on one OS type, failure on the other")
				case lr.Kind != "ok":
					if !familyOK(false, permissive(lr.Fam)) {
						report("error-family", "Linux-typed instance returned a value of family "+lr.Fam)
					}

					if !familyOK(true, permissive(wr.Fam)) {
						report("error-family", "Windows-typed instance returned a value of family "+wr.Fam)
					}

					for _, what := range classFindings(c.Op, lr, wr) {
						report("error-class", what)
					}
				case lr.Val != wr.Val:
					report("value", "returned value of a successful read-only call differs")
				}

				if lAbn || wAbn { // the instances cannot be used further
					if err := build(); err != nil {
						return err
					}
				}
			}

			// the calls are read-only: the tree is what it was
			after, _ := l.dump()
			wafter, _ := w.dump()

			if d := treeDiff(before, after); d != "" {
				return fmt.Errorf("patterns: read-only calls changed the Linux-typed tree of %s: %s", sy.name, d)
			}

			if d := treeDiff(after, wafter); d != "" {
				return fmt.Errorf("patterns: trees of %s differ after identical set-up: %s\n%s", sy.name, d, fsx.DiffLines(after, wafter))
			}
		}
	}

	// vacuity: a pattern set that matches nothing judges nothing
	if st.NonEmpty == 0 || st.WildBelowRoot == 0 {
		return fmt.Errorf("patterns: vacuous (calls with a result: %d, with a wildcard directly below the root: %d)", st.NonEmpty, st.WildBelowRoot)
	}

	return nil
}
