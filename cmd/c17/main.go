package main

import (
	"fmt"

	"github.com/avfs/avfs"
	"github.com/avfs/avfs/verifrt"
	"github.com/avfs/avfs/vfs/memfs"
	"github.com/avfs/avfs/vfs/orefafs"

	"verif/lib/fsx"
)

func main() {
	verifrt.SetMode(verifrt.ModeSeq)
	fmt.Println("build feat", avfs.BuildFeatures())
	for _, ost := range []avfs.OSType{avfs.OsLinux, avfs.OsWindows} {
		tmp, root := "/tmp", "/"
		if ost == avfs.OsWindows {
			tmp, root = `C:\tmp`, `C:\`
		}
		dirs := []avfs.DirInfo{{Path: tmp, Perm: 0o777}}
		for _, v := range []avfs.VFS{
			memfs.NewWithOptions(&memfs.Options{OSType: ost, SystemDirs: dirs}),
			orefafs.NewWithOptions(&orefafs.Options{OSType: ost, SystemDirs: dirs}),
		} {
			fmt.Println("==", v.Type(), v.OSType(), string(v.PathSeparator()), v.Features(), "umask", v.UMask(), "user", v.User().Name())
			_, isVM := v.(avfs.VolumeManager)
			fmt.Println("volmgr", isVM)
			fmt.Println(fsx.Do(v, fsx.Call{Op: "Chdir", A: root}))
			fmt.Println(fsx.Do(v, fsx.Call{Op: "Mkdir", A: v.Join(root, "a"), Perm: 0o755}))
			fmt.Println(fsx.Do(v, fsx.Call{Op: "WriteFile", A: v.Join(root, "a", "b"), Data: "x", Perm: 0o644}))
			fmt.Println(fsx.Do(v, fsx.Call{Op: "Stat", A: root}))
			fmt.Println(fsx.Do(v, fsx.Call{Op: "ReadDir", A: root}))
			fmt.Println(fsx.Do(v, fsx.Call{Op: "Stat", A: "a"}))
			for _, l := range fsx.Dump(v, root, fsx.DumpOpts{NoPerm: true, NoOwner: true, StripPfx: root}) {
				fmt.Println("   ", l)
			}
			if vm, ok := v.(avfs.VolumeManager); ok {
				fmt.Println(vm.VolumeList(), vm.VolumeAdd("D:"), vm.VolumeList())
				fmt.Println(fsx.Do(v, fsx.Call{Op: "Stat", A: `D:\`}))
				fmt.Println(fsx.Do(v, fsx.Call{Op: "Mkdir", A: `D:\dir`, Perm: 0o755}))
				fmt.Println(fsx.Do(v, fsx.Call{Op: "Stat", A: `D:\dir`}))
				fmt.Println(fsx.Do(v, fsx.Call{Op: "Stat", A: `d:\dir`}))
				fmt.Println(vm.VolumeAdd("d:"), vm.VolumeAdd(`D:\x`), vm.VolumeAdd("x"), vm.VolumeAdd(""), vm.VolumeList())
				var err error
				k, m := fsx.Guard(func() { err = vm.VolumeDelete("D:") })
				fmt.Println("del", k, m, err, vm.VolumeList())
			}
		}
	}
}
