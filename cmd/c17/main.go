// c17: OS-type emulation does not depend on the host.
//
// Built with -tags verif,avfs_setostype. Four parts, all exhaustive
// enumerations on real instances (no sampling):
//
//	(A) static facts of Linux-/Windows-typed MemFS and OrefaFS, and the family
//	    (avfs.LinuxError / avfs.WindowsError / OS-independent) of the error
//	    values of a list of deliberately failing calls; the default
//	    configurations (system directories of the constructor; default or
//	    same-type identity manager): default locations exist on both types;
//	(B) every sequence <= n of VolumeAdd/VolumeDelete/VolumeList (+ Mkdir/Stat
//	    on the volumes) against a set model;
//	(C) engine A (lib/bfs): every history <= d of namespace calls written with
//	    portable paths, executed in lock-step on a Linux-typed and a
//	    Windows-typed instance; per call: same success/failure, right error
//	    family, and the portable CLASS of a failure (errors.Is against
//	    fs.ErrNotExist/ErrExist/ErrPermission, avfs.IsNotExist/IsExist: what
//	    the errno is on its own OS, the Linux type's class also on the
//	    Windows type), the helpers that branch on it (avfs.Exists, DirExists,
//	    IsDir, IsEmpty) being calls of the alphabet; afterwards isomorphic
//	    trees;
//	    systems: harness configuration (default volume, added volume,
//	    non-initial tree) and the default configuration of the emulated OS
//	    ("+sys") with the default locations as operands, reached with the
//	    current directory on the volume of the system area and ("@D+sys") on
//	    an added volume; names that differ only by letter case as entries of
//	    their own and as the two operands of Rename/Link; every path-taking
//	    call also with its operands in the other spellings the Windows type
//	    accepts (`C:/a/b`, `\a\b`, `/a/b`), from the volume root and from
//	    below it;
//	(D) Glob/WalkDir/ReadDir over every operand of <= n elements (literal and
//	    wildcard elements, absolute and relative) on a fixed deeper tree,
//	    Linux-typed against Windows-typed (patterns.go);
//	(E) every sequence <= n of the creating helpers of package avfs (MkHomeDir,
//	    MkSystemDirs/SystemDirs: each user, each base path) and of namespace
//	    calls on the users' home directories, on twins of each default
//	    configuration, judged like (C) in role spelling (helpers.go).
package main

import (
	"encoding/json"
	"flag"
	"fmt"
	"os"
	"path/filepath"
	"sort"
	"strconv"
	"strings"
	"sync"
	"time"

	"github.com/avfs/avfs"
	"github.com/avfs/avfs/verifrt"

	"verif/lib/bfs"
	"verif/lib/ev"
	"verif/lib/kf"
)

func setSeq() { verifrt.SetMode(verifrt.ModeSeq) }

// inst aggregates the instances of one signature; the replay kept is the one
// with the shortest, then lexicographically smallest, history (deterministic
// whatever the worker scheduling).
type inst struct {
	sig    kf.Sig
	count  int
	hist   []string
	op     string
	system string
	detail string
}

func lessHist(a []string, aop string, b []string, bop string) bool {
	if len(a) != len(b) {
		return len(a) < len(b)
	}

	as, bs := strings.Join(a, "\x00")+"\x00"+aop, strings.Join(b, "\x00")+"\x00"+bop

	return as < bs
}

func main() {
	id := flag.String("id", "C17", "")
	tier := flag.String("tier", "quick", "")
	depth := flag.Int("depth", 0, "history bound of part (C) (default 2 quick / 3 thorough)")
	volLen := flag.Int("vol-len", 0, "sequence bound of part (B) (default 3 quick / 4 thorough)")
	systems := flag.String("systems", "MemFS,OrefaFS,MemFS+tree,OrefaFS+tree,MemFS@D,MemFS@D+tree,MemFS+sys,OrefaFS+sys,MemFS@D+sys", "systems of part (C): kind[@D][+tree][+sys]")
	replay := flag.String("replay", "", "re-execute a replay file of part (C) and print what happens")

	var wflag string

	flag.StringVar(&wflag, bfs.WorkerArg[1:], "", "")
	flag.Parse()

	if avfs.BuildFeatures()&avfs.FeatSetOSType == 0 {
		fmt.Fprintln(os.Stderr, "c17: harness error: binary built without -tags avfs_setostype (avfs.BuildFeatures() lacks FeatSetOSType)")
		os.Exit(2)
	}

	bfs.MaybeWorker(pairFactory(*tier))
	setSeq()

	if *replay != "" {
		os.Exit(doReplay(*replay, *tier))
	}

	if err := selfCheck(); err != nil {
		// also reached when a constructor cannot produce the requested OS type:
		// that case is reported by part (A) below, not here
		if _, _, cerr := newSide("MemFS", true); cerr == nil {
			if _, _, cerr = newSide("OrefaFS", true); cerr == nil {
				fmt.Fprintln(os.Stderr, "c17: harness error:", err)
				os.Exit(2)
			}
		}
	}

	verifDir := os.Getenv("VERIF_DIR")
	if verifDir == "" {
		verifDir = "."
	}

	rep, err := kf.NewReporter(*id, filepath.Join(verifDir, "known_findings.txt"), filepath.Join(verifDir, "replays"))
	if err != nil {
		fmt.Fprintln(os.Stderr, err)
		os.Exit(2)
	}

	rep.Discover = os.Getenv("VERIF_DISCOVER") != ""

	d := *depth
	if d == 0 {
		d = 2
		if *tier == "thorough" {
			d = 3
		}
	}

	vl := *volLen
	if vl == 0 {
		vl = 3
		if *tier == "thorough" {
			vl = 4
		}
	}

	budget := 0
	if b, err := strconv.Atoi(os.Getenv("VERIF_BUDGET_S")); err == nil {
		budget = b
	} else if *tier == "thorough" {
		budget = 1200
	}

	var deadline time.Time
	if budget > 0 {
		deadline = time.Now().Add(time.Duration(budget) * time.Second)
	}

	var (
		sst        staticStats
		vst        volStats
		vcst       volContentStats
		pst        patStats
		hst        helpStats
		all        []bfs.Stats
		harnessErr string
		skipped    string
	)

	// ---- part (A)
	consOK, herr := runStatic(rep, &sst)
	if herr != nil {
		harnessErr = "static: " + herr.Error()
	}

	if !consOK {
		skipped = "a constructor did not produce the requested OS type: parts (B), (C) and (D) skipped"
	}

	if consOK && harnessErr == "" {
		if err := runDefaults(rep, &sst); err != nil {
			harnessErr = "default configurations: " + err.Error()
		}
	}

	// ---- part (E)
	if consOK && harnessErr == "" {
		if err := runHelpers(rep, *tier, &hst); err != nil {
			harnessErr = "helpers: " + err.Error()
		}

		fmt.Printf("C17 helpers: systems=%d alphabet=%d users=%d sequences=%d (len<=%d) calls per side=%d not extended after a difference=%d\n",
			len(hst.Systems), len(hst.Alphabet), len(hst.Users), hst.Sequences, hst.MaxLen, hst.Calls, hst.NotExpanded)
	}

	// ---- part (B)
	if consOK && harnessErr == "" {
		if err := runVolumes(rep, vl, &vst); err != nil {
			harnessErr = "volumes: " + err.Error()
		}

		if harnessErr == "" {
			if err := runVolumeContent(rep, &vcst); err != nil {
				harnessErr = "volume content: " + err.Error()
			}

			fmt.Printf("C17 volume content: scenarios=%d calls=%d names checked after VolumeDelete=%d\n", vcst.Scenarios, vcst.Calls, vcst.Checks)
		}
	}

	// ---- part (D)
	if consOK && harnessErr == "" {
		if err := runPatterns(rep, *tier, &pst); err != nil {
			harnessErr = "patterns: " + err.Error()
		}

		fmt.Printf("C17 patterns: systems=%d operands=%d (<= %d elements over %d) calls per side=%d with a result=%d, wildcard directly below the root and matching=%d\n",
			len(pst.Systems), pst.Operands, pst.MaxElems, len(pst.Elements), pst.Calls, pst.NonEmpty, pst.WildBelowRoot)
	}

	// ---- part (C)
	agg := map[string]*inst{}

	if consOK && harnessErr == "" {
		// the systems are independent explorations: a few run side by side (the
		// first level of each is a single task), results are merged under a lock
		// and reported in the order of the list; the replay kept per signature is
		// the smallest history, whatever the scheduling
		names := strings.Split(*systems, ",")
		stats := make([]bfs.Stats, len(names))
		nops := make([]int, len(names))
		order := map[string]int{} // equal histories: the system listed first

		for i, sn := range names {
			order[sn] = i
		}

		var (
			mu  sync.Mutex
			wg  sync.WaitGroup
			sem = make(chan struct{}, 4)
		)

		for i, sn := range names {
			wg.Add(1)

			go func() {
				defer wg.Done()

				sem <- struct{}{}

				defer func() { <-sem }()

				probe := pairFactory(*tier)(sn)
				nops[i] = probe.NumOps()

				cfg := bfs.Config{
					System: sn, MaxDepth: d, Deadline: deadline,
					Report: func(system string, hist []string, op string, v bfs.Viol) {
						sig := kf.Sig(v.Sig)
						if sig["fs"] == "" {
							sig["fs"] = system // worker-crash
							sig["part"] = "pair"
						}

						k := sig.String()

						mu.Lock()
						defer mu.Unlock()

						in, ok := agg[k]
						if !ok {
							in = &inst{sig: sig, hist: hist, op: op, system: system, detail: v.Detail}
							agg[k] = in
						} else if lessHist(hist, op, in.hist, in.op) ||
							(!lessHist(in.hist, in.op, hist, op) && order[system] < order[in.system]) {
							in.hist, in.op, in.system, in.detail = hist, op, system, v.Detail
						}

						in.count++
					},
				}

				stats[i] = bfs.Run(cfg, probe.OpString)
			}()
		}

		wg.Wait()

		for i, sn := range names {
			st := stats[i]
			all = append(all, st)

			if st.HarnessErr != "" {
				harnessErr = sn + ": " + st.HarnessErr
			}

			fmt.Printf("C17 pair %s: ops=%d states=%d transitions=%d depth_completed=%d exhaustive=%v\n",
				sn, nops[i], st.States, st.Transitions, st.DepthDone, st.Exhaustive)
		}
	}

	keys := make([]string, 0, len(agg))
	for k := range agg {
		keys = append(keys, k)
	}

	sort.Strings(keys)

	for _, k := range keys {
		in := agg[k]

		var det any

		var dd detail
		if json.Unmarshal([]byte(in.detail), &dd) == nil && dd.LinuxCall != "" {
			det = dd
		} else {
			det = in.detail
		}

		r := map[string]any{
			"part": "pair", "fs": in.system, "history": in.hist, "op": in.op, "detail": det,
			"how": "fresh Linux-typed and Windows-typed " + in.system + " (SystemDirs: /tmp resp. C:\\tmp; +sys: the constructor's own system directories and, MemFS, a MemIdm of the same OS type; @D: Windows-typed side VolumeAdd(D:), its root is D:\\ - with +sys the system directories stay on C:; umask 022, Chdir to the root); " +
				"apply the history then op on both, paths built with each instance's own Join under its root ($TMP = vfs.TempDir(), $HOME = avfs.HomeDir(vfs, \"\"), $HOMEUSER = avfs.HomeDirUser(vfs, \"\", vfs.User())); " +
				"an operand written f:P, r:P or rf:P is, on the Windows-typed instance only, P's path with '/' for '\\' (f), without its volume (r: rooted on the volume of the current directory) or both (rf); windows_call in the detail shows the string given; " +
				"re-execute: ./check " + *id + " " + *tier + " -replay <this file>",
		}

		for i := 0; i < in.count; i++ {
			rep.Report(in.sig, r)
		}
	}

	// ---- evidence
	states, trans := 0, 0
	outcomes := map[string]int{}
	exh := harnessErr == "" && consOK
	depthDone := d

	var samples []any

	for _, st := range all {
		states += st.States
		trans += st.Transitions

		for k, n := range st.Outcomes {
			outcomes[k] += n
		}

		if !st.Exhaustive {
			exh = false
		}

		if st.DepthDone < depthDone {
			depthDone = st.DepthDone
		}

		for _, s := range st.Samples {
			samples = append(samples, map[string]any{"part": "pair", "fs": st.System, "history": s})
		}
	}

	if len(all) == 0 {
		depthDone = 0
	}

	if len(vst.SampleSequence) > 0 {
		samples = append(samples, map[string]any{"part": "volumes", "fs": "MemFS", "os_type": "Windows", "sequence": vst.SampleSequence})
	}

	if len(sst.Facts) > 0 {
		samples = append(samples, map[string]any{"part": "static", "fact": sst.Facts[len(sst.Facts)-1]})
	}

	if pst.Sample != nil {
		samples = append(samples, map[string]any{"part": "patterns", "call": pst.Sample})
	}

	for k, n := range pst.OutcomeClasses {
		outcomes["patterns:"+k] += n
	}

	if len(hst.Sample) > 0 {
		samples = append(samples, map[string]any{"part": "helpers", "fs": hst.Systems[0], "sequence": hst.Sample})
	}

	for k, n := range hst.OutcomeClasses {
		outcomes["helpers:"+k] += n
	}

	code := rep.Finish()
	if harnessErr != "" {
		fmt.Fprintln(os.Stderr, "c17: harness error:", harnessErr)

		code = 2
	}

	e := ev.Evidence{
		PropertyID: *id, Tier: *tier, Seed: ev.Seed(), Level: "model_checking",
		Coverage: map[string]any{
			"states": states, "transitions": trans, "traces_validated_against_impl": trans,
			"evaluations": trans + vst.ChecksWindows + vst.ChecksLinux + sst.Checked + pst.Calls + hst.Checks, "distinct_nontrivial": len(outcomes),
			"outcome_classes": outcomes,
			"rule": "(C) every history of length <= bound over the portable call alphabet (namespace calls, the helpers of package avfs that answer by the class of a failure - Exists, DirExists, IsDir, IsEmpty - on every operand of the one-path calls, Glob and WalkDir with the wildcard / the root at every depth from the volume root down; every path-taking call, Chdir included, also with its operands in each other spelling of the Windows type: forward slashes, volume left out, both - on the Windows-typed side only; names that differ from a name of the alphabet by the letter case of one element as entries of their own and as the two operands of Rename and Link; systems +sys: also the calls on the default locations $TMP, $HOME, $HOMEUSER and CreateTemp/MkdirTemp with dir \"\", system @D+sys: the same with the current directory of the Windows-typed side on an added volume, the system area staying on C:) executed in lock-step on a fresh Linux-typed and a fresh Windows-typed real instance, oracle on every transition (same success/failure, values of read-only calls, trees, current directory; of a call failing on both: error family and portable error class, also judged in (A) and (D); of a call failing with ENOENT on the Linux type and one of the two not-found values on the Windows type: WHICH of the two, by the class of the responsible operand in the tree before the call - see assumptions); " +
				"(D) every operand of <= bound elements over the element alphabet, absolute and relative, given to Glob (all), WalkDir and ReadDir (operands without wildcard) on both instances holding the same fixed tree, from each current directory, results compared in portable spelling; " +
				"(B) every sequence of length <= bound over the volume alphabet executed on a fresh real MemFS of each OS type against the set model; " +
				"(A) fixed list of facts and failing calls; the default configurations (constructor's system directories x default / same-type identity manager): each default location is an existing directory on both types or on neither, CreateTemp/MkdirTemp with dir \"\" agree; " +
				"(E) every sequence of length <= bound over the helper alphabet (avfs.MkSystemDirs(vfs, avfs.SystemDirs(vfs, base)) and avfs.MkHomeDir(vfs, base, user) for each base path in {\"\", volume of the root} and each user; Mkdir and RemoveAll of the home directory of each added user) executed on fresh Linux-typed and Windows-typed real instances of each default configuration, the last call judged: same success/failure, per side what a successful helper documents to create is a directory (the POSIX half too: the home belongs to the user on a Linux-typed instance with an identity manager), equal trees in role spelling; a sequence after which the twins differ is not extended; " +
				"states/transitions count part (C) only; evaluations = oracle evaluations of (A)+(B)+(C)+(D)+(E); " +
				"distinct_nontrivial = distinct (call, Linux-typed outcome kind) classes observed in (C), (D) and (E) (listed in outcome_classes, those of (D) prefixed patterns:, those of (E) helpers:; a call with spelled operands is a class of its own per spelling and per current directory at / below the volume root: Mkdir[rf cwd=below-root]/ok; those of (B) are in volumes.outcome_classes)",
			"samples":    samples,
			"exhaustive": exh,
			"bound": fmt.Sprintf("pair histories of length <= %d (completed %d) over names {a,b} depth <= 2 plus the names with one element in upper case (%s) (+sys systems: plus $TMP, $TMP/a, $HOME, $HOMEUSER; @D+sys: current directory of the Windows-typed side always on the added volume D:, default locations on C:), operands spelled as Join gives them and, Windows-typed side, in the spellings {f: C:/a/b, r: \\a\\b, rf: /a/b} (%s); volume sequences of length <= %d over %d calls; "+
				"pattern operands of <= %d elements over %d elements {%s}, absolute and relative, %d current directories, %d systems, one fixed tree of depth %d; "+
				"helper sequences of length <= %d over %d calls (users %s, base paths \"\" and the volume of the root), %d default configurations",
				d, depthDone, caseBound(*tier), spelledBound(*tier), vl, vst.AlphabetSize, pst.MaxElems, len(pst.Elements), strings.Join(pst.Elements, " "), len(pst.Cwds), len(pst.Systems), pst.MaxElems,
				hst.MaxLen, len(hst.Alphabet), strings.Join(hst.Users, ","), len(hst.Systems)),
			"systems": all, "static": sst, "volumes": vst, "volume_content": vcst, "patterns": pst, "helpers": hst,
			"static_facts_checked": sst.Checked, "volume_sequences_enumerated": vst.Sequences, "helper_sequences_enumerated": hst.Sequences,
			"known_findings_matched": rep.KnownMatched(), "skipped": skipped,
			"violation_instances": rep.Total,
		},
		Assumptions: []string{
			"state identity of (C) = portable tree dump of the Linux-typed side through the public API (names, types, sizes, bytes, link counts, link targets, hard-link classes; no permission bits, owners, mtimes) + its current directory; a state whose two sides differ is keyed by both dumps and not expanded",
			"permission bits and owners are never compared; Chown, Lchown, Chmod are not in the alphabet (documented as OS-specific); mtimes are not compared (not named by the property)",
			"portable error class of a failing call = the subset of {fs.ErrNotExist, fs.ErrExist, fs.ErrPermission} the returned error satisfies under errors.Is (avfs.IsNotExist / avfs.IsExist have to say the same). Judged (kind error-class) in (A), (C), (D): per side the value is in the class its errno is in on the OS it stands for (Linux type: syscall.Errno of this Linux host; Windows type: the table of syscall.Errno.Is of GOOS=windows - 2, 3, 53 not-exist; 5 permission; 80, 145, 183 exist); pairwise a failure in a class on the Linux type is in the same class on the Windows type unless an OSType()==OsWindows branch of the call itself states another value (errmap.go callCompat). Not demanded: the converse (ENOTDIR and EBADF have no class, their counterparts in Errors.SetOSType, ErrWinPathNotFound and ErrWinAccessDenied, have one, as on Windows itself) - where a helper turns that into success on one type only it is reported as kind outcome (KF-C17-005)",
			"class-branching helpers in (C): avfs.Exists, DirExists, IsDir, IsEmpty (explicit list, vfs_aferoutils.go) with every operand and spelling of the one-path calls, among them names whose last element is missing, names whose parent is missing and names below a file; their boolean is compared, except IsEmpty of the root in the default configuration (the system area has no counterpart); a helper's own error (IsEmpty: fmt.Errorf) counts as an OS-independent value",
			"which of the two not-found values (kind error-value, part (C), errmap.go notFoundWant): ENOENT has two counterparts on the Windows type, both Windows values and both in the class fs.ErrNotExist; Windows answers ERROR_PATH_NOT_FOUND (3) when a directory on the way to the name is missing and ERROR_FILE_NOT_FOUND (2) when only the last element is. Judged for every call that fails with ENOENT on the Linux type and with 2 or 3 on the Windows type when the responsible operand has the class missing (owed: 2) or missing(parent missing) (owed: 3) in the Linux-typed tree before the call - one-path calls: the operand (Symlink: the new name; MkdirTemp: the directory, like the Stat it reports, as os.MkdirTemp; CreateTemp: the directory is on the way to the entry to create, owed 3 in both classes); Rename and Link: the old name when it is missing (it is looked up first), else - the old name existing as a plain file or directory - a new name whose directory is missing; both operands are enumerated independently, so exactly one of the two directories existing is reached. Not judged: operands below a file or a link, default locations, patterns, and instances whose own Lstat of that directory (Windows-typed side, after the call, which changed nothing) contradicts the class (entries no listing shows). The deviations of the unchanged tree (a Windows-typed OrefaFS answers 2 although the directory is missing in Chdir, Chtimes, Remove, Truncate, Rename for either name, Link for the new name; MemFS answers 3) are the known findings KF-C17-006/007",
			"correspondence of error NUMBERS = avfs.Errors.SetOSType table plus the explicit OSType()==OsWindows branches of single calls (errmap.go) is informational (VERIF_C17_ERRCLASS=1 reports a mismatch under kind error-class too)",
			"CustomError values and io/fs sentinels (fs.ErrClosed, fs.ErrExist ...) are accepted on both OS types as OS-independent values",
			"the same PANIC/DEADLOCK on both OS types is not a C17 difference (owned by C07); one on a single side is",
			"random part of temp names supplied by the harness: the sequence 0,1,0,1.. restarted for every call on each side",
			"OrefaFS cannot address its root directory under either OS type: its tree is dumped from the top-level names a, b, t0, t1, tmp",
			"configurations: the harness configuration (one system directory /tmp resp. C:\\tmp given to the constructor, default identity manager = typed after the host) and, systems +sys and part (A), the default configuration of the emulated OS (system directories created by the constructor; MemFS: MemIdm of the same emulated OS type, so that the administrator is the emulated OS's; OrefaFS takes no identity manager); the default configuration with the constructor's own (host-typed) identity manager is judged in part (A) only",
			"default locations are spelled by role and resolved on each instance by the library's helpers for its current user ($TMP = vfs.TempDir(), $HOME = avfs.HomeDir(vfs, \"\"), $HOMEUSER = avfs.HomeDirUser(vfs, \"\", vfs.User()), MemFS only); the tree created by the constructor is compared as one line per role plus everything below $TMP; system entries without counterpart on the other type (C:\\Windows, the Default user's directories, the intermediate AppData\\Local) are not compared, nor is the content of $HOME and $HOMEUSER (on the Windows type the temporary directory lives below them); no Chdir into, no symbolic link inside and no removal of $HOME/$HOMEUSER (their depth below the root and their nesting differ by documentation)",
			"Glob patterns hold no '\\\\' (escape on the Linux type, separator on the Windows type) and are built like paths (each instance's Join under its root); the order of the matches is compared; part (D) runs in the harness configuration on the default volume (MemFS, OrefaFS) and on an added volume D: (MemFS)",
			"link targets are relative only (an absolute path of one OS is not a portable operand); symbolic-link calls only on MemFS (OrefaFS does not advertise FeatSymlink)",
			"spellings: on the Windows type '\\' and '/' are both separators and a path that starts with a separator is rooted on the volume of the current directory, so C:\\a\\b, C:/a/b, \\a\\b and /a/b name the same entry while the current directory is on C: (a spelling without volume is used only while the current directory is on the volume of the path: each instance of part (C) lives on one volume, C: or the added D:, except the default locations of system @D+sys, which stay on C: and keep their volume in every spelling); a spelled call is judged like the unspelled one (same success/failure as the Linux-typed twin, which is given /a/b, isomorphic trees, same current directory). Not spelled: the target of Symlink (content, not an operand), drive-relative paths (C:a), lower-case drive letters, UNC and \\\\?\\ forms, mixed separators inside one path",
			"helpers (E): the exported functions of package avfs that take a file system and create something are MkHomeDir and MkSystemDirs (explicit list; generic functions cannot be enumerated by reflection); the pure ones they are built on (SystemDirs, HomeDir, HomeDirUser, TempDirUser, TempDir) are judged through them: what they name has to exist after the creating helper succeeded. Start states: the default configurations only (the helpers presuppose the system directories: without them the administrator's home is creatable on the Linux type alone, /root lying directly below the root, by documentation). Users: the administrator and added users of the identity manager of the file system (MemFS: the constructor's default and one of the same emulated type given explicitly) or, OrefaFS, of a MemIdm of the same OS type. Tree in role spelling = Lstat class of $HOME, $TMP, $HOMEOF(user) per user and everything below $TMP; the content of a user's home is not compared (the Windows type keeps the user's temporary directory there) but per side TempDirUser(user) has to be a directory after a successful MkHomeDir. The home of the administrator, $HOME and $TMP are not removed (nesting differs by documentation); the current directory stays on the volume of the root",
			"letter case: the emulated tree is case sensitive on both OS types (a and A are two entries; what the Linux-typed twin does is demanded of the Windows-typed instance), although the lexical helpers of the Windows type (Rel, Match of volume names) fold case as path/filepath does on Windows; no case-insensitive look-up is expected anywhere",
			"drive-letter case of volume names is undocumented: the observed behaviour is recorded (coverage.volumes.drive_letter_case_observed) and only its consistency is checked",
		},
		Violations: rep.NewCount(),
	}

	if code != 2 {
		_ = ev.Write(filepath.Join(verifDir, "evidence", *id+".json"), e)
	}

	fmt.Printf("C17 summary: static checks=%d (failing calls=%d) | volume sequences=%d (len<=%d, %d calls) | pattern operands=%d (calls per side=%d) | helper sequences=%d (len<=%d) | pair states=%d transitions=%d histories<=%d completed=%d exhaustive=%v | distinct outcome classes=%d | violation signatures new=%d known=%d\n",
		sst.Checked, sst.FailingCalls, vst.Sequences, vl, vst.Calls, pst.Operands, pst.Calls, hst.Sequences, hst.MaxLen, states, trans, d, depthDone, exh, len(outcomes), rep.NewCount(), len(rep.KnownMatched()))

	if skipped != "" {
		fmt.Println("C17:", skipped)
	}

	os.Exit(code)
}

// spelledBound describes the operands the spelling dimension covers in a tier.
func spelledBound(tier string) string {
	if tier == "thorough" {
		return "every absolute operand, pattern and walk root of the alphabet, the relative ones holding a separator, $TMP and $TMP/a; two-path calls with both operands or either one spelled"
	}

	return "operands /, /a, /b, /a/b, patterns /* /a* /*/* /a/* /*/a */* a/*, walk roots / /a; two-path calls with both operands in the same spelling; Symlink targets a and /a"
}

// caseBound describes the letter-case dimension of a tier.
func caseBound(tier string) string {
	if tier == "thorough" {
		return "every path of the alphabet with one element in upper case: all one-path calls on it, Rename and Link between it and the lower-case path in both directions"
	}

	return "/A, /A/a, /a/A, A: Mkdir, WriteFile, Remove, Stat, ReadDir, Chdir on them, Rename and Link between each and its lower-case path (/a, /a/a, a) in both directions"
}

// doReplay re-executes a replay file of part (C).
func doReplay(path, tier string) int {
	b, err := os.ReadFile(path)
	if err != nil {
		fmt.Fprintln(os.Stderr, err)

		return 2
	}

	var f struct {
		Signature map[string]string `json:"signature"`
		Replay    struct {
			Part    string   `json:"part"`
			FS      string   `json:"fs"`
			History []string `json:"history"`
			Op      string   `json:"op"`
		} `json:"replay"`
	}

	if err := json.Unmarshal(b, &f); err != nil {
		fmt.Fprintln(os.Stderr, err)

		return 2
	}

	if f.Replay.Part != "pair" {
		fmt.Println("replay files of parts static/volumes are self-describing (fresh instance, fixture/history, call); only part pair is re-executed here")

		return 0
	}

	found := false

	for _, t := range []string{tier, "thorough"} {
		s := pairFactory(t)(f.Replay.FS).(*pairSys)
		idx := map[string]int{}

		for i := range s.ops {
			idx[s.OpString(i)] = i
		}

		okAll := true

		for _, o := range append(append([]string{}, f.Replay.History...), f.Replay.Op) {
			if _, ok := idx[o]; !ok {
				okAll = false
			}
		}

		if !okAll {
			continue
		}

		found = true

		if err := s.Reset(); err != nil {
			fmt.Fprintln(os.Stderr, err)

			return 2
		}

		for _, o := range f.Replay.History {
			sr := s.Step(idx[o])
			fmt.Printf("  %-40s -> %s\n", o, sr.Outcome)
		}

		sr := s.Step(idx[f.Replay.Op])
		fmt.Printf("  %-40s -> %s\n", f.Replay.Op, sr.Outcome)

		reproduced := false

		for _, v := range sr.Viols {
			same := kf.Sig(v.Sig).String() == kf.Sig(f.Signature).String()
			if same {
				reproduced = true
			}

			fmt.Printf("violation (same signature: %v): %s\n  %s\n", same, kf.Sig(v.Sig), v.Detail)
		}

		if reproduced {
			fmt.Println("REPRODUCED")

			return 1
		}

		fmt.Println("not reproduced")

		return 0
	}

	if !found {
		fmt.Fprintln(os.Stderr, "replay: operations not in the alphabet of this build")
	}

	return 2
}
