package main

import (
	"fmt"
	"strings"

	"github.com/avfs/avfs"
	"github.com/avfs/avfs/idm/memidm"

	"verif/lib/fsx"
	"verif/lib/kf"
)

// Part (E): the helpers of the root package.
//
// General lesson: the emulation is not only the methods of the file system.
// Package avfs exports functions that TAKE a file system and act by an OS type
// (MkHomeDir, MkSystemDirs with SystemDirs, and the pure ones they are built
// on: HomeDir, HomeDirUser, TempDirUser); each of them holds an OS switch of
// its own, and a switch on the wrong type (the host's, the identity manager's)
// is invisible to every history made of methods alone: the constructor runs
// the helper once, on a tree where the difference does not show. So every
// exported function that takes a file system and creates something is a call
// of the alphabet like any method: it is given the arguments of the default
// configuration (each user of an identity manager of the emulated type, base
// path "" and the volume of the root), in every pre-state a short history of
// helpers and of namespace calls on the users' directories can reach, on the
// Linux-typed and the Windows-typed twin, and judged as in part (C): same
// success or failure, the same tree afterwards in role spelling; and, per
// side, what the helper says it made is there.
//
// Roles (see sides.go): "$HOME", "$TMP" and, per user U, "$HOMEOF(U)" =
// avfs.HomeDirUser(vfs, vol, U), "$TMPOF(U)" = avfs.TempDirUser(vfs, vol, U).
// Users are spelled by role as well: "admin" (the administrator of the
// identity manager: root resp. Administrator), "usr1", "usr2" (added).

type helpStats struct {
	Systems        []string       `json:"systems"`
	Alphabet       []string       `json:"alphabet"`
	Users          []string       `json:"users"`
	MaxLen         int            `json:"max_len"`
	Sequences      int            `json:"sequences"`
	NotExpanded    int            `json:"sequences_not_extended_after_a_difference"`
	Calls          int            `json:"calls_per_side"`
	Checks         int            `json:"checks"`
	OutcomeClasses map[string]int `json:"outcome_classes"` // "<call>/<Linux-typed outcome kind>"
	Sample         []string       `json:"sample_sequence,omitempty"`
}

type helpOp struct {
	Name string // MkSystemDirs | MkHomeDir | Mkdir | RemoveAll
	Vol  bool   // base path: the volume of the root (true) or "" (false)
	User int    // index of the user (MkHomeDir, Mkdir, RemoveAll)
}

var helpUserNames = []string{"admin", "usr1", "usr2"}

func (o helpOp) base() string {
	if o.Vol {
		return "<vol>"
	}

	return `""`
}

func (o helpOp) String() string {
	switch o.Name {
	case "MkSystemDirs":
		return fmt.Sprintf("avfs.MkSystemDirs(vfs, avfs.SystemDirs(vfs, %s))", o.base())
	case "MkHomeDir":
		return fmt.Sprintf("avfs.MkHomeDir(vfs, %s, %s)", o.base(), helpUserNames[o.User])
	}

	return fmt.Sprintf("%s($HOMEOF(%s))", o.Name, helpUserNames[o.User])
}

func helpUsers(tier string) int {
	if tier == "thorough" {
		return 3
	}

	return 2
}

func helpMaxLen(tier string) int {
	if tier == "thorough" {
		return 4
	}

	return 3
}

// helpAlphabet: every creating helper with each base path and each user, and
// the namespace calls that change what the helpers find: the home directory of
// a user made beforehand, and removed with what is below it. The home of the
// administrator, $HOME and $TMP are never removed (the temporary directory is
// nested in them on one type only, by documentation).
func helpAlphabet(nUsers int) []helpOp {
	var ops []helpOp

	for _, vol := range []bool{false, true} {
		ops = append(ops, helpOp{Name: "MkSystemDirs", Vol: vol})

		for u := 0; u < nUsers; u++ {
			ops = append(ops, helpOp{Name: "MkHomeDir", Vol: vol, User: u})
		}
	}

	for u := 1; u < nUsers; u++ {
		ops = append(ops, helpOp{Name: "Mkdir", User: u}, helpOp{Name: "RemoveAll", User: u})
	}

	return ops
}

// helpSide is an instance with the users the helpers are called for.
type helpSide struct {
	*side
	users []avfs.UserReader
	vol   string
}

// newHelpSide builds a fresh instance of the configuration and the users: those
// of the identity manager of the file system or, for a kind without one, of a
// MemIdm of the same emulated OS type (the helpers take any avfs.UserReader).
func newHelpSide(kind string, win bool, cfg sideCfg, nUsers int) (*helpSide, error) {
	s, _, err := newSideCfg(kind, win, cfg)
	if err != nil {
		return nil, err
	}

	h := &helpSide{side: s, vol: avfs.VolumeName(s.v, s.root)}

	idm := s.v.Idm()
	if !s.v.HasFeature(avfs.FeatIdentityMgr) {
		idm = memidm.NewWithOptions(&memidm.Options{OSType: osTypeOf(win)})
	}

	h.users = append(h.users, idm.AdminUser())

	for u := 1; u < nUsers; u++ {
		if _, err := idm.AddGroup("grp" + fmt.Sprint(u)); err != nil {
			return nil, fmt.Errorf("AddGroup on the identity manager of the %s-typed %s: %w", s.osName(), kind, err)
		}

		ur, err := idm.AddUser(helpUserNames[u], "grp"+fmt.Sprint(u))
		if err != nil {
			return nil, fmt.Errorf("AddUser on the identity manager of the %s-typed %s: %w", s.osName(), kind, err)
		}

		h.users = append(h.users, ur)
	}

	return h, nil
}

// anchor gives the path for the harness's own observations: a rooted path
// without volume is put on the volume of the root (see obsRolePath).
func (h *helpSide) anchor(p string) string {
	p = h.v.Join(p)

	if !h.v.IsAbs(p) && p != "" && avfs.IsPathSeparator(h.v, p[0]) {
		p = h.vol + p
	}

	return p
}

func (h *helpSide) homeOf(u int) string {
	return h.anchor(avfs.HomeDirUser(h.v, h.vol, h.users[u]))
}

func (h *helpSide) lstatClass(p string) string {
	var cls string

	k, _ := fsx.Guard(func() {
		fi, err := h.v.Lstat(p)
		if err != nil {
			cls = "!" + portableClass(fsx.ErrKind(err))

			return
		}

		switch m := fi.Mode(); {
		case m.IsDir():
			cls = "d"
		case m.Type() == 0:
			cls = "f"
		default:
			cls = "other:" + m.Type().String()
		}
	})
	if k != "" {
		return "!" + k
	}

	return cls
}

// observe is the tree in role spelling: one line per default location and per
// user's home directory, and everything below $TMP.
func (h *helpSide) observe() []string {
	lines := []string{
		"$HOME " + h.lstatClass(h.anchor(avfs.HomeDir(h.v, h.vol))),
		"$TMP " + h.lstatClass(h.anchor(h.v.TempDir())),
	}

	for u := range h.users {
		lines = append(lines, fmt.Sprintf("$HOMEOF(%s) %s", helpUserNames[u], h.lstatClass(h.homeOf(u))))
	}

	tmp := h.anchor(h.v.TempDir())

	_, _ = fsx.Guard(func() {
		for _, l := range fsx.Dump(h.v, tmp, fsx.DumpOpts{NoPerm: true, NoOwner: true, StripPfx: tmp}) {
			if l = h.normLine(l); !strings.HasPrefix(l, ". ") {
				lines = append(lines, "$TMP"+l)
			}
		}
	})

	return lines
}

// exec performs the call; post lists what a successful helper left undone on
// this side (its own documentation: "creates and returns the home directory of
// a user", "creates the system directories").
func (h *helpSide) exec(o helpOp) (r result, post []string) {
	base := ""
	if o.Vol {
		base = h.vol
	}

	var (
		val string
		err error
	)

	k, msg := fsx.Guard(func() {
		switch o.Name {
		case "MkSystemDirs":
			err = avfs.MkSystemDirs(h.v, avfs.SystemDirs(h.v, base))
		case "MkHomeDir":
			var p string

			p, err = avfs.MkHomeDir(h.v, base, h.users[o.User])
			if err == nil {
				val = h.normPath(h.anchor(p))
				if h.anchor(p) == h.homeOf(o.User) {
					val = "$HOMEOF"
				}
			}
		case "Mkdir":
			err = h.v.Mkdir(h.homeOf(o.User), avfs.HomeDirPerm())
		case "RemoveAll":
			err = h.v.RemoveAll(h.homeOf(o.User))
		default:
			panic("c17: unknown helper op " + o.Name)
		}
	})
	if k != "" {
		return result{Res: fsx.Res{Kind: k, Msg: msg}, Fam: k}, nil
	}

	r = errResult(val, err)
	if err != nil {
		return r, nil
	}

	need := func(what, p string) {
		if c := h.lstatClass(h.anchor(p)); c != "d" {
			post = append(post, fmt.Sprintf("%s %s is not a directory afterwards (%s)", what, p, c))
		}
	}

	switch o.Name {
	case "MkSystemDirs":
		for _, d := range avfs.SystemDirs(h.v, base) {
			need("system directory", d.Path)
		}

		need("avfs.HomeDir(vfs, <vol>)", avfs.HomeDir(h.v, h.vol))
		need("vfs.TempDir()", h.v.TempDir())
	case "MkHomeDir":
		u := h.users[o.User]

		if val != "$HOMEOF" {
			post = append(post, "the returned path "+val+" is not avfs.HomeDirUser(vfs, base, user)")
		}

		need("avfs.HomeDirUser(vfs, <vol>, user)", avfs.HomeDirUser(h.v, h.vol, u))
		need("avfs.TempDirUser(vfs, <vol>, user)", avfs.TempDirUser(h.v, h.vol, u.Name()))

		// POSIX half of the helper: the home directory belongs to the user
		if !h.win && h.v.HasFeature(avfs.FeatIdentityMgr) {
			_, _ = fsx.Guard(func() {
				fi, err := h.v.Stat(h.homeOf(o.User))
				if err != nil {
					return
				}

				if st := h.v.ToSysStat(fi); st.Uid() != u.Uid() || st.Gid() != u.Gid() {
					post = append(post, fmt.Sprintf("the home directory belongs to %d:%d, not to the user (%d:%d)", st.Uid(), st.Gid(), u.Uid(), u.Gid()))
				}
			})
		}
	}

	return r, post
}

// runHelpers enumerates every sequence <= n over the helper alphabet on fresh
// twins of each default configuration; the last call of each sequence is judged
// (its prefixes are sequences of their own); a sequence whose twins already
// differ is not extended.
func runHelpers(rep *kf.Reporter, tier string, st *helpStats) error {
	nUsers, maxLen := helpUsers(tier), helpMaxLen(tier)
	ops := helpAlphabet(nUsers)

	st.MaxLen = maxLen
	st.Users = helpUserNames[:nUsers]
	st.OutcomeClasses = map[string]int{}

	for _, o := range ops {
		st.Alphabet = append(st.Alphabet, o.String())
	}

	type cfgOf struct {
		kind string
		cfg  sideCfg
	}

	for _, kc := range []cfgOf{
		{"MemFS", sideCfg{sysDirs: true}},
		{"MemFS", sideCfg{sysDirs: true, idmSame: true}},
		{"OrefaFS", sideCfg{sysDirs: true}},
	} {
		st.Systems = append(st.Systems, kc.kind+" "+kc.cfg.String())

		var run func(seq []int) error

		run = func(seq []int) error {
			if len(seq) > 0 {
				l, err := newHelpSide(kc.kind, false, kc.cfg, nUsers)
				if err != nil {
					return err
				}

				w, err := newHelpSide(kc.kind, true, kc.cfg, nUsers)
				if err != nil {
					return err
				}

				var (
					lr, wr       result
					lpost, wpost []string
					hist         []string
				)

				for _, i := range seq {
					lr, lpost = l.exec(ops[i])
					wr, wpost = w.exec(ops[i])
					hist = append(hist, fmt.Sprintf("%s -> Linux-typed %s, Windows-typed %s", ops[i], lr.String(), wr.String()))
				}

				o := ops[seq[len(seq)-1]]
				lo, wo := l.observe(), w.observe()

				st.Sequences++
				st.Calls += len(seq)
				st.Checks += 4
				st.OutcomeClasses[o.String()+"/"+lr.Kind]++

				if len(seq) == maxLen && st.Sample == nil && lr.Kind == "ok" {
					st.Sample = hist
				}

				replay := map[string]any{
					"fs": kc.kind, "config": kc.cfg.String(), "sequence": hist,
					"linux":   map[string]any{"result": lr.String(), "error": lr.Msg, "tree": lo, "left_undone": lpost},
					"windows": map[string]any{"result": wr.String(), "error": wr.Msg, "tree": wo, "left_undone": wpost},
					"how": "fresh Linux-typed and Windows-typed " + kc.kind + " in the default configuration (" + kc.cfg.String() + "); users: admin = AdminUser() of the identity manager of the file system (kinds without one: of a MemIdm of the same OS type), usrN = AddGroup(grpN), AddUser(usrN, grpN) on it; " +
						"<vol> = avfs.VolumeName(vfs, root) (\"\" resp. C:); $HOMEOF(U) = avfs.HomeDirUser(vfs, <vol>, U); apply the sequence on both; tree = Lstat of each role, dump below $TMP",
				}

				sig := func(k, what string) kf.Sig {
					return kf.Sig{"fs": kc.kind, "part": "helpers", "call": o.Name, "variant": o.String(), "operands": "", "config": kc.cfg.String(),
						"linux": lr.Kind, "windows": wr.Kind, "kind": k, "what": what}
				}

				abn := func(k string) bool { return k == "PANIC" || k == "DEADLOCK" }
				bad := false

				switch {
				case abn(lr.Kind) && lr.Kind == wr.Kind: // C07's business
					bad = true
				case abn(lr.Kind) || abn(wr.Kind):
					rep.Report(sig("panic", "call does not return normally on one OS type only"), replay)

					bad = true
				case (lr.Kind == "ok") != (wr.Kind == "ok"):
					rep.Report(sig("outcome", "success on one OS type, failure on the other"), replay)

					bad = true
				}

				if !bad {
					if len(lpost) > 0 {
						rep.Report(sig("helper-postcondition", "Linux-typed instance: the helper succeeded and did not leave what it is documented to create"), replay)

						bad = true
					}

					if len(wpost) > 0 {
						rep.Report(sig("helper-postcondition", "Windows-typed instance: the helper succeeded and did not leave what it is documented to create"), replay)

						bad = true
					}
				}

				if !bad && strings.Join(lo, "\n") != strings.Join(wo, "\n") {
					rep.Report(sig("tree", "trees differ in role spelling after the call: "+treeDiff(lo, wo)), replay)

					bad = true
				}

				if bad {
					st.NotExpanded++

					return nil
				}
			}

			if len(seq) == maxLen {
				return nil
			}

			for i := range ops {
				if err := run(append(seq[:len(seq):len(seq)], i)); err != nil {
					return err
				}
			}

			return nil
		}

		if err := run(nil); err != nil {
			return err
		}
	}

	return nil
}
