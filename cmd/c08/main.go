// c08: no data race under the documented concurrent use (engine B, race mode:
// the binary is built with -race and the scheduler hand-off is invisible to
// the detector, so the detector sees the program's own synchronisation in
// every enumerated order).
package main

import (
	"time"

	"verif/lib/concfs"
)

func main() {
	concfs.Main("C08", "model_checking", func(tier string) concfs.Plan {
		pl := concfs.Plan{ID: "C08", Oracle: concfs.OrRace, Bound: 1, PerProg: 20 * time.Second}

		for _, fs := range []string{"MemFS", "OrefaFS"} {
			pl.Programs = append(pl.Programs, concfs.Pairs(fs, false, concfs.Templates(fs, false, true))...)
			pl.Programs = append(pl.Programs, concfs.HandlePrograms(fs)...)
		}

		// MemFS views with different non-admin users, plus per-view setters
		pl.Programs = append(pl.Programs, concfs.Pairs("MemFS", true, concfs.Templates("MemFS", true, true))...)
		setters := []concfs.Tmpl{
			{{Op: "SetUMask", Perm: 0o027}}, {{Op: "Chdir", A: "/d"}}, {{Op: "SetUserSelf"}},
			{{Op: "Mkdir", A: "/d/y", Perm: 0o755}}, {{Op: "Stat", A: "/d/x"}},
		}
		pl.Programs = append(pl.Programs, concfs.Pairs("MemFS", true, setters)...)

		if tier == "thorough" {
			pl.Bound = 2
			pl.PerProg = 60 * time.Second

			for _, fs := range []string{"MemFS", "OrefaFS"} {
				pl.Programs = append(pl.Programs, concfs.Triples(fs, concfs.SingleStep(concfs.Templates(fs, true, true)))...)
			}
		}

		return pl
	}, nil)
}
