// c08: no data race under the documented concurrent use (engine B, race mode:
// the binary is built with -race and the scheduler hand-off is invisible to
// the detector, so the detector sees the program's own synchronisation in
// every enumerated order).
package main

import (
	"os"
	"time"

	"verif/lib/concfs"
	"verif/lib/fsx"
)

func handlePrograms(fs string) []concfs.Prog {
	var out []concfs.Prog

	// steps on a file handle / directory handle
	fileSteps := []fsx.Call{
		{Op: "H.Read", N: 2}, {Op: "H.ReadAt", N: 2, M: 0}, {Op: "H.Write", Data: "W"}, {Op: "H.WriteAt", Data: "V", N: 0},
		{Op: "H.Seek", N: 0, M: 0}, {Op: "H.Truncate", N: 1}, {Op: "H.Stat"}, {Op: "H.Sync"}, {Op: "H.Name"}, {Op: "H.Close"},
	}
	dirSteps := []fsx.Call{
		{Op: "H.ReadDir", N: 1}, {Op: "H.Readdirnames", N: 1}, {Op: "H.ReadDir", N: -1}, {Op: "H.Readdirnames", N: -1},
		{Op: "H.Readdirnames", N: 0}, {Op: "H.Stat"}, {Op: "H.Close"},
	}

	sh := func(c fsx.Call) fsx.Call { c.Op = "S" + c.Op; return c }

	openF := fsx.Call{Op: "H.Open", A: "/d/x", Flag: os.O_RDWR}
	openD := fsx.Call{Op: "H.Open", A: "/d", Flag: os.O_RDONLY}

	for i := range fileSteps {
		for j := i; j < len(fileSteps); j++ {
			// one shared handle
			out = append(out, concfs.Prog{FS: fs, SharedOpen: &openF, Threads: [][]fsx.Call{{sh(fileSteps[i])}, {sh(fileSteps[j])}}})
			// two distinct handles on the same file
			out = append(out, concfs.Prog{FS: fs, Threads: [][]fsx.Call{{openF, fileSteps[i], {Op: "H.Close"}}, {openF, fileSteps[j], {Op: "H.Close"}}}})
		}
	}

	for i := range dirSteps {
		for j := i; j < len(dirSteps); j++ {
			out = append(out, concfs.Prog{FS: fs, SharedOpen: &openD, Threads: [][]fsx.Call{{sh(dirSteps[i])}, {sh(dirSteps[j])}}})
			out = append(out, concfs.Prog{FS: fs, Threads: [][]fsx.Call{{openD, dirSteps[i], {Op: "H.Close"}}, {openD, dirSteps[j], {Op: "H.Close"}}}})
		}
	}

	// path call against handle call on the same node
	paths := []fsx.Call{
		{Op: "Truncate", A: "/d/x", N: 0}, {Op: "Chmod", A: "/d/x", Perm: 0o600}, {Op: "Remove", A: "/d/x"},
		{Op: "Rename", A: "/d/x", B: "/d/y"}, {Op: "Stat", A: "/d/x"}, {Op: "Link", A: "/d/x", B: "/d/y"}, {Op: "Chtimes", A: "/d/x", N: 3},
	}

	for _, pc := range paths {
		for _, hs := range fileSteps {
			out = append(out, concfs.Prog{FS: fs, SharedOpen: &openF, Threads: [][]fsx.Call{{pc}, {sh(hs)}}})
		}
	}

	// directory handle call against a path call that changes that directory
	dirMut := []fsx.Call{
		{Op: "Mkdir", A: "/d/y", Perm: 0o755}, {Op: "Remove", A: "/d/x"}, {Op: "Rename", A: "/d/x", B: "/d/y"},
		{Op: "OpenFile", A: "/d/y", Flag: os.O_RDWR | os.O_CREATE | os.O_EXCL, Perm: 0o644}, {Op: "Chmod", A: "/d/x", Perm: 0o600},
	}

	for _, pc := range dirMut {
		for _, hs := range dirSteps {
			out = append(out, concfs.Prog{FS: fs, SharedOpen: &openD, Threads: [][]fsx.Call{{pc}, {sh(hs)}}})
			out = append(out, concfs.Prog{FS: fs, Threads: [][]fsx.Call{{pc}, {openD, hs, {Op: "H.Close"}}}})
		}
	}

	return out
}

func main() {
	concfs.Main("C08", "model_checking", func(tier string) concfs.Plan {
		pl := concfs.Plan{ID: "C08", Oracle: concfs.OrRace, Bound: 1, PerProg: 20 * time.Second}

		for _, fs := range []string{"MemFS", "OrefaFS"} {
			pl.Programs = append(pl.Programs, concfs.Pairs(fs, false, concfs.Templates(fs, false, true))...)
			pl.Programs = append(pl.Programs, handlePrograms(fs)...)
		}

		// MemFS views with different non-admin users, plus per-view setters
		pl.Programs = append(pl.Programs, concfs.Pairs("MemFS", true, concfs.Templates("MemFS", true, true))...)
		setters := []concfs.Tmpl{
			{{Op: "SetUMask", Perm: 0o027}}, {{Op: "Chdir", A: "/d"}}, {{Op: "SetUserSelf"}},
			{{Op: "Mkdir", A: "/d/y", Perm: 0o755}}, {{Op: "Stat", A: "/d/x"}},
		}
		pl.Programs = append(pl.Programs, concfs.Pairs("MemFS", true, setters)...)

		if tier == "thorough" {
			pl.Bound = 2
			pl.PerProg = 60 * time.Second

			for _, fs := range []string{"MemFS", "OrefaFS"} {
				pl.Programs = append(pl.Programs, concfs.Triples(fs, concfs.SingleStep(concfs.Templates(fs, true, true)))...)
			}
		}

		return pl
	}, nil)
}
