// c08: no data race under the documented concurrent use (engine B, race mode:
// the binary is built with -race and the scheduler hand-off is invisible to
// the detector, so the detector sees the program's own synchronisation in
// every enumerated order).
package main

import (
	"os"
	"time"

	"verif/lib/concfs"
	"verif/lib/fsx"
)

func main() {
	concfs.Main("C08", "model_checking", func(tier string) concfs.Plan {
		pl := concfs.Plan{ID: "C08", Oracle: concfs.OrRace, Bound: 1, PerProg: 20 * time.Second}

		for _, fs := range []string{"MemFS", "OrefaFS"} {
			pl.Programs = append(pl.Programs, concfs.Pairs(fs, false, concfs.Templates(fs, false, true))...)
			pl.Programs = append(pl.Programs, concfs.HandlePrograms(fs)...)
		}

		// MemFS views with different non-admin users, plus per-view setters
		pl.Programs = append(pl.Programs, concfs.Pairs("MemFS", true, concfs.Templates("MemFS", true, true))...)
		setters := []concfs.Tmpl{
			{{Op: "SetUMask", Perm: 0o027}}, {{Op: "Chdir", A: "/d"}}, {{Op: "SetUserSelf"}},
			{{Op: "Mkdir", A: "/d/y", Perm: 0o755}}, {{Op: "Stat", A: "/d/x"}},
		}
		pl.Programs = append(pl.Programs, concfs.Pairs("MemFS", true, setters)...)

		// owner changes by the owner and by somebody else (refused), against what reads the owner:
		// a refusal decided before the node is locked reads what the owner's own call writes under the lock
		owners := []concfs.Tmpl{
			{{Op: "ChownSelf", A: "/d/x"}}, {{Op: "LchownSelf", A: "/d/x"}}, {{Op: "LchownSelf", A: "/d/s"}},
			{{Op: "Chmod", A: "/d/x", Perm: 0o600}}, {{Op: "Stat", A: "/d/x"}}, {{Op: "Remove", A: "/d/x"}},
			// into and within the sticky /tmp: Rename and Remove ask there who owns the entry
			{{Op: "Rename", A: "/d/x", B: "/tmp/x"}, {Op: "Rename", A: "/tmp/x", B: "/tmp/y"}},
			{{Op: "Rename", A: "/d/x", B: "/tmp/x"}, {Op: "Remove", A: "/tmp/x"}},
			{{Op: "ChownSelf", A: "/tmp/x"}},
		}
		pl.Programs = append(pl.Programs, concfs.OrderedPairs("MemFS", true, owners)...)

		// one OrefaFS shared by the threads: its setters against what reads the settings
		shared := []concfs.Tmpl{
			{{Op: "SetUMask", Perm: 0o027}}, {{Op: "Mkdir", A: "/d/y", Perm: 0o755}},
			{{Op: "OpenFile", A: "/d/y", Flag: os.O_RDWR | os.O_CREATE | os.O_EXCL, Perm: 0o644}}, {{Op: "MkdirAll", A: "/d/y/y", Perm: 0o755}},
		}
		pl.Programs = append(pl.Programs, concfs.Pairs("OrefaFS", false, shared)...)

		// threads on DISTINCT files of one file system must touch disjoint memory: whatever two
		// unrelated nodes share (a zero page lent to grown files, a pooled buffer, a package-level
		// scratch slice) shows only when both are written in place — a file created empty, grown by
		// Truncate (by handle and by name), written inside the grown range and read back
		grown := func(p, b string) []concfs.Tmpl {
			cr := os.O_RDWR | os.O_CREATE
			return []concfs.Tmpl{
				{{Op: "H.Open", A: p, Flag: cr, Perm: 0o644}, {Op: "H.Truncate", N: 4}, {Op: "H.WriteAt", Data: b, N: 1}, {Op: "H.ReadAt", N: 4, M: 0}, {Op: "H.Close"}},
				{{Op: "H.Open", A: p, Flag: cr, Perm: 0o644}, {Op: "H.Close"}, {Op: "Truncate", A: p, N: 3}, {Op: "H.Open", A: p, Flag: os.O_RDWR}, {Op: "H.Write", Data: b}, {Op: "H.Close"}},
			}
		}
		for _, fs := range []string{"MemFS", "OrefaFS"} {
			for _, a := range grown("/d/p", "A") {
				for _, b := range grown("/f/q", "B") {
					pl.Programs = append(pl.Programs, concfs.Prog{FS: fs, Threads: [][]fsx.Call{a, b}})
				}
			}
		}

		if tier == "thorough" {
			pl.Bound = 2
			pl.PerProg = 60 * time.Second

			for _, fs := range []string{"MemFS", "OrefaFS"} {
				pl.Programs = append(pl.Programs, concfs.Triples(fs, concfs.SingleStep(concfs.Templates(fs, true, true)))...)
			}
		}

		return pl
	}, nil)
}
