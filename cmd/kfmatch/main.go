package main

import (
	"bufio"
	"encoding/json"
	"fmt"
	"os"

	"verif/lib/kf"
)

func main() {
	ents, err := kf.Load("/verif/known_findings.txt", os.Args[1])
	if err != nil {
		panic(err)
	}
	sc := bufio.NewScanner(os.Stdin)
	sc.Buffer(make([]byte, 1<<20), 1<<20)
	un := 0
	for sc.Scan() {
		var s kf.Sig
		if json.Unmarshal(sc.Bytes(), &s) != nil {
			continue
		}
		if !kf.MatchAny(ents, s) {
			un++
			fmt.Println("UNMATCHED", sc.Text())
		}
	}
	fmt.Println("unmatched:", un)
}
