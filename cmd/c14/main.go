// c14: Glob, WalkDir, ReadDir and the existence helpers enumerate exactly what
// exists. Model checking by bounded exhaustive enumeration: every tree of a
// small universe (plain trees over the kinds, mode trees whose entries
// carry setuid/setgid/sticky and changed permission bits, and name-shape trees
// whose names share a prefix and continue with bytes at the edges of the ASCII,
// rune-length and byte ranges) x every pattern of
// <= k segments x every ReadDir path x every WalkDir root x every
// callback behaviour at every visit index, executed on the real avfs file
// systems and, as oracle, with path/filepath and os on an identical tree on
// tmpfs at the same absolute path.
package main

import (
	"bufio"
	"context"
	"encoding/json"
	"flag"
	"fmt"
	"os"
	"os/exec"
	"os/signal"
	"path/filepath"
	"runtime"
	"sort"
	"strconv"
	"strings"
	"sync"
	"syscall"
	"time"

	"github.com/avfs/avfs/verifrt"

	"verif/lib/ev"
	"verif/lib/kf"
)

type wmsg struct {
	Viol  *violation `json:"viol,omitempty"`
	Stats *stats     `json:"stats,omitempty"`
}

func scratchBase() string {
	s := os.Getenv("VERIF_SCRATCH")
	if s == "" {
		s = "/dev/shm"
	}

	return s
}

func emit(c *checker, harness string) {
	w := bufio.NewWriter(os.Stdout)
	enc := json.NewEncoder(w)

	for _, k := range c.order {
		_ = enc.Encode(wmsg{Viol: c.viols[k]})
	}

	c.st.Harness = harness
	_ = enc.Encode(wmsg{Stats: &c.st})
	_ = w.Flush()
}

// runWorker processes the trees with index = k (mod n), in ascending order,
// until the deadline.
func runWorker(tier string, k, n int, deadline time.Time, ost bool) {
	u := universeFor(tier)
	R := filepath.Join(scratchBase(), fmt.Sprintf("c14-%d", os.Getpid()))

	defer cleanup(R)

	name := fmt.Sprintf("w%d", k)
	if ost {
		name = "ost-" + name
	}

	c := newChecker(R, u, name)
	trees := u.trees()
	shapeFrom, shapeTo := u.shapeRange()
	plain := u.plainQueries()
	harness := ""

	for i := k; i < len(trees); i += n {
		if time.Now().After(deadline) {
			break
		}

		es := trees[i]
		ops := treeOps(es)

		if err := prepareKernel(R, ops); err != nil {
			harness = "tree " + treeSpec(es) + ": " + err.Error()

			break
		}

		// the name-shape trees are asked about their own names
		qs := plain
		if c.shape = i >= shapeFrom && i < shapeTo; c.shape {
			qs = u.shapeQueries(es)
		}

		qr := oraclePass(R, qs)
		c.checkTree(es, ops, qs, qr, fsNames, nil)
		c.st.TreesDone = append(c.st.TreesDone, i)

		if len(c.st.Samples) < 4 && i%7 == 3 {
			c.addSamples(es, qr, len(c.st.Samples)+1)
		}
	}

	cleanup(R)
	emit(c, harness)
}

// runPermWorker is the serial non-administrator part. Its scratch directory is
// directly below /dev/shm because every ancestor must be searchable by others.
func runPermWorker(tier string) {
	base := fmt.Sprintf("/dev/shm/avfs-verif-c14p-%d", os.Getpid())
	R := base + "/w"

	sig := make(chan os.Signal, 1)
	signal.Notify(sig, syscall.SIGINT, syscall.SIGTERM)

	go func() {
		<-sig
		cleanup(base)
		os.Exit(2)
	}()

	defer cleanup(base)

	c := newChecker(R, universeFor("quick"), "perm")
	harness := ""

	if err := os.MkdirAll(R, 0o755); err != nil {
		harness = err.Error()
	} else if err := os.Chmod(base, 0o755); err != nil {
		harness = err.Error()
	} else {
		harness = runPerm(c, tier)
	}

	cleanup(base)
	emit(c, harness)
}

func main() {
	id := flag.String("id", "C14", "")
	tier := flag.String("tier", "quick", "")
	worker := flag.Int("worker", -1, "internal: shard number")
	nworkers := flag.Int("nworkers", 1, "internal: number of shards")
	deadlineNs := flag.Int64("deadline", 0, "internal: unix nanoseconds")
	perm := flag.Bool("permworker", false, "internal: non-administrator part")
	replay := flag.String("replay", "", "replay file")
	noPerm := flag.Bool("noperm", false, "skip the non-administrator part")
	ost := flag.Bool("ost", false, "internal: worker of the build with the tag avfs_setostype (hand-written Match)")
	flag.Parse()

	verifrt.SetMode(verifrt.ModeSeq)
	syscall.Umask(0o022)

	if *replay != "" {
		os.Exit(runReplay(*replay))
	}

	if *worker >= 0 {
		runWorker(*tier, *worker, *nworkers, time.Unix(0, *deadlineNs), *ost)

		return
	}

	if *perm {
		runPermWorker(*tier)

		return
	}

	verifDir := os.Getenv("VERIF_DIR")
	if verifDir == "" {
		verifDir = "."
	}

	rep, err := kf.NewReporter(*id, filepath.Join(verifDir, "known_findings.txt"), filepath.Join(verifDir, "replays"))
	if err != nil {
		fmt.Fprintln(os.Stderr, err)
		os.Exit(2)
	}

	rep.Discover = os.Getenv("VERIF_DISCOVER") != ""

	budget := 300
	if *tier == "thorough" {
		budget = 1200
	}

	if b, err := strconv.Atoi(os.Getenv("VERIF_BUDGET_S")); err == nil && b > 0 {
		budget = b
	}

	// keep a margin for the last tree of every worker and the bookkeeping
	margin := time.Duration(budget) * time.Second / 20
	if margin < 3*time.Second {
		margin = 3 * time.Second
	}

	deadline := time.Now().Add(time.Duration(budget)*time.Second - margin)

	bin := os.Getenv("VERIF_BIN")
	if bin == "" {
		bin, _ = os.Executable()
	}

	u := universeFor(*tier)
	trees := u.trees()

	n := runtime.NumCPU()
	if n > len(trees) {
		n = len(trees)
	}

	seed := ev.Seed()

	var (
		mu      sync.Mutex
		all     []*stats
		harness []string
		inst    = map[string]int{}
		wg      sync.WaitGroup
	)

	// watchdog: a child that is still running well after the deadline hangs in
	// the code under test (or the sandbox stalls); that is a harness error here
	childBin, childTier := bin, *tier

	runChild := func(limit time.Time, args ...string) {
		defer wg.Done()

		bin, tier := childBin, &childTier

		ctx, cancel := context.WithDeadline(context.Background(), limit)
		defer cancel()

		cmd := exec.CommandContext(ctx, bin, append([]string{"-id", *id, "-tier", *tier}, args...)...)
		cmd.Stderr = os.Stderr

		out, err := cmd.StdoutPipe()
		if err != nil {
			mu.Lock()
			harness = append(harness, err.Error())
			mu.Unlock()

			return
		}

		if err := cmd.Start(); err != nil {
			mu.Lock()
			harness = append(harness, err.Error())
			mu.Unlock()

			return
		}

		sc := bufio.NewScanner(out)
		sc.Buffer(make([]byte, 1<<20), 64<<20)

		gotStats := false

		for sc.Scan() {
			var m wmsg
			if err := json.Unmarshal(sc.Bytes(), &m); err != nil {
				mu.Lock()
				harness = append(harness, "bad worker output: "+err.Error())
				mu.Unlock()

				continue
			}

			mu.Lock()

			if m.Viol != nil {
				// the reporter counts instances by calls; cap the calls, keep the true count
				k := m.Viol.Count
				if k > 20 {
					k = 20
				}

				for i := 0; i < k; i++ {
					rep.Report(kf.Sig(m.Viol.Sig), m.Viol.Replay)
				}

				inst[kf.Sig(m.Viol.Sig).String()] += m.Viol.Count
			}

			if m.Stats != nil {
				gotStats = true
				all = append(all, m.Stats)

				if m.Stats.Harness != "" {
					harness = append(harness, m.Stats.Worker+": "+m.Stats.Harness)
				}
			}

			mu.Unlock()
		}

		if err := cmd.Wait(); err != nil || !gotStats {
			mu.Lock()
			harness = append(harness, fmt.Sprintf("worker %v: %v (stats received: %v)", args, err, gotStats))
			mu.Unlock()
		}
	}

	for k := 0; k < n; k++ {
		wg.Add(1)

		// the seed only rotates which process gets which shard
		shard := (k + seed%n + n) % n
		go runChild(deadline.Add(90*time.Second), "-worker", strconv.Itoa(shard), "-nworkers", strconv.Itoa(n), "-deadline", strconv.FormatInt(deadline.UnixNano(), 10))
	}

	wg.Wait()

	// second pass: the same driver built with the tag avfs_setostype, in which
	// avfs.Match (and with it Glob) is the library's own copy of the matcher
	// instead of a call of path/filepath.Match. It runs the universe of the quick
	// tier in both tiers (the thorough universe uses its whole budget in the first pass).
	ostTrees, ostRan := 0, false

	if _, err := os.Stat(bin + ".ost"); err == nil {
		ostRan = true
		childBin, childTier = bin+".ost", "quick"
		ostTrees = len(universeFor("quick").trees())
		ostDeadline := time.Now().Add(300 * time.Second)

		no := runtime.NumCPU()
		if no > ostTrees {
			no = ostTrees
		}

		for k := 0; k < no; k++ {
			wg.Add(1)

			go runChild(ostDeadline.Add(90*time.Second), "-ost", "-worker", strconv.Itoa(k), "-nworkers", strconv.Itoa(no), "-deadline", strconv.FormatInt(ostDeadline.UnixNano(), 10))
		}

		wg.Wait()

		childBin, childTier = bin, *tier
	}

	// the serial non-administrator part runs alone (no competition for its thread games)
	if !*noPerm {
		wg.Add(1)
		runChild(time.Now().Add(180*time.Second), "-permworker")
	}

	// ---- aggregate
	states, evals, classes, buildFailed := map[string]int{}, map[string]int{}, map[string]int{}, map[string]int{}
	spelledEvals, totSpelled := map[string]int{}, 0
	done, doneOst := map[int]bool{}, map[int]bool{}
	permDone := 0
	instances := 0

	var samples []any

	for _, s := range all {
		for k, v := range s.States {
			if s.Worker == "perm" {
				k += "(nonadmin)"
			}

			if strings.HasPrefix(s.Worker, "ost-") {
				k += "(hand-written Match)"
			}

			states[k] += v
		}

		for k, v := range s.Evals {
			evals[k] += v
		}

		for k, v := range s.Classes {
			classes[k] += v
		}

		for k, v := range s.Spelled {
			spelledEvals[k] += v
			totSpelled += v
		}

		for k, v := range s.BuildFailed {
			buildFailed[k] += v
		}

		if s.Worker == "perm" {
			permDone = len(s.TreesDone)
		} else if strings.HasPrefix(s.Worker, "ost-") {
			for _, i := range s.TreesDone {
				doneOst[i] = true
			}
		} else {
			for _, i := range s.TreesDone {
				done[i] = true
			}
		}

		samples = append(samples, s.Samples...)
		instances += s.Instances
	}

	prefix := 0
	for done[prefix] {
		prefix++
	}

	exhaustive := prefix == len(trees) && !*noPerm && permDone == len(permScenarios(*tier)) && len(buildFailed) == 0 &&
		(!ostRan || len(doneOst) == ostTrees)

	totStates, totEvals := 0, 0
	for _, v := range states {
		totStates += v
	}

	for _, v := range evals {
		totEvals += v
	}

	if len(samples) > 8 {
		samples = samples[:8]
	}

	if len(samples) == 0 {
		samples = append(samples, "no tree completed")
	}

	type sigCount struct {
		Sig string `json:"sig"`
		N   int    `json:"instances"`
	}

	var sc []sigCount
	for k, v := range inst {
		sc = append(sc, sigCount{k, v})
	}

	sort.Slice(sc, func(i, j int) bool { return sc[i].Sig < sc[j].Sig })

	bound := fmt.Sprintf("%s; trees in canonical order: %d of %d completed (first %d contiguous); non-administrator scenarios %d of %d (one directory of mode 0000/0111/0444; regular files reachable but not readable, modes %s, also below such a directory)",
		u.Label, len(done), len(trees), prefix, permDone, len(permScenarios(*tier)), permModeNames(*tier))
	bound += "; beside the product of the segment alphabet every pattern of <= 2 segments that holds one of {*b, **b, a**, **}"

	if ostRan {
		bound += fmt.Sprintf("; second pass in the build with the tag avfs_setostype (avfs.Match is the library's own matcher there, not path/filepath.Match): trees of the quick universe %d of %d completed", len(doneOst), ostTrees)
	}

	// harness errors are never a verdict: no VIOLATION lines then
	code := 0
	if len(harness) == 0 {
		code = rep.Finish()
	}

	matched := rep.KnownMatched()
	if matched == nil {
		matched = []string{}
	}

	for k, v := range buildFailed {
		fmt.Printf("NOTE: property=%s tree could not be materialised with plain calls, not compared: %s (%d trees)\n", *id, k, v)
	}

	_ = ev.Write(filepath.Join(verifDir, "evidence", *id+".json"), ev.Evidence{
		PropertyID: *id, Tier: *tier, Seed: seed, Level: "model_checking",
		Coverage: map[string]any{
			"states": totStates, "transitions": totEvals, "traces_validated_against_impl": totEvals,
			"evaluations": totEvals, "distinct_nontrivial": len(classes),
			"rule": "every tree of the universe is materialised with plain calls in a fresh instance of every file system (states) and on tmpfs at the same absolute path; " +
				"every Glob pattern, ReadDir path and WalkDir (root, callback family, visit index) of the bound is evaluated on both and compared (transitions/evaluations), every accessor of every listed fs.DirEntry included; " +
				"the name-shape trees (names sharing a prefix and continuing with bytes at the edges of the ASCII, rune-length and byte ranges) are asked the patterns that have these names as literal prefix, and ReadDir/WalkDir/helpers on their own paths, the oracle's byte order of every listing included; " +
				"every ReadDir directory and WalkDir root that exists (R and the current directory included) and the Glob patterns over the spelled segment alphabet are also asked in every spelling that is not the shortest - leading './' (absolute: '/./' after R), inner '/./', doubled separator, 'x/../' in front (x = first element), trailing separator, trailing '/.' - with the oracle given the same spelling (spelled_evaluations, included in transitions/evaluations); " +
				"helpers are compared with Stat/ReadDir of the same instance; distinct_nontrivial = distinct (function, oracle result class) classes observed",
			"samples": samples, "exhaustive": exhaustive, "bound": bound,
			"states_per_fs": states, "evaluations_per_func": evals, "oracle_result_classes": classes,
			"evaluations_with_spelled_operand": totSpelled, "spelled_evaluations": spelledEvals,
			"trees_in_universe": len(trees), "trees_completed": len(done), "workers": n,
			"mode_trees_in_universe": len(u.modeTrees()), "name_shape_trees_in_universe": len(u.shapeTrees()),
			"not_materialised": buildFailed, "violation_instances": instances, "violation_signatures": sc,
			"known_findings_matched": matched, "budget_s": budget,
		},
		Assumptions: []string{
			"oracle = path/filepath.Glob, os.ReadDir, path/filepath.WalkDir of the installed toolchain (" + runtime.Version() + ") on tmpfs as root; Glob errors are compared with what filepath.Glob reports for the same pattern on the identical tree",
			"symbolic-link trees only on file systems that advertise FeatSymlink (MemFS, RoFS(MemFS), FailFS(MemFS)); OrefaFS and BasePathFS get the link-free trees",
			"BasePathFS has base path R: arguments are translated R/x -> /x and oracle results likewise before comparing; R itself and R/ both map to /",
			"compared: Glob error class, nil-ness and the ordered list; ReadDir error class, names in order and of every entry Type() bit for bit, IsDir(), Info(): success, mode (type, permission, setuid/setgid/sticky bits), regular-file size, Name(), IsDir(); WalkDir visit sequence (path, type, IsDir, error class), of every visited entry Name() (below the root) and Type() bit for bit, in the walks whose callback never acts (families none, prop) also Info() as for ReadDir, and the returned error class. Not compared with the oracle: the name of the root entry of a walk (it is what Lstat answers for the spelling given), symlink sizes, modification times, nil versus empty ReadDir slices",
			"spelling dimension: the scratch root R itself is always written in its shortest form (only what follows it is spelled); a spelled operand is asked only if it names for the kernel the very object (Lstat, same device and inode) that its cleaned form names, or neither names anything - for a pattern: its longest leading part without a magic character. Left out thereby (VERIF_C14_SPELL_ALL=1 asks them too): operands whose RESOLUTION differs between the kernel (element by element) and the emulated file systems (lexical cleaning first) - a trailing separator or '/.' or 'x/../' behind a non-directory or a symbolic link, '/.' behind a directory without search permission; that difference belongs to path resolution (C01/C03/C04, KF-C04-001; KF-C14-002 here), not to enumeration. In the quick tier a spelled WalkDir root is walked with the callback that never acts only (thorough: every callback family at every visit index); Glob results that name the same paths in the same order but spell them differently (cleaned versus as written) are accepted, as for the patterns in their shortest form; the paths a walk reports are compared verbatim",
			"every listed entry is also held to itself and to Lstat of the same path on the same file system: Name/IsDir/Type agree with Info(), IsDir with Type, and Info() name, mode, size, modification time, IsDir equal Lstat's (skipped where Lstat or Info fails, e.g. unsearchable directory)",
			"name-shape trees: names are byte strings; tmpfs accepts every name of the alphabet (0x7f, U+10FFFF and the byte 0xff, which is not UTF-8, included) and os.ReadDir / filepath.Glob / filepath.WalkDir list them in byte order; these trees hold files and directories only (every file system gets them), with creation modes; patterns without a literal prefix other than * and patterns with empty segments are left to the plain trees; in signatures and replay files bytes outside printable ASCII are written <xx> / <U+XXXX> (replay files carry the exact bytes in *_hex fields)",
			"mode trees: modes are given with Chmod after creation (not with the perm argument of Mkdir/OpenFile, whose handling of special bits belongs to C01/C03); a tree whose mode the scratch file system does not keep is a harness error; everything is owned by root",
			"helpers are only held to their documented meaning: Exists <=> Stat succeeds, DirExists <=> Stat succeeds and is a directory, IsDir = Stat, IsEmpty = no entries / size 0; which error accompanies a false answer is not compared",
			"non-administrator part: MemFS view (Sub(\"/\") + SetUser) versus the kernel under setfsuid/setfsgid with supplementary groups dropped on a locked thread; small fixed family of trees, all owned by root and asked by a user of the others class: one directory of mode 0000/0111/0444 (top, nested, first, last, behind a symbolic link); regular files that can be reached and Stat'ed but not read - with content and empty, at the top and below a directory, behind a symbolic link - every one of the tree in one mode of the alphabet 0600/0622/0000 (thorough: + 0200, 0711); such files below a directory of mode 0000/0111/0444 with a file of the other mode beside it (thorough: every pair of file modes). Every scenario gets the full query set of the quick universe (Glob, ReadDir, WalkDir against the kernel as the same user; Exists, DirExists, IsDir, IsEmpty against Stat/ReadDir of the same view as the same user: a file's emptiness is its Stat size, no read permission needed; a directory's needs ReadDir). Ownership by the asking user or its group is not varied here (C03)",
		},
		Violations: rep.NewCount(),
	})

	fmt.Printf("C14 %s: trees=%d/%d states=%d evaluations=%d (Glob %d, ReadDir %d, WalkDir %d, helpers %d) oracle-classes=%d nonadmin-scenarios=%d/%d violation-instances=%d signatures=%d exhaustive=%v wall=%.1fs\n",
		*tier, len(done), len(trees), totStates, totEvals, evals["Glob"], evals["ReadDir"], evals["WalkDir"], evals["helpers"],
		len(classes), permDone, len(permScenarios(*tier)), instances, len(inst), exhaustive, ev.Elapsed())

	if len(harness) > 0 {
		for _, h := range harness {
			fmt.Fprintln(os.Stderr, "harness error:", h)
		}

		os.Exit(2)
	}

	os.Exit(code)
}
