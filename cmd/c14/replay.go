package main

import (
	"encoding/json"
	"fmt"
	"os"
	"path/filepath"
	"strings"

	"github.com/avfs/avfs"
)

type replayFile struct {
	Property  string            `json:"property"`
	Signature map[string]string `json:"signature"`
	Replay    struct {
		FS    string `json:"fs"`
		Tree  []ent  `json:"tree"`
		Query query  `json:"query"`
		User  string `json:"user"`
	} `json:"replay"`
}

// runReplay re-executes the one evaluation of a replay file on a fresh tree
// and prints both outcomes. Exit 1 if they still differ, 0 if not, 2 on
// harness errors.
func runReplay(path string) int {
	b, err := os.ReadFile(path)
	if err != nil {
		fmt.Fprintln(os.Stderr, err)

		return 2
	}

	var rf replayFile
	if err := json.Unmarshal(b, &rf); err != nil {
		fmt.Fprintln(os.Stderr, err)

		return 2
	}

	r := rf.Replay
	nonadmin := r.User == "nonadmin"

	base := filepath.Join(scratchBase(), fmt.Sprintf("c14-replay-%d", os.Getpid()))
	if nonadmin {
		base = fmt.Sprintf("/dev/shm/avfs-verif-c14p-%d", os.Getpid())
	}

	R := base + "/w"

	defer cleanup(base)

	if err := os.MkdirAll(R, 0o755); err != nil {
		fmt.Fprintln(os.Stderr, err)

		return 2
	}

	_ = os.Chmod(base, 0o755)

	ops := treeOps(r.Tree)
	if err := prepareKernel(R, ops); err != nil {
		fmt.Fprintln(os.Stderr, err)

		return 2
	}

	c := newChecker(R, universeFor("quick"), "replay")
	c.cls = map[string]string{}

	in, err := buildInst(r.FS, R, ops)
	if err != nil {
		fmt.Fprintln(os.Stderr, "cannot materialise the tree:", err)

		return 2
	}

	fmt.Printf("tree: %s\n", treeSpec(r.Tree))

	for _, s := range opStrings(ops) {
		fmt.Println("  ", s)
	}

	q := r.Query

	// the stored argument is in the namespace of the file system, with R for the scratch root
	argFS, argK := q.Arg, q.Arg

	switch {
	case in.bp:
		argK = fromBP(R, q.Arg)
	case q.Arg == "R" || strings.HasPrefix(q.Arg, "R/"):
		argFS = R + q.Arg[1:]
		argK = argFS
	}

	// the view of the ordinary user (as in runPerm); the helpers are asked through it too
	var (
		v        avfs.VFS = in.v
		uid, gid int
	)

	if nonadmin {
		idm := in.base.Idm()
		_, _ = idm.AddGroup("g14")

		u, err := idm.AddUser("u14", "g14")
		if err != nil {
			fmt.Fprintln(os.Stderr, err)

			return 2
		}

		sub, err := in.base.Sub("/")
		if err != nil {
			fmt.Fprintln(os.Stderr, err)

			return 2
		}

		_ = sub.SetUser(u)
		_ = sub.Chdir(R)
		v = sub
		uid, gid = u.Uid(), u.Gid()
	}

	switch q.Func {
	case "Glob", "ReadDir", "WalkDir":
	default: // helpers
		ds, statClass, _ := checkHelpers(v, argFS)
		fmt.Printf("%s(%q) on %s: Stat class %s\n", q.Func, q.Arg, r.FS, statClass)

		code := 0

		for _, d := range ds {
			if d.Func == q.Func {
				fmt.Printf("  expected %s, observed %s\n", d.Want, d.Got)

				code = 1
			}
		}

		return code
	}

	var want outcome

	if nonadmin {
		if err := asUser(uid, gid, func() { want = evalQuery(kernelSide{}, q, argK) }); err != nil {
			fmt.Fprintln(os.Stderr, err)

			return 2
		}
	} else {
		want = evalQuery(kernelSide{}, q, argK)
	}

	if in.bp {
		want = outcomeToBP(R, q, want)
	}

	got := evalQuery(v, q, argFS)
	ds := compare(q, want, got)

	pr := func(o outcome) string {
		o.List = c.sanL(o.List)
		o.Msg = c.san(o.Msg)
		j, _ := json.Marshal(o)

		return string(j)
	}

	fmt.Printf("%s(%q) fam=%s idx=%d on %s\n  oracle:   %s\n  observed: %s\n", q.Func, q.Arg, q.Fam, q.Idx, r.FS, pr(want), pr(got))

	for _, d := range ds {
		fmt.Printf("  differs: kind=%s want=%s got=%s\n", d.Kind, d.Want, d.Got)
	}

	if len(ds) > 0 {
		return 1
	}

	return 0
}
