package main

import (
	"encoding/hex"
	"encoding/json"
	"errors"
	"fmt"
	"io/fs"
	"os"
	"path/filepath"
	"sort"
	"strings"
	"unicode/utf8"

	"github.com/avfs/avfs"

	"verif/lib/fsx"
)

// side is what both the oracle and the file systems under test offer.
type side interface {
	Glob(pattern string) ([]string, error)
	ReadDir(name string) ([]fs.DirEntry, error)
	WalkDir(root string, fn fs.WalkDirFunc) error
	Lstat(name string) (fs.FileInfo, error)
}

// kernelSide is the oracle: path/filepath and os on the real tree.
type kernelSide struct{}

func (kernelSide) Glob(p string) ([]string, error)           { return filepath.Glob(p) }
func (kernelSide) ReadDir(p string) ([]fs.DirEntry, error)   { return os.ReadDir(p) }
func (kernelSide) WalkDir(r string, fn fs.WalkDirFunc) error { return filepath.WalkDir(r, fn) }
func (kernelSide) Lstat(p string) (fs.FileInfo, error)       { return os.Lstat(p) }

var (
	errSentinel = errors.New("c14 sentinel")
	errRunaway  = errors.New("c14 runaway walk")
)

const maxVisits = 10000

func errClass(err error) string {
	switch {
	case err == nil:
		return "nil"
	case err == errSentinel:
		return "sentinel"
	case err == errRunaway:
		return "RUNAWAY"
	case err == fs.SkipDir:
		return "SkipDir"
	case err == fs.SkipAll:
		return "SkipAll"
	case errors.Is(err, filepath.ErrBadPattern):
		return "bad-pattern"
	}

	return fsx.ErrKind(err)
}

// query is one evaluation: Glob(pattern), ReadDir(path) or WalkDir(root, cb).
type query struct {
	Func string   `json:"func"`
	Arg  string   `json:"arg"`            // as passed on the kernel side
	Segs []string `json:"segs,omitempty"` // Glob: pattern segments
	Rel  bool     `json:"rel,omitempty"`
	Fam  string   `json:"fam,omitempty"` // WalkDir callback family: none|prop|skipdir|skipall|err
	Idx  int      `json:"idx,omitempty"` // visit index at which the callback acts
	CbAt string   `json:"cb_at,omitempty"`
	Sp   string   `json:"spelling,omitempty"` // how Arg is spelled when not in its shortest form (see spellings)
}

// queryJSON: arguments that are not valid UTF-8 travel in hexadecimal (see entJSON).
type queryJSON struct {
	Func    string   `json:"func"`
	Arg     string   `json:"arg"`
	ArgHex  string   `json:"arg_hex,omitempty"`
	Segs    []string `json:"segs,omitempty"`
	SegsHex []string `json:"segs_hex,omitempty"`
	Rel     bool     `json:"rel,omitempty"`
	Fam     string   `json:"fam,omitempty"`
	Idx     int      `json:"idx,omitempty"`
	CbAt    string   `json:"cb_at,omitempty"`
	Sp      string   `json:"spelling,omitempty"`
}

func (q query) MarshalJSON() ([]byte, error) {
	j := queryJSON{Func: q.Func, Rel: q.Rel, Fam: q.Fam, Idx: q.Idx, CbAt: q.CbAt, Sp: q.Sp}
	j.Arg, j.ArgHex = toJSONString(q.Arg)

	for _, s := range q.Segs {
		t, h := toJSONString(s)
		j.Segs = append(j.Segs, t)

		if h != "" && j.SegsHex == nil {
			for _, s := range q.Segs {
				j.SegsHex = append(j.SegsHex, hex.EncodeToString([]byte(s)))
			}
		}
	}

	return json.Marshal(j)
}

func (q *query) UnmarshalJSON(b []byte) error {
	var j queryJSON
	if err := json.Unmarshal(b, &j); err != nil {
		return err
	}

	*q = query{Func: j.Func, Arg: fromJSONString(j.Arg, j.ArgHex), Segs: j.Segs, Rel: j.Rel, Fam: j.Fam, Idx: j.Idx, CbAt: j.CbAt, Sp: j.Sp}

	if len(j.SegsHex) == len(j.Segs) {
		for i := range j.Segs {
			q.Segs[i] = fromJSONString(j.Segs[i], j.SegsHex[i])
		}
	}

	return nil
}

// outcome of a query on one side.
type outcome struct {
	Kind string   `json:"kind"` // Glob/ReadDir: "ok" or error class; WalkDir: class of the returned error; PANIC, DEADLOCK
	Nil  bool     `json:"nil,omitempty"`
	List []string `json:"list"`
	Msg  string   `json:"msg,omitempty"`
}

func broken(o outcome) bool {
	return o.Kind == "PANIC" || o.Kind == "DEADLOCK" || o.Kind == "RUNAWAY"
}

// Every accessor of a listed entry is judged. Lesson: a directory entry is a
// small object with its own code for Name, IsDir, Type and Info; comparing a
// class of the type ("is it a directory", "is it a link") leaves the value of
// Type() itself, the agreement of the accessors with each other and the
// agreement of Info() with Lstat of the same path unobserved.
//
// entryFields describes the entry e met at path on side s:
//
//	typeClass | IsDir | Type() bit for bit | info | self
//
// info is "info!<error class>" or
// "Info().Mode() class, size of a regular file, Info().Mode() bit for bit,
// Info().Name(), Info().IsDir()" joined with commas; self lists what disagrees
// between the accessors of the entry, its Info() and Lstat(path) of the same
// file system ("same" if nothing, "n/a" if Lstat or Info fails there).
//
// With full = false Info and Lstat are not called (info is "-"): what an entry
// answers does not depend on what the callback of a walk returns at some
// visit, so the walks with an acting callback (one per visit index, quadratic
// in the number of visits) record Name, IsDir and Type() only and the walks of
// the families none and prop record everything.
func entryFields(s side, path string, e fs.DirEntry, full bool) string {
	it, self := "-", "n/a"

	if !full {
		return fmt.Sprintf("%s|%v|%v|%s|%s", typeName(e.Type()), e.IsDir(), e.Type(), it, self)
	}

	info, err := e.Info()
	if err != nil {
		it = "info!" + errClass(err)
	} else {
		sz := "-"
		if info.Mode().IsRegular() {
			sz = fmt.Sprint(info.Size())
		}

		it = fmt.Sprintf("%s,%s,%v,%s,%v", typeName(info.Mode()), sz, info.Mode(), info.Name(), info.IsDir())

		var bad []string

		if e.Name() != info.Name() {
			bad = append(bad, "name/info-name")
		}

		if e.IsDir() != info.IsDir() {
			bad = append(bad, "isdir/info-isdir")
		}

		if e.Type() != info.Mode().Type() {
			bad = append(bad, "type/info-mode")
		}

		if e.IsDir() != e.Type().IsDir() {
			bad = append(bad, "isdir/type")
		}

		if lst, err := s.Lstat(path); err == nil {
			if info.Name() != lst.Name() {
				bad = append(bad, "info-name/lstat")
			}

			if info.Mode() != lst.Mode() {
				bad = append(bad, "info-mode/lstat")
			}

			if info.Size() != lst.Size() {
				bad = append(bad, "info-size/lstat")
			}

			if !info.ModTime().Equal(lst.ModTime()) {
				bad = append(bad, "info-mtime/lstat")
			}

			if info.IsDir() != lst.IsDir() {
				bad = append(bad, "info-isdir/lstat")
			}

			self = "same"
		}

		if len(bad) > 0 {
			self = strings.Join(bad, "+")
		}
	}

	return fmt.Sprintf("%s|%v|%v|%s|%s", typeName(e.Type()), e.IsDir(), e.Type(), it, self)
}

// joinName is the path of the entry name of the directory dir, in the spelling
// a caller would use.
func joinName(dir, name string) string {
	if strings.HasSuffix(dir, "/") {
		return dir + name
	}

	return dir + "/" + name
}

func typeName(m fs.FileMode) string {
	switch {
	case m.IsDir():
		return "dir"
	case m&fs.ModeSymlink != 0:
		return "symlink"
	case m&fs.ModeType != 0:
		return "other"
	}

	return "file"
}

// evalQuery runs q on s with arg as the path/pattern argument.
func evalQuery(s side, q query, arg string) (o outcome) {
	k, msg := fsx.Guard(func() {
		switch q.Func {
		case "Glob":
			m, err := s.Glob(arg)
			o.Kind = errClass(err)

			if err == nil {
				o.Kind = "ok"
			}

			o.Nil = m == nil
			o.List = m
		case "ReadDir":
			es, err := s.ReadDir(arg)
			o.Kind = errClass(err)

			if err == nil {
				o.Kind = "ok"
			}

			for _, e := range es {
				o.List = append(o.List, e.Name()+"|"+entryFields(s, joinName(arg, e.Name()), e, true))
			}
		case "WalkDir":
			n := 0
			runaway := false

			err := s.WalkDir(arg, func(p string, d fs.DirEntry, err error) error {
				i := n
				n++

				if n > maxVisits {
					runaway = true

					return errRunaway
				}

				// path | type class | IsDir | error class | Name | Type() | info | self
				v := p + "|"
				if d == nil {
					v += "nil|false|" + errClass(err)
				} else {
					f := splitV(entryFields(s, p, d, q.Fam == "none" || q.Fam == "prop"))
					v += f[0] + "|" + f[1] + "|" + errClass(err) + "|" + d.Name() + "|" + strings.Join(f[2:], "|")
				}

				o.List = append(o.List, v)

				if q.Fam == "prop" && err != nil {
					return err
				}

				if i == q.Idx {
					switch q.Fam {
					case "skipdir":
						return fs.SkipDir
					case "skipall":
						return fs.SkipAll
					case "err":
						return errSentinel
					}
				}

				return nil
			})

			o.Kind = errClass(err)
			if runaway {
				o.Kind = "RUNAWAY"
				o.List = o.List[:16]
			}
		}
	})

	if k != "" {
		return outcome{Kind: k, Msg: msg}
	}

	return o
}

// diff is one disagreement between the oracle and a file system.
type diff struct {
	Kind, Want, Got string
	Path            string // the path the disagreement is about (file system namespace)
	HasPath         bool
}

func splitV(s string) []string { return strings.Split(s, "|") }

// compare lists the disagreements of got against want for q.
func compare(q query, want, got outcome) []diff {
	if broken(got) {
		k := "error"
		if q.Func == "WalkDir" {
			k = "final-error"
		}

		return []diff{{Kind: k, Want: want.Kind, Got: got.Kind}}
	}

	switch q.Func {
	case "Glob":
		return compareGlob(want, got)
	case "ReadDir":
		return compareReadDir(want, got)
	}

	return compareWalk(want, got)
}

func compareGlob(want, got outcome) []diff {
	if want.Kind != got.Kind {
		return []diff{{Kind: "error", Want: want.Kind, Got: got.Kind}}
	}

	if want.Kind != "ok" {
		return nil
	}

	var ds []diff

	if len(want.List) == 0 && len(got.List) == 0 {
		if want.Nil != got.Nil {
			ds = append(ds, diff{Kind: "nil-empty", Want: nilName(want.Nil), Got: nilName(got.Nil)})
		}

		return ds
	}

	wm, gm := map[string]int{}, map[string]int{}
	for _, p := range want.List {
		wm[p]++
	}

	for _, p := range got.List {
		gm[p]++
	}

	// same paths, spelled differently (cleaned)?
	if len(want.List) == len(got.List) {
		same, verbatim := true, true

		for i := range want.List {
			if want.List[i] != got.List[i] {
				verbatim = false
			}

			if filepath.Clean(want.List[i]) != filepath.Clean(got.List[i]) {
				same = false
			}
		}

		if same && !verbatim {
			// The same existing paths, spelled differently (e.g. BasePathFS cleans
			// "/b/" to "/b"): the property speaks of the paths that match, not of
			// their spelling, so this is not a violation.
			if os.Getenv("VERIF_C14_SPELLING") == "" {
				return nil
			}

			for i := range want.List {
				if want.List[i] != got.List[i] {
					return []diff{{Kind: "spelling", Want: "verbatim", Got: "cleaned", Path: want.List[i], HasPath: true}}
				}
			}
		}
	}

	setDiff := false

	for _, p := range want.List {
		if gm[p] == 0 {
			ds = append(ds, diff{Kind: "missing-match", Want: "match", Got: "absent", Path: p, HasPath: true})
			setDiff = true

			break
		}
	}

	for _, p := range got.List {
		if wm[p] == 0 {
			ds = append(ds, diff{Kind: "extra-match", Want: "absent", Got: "match", Path: p, HasPath: true})
			setDiff = true

			break
		}
	}

	if setDiff {
		return ds
	}

	for p, n := range gm {
		if wm[p] != n {
			return []diff{{Kind: "duplicate-match", Want: fmt.Sprint(wm[p]), Got: fmt.Sprint(n), Path: p, HasPath: true}}
		}
	}

	for i := range want.List {
		if want.List[i] != got.List[i] {
			g := "unsorted"
			if sort.StringsAreSorted(got.List) {
				g = "sorted-differently"
			}

			return []diff{{Kind: "order", Want: "oracle-order", Got: g}}
		}
	}

	return nil
}

func nilName(b bool) string {
	if b {
		return "nil"
	}

	return "empty"
}

func compareReadDir(want, got outcome) []diff {
	if want.Kind != got.Kind {
		return []diff{{Kind: "error", Want: want.Kind, Got: got.Kind}}
	}

	if want.Kind != "ok" {
		return nil
	}

	names := func(l []string) []string {
		var n []string
		for _, e := range l {
			n = append(n, splitV(e)[0])
		}

		return n
	}

	wn, gn := names(want.List), names(got.List)
	ws, gs := append([]string{}, wn...), append([]string{}, gn...)
	sort.Strings(ws)
	sort.Strings(gs)

	if strings.Join(ws, ",") != strings.Join(gs, ",") {
		return []diff{{Kind: "names", Want: strings.Join(ws, ","), Got: strings.Join(gs, ",")}}
	}

	if strings.Join(wn, ",") != strings.Join(gn, ",") {
		return []diff{{Kind: "order", Want: strings.Join(wn, ","), Got: strings.Join(gn, ",")}}
	}

	var ds []diff

	seen := map[string]bool{}

	for i := range want.List {
		w, g := splitV(want.List[i]), splitV(got.List[i])

		for _, d := range entryDiffs(w[1:], g[1:], w[0], joinName("x", w[0])) {
			key := d.Kind + d.Want + d.Got
			if !seen[key] {
				seen[key] = true
				ds = append(ds, diff{Kind: d.Kind, Want: w[1] + ":" + d.Want, Got: g[1] + ":" + d.Got})
			}
		}
	}

	return ds
}

// nameClass keeps run-dependent names (the scratch directory) out of signatures.
func nameClass(name, path string) string {
	if name == filepath.Base(path) {
		return "base-of-path"
	}

	return "other:" + name
}

// entryDiffs compares what entryFields recorded for the same entry on the
// oracle (w) and on a file system (g); name and path are the oracle's.
//
//   - type class, IsDir and the value of Type() must be the oracle's;
//   - fs.DirEntry allows Info to be taken at read time or at call time: when
//     the oracle's lazy lstat fails (unsearchable directory) nothing is implied;
//     otherwise Info must succeed and its type class, regular-file size, mode
//     (type, permission and special bits), name and IsDir must be the oracle's.
//     "*" on the oracle's side stands for a name that is not the oracle's to
//     tell (the root of a walk);
//   - self: the accessors of the entry, its Info and Lstat of the same path on
//     the same file system must agree, whatever the oracle says.
func entryDiffs(w, g []string, name, path string) []diff {
	var ds []diff

	if len(w) < 5 || len(g) < 5 {
		return []diff{{Kind: "entry", Want: "entry", Got: "nil-entry"}}
	}

	for f, k := range []string{"type", "isdir", "type-bits"} {
		if w[f] != g[f] {
			ds = append(ds, diff{Kind: k, Want: w[f], Got: g[f]})
		}
	}

	switch {
	case strings.HasPrefix(w[3], "info!") || w[3] == "-":
	case strings.HasPrefix(g[3], "info!"):
		ds = append(ds, diff{Kind: "info", Want: "ok", Got: g[3]})
	default:
		wi, gi := strings.Split(w[3], ","), strings.Split(g[3], ",")

		for f, k := range []string{"info-type", "info-size", "info-mode", "info-name", "info-isdir"} {
			if f >= len(wi) || f >= len(gi) || wi[f] == gi[f] || wi[f] == "*" {
				continue
			}

			if k == "info-name" {
				ds = append(ds, diff{Kind: k, Want: nameClass(wi[f], path), Got: nameClass(gi[f], path)})

				continue
			}

			ds = append(ds, diff{Kind: k, Want: wi[f], Got: gi[f]})
		}
	}

	if g[4] != "same" && g[4] != "n/a" {
		ds = append(ds, diff{Kind: "entry-vs-lstat", Want: "same", Got: g[4]})
	}

	return ds
}

// visitDiffs compares one visit of the oracle's walk with the visit at the
// same index: path | type class | IsDir | error class | Name | accessor fields.
//
// The entry of the root is made from Lstat(root), and which name Lstat gives
// to "." or to the root directory of a file system is not a matter of
// enumeration (os answers with the spelling it was given): the name of the
// root entry is only held to Lstat of the same file system (self), the names of
// the entries found below it to the oracle as well.
func visitDiffs(ws, gs string, root bool) []diff {
	if ws == gs {
		return nil
	}

	w, g := splitV(ws), splitV(gs)

	switch {
	case w[0] != g[0]:
		return []diff{{Kind: "visit-seq", Want: "path:" + w[1], Got: "other-path:" + g[1], Path: w[0], HasPath: true}}
	case w[1] != g[1]:
		return []diff{{Kind: "visit-seq", Want: "type:" + w[1], Got: "type:" + g[1], Path: w[0], HasPath: true}}
	case w[2] != g[2]:
		return []diff{{Kind: "visit-seq", Want: "isdir:" + w[2], Got: "isdir:" + g[2], Path: w[0], HasPath: true}}
	case w[3] != g[3]:
		return []diff{{Kind: "visit-seq", Want: "err:" + w[3], Got: "err:" + g[3], Path: w[0], HasPath: true}}
	case len(w) < 8 || len(g) < 8:
		return nil // both visits have a nil entry
	}

	var ds []diff

	if root {
		w[4] = "*"

		if in := strings.Split(w[6], ","); len(in) == 5 {
			in[3] = "*"
			w[6] = strings.Join(in, ",")
		}
	}

	if w[4] != g[4] && w[4] != "*" {
		ds = append(ds, diff{Kind: "visit-entry", Want: "name:" + nameClass(w[4], w[0]), Got: "name:" + nameClass(g[4], w[0]), Path: w[0], HasPath: true})
	}

	for _, d := range entryDiffs(append([]string{w[1], w[2]}, w[5:]...), append([]string{g[1], g[2]}, g[5:]...), w[4], w[0]) {
		ds = append(ds, diff{Kind: "visit-entry", Want: d.Kind + ":" + d.Want, Got: d.Kind + ":" + d.Got, Path: w[0], HasPath: true})
	}

	return ds
}

func compareWalk(want, got outcome) []diff {
	var ds []diff

	n := len(want.List)
	if len(got.List) < n {
		n = len(got.List)
	}

	// a visit whose entry answers wrongly is reported and the comparison goes
	// on; a visit that is not the oracle's ends it
	j, seqBroken := 0, false
	seen := map[string]bool{}

	for ; j < n && !seqBroken; j++ {
		// the root is visited first and, if it cannot be read, once more
		root := j == 0 || splitV(want.List[j])[0] == splitV(want.List[0])[0]

		for _, d := range visitDiffs(want.List[j], got.List[j], root) {
			seqBroken = seqBroken || d.Kind == "visit-seq"

			if key := d.Kind + d.Want + d.Got; !seen[key] {
				seen[key] = true
				ds = append(ds, d)
			}
		}
	}

	switch {
	case seqBroken:
	case len(got.List) < len(want.List):
		w := splitV(want.List[j])
		ds = append(ds, diff{Kind: "visit-seq", Want: "next:" + w[1] + "/" + w[3], Got: "stops", Path: w[0], HasPath: true})
	case len(got.List) > len(want.List):
		g := splitV(got.List[j])
		ds = append(ds, diff{Kind: "visit-seq", Want: "stops", Got: "next:" + g[1] + "/" + g[3], Path: g[0], HasPath: true})
	}

	if want.Kind != got.Kind {
		ds = append(ds, diff{Kind: "final-error", Want: want.Kind, Got: got.Kind})
	}

	return ds
}

// ---------------------------------------------------------------------------
// query generation (oracle pass)

var segAlphabet = []string{"a", "b", "*", "?", "a*", "[ab]", "[^a]", `\a`, "[a-", ""}

var segClass = map[string]string{
	"a": "lit", "b": "lit", "*": "star", "?": "qm", "a*": "lit-star", "[ab]": "class", "[^a]": "negclass",
	`\a`: "esc", "[a-": "bad", "": "empty",
	"*b": "star-lit", "**b": "stars-lit", "a**": "lit-stars", "**": "stars",
}

// starSegs: segments with a star in front of text and with several stars in a
// row (round 12: the chunk scanner of the hand-written Match swallows every
// leading star of a chunk). They are not part of the product alphabet - the
// thorough tier is at its budget - but every pattern of <= 2 segments that
// holds one of them is asked, beside the product.
var starSegs = []string{"*b", "**b", "a**", "**"}

// The segments of the name-shape trees: "*" and every name as a literal
// prefix followed by each tail.
var shapeTails = []string{"", "*", "?", "[^b]", "?*"}

var shapeTailClass = map[string]string{"": "", "*": "-star", "?": "-qm", "[^b]": "-negclass", "?*": "-qm-star"}

func (u universe) shapeSegs() []string {
	segs := []string{"*"}

	for _, n := range u.ShapeNames {
		for _, t := range shapeTails {
			segs = append(segs, n+t)
		}
	}

	return segs
}

// contClass names what follows the first byte of a name (or of the literal
// prefix of a segment): the edge of the byte ranges it stands for.
func contClass(name string) string {
	if len(name) < 2 {
		return "none"
	}

	switch c := name[1]; {
	case c == 0x7e:
		return "7e"
	case c == 0x7f:
		return "7f"
	case c < 0x80:
		return "ascii"
	case c == 0xff:
		return "ff"
	}

	_, w := utf8.DecodeRuneInString(name[1:])

	return fmt.Sprintf("%d-byte-rune", w)
}

// segClassOf classifies a pattern segment for signatures.
func segClassOf(s string) string {
	if c, ok := segClass[s]; ok {
		return c
	}

	i := strings.IndexAny(s, `*?[\`)
	if i < 0 {
		i = len(s)
	}

	tail, ok := shapeTailClass[s[i:]]
	if !ok {
		tail = "-other"
	}

	return "lit+" + contClass(s[:i]) + tail
}

func patClass(q query) string {
	var c []string
	for _, s := range q.Segs {
		c = append(c, segClassOf(s))
	}

	return relName(q.Rel) + ":" + strings.Join(c, "/")
}

func relName(rel bool) string {
	if rel {
		return "rel"
	}

	return "abs"
}

// patterns enumerates every pattern of <= maxSeg segments.
func patterns(maxSeg int) [][]string {
	var out [][]string

	cur := [][]string{{}}

	for l := 1; l <= maxSeg; l++ {
		var next [][]string

		for _, p := range cur {
			for _, s := range segAlphabet {
				c := make([]string, len(p), len(p)+1)
				copy(c, p)
				next = append(next, append(c, s))
			}
		}

		out = append(out, next...)
		cur = next
	}

	for _, x := range starSegs {
		out = append(out, []string{x})

		for _, s := range segAlphabet {
			out = append(out, []string{x, s}, []string{s, x})
		}
	}

	return out
}

// candidatePaths lists R-relative paths over the names up to the given depth.
func candidatePaths(u universe, depth int) []string {
	var out []string

	cur := []string{""}

	for d := 1; d <= depth; d++ {
		names := u.KidNames
		if d == 1 {
			names = u.TopNames
		}

		var next []string

		for _, p := range cur {
			for _, n := range names {
				x := n
				if p != "" {
					x = p + "/" + n
				}

				next = append(next, x)
			}
		}

		out = append(out, next...)
		cur = next
	}

	return out
}

// The spelling dimension. Lesson: a path argument is a string, not a place.
// Code that lists a directory builds the paths it reports from the argument it
// was given (root + separator + name, Join(root, name), a pattern cut at its
// last separator), and filepath.WalkDir / filepath.Glob report the operand as
// given and everything below it as the CLEANED Join of parent and name. As long
// as every root, directory and pattern is written in its shortest form,
// concatenation and Join, cleaning and not cleaning, cutting at a separator and
// cutting at the last element all give the same strings. So every operand that
// exists is also asked in the spellings a caller may legitimately use - a
// leading "./" (absolute: "/./" after the scratch root), an inner "/./", a
// doubled separator, "x/../" in front (x = its first element), a trailing
// separator, a trailing "/." - relative and absolute, and the oracle is given
// the SAME spelling on the tmpfs tree.
type spelled struct {
	Class, Arg string
}

// spellings lists the spellings, other than the shortest, of the path or
// pattern p (relative to base, without empty elements; "" = base itself). base
// is the absolute scratch root, or "" for an operand relative to the current
// directory.
func spellings(base, p string) []spelled {
	if p == "" {
		d := base
		if d == "" {
			d = "."
		}

		return []spelled{{"trail-sep", d + "/"}, {"trail-dot", d + "/."}}
	}

	pre := ""
	if base != "" {
		pre = base + "/"
	}

	first, _, _ := strings.Cut(p, "/")

	out := []spelled{
		{"dot-lead", pre + "./" + p},
		{"dotdot", pre + first + "/../" + p},
		{"trail-sep", pre + p + "/"},
		{"trail-dot", pre + p + "/."},
	}

	if i := strings.LastIndexByte(p, '/'); i >= 0 {
		out = append(out, spelled{"sep2", pre + p[:i] + "//" + p[i+1:]}, spelled{"dot-inner", pre + p[:i] + "/./" + p[i+1:]})
	} else if base != "" {
		out = append(out, spelled{"sep2", base + "//" + p})
	}

	return out
}

// sameObject reports whether the spelled operand (a path, or a pattern: then
// its longest leading part without a magic character, cut at a separator)
// names for the kernel the very object its cleaned form names - or neither
// names anything. (cwd = R; in the non-administrator part as that user.)
//
// Why the filter: the emulated file systems clean a path lexically BEFORE they
// resolve it, the kernel walks it element by element. The two differ where an
// element that is crossed is not a searchable real directory: "f/", "f/." and
// "f/../f" of a file (ENOTDIR), "l/" and "l/." of a symbolic link (followed),
// "l/../x" (parent of the target), "d/." of a directory without search
// permission (EACCES). That is how a path RESOLVES, the subject of C01/C03/C04
// (recorded there: KF-C04-001, and here KF-C14-002 for Glob), not how what is
// found below it is ENUMERATED and reported. Such operands are left out unless
// VERIF_C14_SPELL_ALL is set; every spelling of every operand whose resolution
// is not in question stays.
func sameObject(spelled string) bool {
	if os.Getenv("VERIF_C14_SPELL_ALL") != "" {
		return true
	}

	lit := spelled

	if i := strings.IndexAny(spelled, `*?[\`); i >= 0 {
		switch j := strings.LastIndexByte(spelled[:i], '/'); {
		case j < 0:
			return true
		case j == 0:
			lit = "/"
		default:
			lit = spelled[:j]
		}
	}

	a, errA := os.Lstat(lit)
	b, errB := os.Lstat(filepath.Clean(lit))

	if errA != nil || errB != nil {
		return errA != nil && errB != nil
	}

	return os.SameFile(a, b)
}

// relOperand: the current directory is the base itself.
func relOperand(p string) string {
	if p == "." {
		return ""
	}

	return p
}

type qres struct {
	Q   query
	Out outcome
}

// querySet is what is asked about one tree. Paths are relative to R.
type querySet struct {
	Pats      [][]string // Glob: patterns as segments, asked below R and relative to it
	Dirs      []string   // ReadDir: paths below R (R itself and a missing path are always asked)
	RelDirs   []string   // ReadDir: relative arguments
	Roots     []string   // WalkDir: paths below R; all that exist and the first that does not (R and a missing path are always walked)
	RelRoots  []string   // WalkDir: relative roots
	Helpers   []string   // helpers: paths below R
	HelperArg []string   // helpers: further arguments, verbatim

	// the spelling dimension (see spellings)
	SpellPats [][]string // Glob: the patterns that are also asked in every spelling, below R and relative to it
	SpellFams bool       // WalkDir: a spelled root gets every callback family at every visit index (else: the callback that never acts)
}

// plainQueries: the queries of the plain and the mode trees, over the names of
// the universe.
func (u universe) plainQueries() querySet {
	return querySet{
		Pats:      patterns(u.MaxSeg),
		Dirs:      candidatePaths(u, 3),
		RelDirs:   []string{".", "a", "a/b", ""},
		Roots:     candidatePaths(u, 2),
		RelRoots:  []string{".", "a"},
		Helpers:   candidatePaths(u, 3),
		HelperArg: []string{"$R", "$R/nope", "$R/nope/x", ".", "a", "a/b", ""},
		SpellPats: spellPatterns(u.SpellSegs, u.SpellMaxSeg),
		SpellFams: u.SpellFams,
	}
}

// spellPatterns: every pattern of <= maxSeg segments over segs.
func spellPatterns(segs []string, maxSeg int) [][]string {
	var out [][]string

	cur := [][]string{{}}

	for l := 1; l <= maxSeg && len(segs) > 0; l++ {
		var next [][]string

		for _, p := range cur {
			for _, s := range segs {
				c := make([]string, len(p), len(p)+1)
				copy(c, p)
				next = append(next, append(c, s))
			}
		}

		out = append(out, next...)
		cur = next
	}

	return out
}

// shapeQueries: the queries of a name-shape tree. Every segment of the shape
// alphabet alone; on a tree with directories also in front of and behind a
// second segment; ReadDir, WalkDir and the helpers on every path of the tree.
func (u universe) shapeQueries(es []ent) querySet {
	segs := u.shapeSegs()

	var pats [][]string

	for _, s := range segs {
		pats = append(pats, []string{s})
	}

	if hasDir(es) {
		seg2 := u.ShapeSeg2
		if seg2 == nil {
			seg2 = segs
		}

		seen := map[string]bool{}

		add := func(a, b string) {
			if k := a + "/" + b; !seen[k] {
				seen[k] = true
				pats = append(pats, []string{a, b})
			}
		}

		for _, s := range segs {
			for _, t := range seg2 {
				add(s, t)
			}
		}

		for _, s := range segs {
			add("*", s)
		}
	}

	paths := treePaths(es)
	first := es[0].Name

	return querySet{
		Pats:      pats,
		Dirs:      paths,
		RelDirs:   []string{".", first},
		Roots:     paths,
		RelRoots:  []string{".", first},
		Helpers:   paths,
		HelperArg: []string{"$R", "$R/nope", ".", first},
		SpellFams: u.SpellFams,
	}
}

// oraclePass generates every query for the tree currently materialised at R
// (cwd = R) and evaluates it with path/filepath and os.
func oraclePass(R string, qs querySet) []qres {
	k := kernelSide{}

	var out []qres

	add := func(q query) outcome {
		o := evalQuery(k, q, q.Arg)
		out = append(out, qres{Q: q, Out: o})

		return o
	}

	// Glob
	for _, segs := range qs.Pats {
		j := strings.Join(segs, "/")
		add(query{Func: "Glob", Arg: R + "/" + j, Segs: segs})

		// a relative pattern starting with an empty segment is an absolute
		// path outside R: not part of the universe
		if segs[0] == "" && len(segs) > 1 {
			continue
		}

		add(query{Func: "Glob", Arg: j, Segs: segs, Rel: true})
	}

	for _, segs := range qs.SpellPats {
		j := strings.Join(segs, "/")

		for _, base := range []string{R, ""} {
			for _, sp := range spellings(base, j) {
				if sameObject(sp.Arg) {
					add(query{Func: "Glob", Arg: sp.Arg, Segs: segs, Rel: base == "", Sp: sp.Class})
				}
			}
		}
	}

	// ReadDir
	add(query{Func: "ReadDir", Arg: R})

	for _, sp := range spellings(R, "") {
		if sameObject(sp.Arg) {
			add(query{Func: "ReadDir", Arg: sp.Arg, Sp: sp.Class})
		}
	}

	for _, p := range qs.Dirs {
		add(query{Func: "ReadDir", Arg: R + "/" + p})

		// every spelling of what exists
		if _, err := os.Lstat(R + "/" + p); err == nil {
			for _, sp := range spellings(R, p) {
				if sameObject(sp.Arg) {
					add(query{Func: "ReadDir", Arg: sp.Arg, Sp: sp.Class})
				}
			}
		}
	}

	add(query{Func: "ReadDir", Arg: R + "/nope"})

	for _, p := range qs.RelDirs {
		add(query{Func: "ReadDir", Arg: p, Rel: true})

		if _, err := os.Lstat(p); err == nil && p != "" {
			for _, sp := range spellings("", relOperand(p)) {
				if sameObject(sp.Arg) {
					add(query{Func: "ReadDir", Arg: sp.Arg, Rel: true, Sp: sp.Class})
				}
			}
		}
	}

	// WalkDir
	type root struct {
		p   string
		rel bool
		sp  string
	}

	roots := []root{{R, false, ""}}
	missing := false

	for _, sp := range spellings(R, "") {
		if sameObject(sp.Arg) {
			roots = append(roots, root{sp.Arg, false, sp.Class})
		}
	}

	for _, p := range qs.Roots {
		_, err := os.Lstat(R + "/" + p)
		if err != nil {
			if missing {
				continue
			}

			missing = true // one missing path of the universe
		}

		roots = append(roots, root{R + "/" + p, false, ""})

		// every spelling of what exists
		if err == nil {
			for _, sp := range spellings(R, p) {
				if sameObject(sp.Arg) {
					roots = append(roots, root{sp.Arg, false, sp.Class})
				}
			}
		}
	}

	roots = append(roots, root{R + "/nope", false, ""})

	for _, p := range qs.RelRoots {
		roots = append(roots, root{p, true, ""})

		if _, err := os.Lstat(p); err == nil {
			for _, sp := range spellings("", relOperand(p)) {
				if sameObject(sp.Arg) {
					roots = append(roots, root{sp.Arg, true, sp.Class})
				}
			}
		}
	}

	for _, r := range roots {
		base := add(query{Func: "WalkDir", Arg: r.p, Rel: r.rel, Fam: "none", Idx: -1, Sp: r.sp})

		if r.sp != "" && !qs.SpellFams {
			continue
		}

		add(query{Func: "WalkDir", Arg: r.p, Rel: r.rel, Fam: "prop", Idx: -1, Sp: r.sp})

		for _, fam := range []string{"skipdir", "skipall", "err"} {
			for i := 0; i <= len(base.List); i++ {
				at := "none"

				if i < len(base.List) {
					v := splitV(base.List[i])
					at = v[1]

					if v[3] != "nil" {
						at = "err-visit"
					} else if i == 0 {
						at = "root-" + at
					}
				}

				add(query{Func: "WalkDir", Arg: r.p, Rel: r.rel, Fam: fam, Idx: i, CbAt: at, Sp: r.sp})
			}
		}
	}

	return out
}

// helperPaths lists the arguments of the helper checks.
func (qs querySet) helperPaths(R string) []string {
	var hp []string

	for _, p := range qs.HelperArg {
		hp = append(hp, strings.Replace(p, "$R", R, 1))
	}

	for _, p := range qs.Helpers {
		hp = append(hp, R+"/"+p)
	}

	return hp
}

// classK classifies the object a kernel-namespace path names, on the real
// tree (cwd = R for relative paths).
func classK(R, p string) string {
	if p == R {
		return "root"
	}

	if p == "" {
		return "empty-path"
	}

	fi, err := os.Lstat(p)
	if err != nil {
		switch fsx.ErrKind(err) {
		case "ENOENT":
			return "missing"
		case "ENOTDIR":
			return "below-file"
		case "ELOOP":
			return "loop"
		case "EACCES":
			return "no-access"
		}

		return "lstat:" + fsx.ErrKind(err)
	}

	pre := ""

	// does a proper prefix of the path go through a symbolic link?
	rest := strings.TrimPrefix(p, R+"/")
	if parts := strings.Split(rest, "/"); len(parts) > 1 {
		cur := ""
		if strings.HasPrefix(p, R+"/") {
			cur = R
		}

		for _, c := range parts[:len(parts)-1] {
			if cur == "" {
				cur = c
			} else {
				cur += "/" + c
			}

			if c == "" || c == "." {
				continue
			}

			if li, err := os.Lstat(cur); err == nil && li.Mode()&fs.ModeSymlink != 0 {
				pre = "via-symlink:"

				break
			}
		}
	}

	switch {
	case fi.IsDir():
		return pre + "dir"
	case fi.Mode()&fs.ModeSymlink != 0:
		st, err := os.Stat(p)

		switch {
		case err == nil && st.IsDir():
			return pre + "symlink>dir"
		case err == nil:
			return pre + "symlink>file"
		case fsx.ErrKind(err) == "ENOENT":
			return pre + "symlink>dangling"
		case fsx.ErrKind(err) == "ELOOP":
			return pre + "symlink>loop"
		}

		return pre + "symlink>" + fsx.ErrKind(err)
	}

	return pre + "file"
}

// ---------------------------------------------------------------------------
// helpers check (no kernel: Stat/ReadDir of the same instance are the oracle)

type helperDiff struct {
	Func, Want, Got string
}

// checkHelpers compares Exists, DirExists, IsDir, IsEmpty on p with what Stat
// and ReadDir of the same instance imply. Only what the documentation of the
// helpers states is demanded.
func checkHelpers(v avfs.VFS, p string) (ds []helperDiff, statClass string, brokenKind string) {
	var (
		st    fs.FileInfo
		sterr error
	)

	k, _ := fsx.Guard(func() { st, sterr = v.Stat(p) })
	if k != "" {
		return nil, k, k
	}

	statClass = fsx.ErrKind(sterr)
	if sterr == nil {
		statClass = "file"
		if st.IsDir() {
			statClass = "dir"
		}
	}

	bs := func(b bool, err error) string {
		if err != nil {
			return fmt.Sprintf("%v,err", b)
		}

		return fmt.Sprintf("%v,nil", b)
	}

	call := func(name string, f func() (bool, error)) (b bool, err error, ok bool) {
		k, _ := fsx.Guard(func() { b, err = f() })
		if k != "" {
			ds = append(ds, helperDiff{Func: name, Want: "returns", Got: k})
			brokenKind = k

			return false, nil, false
		}

		return b, err, true
	}

	// Exists <=> Stat succeeds; no error when it does
	if b, err, ok := call("Exists", func() (bool, error) { return avfs.Exists(v, p) }); ok {
		if b != (sterr == nil) || (b && err != nil) {
			ds = append(ds, helperDiff{Func: "Exists", Want: fmt.Sprintf("%v", sterr == nil), Got: bs(b, err)})
		}
	}

	isDir := sterr == nil && st.IsDir()

	if b, err, ok := call("DirExists", func() (bool, error) { return avfs.DirExists(v, p) }); ok {
		if b != isDir || (b && err != nil) {
			ds = append(ds, helperDiff{Func: "DirExists", Want: fmt.Sprintf("%v", isDir), Got: bs(b, err)})
		}
	}

	if b, err, ok := call("IsDir", func() (bool, error) { return avfs.IsDir(v, p) }); ok {
		if (err != nil) != (sterr != nil) || b != isDir {
			ds = append(ds, helperDiff{Func: "IsDir", Want: bs(isDir, sterr), Got: bs(b, err)})
		}
	}

	if b, err, ok := call("IsEmpty", func() (bool, error) { return avfs.IsEmpty(v, p) }); ok {
		switch {
		case sterr != nil:
			if err == nil || b {
				ds = append(ds, helperDiff{Func: "IsEmpty", Want: "false,err", Got: bs(b, err)})
			}
		case st.IsDir():
			var (
				es    []fs.DirEntry
				rderr error
			)

			if k, _ := fsx.Guard(func() { es, rderr = v.ReadDir(p) }); k != "" {
				brokenKind = k

				break
			}

			if rderr != nil {
				if err == nil || b {
					ds = append(ds, helperDiff{Func: "IsEmpty", Want: "false,err", Got: bs(b, err)})
				}
			} else if err != nil || b != (len(es) == 0) {
				ds = append(ds, helperDiff{Func: "IsEmpty", Want: bs(len(es) == 0, nil), Got: bs(b, err)})
			}
		default:
			if err != nil || b != (st.Size() == 0) {
				ds = append(ds, helperDiff{Func: "IsEmpty", Want: bs(st.Size() == 0, nil), Got: bs(b, err)})
			}
		}
	}

	return ds, statClass, brokenKind
}
