package main

import (
	"encoding/hex"
	"encoding/json"
	"fmt"
	"io/fs"
	"os"
	"strconv"
	"strings"
	"unicode/utf8"

	"github.com/avfs/avfs"

	"verif/lib/fsx"
)

// ent is one name of a directory level of a tree.
//
// Kinds: "-" absent, "f" regular file with content "x", "e" empty regular
// file, "d" directory (Kids = its level), "s" symbolic link to the sibling
// name (relative target), "S" symbolic link to the sibling through the
// absolute path, "." symbolic link to ".", "h" hard link to the sibling file.
type ent struct {
	Name string `json:"name"`
	Kind string `json:"kind"`
	Kids []ent  `json:"kids,omitempty"`
	Mode uint32 `json:"mode,omitempty"` // chmod after creation: Unix bits 0o7777 (setuid 0o4000, setgid 0o2000, sticky 0o1000), +0o10000 marks "set"
}

// Names are byte strings and JSON strings are not: a name that is not valid
// UTF-8 travels (worker -> main -> replay file) in hexadecimal next to a
// readable rendering.
type entJSON struct {
	Name    string `json:"name"`
	NameHex string `json:"name_hex,omitempty"`
	Kind    string `json:"kind"`
	Kids    []ent  `json:"kids,omitempty"`
	Mode    uint32 `json:"mode,omitempty"`
}

func (e ent) MarshalJSON() ([]byte, error) {
	j := entJSON{Name: e.Name, Kind: e.Kind, Kids: e.Kids, Mode: e.Mode}
	j.Name, j.NameHex = toJSONString(e.Name)

	return json.Marshal(j)
}

func (e *ent) UnmarshalJSON(b []byte) error {
	var j entJSON
	if err := json.Unmarshal(b, &j); err != nil {
		return err
	}

	*e = ent{Name: fromJSONString(j.Name, j.NameHex), Kind: j.Kind, Kids: j.Kids, Mode: j.Mode}

	return nil
}

// toJSONString returns s, or for a string that is not valid UTF-8 a printable
// rendering and the bytes in hexadecimal.
func toJSONString(s string) (text, hexBytes string) {
	if utf8.ValidString(s) {
		return s, ""
	}

	return printable(s), hex.EncodeToString([]byte(s))
}

func fromJSONString(text, hexBytes string) string {
	if hexBytes == "" {
		return text
	}

	b, err := hex.DecodeString(hexBytes)
	if err != nil {
		return text
	}

	return string(b)
}

// printable renders a byte string for signatures and messages: printable
// ASCII as it is, other runes as <U+XXXX>, other bytes as <xx>.
func printable(s string) string {
	var b strings.Builder

	for i := 0; i < len(s); {
		r, w := utf8.DecodeRuneInString(s[i:])

		switch {
		case r == utf8.RuneError && w <= 1:
			fmt.Fprintf(&b, "<%02x>", s[i])
		case r < 0x20 || r == 0x7f:
			fmt.Fprintf(&b, "<%02x>", r)
		case r < 0x7f:
			b.WriteRune(r)
		default:
			fmt.Fprintf(&b, "<U+%04X>", r)
		}

		i += w
	}

	return b.String()
}

// disp renders a path for messages: as it is if it is printable ASCII,
// otherwise with Go escapes for what is not graphic or not UTF-8.
func disp(s string) string {
	for i := 0; i < len(s); i++ {
		if s[i] < 0x20 || s[i] > 0x7e {
			q := strconv.QuoteToGraphic(s)

			return q[1 : len(q)-1]
		}
	}

	return s
}

// modeSet marks ent.Mode as given (mode 0000 is a mode too).
const modeSet = 0o10000

// unixMode converts Unix mode bits (0o7777) to the fs.FileMode that Chmod
// takes: the special bits of fs.FileMode are not at their Unix positions.
func unixMode(m uint32) fs.FileMode {
	r := fs.FileMode(m & 0o777)

	if m&0o4000 != 0 {
		r |= fs.ModeSetuid
	}

	if m&0o2000 != 0 {
		r |= fs.ModeSetgid
	}

	if m&0o1000 != 0 {
		r |= fs.ModeSticky
	}

	return r
}

// modeVar is one element of the mode alphabet: special bits to set and,
// optionally, permission bits replacing the ones the entry was created with.
type modeVar struct {
	Special uint32
	Perm    int // -1: keep 0644 / 0755
}

// universe bounds the enumeration of one tier.
type universe struct {
	Label    string
	TopNames []string
	KidNames []string
	TopKinds []string
	KidKinds []string // "d" at this level is an empty directory (depth <= 2)
	MaxSeg   int      // pattern length in segments

	// The mode dimension. Lesson: code that derives the type of an entry from
	// its mode (Type(), IsDir(), "is this a directory to descend into") masks
	// bits, and a wrong mask is invisible as long as every mode is plain
	// 0644/0755: entries must also carry the bits that are neither type nor
	// permission (setuid, setgid, sticky - on files and on directories, seen
	// through a second name and as the target of a link) and permission bits
	// other than the ones they were created with.
	Modes     []modeVar // every mode is given to every single entry of every mode shape
	ModeCombo []modeVar // every assignment of {unchanged} + these to all entries of the full shape

	// The name-shape dimension. Lesson: names are byte strings, and code that
	// lists or matches them compares, sorts and searches them: it narrows a
	// sorted listing to "the names that start with this prefix", it computes an
	// upper bound "just above" a prefix, it cuts a name at a rune or at a byte.
	// All of that is invisible while every name is a single ASCII letter. The
	// names of a level must share a prefix and continue with bytes at the edges
	// of the ranges such code may assume: nothing (the prefix itself), an ASCII
	// letter, 0x7e (last printable ASCII), 0x7f (last ASCII), a two-, three- and
	// four-byte rune (first bytes 0xc3, 0xe2, 0xf4 - the four-byte one is the
	// last rune, U+10FFFF), 0xff (last byte; not UTF-8 at all), next to a name
	// outside the prefix; every subset of them must be listed in byte order by
	// ReadDir, WalkDir and Glob, and the patterns must have each of these names
	// as their literal prefix in front of each kind of wildcard.
	ShapeNames  []string // the names of a level, in byte order
	ShapeFlat   int      // flat trees: every non-empty subset of ShapeNames of at most this size (as files), and the full set
	ShapeNested int      // nested trees: every non-empty subset of at most this size as directories that hold the full set as files
	ShapeSeg2   []string // second (first) segment of the two-segment patterns whose other segment runs over all shape segments; nil = all of them

	// The spelling dimension (eval.go, spellings): every existing ReadDir
	// directory and WalkDir root, and the patterns over SpellSegs, are also asked
	// in every spelling that is not the shortest.
	SpellSegs   []string // segments of the Glob patterns that are spelled
	SpellMaxSeg int      // their length in segments
	SpellFams   bool     // spelled WalkDir roots get every callback family at every visit index, not only the callback that never acts
}

// shapeNames: "a" and its continuations at the edges of the byte ranges, and a
// name that does not share the prefix. In byte order.
var shapeNames = []string{"a", "ab", "a~", "a\x7f", "a\u00e9", "a\u20ac", "a\U0010ffff", "a\xff", "b"}

const shapeLabel = "name-shape trees (after the mode trees): names {a, ab, a~, a<7f>, a<U+00E9>, a<U+20AC>, a<U+10FFFF>, a<ff>, b} (a shared prefix continued by nothing, an ASCII letter, the last printable and the last ASCII byte, a 2-, 3- and 4-byte rune, the byte 0xff; one name outside the prefix): "

const spellLabel = "spellings (every tree): every existing ReadDir directory and WalkDir root, R and the current directory included, also written with a leading './' ('/./' after R), an inner '/./', a doubled separator, 'x/../' in front, a trailing separator and a trailing '/.'; "

func universeFor(tier string) universe {
	if tier == "thorough" {
		return universe{
			Label: "names {a,b,c} at top level, {a,b} below; top kinds {absent,file,dir,symlink>sibling,symlink>.,hardlink,empty file,abs symlink}; depth-2 kinds {absent,file,dir,symlink>sibling,symlink>.,hardlink}; patterns <= 3 segments; " +
				"mode trees (first in the order): 8 shapes (full two-level tree and its mirror, file with a hard link in both orders, directory / file behind a relative / absolute symbolic link, directory holding a link to '.') x every single file, directory or hard-link name chmod'ed to every non-empty subset of {setuid,setgid,sticky} with its creation permissions, to 0000, 0777 and 7000, plus every assignment of {unchanged,setuid,setgid,sticky,all three} to the four entries of the full shape; " +
				shapeLabel + "every non-empty subset of the names as files in R; every subset of 1..3 names as directories that hold all the names as files; all names, every other one a directory holding all the names; " +
				"patterns of the name-shape trees: segments {*} + every name x {literal, *, ?, [^b], ?*}, one segment, and on the trees with directories every two-segment pattern over these segments; ReadDir, WalkDir (all callback families at every visit index) and the helpers on every path of the tree; " +
				spellLabel + "Glob patterns of <= 2 segments over {a, b, *, ?, a*, [ab], [^a], \\a}, absolute and relative; spelled WalkDir roots with all callback families at every visit index",
			TopNames: []string{"a", "b", "c"}, KidNames: []string{"a", "b"},
			ShapeNames: shapeNames, ShapeFlat: len(shapeNames), ShapeNested: 3,
			TopKinds:  []string{"-", "f", "d", "s", ".", "h", "e", "S"},
			KidKinds:  []string{"-", "f", "d", "s", ".", "h"},
			MaxSeg:    3,
			SpellSegs: []string{"a", "b", "*", "?", "a*", "[ab]", "[^a]", `\a`}, SpellMaxSeg: 2, SpellFams: true,
			Modes: []modeVar{
				{0o4000, -1}, {0o2000, -1}, {0o1000, -1}, {0o7000, -1}, {0o6000, -1}, {0o5000, -1}, {0o3000, -1},
				{0, 0o000}, {0, 0o777}, {0o7000, 0o000},
			},
			ModeCombo: []modeVar{{0o4000, -1}, {0o2000, -1}, {0o1000, -1}, {0o7000, -1}},
		}
	}

	// quick: the complete two-name universe (the trees of the thorough tier in
	// which c is absent), patterns of <= 2 segments
	return universe{
		Label: "names {a,b}; top kinds {absent,file,dir,symlink>sibling,symlink>.,hardlink,empty file,abs symlink}; depth-2 kinds {absent,file,dir,symlink>sibling,symlink>.,hardlink}; patterns <= 2 segments; " +
			"mode trees (first in the order): 8 shapes (full two-level tree and its mirror, file with a hard link in both orders, directory / file behind a relative / absolute symbolic link, directory holding a link to '.') x every single file, directory or hard-link name chmod'ed to setuid, setgid, sticky or all three (creation permissions kept) and to permission bits 0700, plus every assignment of {unchanged, all three bits} to the four entries of the full shape; " +
			shapeLabel + "every subset of 1..3 names and the full set as files in R; every subset of 1..2 names as directories that hold all the names as files; all names, every other one a directory holding all the names; " +
			"patterns of the name-shape trees: segments {*} + every name x {literal, *, ?, [^b], ?*}, one segment, and on the trees with directories two segments: every segment followed by {*, a*, a<U+00E9>} and * followed by every segment; ReadDir, WalkDir (all callback families at every visit index) and the helpers on every path of the tree; " +
			spellLabel + "Glob patterns of <= 2 segments over {a, *}, absolute and relative; spelled WalkDir roots with the callback that never acts",
		TopNames: []string{"a", "b"}, KidNames: []string{"a", "b"},
		ShapeNames: shapeNames, ShapeFlat: 3, ShapeNested: 2, ShapeSeg2: []string{"*", "a*", "a\u00e9"},
		TopKinds:  []string{"-", "f", "d", "s", ".", "h", "e", "S"},
		KidKinds:  []string{"-", "f", "d", "s", ".", "h"},
		MaxSeg:    2,
		SpellSegs: []string{"a", "*"}, SpellMaxSeg: 2,
		Modes:     []modeVar{{0o4000, -1}, {0o2000, -1}, {0o1000, -1}, {0o7000, -1}, {0, 0o700}},
		ModeCombo: []modeVar{{0o7000, -1}},
	}
}

// sibIdx is the index of the name a link at index i points to.
func sibIdx(i int) int {
	if i == 0 {
		return 1
	}

	return 0
}

func validLevel(es []ent) bool {
	for i, e := range es {
		if e.Kind != "h" {
			continue
		}

		if len(es) < 2 {
			return false
		}

		if k := es[sibIdx(i)].Kind; k != "f" && k != "e" {
			return false
		}
	}

	return true
}

// product enumerates all combinations; later names vary slowest, so that the
// trees where the last name is absent come first.
func product(opts [][]ent) [][]ent {
	res := [][]ent{{}}

	for i := range opts {
		var next [][]ent

		for _, o := range opts[i] {
			for _, r := range res {
				c := make([]ent, len(r), len(r)+1)
				copy(c, r)
				next = append(next, append(c, o))
			}
		}

		res = next
	}

	return res
}

// modeShapes are the trees whose entries receive the modes of the alphabet.
// Together they put a mode-carrying entry in every structural position the
// enumeration functions treat differently: a directory with content (descended
// into by WalkDir and by multi-segment patterns), an empty directory and a file
// inside it, the first and the last name of a level, a file with two names, the
// target of a relative and of an absolute symbolic link (the link itself must
// keep its own type) and a directory that contains a link to itself. The first
// shape is the full one (every name present at both levels).
func (u universe) modeShapes() [][]ent {
	a, b := u.TopNames[0], u.TopNames[1]
	ka, kb := u.KidNames[0], u.KidNames[1]

	k := func(n, kind string, kids ...ent) ent { return ent{Name: n, Kind: kind, Kids: kids} }

	shapes := [][]ent{
		{k(a, "d", k(ka, "f"), k(kb, "d")), k(b, "f")},
		{k(a, "e"), k(b, "d", k(ka, "d"), k(kb, "f"))},
		{k(a, "f"), k(b, "h")},
		{k(a, "h"), k(b, "e")},
		{k(a, "d", k(ka, "f"), k(kb, "-")), k(b, "s")},
		{k(a, "S"), k(b, "d", k(ka, "-"), k(kb, "e"))},
		{k(a, "f"), k(b, "S")},
		{k(a, "d", k(ka, "."), k(kb, "f")), k(b, "-")},
	}

	for i := range shapes {
		for _, n := range u.TopNames[2:] {
			shapes[i] = append(shapes[i], k(n, "-"))
		}
	}

	return shapes
}

// carriers lists the positions (index path) of the entries of a tree that can
// be given a mode: files, directories and hard-link names. Chmod of a symbolic
// link changes what it points to, which is one of those.
func carriers(es []ent) [][]int {
	var out [][]int

	for i, e := range es {
		switch e.Kind {
		case "f", "e", "h":
			out = append(out, []int{i})
		case "d":
			out = append(out, []int{i})

			for _, c := range carriers(e.Kids) {
				out = append(out, append([]int{i}, c...))
			}
		}
	}

	return out
}

// withMode returns a copy of the tree in which the entry at pos carries m.
func withMode(es []ent, pos []int, m modeVar) []ent {
	out := make([]ent, len(es))
	copy(out, es)

	e := &out[pos[0]]

	if len(pos) > 1 {
		e.Kids = withMode(e.Kids, pos[1:], m)

		return out
	}

	perm := uint32(0o644)
	if e.Kind == "d" {
		perm = 0o755
	}

	if m.Perm >= 0 {
		perm = uint32(m.Perm)
	}

	e.Mode = modeSet | m.Special | perm

	return out
}

// modeTrees enumerates the mode dimension: every shape x every single carrier
// x every mode of the alphabet, then every assignment of {unchanged} + ModeCombo
// to all carriers of the full shape.
func (u universe) modeTrees() [][]ent {
	var out [][]ent

	seen := map[string]bool{}

	add := func(es []ent) {
		if s := treeSpec(es); !seen[s] {
			seen[s] = true
			out = append(out, es)
		}
	}

	shapes := u.modeShapes()

	for _, sh := range shapes {
		for _, pos := range carriers(sh) {
			for _, m := range u.Modes {
				add(withMode(sh, pos, m))
			}
		}
	}

	full := shapes[0]
	cs := carriers(full)
	n := len(u.ModeCombo) + 1
	total := 1

	for range cs {
		total *= n
	}

	for x := 1; x < total; x++ {
		es := full

		for i, y := 0, x; i < len(cs); i, y = i+1, y/n {
			if d := y % n; d > 0 {
				es = withMode(es, cs[i], u.ModeCombo[d-1])
			}
		}

		add(es)
	}

	return out
}

// trees enumerates every tree of the universe in canonical order: the mode
// trees and the name-shape trees first (they are few and must not fall behind
// a deadline), then the plain trees.
func (u universe) trees() [][]ent {
	return append(append(u.modeTrees(), u.shapeTrees()...), u.plainTrees()...)
}

// shapeRange is the range of indices of the name-shape trees in trees().
func (u universe) shapeRange() (from, to int) {
	from = len(u.modeTrees())

	return from, from + len(u.shapeTrees())
}

// subsets lists the non-empty subsets of {0..n-1} of at most max elements as
// bit masks, smaller sets first, and within a size in ascending mask order.
func subsets(n, max int) []int {
	var out []int

	for size := 1; size <= max && size <= n; size++ {
		for m := 1; m < 1<<n; m++ {
			c := 0
			for x := m; x != 0; x &= x - 1 {
				c++
			}

			if c == size {
				out = append(out, m)
			}
		}
	}

	return out
}

// shapeTrees enumerates the name-shape dimension. The entries of these trees
// are the names that exist (no "absent" entries), all of them files or
// directories with the mode they were created with:
//
//   - flat: every subset of the names as files in R - which names are in the
//     listing decides where a search in it lands;
//   - nested: every small subset as directories, each holding all the names
//     as files - the listing below a matched or walked directory, and
//     directories that are visited in the order of their names;
//   - mixed: all the names, every other one a directory - a walk must order
//     files and directories alike.
func (u universe) shapeTrees() [][]ent {
	n := len(u.ShapeNames)
	if n == 0 {
		return nil
	}

	var out [][]ent

	level := func(mask int, kind func(i int) string, kids []ent) []ent {
		var es []ent

		for i, name := range u.ShapeNames {
			if mask&(1<<i) == 0 {
				continue
			}

			e := ent{Name: name, Kind: kind(i)}
			if e.Kind == "d" {
				e.Kids = kids
			}

			es = append(es, e)
		}

		return es
	}

	file := func(int) string { return "f" }
	dir := func(int) string { return "d" }
	full := 1<<n - 1

	for _, m := range subsets(n, u.ShapeFlat) {
		out = append(out, level(m, file, nil))
	}

	if u.ShapeFlat < n {
		out = append(out, level(full, file, nil))
	}

	all := level(full, file, nil)

	for _, m := range subsets(n, u.ShapeNested) {
		out = append(out, level(m, dir, all))
	}

	out = append(out, level(full, func(i int) string {
		if i%2 == 1 {
			return "d"
		}

		return "e"
	}, all))

	return out
}

// treePaths lists the R-relative paths of the entries of a tree, level by level.
func treePaths(es []ent) []string {
	var top, below []string

	for _, e := range es {
		if e.Kind == "-" {
			continue
		}

		top = append(top, e.Name)

		for _, p := range treePaths(e.Kids) {
			below = append(below, e.Name+"/"+p)
		}
	}

	return append(top, below...)
}

func hasDir(es []ent) bool {
	for _, e := range es {
		if e.Kind == "d" {
			return true
		}
	}

	return false
}

// plainTrees enumerates every tree over the kinds, all entries with the mode
// they were created with.
func (u universe) plainTrees() [][]ent {
	var kidOpts [][]ent

	for _, n := range u.KidNames {
		var o []ent
		for _, k := range u.KidKinds {
			o = append(o, ent{Name: n, Kind: k})
		}

		kidOpts = append(kidOpts, o)
	}

	var kidLevels [][]ent

	for _, l := range product(kidOpts) {
		if validLevel(l) {
			kidLevels = append(kidLevels, l)
		}
	}

	var topOpts [][]ent

	for _, n := range u.TopNames {
		var o []ent

		for _, k := range u.TopKinds {
			if k == "d" {
				for _, l := range kidLevels {
					o = append(o, ent{Name: n, Kind: "d", Kids: l})
				}

				continue
			}

			o = append(o, ent{Name: n, Kind: k})
		}

		topOpts = append(topOpts, o)
	}

	var out [][]ent

	for _, l := range product(topOpts) {
		if validLevel(l) {
			out = append(out, l)
		}
	}

	return out
}

func treeSpec(es []ent) string {
	var s []string

	for _, e := range es {
		x := printable(e.Name) + "=" + e.Kind
		if e.Kind == "d" {
			x += "{" + treeSpec(e.Kids) + "}"
		}

		if e.Mode != 0 {
			x += fmt.Sprintf("(%04o)", e.Mode&0o7777)
		}

		s = append(s, x)
	}

	return strings.Join(s, ",")
}

func hasSymlink(es []ent) bool {
	for _, e := range es {
		switch e.Kind {
		case "s", "S", ".":
			return true
		case "d":
			if hasSymlink(e.Kids) {
				return true
			}
		}
	}

	return false
}

// mop is one plain call that materialises a part of a tree. Paths are relative
// to the scratch root R; a symlink target starting with "$R" is absolute.
type mop struct {
	Op   string `json:"op"`
	A    string `json:"a"`
	B    string `json:"b,omitempty"`
	Perm uint32 `json:"perm,omitempty"`
}

func (m mop) String() string {
	switch m.Op {
	case "Mkdir":
		return fmt.Sprintf("Mkdir(R/%s,%#o)", disp(m.A), m.Perm)
	case "WriteFile":
		return fmt.Sprintf("WriteFile(R/%s,%q,%#o)", disp(m.A), m.B, m.Perm)
	case "Symlink":
		return fmt.Sprintf("Symlink(%q,R/%s)", strings.Replace(m.B, "$R", "R", 1), disp(m.A))
	case "Link":
		return fmt.Sprintf("Link(R/%s,R/%s)", disp(m.B), disp(m.A))
	case "Chmod":
		return fmt.Sprintf("Chmod(R/%s,%#o)", disp(m.A), m.Perm)
	}

	return m.Op
}

// treeOps lists the calls that build the tree: directories and files first,
// then hard links, then mode changes (deepest first).
func treeOps(es []ent) []mop {
	var p1, p2, p3 []mop

	var walk func(prefix string, es []ent)

	walk = func(prefix string, es []ent) {
		for i, e := range es {
			p := prefix + e.Name
			sib := ""

			if len(es) > 1 {
				sib = es[sibIdx(i)].Name
			}

			switch e.Kind {
			case "d":
				p1 = append(p1, mop{Op: "Mkdir", A: p, Perm: 0o755})
				walk(p+"/", e.Kids)
			case "f":
				p1 = append(p1, mop{Op: "WriteFile", A: p, B: "x", Perm: 0o644})
			case "e":
				p1 = append(p1, mop{Op: "WriteFile", A: p, B: "", Perm: 0o644})
			case "s":
				p1 = append(p1, mop{Op: "Symlink", A: p, B: sib})
			case "S":
				p1 = append(p1, mop{Op: "Symlink", A: p, B: "$R/" + prefix + sib})
			case ".":
				p1 = append(p1, mop{Op: "Symlink", A: p, B: "."})
			case "h":
				p2 = append(p2, mop{Op: "Link", A: p, B: prefix + sib})
			}

			if e.Mode != 0 {
				p3 = append([]mop{{Op: "Chmod", A: p, Perm: e.Mode & 0o7777}}, p3...)
			}
		}
	}

	walk("", es)

	return append(append(p1, p2...), p3...)
}

func opStrings(ops []mop) []string {
	out := make([]string, len(ops))
	for i, o := range ops {
		out[i] = o.String()
	}

	return out
}

// applyKernel builds the tree on the real file system below R.
func applyKernel(R string, ops []mop) error {
	for _, o := range ops {
		var err error

		p := R + "/" + o.A

		switch o.Op {
		case "Mkdir":
			err = os.Mkdir(p, os.FileMode(o.Perm))
		case "WriteFile":
			err = os.WriteFile(p, []byte(o.B), os.FileMode(o.Perm))
		case "Symlink":
			err = os.Symlink(strings.Replace(o.B, "$R", R, 1), p)
		case "Link":
			err = os.Link(R+"/"+o.B, p)
		case "Chmod":
			err = os.Chmod(p, unixMode(o.Perm))

			// the oracle must really hold the mode, otherwise the comparison
			// proves nothing about it
			if fi, e := os.Stat(p); err == nil && (e != nil || fi.Mode()&^fs.ModeType != unixMode(o.Perm)) {
				err = fmt.Errorf("the scratch file system does not keep the mode (stat: %v %v)", fi.Mode(), e)
			}
		}

		if err != nil {
			return fmt.Errorf("kernel %s: %v", o, err)
		}
	}

	return nil
}

// applyVFS builds the tree in an avfs file system below R.
func applyVFS(v avfs.VFS, R string, ops []mop) error {
	for _, o := range ops {
		var err error

		p := R + "/" + o.A

		switch o.Op {
		case "Mkdir":
			err = v.Mkdir(p, os.FileMode(o.Perm))
		case "WriteFile":
			err = v.WriteFile(p, []byte(o.B), os.FileMode(o.Perm))
		case "Symlink":
			err = v.Symlink(strings.Replace(o.B, "$R", R, 1), p)
		case "Link":
			err = v.Link(R+"/"+o.B, p)
		case "Chmod":
			err = v.Chmod(p, unixMode(o.Perm))
		}

		if err != nil {
			return fmt.Errorf("%s: %s", o, fsx.ErrKind(err))
		}
	}

	return nil
}

// resetKernel empties and recreates R and makes it the working directory.
func resetKernel(R string) error {
	_ = os.Chdir("/")

	// directories may have been made unreadable by a scenario
	if err := os.RemoveAll(R); err != nil {
		return err
	}

	if err := os.MkdirAll(R, 0o755); err != nil {
		return err
	}

	return os.Chdir(R)
}
