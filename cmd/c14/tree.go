package main

import (
	"fmt"
	"os"
	"strings"

	"github.com/avfs/avfs"

	"verif/lib/fsx"
)

// ent is one name of a directory level of a tree.
//
// Kinds: "-" absent, "f" regular file with content "x", "e" empty regular
// file, "d" directory (Kids = its level), "s" symbolic link to the sibling
// name (relative target), "S" symbolic link to the sibling through the
// absolute path, "." symbolic link to ".", "h" hard link to the sibling file.
type ent struct {
	Name string `json:"name"`
	Kind string `json:"kind"`
	Kids []ent  `json:"kids,omitempty"`
	Mode uint32 `json:"mode,omitempty"` // non-administrator scenarios only: chmod after creation (+0o10000 marks "set")
}

// universe bounds the enumeration of one tier.
type universe struct {
	Label    string
	TopNames []string
	KidNames []string
	TopKinds []string
	KidKinds []string // "d" at this level is an empty directory (depth <= 2)
	MaxSeg   int      // pattern length in segments
}

func universeFor(tier string) universe {
	if tier == "thorough" {
		return universe{
			Label:    "names {a,b,c} at top level, {a,b} below; top kinds {absent,file,dir,symlink>sibling,symlink>.,hardlink,empty file,abs symlink}; depth-2 kinds {absent,file,dir,symlink>sibling,symlink>.,hardlink}; patterns <= 3 segments",
			TopNames: []string{"a", "b", "c"}, KidNames: []string{"a", "b"},
			TopKinds: []string{"-", "f", "d", "s", ".", "h", "e", "S"},
			KidKinds: []string{"-", "f", "d", "s", ".", "h"},
			MaxSeg:   3,
		}
	}

	// quick: the complete two-name universe (the trees of the thorough tier in
	// which c is absent), patterns of <= 2 segments
	return universe{
		Label:    "names {a,b}; top kinds {absent,file,dir,symlink>sibling,symlink>.,hardlink,empty file,abs symlink}; depth-2 kinds {absent,file,dir,symlink>sibling,symlink>.,hardlink}; patterns <= 2 segments",
		TopNames: []string{"a", "b"}, KidNames: []string{"a", "b"},
		TopKinds: []string{"-", "f", "d", "s", ".", "h", "e", "S"},
		KidKinds: []string{"-", "f", "d", "s", ".", "h"},
		MaxSeg:   2,
	}
}

// sibIdx is the index of the name a link at index i points to.
func sibIdx(i int) int {
	if i == 0 {
		return 1
	}

	return 0
}

func validLevel(es []ent) bool {
	for i, e := range es {
		if e.Kind != "h" {
			continue
		}

		if len(es) < 2 {
			return false
		}

		if k := es[sibIdx(i)].Kind; k != "f" && k != "e" {
			return false
		}
	}

	return true
}

// product enumerates all combinations; later names vary slowest, so that the
// trees where the last name is absent come first.
func product(opts [][]ent) [][]ent {
	res := [][]ent{{}}

	for i := range opts {
		var next [][]ent

		for _, o := range opts[i] {
			for _, r := range res {
				c := make([]ent, len(r), len(r)+1)
				copy(c, r)
				next = append(next, append(c, o))
			}
		}

		res = next
	}

	return res
}

// trees enumerates every tree of the universe in canonical order.
func (u universe) trees() [][]ent {
	var kidOpts [][]ent

	for _, n := range u.KidNames {
		var o []ent
		for _, k := range u.KidKinds {
			o = append(o, ent{Name: n, Kind: k})
		}

		kidOpts = append(kidOpts, o)
	}

	var kidLevels [][]ent

	for _, l := range product(kidOpts) {
		if validLevel(l) {
			kidLevels = append(kidLevels, l)
		}
	}

	var topOpts [][]ent

	for _, n := range u.TopNames {
		var o []ent

		for _, k := range u.TopKinds {
			if k == "d" {
				for _, l := range kidLevels {
					o = append(o, ent{Name: n, Kind: "d", Kids: l})
				}

				continue
			}

			o = append(o, ent{Name: n, Kind: k})
		}

		topOpts = append(topOpts, o)
	}

	var out [][]ent

	for _, l := range product(topOpts) {
		if validLevel(l) {
			out = append(out, l)
		}
	}

	return out
}

func treeSpec(es []ent) string {
	var s []string

	for _, e := range es {
		x := e.Name + "=" + e.Kind
		if e.Kind == "d" {
			x += "{" + treeSpec(e.Kids) + "}"
		}

		if e.Mode != 0 {
			x += fmt.Sprintf("(%04o)", e.Mode&0o7777)
		}

		s = append(s, x)
	}

	return strings.Join(s, ",")
}

func hasSymlink(es []ent) bool {
	for _, e := range es {
		switch e.Kind {
		case "s", "S", ".":
			return true
		case "d":
			if hasSymlink(e.Kids) {
				return true
			}
		}
	}

	return false
}

// mop is one plain call that materialises a part of a tree. Paths are relative
// to the scratch root R; a symlink target starting with "$R" is absolute.
type mop struct {
	Op   string `json:"op"`
	A    string `json:"a"`
	B    string `json:"b,omitempty"`
	Perm uint32 `json:"perm,omitempty"`
}

func (m mop) String() string {
	switch m.Op {
	case "Mkdir":
		return fmt.Sprintf("Mkdir(R/%s,%#o)", m.A, m.Perm)
	case "WriteFile":
		return fmt.Sprintf("WriteFile(R/%s,%q,%#o)", m.A, m.B, m.Perm)
	case "Symlink":
		return fmt.Sprintf("Symlink(%q,R/%s)", strings.Replace(m.B, "$R", "R", 1), m.A)
	case "Link":
		return fmt.Sprintf("Link(R/%s,R/%s)", m.B, m.A)
	case "Chmod":
		return fmt.Sprintf("Chmod(R/%s,%#o)", m.A, m.Perm)
	}

	return m.Op
}

// treeOps lists the calls that build the tree: directories and files first,
// then hard links, then mode changes (deepest first).
func treeOps(es []ent) []mop {
	var p1, p2, p3 []mop

	var walk func(prefix string, es []ent)

	walk = func(prefix string, es []ent) {
		for i, e := range es {
			p := prefix + e.Name
			sib := ""

			if len(es) > 1 {
				sib = es[sibIdx(i)].Name
			}

			switch e.Kind {
			case "d":
				p1 = append(p1, mop{Op: "Mkdir", A: p, Perm: 0o755})
				walk(p+"/", e.Kids)
			case "f":
				p1 = append(p1, mop{Op: "WriteFile", A: p, B: "x", Perm: 0o644})
			case "e":
				p1 = append(p1, mop{Op: "WriteFile", A: p, B: "", Perm: 0o644})
			case "s":
				p1 = append(p1, mop{Op: "Symlink", A: p, B: sib})
			case "S":
				p1 = append(p1, mop{Op: "Symlink", A: p, B: "$R/" + prefix + sib})
			case ".":
				p1 = append(p1, mop{Op: "Symlink", A: p, B: "."})
			case "h":
				p2 = append(p2, mop{Op: "Link", A: p, B: prefix + sib})
			}

			if e.Mode != 0 {
				p3 = append([]mop{{Op: "Chmod", A: p, Perm: e.Mode & 0o7777}}, p3...)
			}
		}
	}

	walk("", es)

	return append(append(p1, p2...), p3...)
}

func opStrings(ops []mop) []string {
	out := make([]string, len(ops))
	for i, o := range ops {
		out[i] = o.String()
	}

	return out
}

// applyKernel builds the tree on the real file system below R.
func applyKernel(R string, ops []mop) error {
	for _, o := range ops {
		var err error

		p := R + "/" + o.A

		switch o.Op {
		case "Mkdir":
			err = os.Mkdir(p, os.FileMode(o.Perm))
		case "WriteFile":
			err = os.WriteFile(p, []byte(o.B), os.FileMode(o.Perm))
		case "Symlink":
			err = os.Symlink(strings.Replace(o.B, "$R", R, 1), p)
		case "Link":
			err = os.Link(R+"/"+o.B, p)
		case "Chmod":
			err = os.Chmod(p, os.FileMode(o.Perm))
		}

		if err != nil {
			return fmt.Errorf("kernel %s: %v", o, err)
		}
	}

	return nil
}

// applyVFS builds the tree in an avfs file system below R.
func applyVFS(v avfs.VFS, R string, ops []mop) error {
	for _, o := range ops {
		var err error

		p := R + "/" + o.A

		switch o.Op {
		case "Mkdir":
			err = v.Mkdir(p, os.FileMode(o.Perm))
		case "WriteFile":
			err = v.WriteFile(p, []byte(o.B), os.FileMode(o.Perm))
		case "Symlink":
			err = v.Symlink(strings.Replace(o.B, "$R", R, 1), p)
		case "Link":
			err = v.Link(R+"/"+o.B, p)
		case "Chmod":
			err = v.Chmod(p, os.FileMode(o.Perm))
		}

		if err != nil {
			return fmt.Errorf("%s: %s", o, fsx.ErrKind(err))
		}
	}

	return nil
}

// resetKernel empties and recreates R and makes it the working directory.
func resetKernel(R string) error {
	_ = os.Chdir("/")

	// directories may have been made unreadable by a scenario
	if err := os.RemoveAll(R); err != nil {
		return err
	}

	if err := os.MkdirAll(R, 0o755); err != nil {
		return err
	}

	return os.Chdir(R)
}
