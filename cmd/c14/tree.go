package main

import (
	"fmt"
	"io/fs"
	"os"
	"strings"

	"github.com/avfs/avfs"

	"verif/lib/fsx"
)

// ent is one name of a directory level of a tree.
//
// Kinds: "-" absent, "f" regular file with content "x", "e" empty regular
// file, "d" directory (Kids = its level), "s" symbolic link to the sibling
// name (relative target), "S" symbolic link to the sibling through the
// absolute path, "." symbolic link to ".", "h" hard link to the sibling file.
type ent struct {
	Name string `json:"name"`
	Kind string `json:"kind"`
	Kids []ent  `json:"kids,omitempty"`
	Mode uint32 `json:"mode,omitempty"` // chmod after creation: Unix bits 0o7777 (setuid 0o4000, setgid 0o2000, sticky 0o1000), +0o10000 marks "set"
}

// modeSet marks ent.Mode as given (mode 0000 is a mode too).
const modeSet = 0o10000

// unixMode converts Unix mode bits (0o7777) to the fs.FileMode that Chmod
// takes: the special bits of fs.FileMode are not at their Unix positions.
func unixMode(m uint32) fs.FileMode {
	r := fs.FileMode(m & 0o777)

	if m&0o4000 != 0 {
		r |= fs.ModeSetuid
	}

	if m&0o2000 != 0 {
		r |= fs.ModeSetgid
	}

	if m&0o1000 != 0 {
		r |= fs.ModeSticky
	}

	return r
}

// modeVar is one element of the mode alphabet: special bits to set and,
// optionally, permission bits replacing the ones the entry was created with.
type modeVar struct {
	Special uint32
	Perm    int // -1: keep 0644 / 0755
}

// universe bounds the enumeration of one tier.
type universe struct {
	Label    string
	TopNames []string
	KidNames []string
	TopKinds []string
	KidKinds []string // "d" at this level is an empty directory (depth <= 2)
	MaxSeg   int      // pattern length in segments

	// The mode dimension. Lesson: code that derives the type of an entry from
	// its mode (Type(), IsDir(), "is this a directory to descend into") masks
	// bits, and a wrong mask is invisible as long as every mode is plain
	// 0644/0755: entries must also carry the bits that are neither type nor
	// permission (setuid, setgid, sticky - on files and on directories, seen
	// through a second name and as the target of a link) and permission bits
	// other than the ones they were created with.
	Modes     []modeVar // every mode is given to every single entry of every mode shape
	ModeCombo []modeVar // every assignment of {unchanged} + these to all entries of the full shape
}

func universeFor(tier string) universe {
	if tier == "thorough" {
		return universe{
			Label: "names {a,b,c} at top level, {a,b} below; top kinds {absent,file,dir,symlink>sibling,symlink>.,hardlink,empty file,abs symlink}; depth-2 kinds {absent,file,dir,symlink>sibling,symlink>.,hardlink}; patterns <= 3 segments; " +
				"mode trees (first in the order): 8 shapes (full two-level tree and its mirror, file with a hard link in both orders, directory / file behind a relative / absolute symbolic link, directory holding a link to '.') x every single file, directory or hard-link name chmod'ed to every non-empty subset of {setuid,setgid,sticky} with its creation permissions, to 0000, 0777 and 7000, plus every assignment of {unchanged,setuid,setgid,sticky,all three} to the four entries of the full shape",
			TopNames: []string{"a", "b", "c"}, KidNames: []string{"a", "b"},
			TopKinds: []string{"-", "f", "d", "s", ".", "h", "e", "S"},
			KidKinds: []string{"-", "f", "d", "s", ".", "h"},
			MaxSeg:   3,
			Modes: []modeVar{
				{0o4000, -1}, {0o2000, -1}, {0o1000, -1}, {0o7000, -1}, {0o6000, -1}, {0o5000, -1}, {0o3000, -1},
				{0, 0o000}, {0, 0o777}, {0o7000, 0o000},
			},
			ModeCombo: []modeVar{{0o4000, -1}, {0o2000, -1}, {0o1000, -1}, {0o7000, -1}},
		}
	}

	// quick: the complete two-name universe (the trees of the thorough tier in
	// which c is absent), patterns of <= 2 segments
	return universe{
		Label: "names {a,b}; top kinds {absent,file,dir,symlink>sibling,symlink>.,hardlink,empty file,abs symlink}; depth-2 kinds {absent,file,dir,symlink>sibling,symlink>.,hardlink}; patterns <= 2 segments; " +
			"mode trees (first in the order): 8 shapes (full two-level tree and its mirror, file with a hard link in both orders, directory / file behind a relative / absolute symbolic link, directory holding a link to '.') x every single file, directory or hard-link name chmod'ed to setuid, setgid, sticky or all three (creation permissions kept) and to permission bits 0700, plus every assignment of {unchanged, all three bits} to the four entries of the full shape",
		TopNames: []string{"a", "b"}, KidNames: []string{"a", "b"},
		TopKinds:  []string{"-", "f", "d", "s", ".", "h", "e", "S"},
		KidKinds:  []string{"-", "f", "d", "s", ".", "h"},
		MaxSeg:    2,
		Modes:     []modeVar{{0o4000, -1}, {0o2000, -1}, {0o1000, -1}, {0o7000, -1}, {0, 0o700}},
		ModeCombo: []modeVar{{0o7000, -1}},
	}
}

// sibIdx is the index of the name a link at index i points to.
func sibIdx(i int) int {
	if i == 0 {
		return 1
	}

	return 0
}

func validLevel(es []ent) bool {
	for i, e := range es {
		if e.Kind != "h" {
			continue
		}

		if len(es) < 2 {
			return false
		}

		if k := es[sibIdx(i)].Kind; k != "f" && k != "e" {
			return false
		}
	}

	return true
}

// product enumerates all combinations; later names vary slowest, so that the
// trees where the last name is absent come first.
func product(opts [][]ent) [][]ent {
	res := [][]ent{{}}

	for i := range opts {
		var next [][]ent

		for _, o := range opts[i] {
			for _, r := range res {
				c := make([]ent, len(r), len(r)+1)
				copy(c, r)
				next = append(next, append(c, o))
			}
		}

		res = next
	}

	return res
}

// modeShapes are the trees whose entries receive the modes of the alphabet.
// Together they put a mode-carrying entry in every structural position the
// enumeration functions treat differently: a directory with content (descended
// into by WalkDir and by multi-segment patterns), an empty directory and a file
// inside it, the first and the last name of a level, a file with two names, the
// target of a relative and of an absolute symbolic link (the link itself must
// keep its own type) and a directory that contains a link to itself. The first
// shape is the full one (every name present at both levels).
func (u universe) modeShapes() [][]ent {
	a, b := u.TopNames[0], u.TopNames[1]
	ka, kb := u.KidNames[0], u.KidNames[1]

	k := func(n, kind string, kids ...ent) ent { return ent{Name: n, Kind: kind, Kids: kids} }

	shapes := [][]ent{
		{k(a, "d", k(ka, "f"), k(kb, "d")), k(b, "f")},
		{k(a, "e"), k(b, "d", k(ka, "d"), k(kb, "f"))},
		{k(a, "f"), k(b, "h")},
		{k(a, "h"), k(b, "e")},
		{k(a, "d", k(ka, "f"), k(kb, "-")), k(b, "s")},
		{k(a, "S"), k(b, "d", k(ka, "-"), k(kb, "e"))},
		{k(a, "f"), k(b, "S")},
		{k(a, "d", k(ka, "."), k(kb, "f")), k(b, "-")},
	}

	for i := range shapes {
		for _, n := range u.TopNames[2:] {
			shapes[i] = append(shapes[i], k(n, "-"))
		}
	}

	return shapes
}

// carriers lists the positions (index path) of the entries of a tree that can
// be given a mode: files, directories and hard-link names. Chmod of a symbolic
// link changes what it points to, which is one of those.
func carriers(es []ent) [][]int {
	var out [][]int

	for i, e := range es {
		switch e.Kind {
		case "f", "e", "h":
			out = append(out, []int{i})
		case "d":
			out = append(out, []int{i})

			for _, c := range carriers(e.Kids) {
				out = append(out, append([]int{i}, c...))
			}
		}
	}

	return out
}

// withMode returns a copy of the tree in which the entry at pos carries m.
func withMode(es []ent, pos []int, m modeVar) []ent {
	out := make([]ent, len(es))
	copy(out, es)

	e := &out[pos[0]]

	if len(pos) > 1 {
		e.Kids = withMode(e.Kids, pos[1:], m)

		return out
	}

	perm := uint32(0o644)
	if e.Kind == "d" {
		perm = 0o755
	}

	if m.Perm >= 0 {
		perm = uint32(m.Perm)
	}

	e.Mode = modeSet | m.Special | perm

	return out
}

// modeTrees enumerates the mode dimension: every shape x every single carrier
// x every mode of the alphabet, then every assignment of {unchanged} + ModeCombo
// to all carriers of the full shape.
func (u universe) modeTrees() [][]ent {
	var out [][]ent

	seen := map[string]bool{}

	add := func(es []ent) {
		if s := treeSpec(es); !seen[s] {
			seen[s] = true
			out = append(out, es)
		}
	}

	shapes := u.modeShapes()

	for _, sh := range shapes {
		for _, pos := range carriers(sh) {
			for _, m := range u.Modes {
				add(withMode(sh, pos, m))
			}
		}
	}

	full := shapes[0]
	cs := carriers(full)
	n := len(u.ModeCombo) + 1
	total := 1

	for range cs {
		total *= n
	}

	for x := 1; x < total; x++ {
		es := full

		for i, y := 0, x; i < len(cs); i, y = i+1, y/n {
			if d := y % n; d > 0 {
				es = withMode(es, cs[i], u.ModeCombo[d-1])
			}
		}

		add(es)
	}

	return out
}

// trees enumerates every tree of the universe in canonical order: the mode
// trees first (they are few and must not fall behind a deadline), then the
// plain trees.
func (u universe) trees() [][]ent {
	return append(u.modeTrees(), u.plainTrees()...)
}

// plainTrees enumerates every tree over the kinds, all entries with the mode
// they were created with.
func (u universe) plainTrees() [][]ent {
	var kidOpts [][]ent

	for _, n := range u.KidNames {
		var o []ent
		for _, k := range u.KidKinds {
			o = append(o, ent{Name: n, Kind: k})
		}

		kidOpts = append(kidOpts, o)
	}

	var kidLevels [][]ent

	for _, l := range product(kidOpts) {
		if validLevel(l) {
			kidLevels = append(kidLevels, l)
		}
	}

	var topOpts [][]ent

	for _, n := range u.TopNames {
		var o []ent

		for _, k := range u.TopKinds {
			if k == "d" {
				for _, l := range kidLevels {
					o = append(o, ent{Name: n, Kind: "d", Kids: l})
				}

				continue
			}

			o = append(o, ent{Name: n, Kind: k})
		}

		topOpts = append(topOpts, o)
	}

	var out [][]ent

	for _, l := range product(topOpts) {
		if validLevel(l) {
			out = append(out, l)
		}
	}

	return out
}

func treeSpec(es []ent) string {
	var s []string

	for _, e := range es {
		x := e.Name + "=" + e.Kind
		if e.Kind == "d" {
			x += "{" + treeSpec(e.Kids) + "}"
		}

		if e.Mode != 0 {
			x += fmt.Sprintf("(%04o)", e.Mode&0o7777)
		}

		s = append(s, x)
	}

	return strings.Join(s, ",")
}

func hasSymlink(es []ent) bool {
	for _, e := range es {
		switch e.Kind {
		case "s", "S", ".":
			return true
		case "d":
			if hasSymlink(e.Kids) {
				return true
			}
		}
	}

	return false
}

// mop is one plain call that materialises a part of a tree. Paths are relative
// to the scratch root R; a symlink target starting with "$R" is absolute.
type mop struct {
	Op   string `json:"op"`
	A    string `json:"a"`
	B    string `json:"b,omitempty"`
	Perm uint32 `json:"perm,omitempty"`
}

func (m mop) String() string {
	switch m.Op {
	case "Mkdir":
		return fmt.Sprintf("Mkdir(R/%s,%#o)", m.A, m.Perm)
	case "WriteFile":
		return fmt.Sprintf("WriteFile(R/%s,%q,%#o)", m.A, m.B, m.Perm)
	case "Symlink":
		return fmt.Sprintf("Symlink(%q,R/%s)", strings.Replace(m.B, "$R", "R", 1), m.A)
	case "Link":
		return fmt.Sprintf("Link(R/%s,R/%s)", m.B, m.A)
	case "Chmod":
		return fmt.Sprintf("Chmod(R/%s,%#o)", m.A, m.Perm)
	}

	return m.Op
}

// treeOps lists the calls that build the tree: directories and files first,
// then hard links, then mode changes (deepest first).
func treeOps(es []ent) []mop {
	var p1, p2, p3 []mop

	var walk func(prefix string, es []ent)

	walk = func(prefix string, es []ent) {
		for i, e := range es {
			p := prefix + e.Name
			sib := ""

			if len(es) > 1 {
				sib = es[sibIdx(i)].Name
			}

			switch e.Kind {
			case "d":
				p1 = append(p1, mop{Op: "Mkdir", A: p, Perm: 0o755})
				walk(p+"/", e.Kids)
			case "f":
				p1 = append(p1, mop{Op: "WriteFile", A: p, B: "x", Perm: 0o644})
			case "e":
				p1 = append(p1, mop{Op: "WriteFile", A: p, B: "", Perm: 0o644})
			case "s":
				p1 = append(p1, mop{Op: "Symlink", A: p, B: sib})
			case "S":
				p1 = append(p1, mop{Op: "Symlink", A: p, B: "$R/" + prefix + sib})
			case ".":
				p1 = append(p1, mop{Op: "Symlink", A: p, B: "."})
			case "h":
				p2 = append(p2, mop{Op: "Link", A: p, B: prefix + sib})
			}

			if e.Mode != 0 {
				p3 = append([]mop{{Op: "Chmod", A: p, Perm: e.Mode & 0o7777}}, p3...)
			}
		}
	}

	walk("", es)

	return append(append(p1, p2...), p3...)
}

func opStrings(ops []mop) []string {
	out := make([]string, len(ops))
	for i, o := range ops {
		out[i] = o.String()
	}

	return out
}

// applyKernel builds the tree on the real file system below R.
func applyKernel(R string, ops []mop) error {
	for _, o := range ops {
		var err error

		p := R + "/" + o.A

		switch o.Op {
		case "Mkdir":
			err = os.Mkdir(p, os.FileMode(o.Perm))
		case "WriteFile":
			err = os.WriteFile(p, []byte(o.B), os.FileMode(o.Perm))
		case "Symlink":
			err = os.Symlink(strings.Replace(o.B, "$R", R, 1), p)
		case "Link":
			err = os.Link(R+"/"+o.B, p)
		case "Chmod":
			err = os.Chmod(p, unixMode(o.Perm))

			// the oracle must really hold the mode, otherwise the comparison
			// proves nothing about it
			if fi, e := os.Stat(p); err == nil && (e != nil || fi.Mode()&^fs.ModeType != unixMode(o.Perm)) {
				err = fmt.Errorf("the scratch file system does not keep the mode (stat: %v %v)", fi.Mode(), e)
			}
		}

		if err != nil {
			return fmt.Errorf("kernel %s: %v", o, err)
		}
	}

	return nil
}

// applyVFS builds the tree in an avfs file system below R.
func applyVFS(v avfs.VFS, R string, ops []mop) error {
	for _, o := range ops {
		var err error

		p := R + "/" + o.A

		switch o.Op {
		case "Mkdir":
			err = v.Mkdir(p, os.FileMode(o.Perm))
		case "WriteFile":
			err = v.WriteFile(p, []byte(o.B), os.FileMode(o.Perm))
		case "Symlink":
			err = v.Symlink(strings.Replace(o.B, "$R", R, 1), p)
		case "Link":
			err = v.Link(R+"/"+o.B, p)
		case "Chmod":
			err = v.Chmod(p, unixMode(o.Perm))
		}

		if err != nil {
			return fmt.Errorf("%s: %s", o, fsx.ErrKind(err))
		}
	}

	return nil
}

// resetKernel empties and recreates R and makes it the working directory.
func resetKernel(R string) error {
	_ = os.Chdir("/")

	// directories may have been made unreadable by a scenario
	if err := os.RemoveAll(R); err != nil {
		return err
	}

	if err := os.MkdirAll(R, 0o755); err != nil {
		return err
	}

	return os.Chdir(R)
}
