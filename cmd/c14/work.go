package main

import (
	"fmt"
	"os"
	"strings"
	"unicode/utf8"

	"github.com/avfs/avfs"
	"github.com/avfs/avfs/vfs/basepathfs"
	"github.com/avfs/avfs/vfs/failfs"
	"github.com/avfs/avfs/vfs/memfs"
	"github.com/avfs/avfs/vfs/orefafs"
	"github.com/avfs/avfs/vfs/rofs"

	"verif/lib/fsx"
)

var fsNames = []string{"MemFS", "OrefaFS", "RoFS", "FailFS", "BasePathFS"}

// inst is one file system under test holding the tree at R.
type inst struct {
	name string
	v    avfs.VFS // queried object
	base avfs.VFS
	bp   bool // paths are translated R/x <-> /x
}

// buildInst creates a fresh file system of the given kind, materialises the
// tree with plain calls at the absolute path R and sets the working directory.
func buildInst(name, R string, ops []mop) (in *inst, err error) {
	k, msg := fsx.Guard(func() {
		dirs := []avfs.DirInfo{{Path: "/tmp", Perm: 0o777}}

		var base avfs.VFS

		if name == "OrefaFS" {
			base = orefafs.NewWithOptions(&orefafs.Options{OSType: avfs.OsLinux, SystemDirs: dirs})
		} else {
			base = memfs.NewWithOptions(&memfs.Options{OSType: avfs.OsLinux, SystemDirs: dirs})
		}

		_ = base.SetUMask(0o022)

		if err = base.MkdirAll(R, 0o755); err != nil {
			err = fmt.Errorf("MkdirAll(R): %s", fsx.ErrKind(err))

			return
		}

		if err = applyVFS(base, R, ops); err != nil {
			return
		}

		in = &inst{name: name, base: base, v: base}
		cwd := R

		switch name {
		case "RoFS":
			in.v = rofs.New(base)
		case "FailFS":
			in.v = failfs.New(base)
		case "BasePathFS":
			in.v = basepathfs.New(base, R)
			in.bp = true
			cwd = "/"
		}

		if err = in.v.Chdir(cwd); err != nil {
			err = fmt.Errorf("Chdir(%s): %s", strings.Replace(cwd, R, "R", 1), fsx.ErrKind(err))
		}
	})

	if k != "" {
		return nil, fmt.Errorf("%s while building: %s", k, msg)
	}

	if err != nil {
		return nil, err
	}

	return in, nil
}

// toBP translates a kernel-namespace path or pattern into the BasePathFS
// namespace (base path = R). Relative strings are unchanged.
func toBP(R, p string) string {
	if !strings.HasPrefix(p, R) {
		return p
	}

	p = p[len(R):]
	if p == "" {
		return "/"
	}

	return p
}

// fromBP is the inverse, used only to classify paths for signatures.
func fromBP(R, p string) string {
	if !strings.HasPrefix(p, "/") {
		return p
	}

	if p == "/" {
		return R
	}

	return R + p
}

// outcomeToBP translates the paths of an oracle outcome.
func outcomeToBP(R string, q query, o outcome) outcome {
	switch q.Func {
	case "Glob":
		l := make([]string, len(o.List))
		for i, p := range o.List {
			l[i] = toBP(R, p)
		}

		if o.List == nil {
			l = nil
		}

		o.List = l
	case "WalkDir":
		l := make([]string, len(o.List))

		for i, v := range o.List {
			f := splitV(v)
			f[0] = toBP(R, f[0])
			l[i] = strings.Join(f, "|")
		}

		o.List = l
	}

	return o
}

// violation is one reported instance (worker -> main).
type violation struct {
	Sig    map[string]string `json:"sig"`
	Replay map[string]any    `json:"replay"`
	Count  int               `json:"count"`
}

// stats is what a worker measured.
type stats struct {
	Worker      string         `json:"worker"`
	TreesDone   []int          `json:"trees_done"` // indices completed (ascending)
	States      map[string]int `json:"states"`     // trees materialised per file system
	Evals       map[string]int `json:"evals"`      // evaluations compared per function
	Spelled     map[string]int `json:"spelled"`    // of these, with the operand not in its shortest form: function:rel|abs:spelling -> count
	Classes     map[string]int `json:"classes"`    // (func, oracle result class) -> count
	BuildFailed map[string]int `json:"build_failed,omitempty"`
	Samples     []any          `json:"samples,omitempty"`
	Instances   int            `json:"instances"`
	Harness     string         `json:"harness,omitempty"`
}

type checker struct {
	R     string
	u     universe
	st    stats
	viols map[string]*violation
	order []string
	cls   map[string]string
	extra map[string]string // added to every signature (non-administrator scenarios)
	user  string
	shape bool // the current tree is a name-shape tree
}

func newChecker(R string, u universe, name string) *checker {
	return &checker{
		R: R, u: u, viols: map[string]*violation{},
		st: stats{Worker: name, States: map[string]int{}, Evals: map[string]int{}, Spelled: map[string]int{}, Classes: map[string]int{}, BuildFailed: map[string]int{}},
	}
}

func (c *checker) san(s string) string { return strings.ReplaceAll(s, c.R, "R") }

// sanL prepares result lists for display in replays and samples; bytes that
// are not UTF-8 are written \xNN (JSON would replace them).
func (c *checker) sanL(l []string) []string {
	out := make([]string, len(l))
	for i, s := range l {
		out[i] = c.san(s)

		if !utf8.ValidString(out[i]) {
			out[i] = disp(out[i])
		}
	}

	return out
}

func (c *checker) class(p string) string {
	if v, ok := c.cls[p]; ok {
		return v
	}

	v := classK(c.R, p)
	c.cls[p] = v

	return v
}

func (c *checker) report(sig map[string]string, replay map[string]any) {
	for k, v := range c.extra {
		sig[k] = v
	}

	// names are byte strings; signatures are printable text
	for k, v := range sig {
		sig[k] = printable(v)
	}

	c.st.Instances++

	var b strings.Builder
	for _, k := range sortedKeys(sig) {
		b.WriteString(k + "=" + sig[k] + ";")
	}

	key := b.String()
	if v, ok := c.viols[key]; ok {
		v.Count++

		return
	}

	c.viols[key] = &violation{Sig: sig, Replay: replay, Count: 1}
	c.order = append(c.order, key)
}

func sortedKeys(m map[string]string) []string {
	keys := make([]string, 0, len(m))
	for k := range m {
		keys = append(keys, k)
	}

	for i := 1; i < len(keys); i++ {
		for j := i; j > 0 && keys[j] < keys[j-1]; j-- {
			keys[j], keys[j-1] = keys[j-1], keys[j]
		}
	}

	return keys
}

// entryModeClass is the type and special-bit letters of Info().Mode() of a
// ReadDir entry as recorded by entryFields ("d", "dt", "u", "L", "-" ...).
func entryModeClass(e string) string {
	f := splitV(e)
	if len(f) < 5 {
		return "?"
	}

	in := strings.Split(f[4], ",")
	if len(in) < 3 || len(in[2]) < 9 {
		return "no-info"
	}

	if m := in[2][:len(in[2])-9]; m != "" {
		return m
	}

	return "-"
}

func resultClass(q query, o outcome) string {
	switch q.Func {
	case "Glob":
		switch {
		case o.Kind != "ok":
			return "Glob:" + o.Kind
		case o.Nil:
			return "Glob:nil"
		}

		return fmt.Sprintf("Glob:n=%d", len(o.List))
	case "ReadDir":
		if o.Kind != "ok" {
			return "ReadDir:" + o.Kind
		}

		return fmt.Sprintf("ReadDir:n=%d", len(o.List))
	}

	n := len(o.List)
	if n > 9 {
		n = 9
	}

	return fmt.Sprintf("WalkDir:%s:%s:v%d", q.Fam, o.Kind, n)
}

func (c *checker) replayObj(fsName string, es []ent, ops []mop, q query, want, got outcome) map[string]any {
	qq := q
	qq.Arg = c.san(q.Arg)
	want.List, got.List = c.sanL(want.List), c.sanL(got.List)
	got.Msg = c.san(got.Msg)

	r := map[string]any{
		"fs": fsName, "tree_spec": treeSpec(es), "tree": es, "steps": opStrings(ops),
		"query": qq, "expected": want, "observed": got,
		"note": "R = scratch directory on tmpfs; the same absolute path exists in the emulated file system; relative arguments are relative to R (cwd); BasePathFS has base path R, its arguments and results are shown translated (R/x -> /x)",
	}

	if c.user != "" {
		r["user"] = c.user
	}

	return r
}

// checkTree runs every query of the universe on the tree es: oracle first, then
// every file system. The tree must already be materialised on the kernel side
// with cwd = R, and qr must be the oracle pass over it.
func (c *checker) checkTree(es []ent, ops []mop, qs querySet, qr []qres, fsList []string, view func(*inst) (avfs.VFS, error)) {
	sym := hasSymlink(es)
	c.cls = map[string]string{}

	for _, r := range qr {
		c.st.Classes[resultClass(r.Q, r.Out)]++

		// which kinds of entries the oracle listed: type and special bits
		if r.Q.Func == "ReadDir" && r.Out.Kind == "ok" {
			for _, e := range r.Out.List {
				c.st.Classes["ReadDir:entry:"+entryModeClass(e)]++
			}
		}
	}

	for _, fsName := range fsList {
		// symbolic links only where the file system advertises them
		if sym && (fsName == "OrefaFS" || fsName == "BasePathFS") {
			continue
		}

		var v avfs.VFS

		build := func() *inst {
			in, err := buildInst(fsName, c.R, ops)
			if err == nil && view != nil {
				v, err = view(in)
			} else if err == nil {
				v = in.v
			}

			if err != nil {
				c.st.BuildFailed[fsName+": "+c.san(err.Error())]++

				return nil
			}

			return in
		}

		in := build()
		if in == nil {
			continue
		}

		c.st.States[fsName]++

		for _, r := range qr {
			q, want, arg := r.Q, r.Out, r.Q.Arg

			if in.bp {
				arg = toBP(c.R, arg)
				want = outcomeToBP(c.R, q, want)
			}

			got := evalQuery(v, q, arg)
			c.st.Evals[q.Func]++

			if q.Sp != "" {
				c.st.Spelled[q.Func+":"+relName(q.Rel)+":"+q.Sp]++
			}

			for _, d := range compare(q, want, got) {
				path := d.Path
				if in.bp && d.HasPath {
					path = fromBP(c.R, path)
				}

				sig := map[string]string{"fs": fsName, "func": q.Func, "kind": d.Kind, "want": d.Want, "got": d.Got}

				// how the operand was spelled, if not in its shortest form
				if q.Sp != "" {
					sig["spelling"] = q.Sp
				}

				switch q.Func {
				case "Glob":
					sig["pattern"] = patClass(q)
					if d.HasPath {
						sig["target"] = c.class(path)

						// name-shape trees: what follows the shared prefix in the name
						if c.shape {
							sig["name"] = contClass(path[strings.LastIndexByte(path, '/')+1:])
						}
					}
				case "ReadDir":
					sig["path"] = relName(q.Rel)
					sig["target"] = c.class(q.Arg)
				case "WalkDir":
					sig["root"] = relName(q.Rel) + ":" + c.class(q.Arg)
					sig["cb"] = q.Fam
					if q.CbAt != "" {
						sig["cb"] += "@" + q.CbAt
					}

					if d.HasPath {
						sig["target"] = c.class(path)
					}
				}

				qq := q
				qq.Arg = arg
				c.report(sig, c.replayObj(fsName, es, ops, qq, want, got))
			}

			if broken(got) {
				// locks may be left held and state half-changed: fresh instance
				if in = build(); in == nil {
					break
				}
			}
		}

		if in == nil {
			continue
		}

		// helpers
		for _, p := range qs.helperPaths(c.R) {
			arg := p
			if in.bp {
				arg = toBP(c.R, p)
			}

			ds, statClass, bk := checkHelpers(v, arg)
			c.st.Evals["helpers"] += 4
			c.st.Classes["helpers:stat="+statClass]++

			for _, d := range ds {
				sig := map[string]string{
					"fs": fsName, "func": d.Func, "kind": "helper", "want": d.Want, "got": d.Got,
					"path": relName(!strings.HasPrefix(p, "/")), "target": c.class(p), "stat": statClass,
				}

				rp := map[string]any{
					"fs": fsName, "tree_spec": treeSpec(es), "tree": es, "steps": opStrings(ops),
					"query": query{Func: d.Func, Arg: c.san(arg)}, "expected": d.Want, "observed": d.Got,
					"note": "expected = what Stat/ReadDir of the same instance, asked by the same user, imply (value,error-ness)",
				}

				if c.user != "" {
					rp["user"] = c.user
				}

				c.report(sig, rp)
			}

			if bk != "" {
				if in = build(); in == nil {
					break
				}
			}
		}
	}
}

func (c *checker) addSamples(es []ent, qr []qres, max int) {
	seen := map[string]bool{}

	for _, r := range qr {
		if len(c.st.Samples) >= max {
			return
		}

		cl := resultClass(r.Q, r.Out)
		if seen[cl] || (len(r.Out.List) < 2 && r.Q.Func != "ReadDir") {
			continue
		}

		seen[cl] = true
		q := r.Q
		q.Arg = c.san(q.Arg)
		o := r.Out
		o.List = c.sanL(o.List)
		c.st.Samples = append(c.st.Samples, map[string]any{"tree": treeSpec(es), "query": q, "oracle": o})
	}
}

// prepareKernel materialises the tree on tmpfs at R and leaves cwd = R.
func prepareKernel(R string, ops []mop) error {
	if err := resetKernel(R); err != nil {
		return err
	}

	return applyKernel(R, ops)
}

func cleanup(dir string) {
	_ = os.Chdir("/")
	_ = os.RemoveAll(dir)
}
