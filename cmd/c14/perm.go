package main

import (
	"fmt"
	"os"
	"runtime"
	"syscall"
	"unsafe"

	"github.com/avfs/avfs"

	"verif/lib/fsx"
)

// asUser runs f on an OS-locked thread whose file-system uid/gid are uid/gid
// and whose supplementary groups are dropped (raw per-thread syscalls), then
// restores the thread. A thread that cannot be restored is never reused.
func asUser(uid, gid int, f func()) error {
	errc := make(chan error, 1)

	go func() {
		runtime.LockOSThread()

		restored := false

		defer func() {
			if restored {
				runtime.UnlockOSThread()
			}
			// otherwise the goroutine exits locked and the thread is destroyed
		}()

		setfs := func(nr uintptr, id int) int {
			r, _, _ := syscall.RawSyscall(nr, uintptr(id), 0, 0)

			return int(int32(r))
		}

		groups, err := syscall.Getgroups()
		if err != nil {
			restored = true
			errc <- fmt.Errorf("getgroups: %v", err)

			return
		}

		setgroups := func(g []int) error {
			if len(g) == 0 {
				_, _, e := syscall.RawSyscall(syscall.SYS_SETGROUPS, 0, 0, 0)
				if e != 0 {
					return e
				}

				return nil
			}

			a := make([]uint32, len(g))
			for i, x := range g {
				a[i] = uint32(x)
			}

			_, _, e := syscall.RawSyscall(syscall.SYS_SETGROUPS, uintptr(len(a)), uintptr(unsafe.Pointer(&a[0])), 0)
			if e != 0 {
				return e
			}

			return nil
		}

		restore := func() error {
			setfs(syscall.SYS_SETFSUID, 0)

			if got := setfs(syscall.SYS_SETFSUID, 0); got != 0 {
				return fmt.Errorf("cannot restore fsuid (is %d)", got)
			}

			setfs(syscall.SYS_SETFSGID, 0)

			if got := setfs(syscall.SYS_SETFSGID, 0); got != 0 {
				return fmt.Errorf("cannot restore fsgid (is %d)", got)
			}

			if err := setgroups(groups); err != nil {
				return fmt.Errorf("cannot restore groups: %v", err)
			}

			return nil
		}

		if err := setgroups(nil); err != nil {
			restored = true
			errc <- fmt.Errorf("setgroups: %v", err)

			return
		}

		setfs(syscall.SYS_SETFSGID, gid)
		setfs(syscall.SYS_SETFSUID, uid)

		// the second call returns the value now in force
		if g, u := setfs(syscall.SYS_SETFSGID, gid), setfs(syscall.SYS_SETFSUID, uid); g != gid || u != uid {
			err := restore()
			restored = err == nil
			errc <- fmt.Errorf("setfsuid/setfsgid not effective (fsuid %d fsgid %d) %v", u, g, err)

			return
		}

		var perr error

		func() {
			defer func() {
				if r := recover(); r != nil {
					perr = fmt.Errorf("panic in oracle pass: %v", r)
				}
			}()

			f()
		}()

		err = restore()
		restored = err == nil

		if err == nil {
			err = perr
		}

		errc <- err
	}()

	return <-errc
}

// permScenarios: small trees with one directory whose permission bits are
// 0000, 0111 or 0444 (everything is owned by root).
func permScenarios() [][]ent {
	f := func(n string) ent { return ent{Name: n, Kind: "f"} }
	no := func(n string) ent { return ent{Name: n, Kind: "-"} }
	d := func(n string, mode uint32, kids ...ent) ent {
		return ent{Name: n, Kind: "d", Kids: kids, Mode: mode}
	}

	var out [][]ent

	for _, m := range []uint32{0o10000, 0o10111, 0o10444} {
		out = append(out,
			// restricted top-level directory with a file and a directory inside
			[]ent{d("a", m, f("a"), d("b", 0)), f("b")},
			// restricted nested directory
			[]ent{d("a", 0, f("a"), d("b", m)), f("b")},
			// restricted first directory, readable second one (walk must go on)
			[]ent{d("a", m, f("a"), no("b")), d("b", 0, f("a"), no("b"))},
			// restricted last directory
			[]ent{d("a", 0, f("a"), no("b")), d("b", m, f("a"), no("b"))},
			// symbolic link to the restricted directory
			[]ent{d("a", m, f("a"), no("b")), {Name: "b", Kind: "s"}},
		)
	}

	return out
}

func permLabel(es []ent) (which, mode string) {
	for _, e := range es {
		if e.Mode != 0 {
			return "top", fmt.Sprintf("%04o", e.Mode&0o7777)
		}

		for _, k := range e.Kids {
			if k.Mode != 0 {
				return "nested", fmt.Sprintf("%04o", k.Mode&0o7777)
			}
		}
	}

	return "none", ""
}

// runPerm is the non-administrator part: MemFS seen by an ordinary user versus
// the kernel under setfsuid/setfsgid. Returns a harness error text ("" if the
// sandbox behaved).
func runPerm(c *checker) string {
	if os.Geteuid() != 0 {
		return "non-administrator part needs root (setfsuid)"
	}

	c.user = "nonadmin"
	scen := permScenarios()

	// probe: the sandbox must enforce DAC for the switched thread
	probe := []ent{{Name: "a", Kind: "d", Mode: 0o10000, Kids: []ent{{Name: "a", Kind: "f"}, {Name: "b", Kind: "-"}}}, {Name: "b", Kind: "-"}}
	if err := prepareKernel(c.R, treeOps(probe)); err != nil {
		return "probe tree: " + err.Error()
	}

	var e1, e2, e3 error

	if err := asUser(1001, 1001, func() {
		_, e1 = os.ReadDir(c.R + "/a")
		_, e2 = os.Lstat(c.R)
		_, e3 = os.ReadDir(c.R)
	}); err != nil {
		return "asUser: " + err.Error()
	}

	if fsx.ErrKind(e1) != "EACCES" || e2 != nil || e3 != nil {
		return fmt.Sprintf("sandbox does not enforce permissions as expected under setfsuid: ReadDir(mode 0 dir)=%s Lstat(R)=%v ReadDir(R)=%v",
			fsx.ErrKind(e1), e2, e3)
	}

	if _, err := os.ReadDir(c.R + "/a"); err != nil {
		return "credentials not restored after asUser: " + err.Error()
	}

	for i, es := range scen {
		ops := treeOps(es)

		if err := prepareKernel(c.R, ops); err != nil {
			return "kernel tree: " + err.Error()
		}

		uid, gid := -1, -1

		view := func(in *inst) (avfs.VFS, error) {
			idm := in.base.Idm()

			if _, err := idm.AddGroup("g14"); err != nil {
				return nil, fmt.Errorf("AddGroup: %v", err)
			}

			u, err := idm.AddUser("u14", "g14")
			if err != nil {
				return nil, fmt.Errorf("AddUser: %v", err)
			}

			uid, gid = u.Uid(), u.Gid()

			sub, err := in.base.Sub("/")
			if err != nil {
				return nil, fmt.Errorf("Sub(/): %v", err)
			}

			if err := sub.SetUser(u); err != nil {
				return nil, fmt.Errorf("SetUser: %v", err)
			}

			if in.base.User().Uid() != 0 || sub.User().Uid() != uid {
				return nil, fmt.Errorf("view does not keep its own user")
			}

			if err := sub.Chdir(c.R); err != nil {
				return nil, fmt.Errorf("Chdir(R) as user: %s", fsx.ErrKind(err))
			}

			return sub, nil
		}

		// learn the ids the identity manager hands out (fresh instance, same every time)
		probeInst, err := buildInst("MemFS", c.R, nil)
		if err != nil {
			return "MemFS: " + err.Error()
		}

		if _, err := view(probeInst); err != nil {
			return "MemFS view: " + err.Error()
		}

		var qr []qres

		qs := c.u.plainQueries()

		if err := asUser(uid, gid, func() { qr = oraclePass(c.R, qs) }); err != nil {
			return "asUser: " + err.Error()
		}

		which, mode := permLabel(es)
		c.extra = map[string]string{"user": "nonadmin", "mode": mode, "restricted": which}

		c.checkTree(es, ops, qs, qr, []string{"MemFS"}, view)
		c.st.TreesDone = append(c.st.TreesDone, i)

		if i < 3 {
			c.addSamples(es, qr, len(c.st.Samples)+2)
		}
	}

	c.extra = nil

	return ""
}
