package main

import (
	"fmt"
	"os"
	"runtime"
	"strings"
	"syscall"
	"unsafe"

	"github.com/avfs/avfs"

	"verif/lib/fsx"
)

// asUser runs f on an OS-locked thread whose file-system uid/gid are uid/gid
// and whose supplementary groups are dropped (raw per-thread syscalls), then
// restores the thread. A thread that cannot be restored is never reused.
func asUser(uid, gid int, f func()) error {
	errc := make(chan error, 1)

	go func() {
		runtime.LockOSThread()

		restored := false

		defer func() {
			if restored {
				runtime.UnlockOSThread()
			}
			// otherwise the goroutine exits locked and the thread is destroyed
		}()

		setfs := func(nr uintptr, id int) int {
			r, _, _ := syscall.RawSyscall(nr, uintptr(id), 0, 0)

			return int(int32(r))
		}

		groups, err := syscall.Getgroups()
		if err != nil {
			restored = true
			errc <- fmt.Errorf("getgroups: %v", err)

			return
		}

		setgroups := func(g []int) error {
			if len(g) == 0 {
				_, _, e := syscall.RawSyscall(syscall.SYS_SETGROUPS, 0, 0, 0)
				if e != 0 {
					return e
				}

				return nil
			}

			a := make([]uint32, len(g))
			for i, x := range g {
				a[i] = uint32(x)
			}

			_, _, e := syscall.RawSyscall(syscall.SYS_SETGROUPS, uintptr(len(a)), uintptr(unsafe.Pointer(&a[0])), 0)
			if e != 0 {
				return e
			}

			return nil
		}

		restore := func() error {
			setfs(syscall.SYS_SETFSUID, 0)

			if got := setfs(syscall.SYS_SETFSUID, 0); got != 0 {
				return fmt.Errorf("cannot restore fsuid (is %d)", got)
			}

			setfs(syscall.SYS_SETFSGID, 0)

			if got := setfs(syscall.SYS_SETFSGID, 0); got != 0 {
				return fmt.Errorf("cannot restore fsgid (is %d)", got)
			}

			if err := setgroups(groups); err != nil {
				return fmt.Errorf("cannot restore groups: %v", err)
			}

			return nil
		}

		if err := setgroups(nil); err != nil {
			restored = true
			errc <- fmt.Errorf("setgroups: %v", err)

			return
		}

		setfs(syscall.SYS_SETFSGID, gid)
		setfs(syscall.SYS_SETFSUID, uid)

		// the second call returns the value now in force
		if g, u := setfs(syscall.SYS_SETFSGID, gid), setfs(syscall.SYS_SETFSUID, uid); g != gid || u != uid {
			err := restore()
			restored = err == nil
			errc <- fmt.Errorf("setfsuid/setfsgid not effective (fsuid %d fsgid %d) %v", u, g, err)

			return
		}

		var perr error

		func() {
			defer func() {
				if r := recover(); r != nil {
					perr = fmt.Errorf("panic in oracle pass: %v", r)
				}
			}()

			f()
		}()

		err = restore()
		restored = err == nil

		if err == nil {
			err = perr
		}

		errc <- err
	}()

	return <-errc
}

// permFileModes is the alphabet of modes given to regular files in the
// non-administrator part (everything is owned by root, the asking user is in
// the "others" class): another owner's private file, a write-only drop file
// and a file with no bits at all; thorough adds an owner-write-only file and
// a file that others may execute but not read.
func permFileModes(tier string) []uint32 {
	if tier == "thorough" {
		return []uint32{0o10600, 0o10622, 0o10000, 0o10200, 0o10711}
	}

	return []uint32{0o10600, 0o10622, 0o10000}
}

// permModeNames lists the file modes of the tier for the bound text.
func permModeNames(tier string) string {
	var l []string
	for _, m := range permFileModes(tier) {
		l = append(l, fmt.Sprintf("%04o", m&0o7777))
	}

	return strings.Join(l, "/")
}

// permScenarios: small trees with one directory whose permission bits are
// 0000, 0111 or 0444 (everything is owned by root), then trees whose regular
// files are reachable but not readable.
//
// Lesson (round 9): the permission a call needs is part of what it answers.
// Stat needs search permission on the directories of the path and NOTHING on
// the entry itself; opening needs read permission on the entry. A helper that
// is specified by "what Stat and ReadDir imply" may open only what ReadDir
// would open (a directory) - one that reaches its answer through a handle
// (open, then File.Stat) answers "permission denied" for every entry the user
// can see but not read. That is invisible to the administrator and on trees
// whose files are all 0644, so the non-administrator pass has to hold entries
// that can be Stat'ed but not read: regular files, empty and not, at the top
// and below a directory, behind a symbolic link, and below directories that
// are themselves searchable-only / readable-only / closed.
func permScenarios(tier string) [][]ent {
	f := func(n string) ent { return ent{Name: n, Kind: "f"} }
	no := func(n string) ent { return ent{Name: n, Kind: "-"} }
	d := func(n string, mode uint32, kids ...ent) ent {
		return ent{Name: n, Kind: "d", Kids: kids, Mode: mode}
	}
	fm := func(n, kind string, mode uint32) ent { return ent{Name: n, Kind: kind, Mode: mode} }

	var out [][]ent

	for _, m := range []uint32{0o10000, 0o10111, 0o10444} {
		out = append(out,
			// restricted top-level directory with a file and a directory inside
			[]ent{d("a", m, f("a"), d("b", 0)), f("b")},
			// restricted nested directory
			[]ent{d("a", 0, f("a"), d("b", m)), f("b")},
			// restricted first directory, readable second one (walk must go on)
			[]ent{d("a", m, f("a"), no("b")), d("b", 0, f("a"), no("b"))},
			// restricted last directory
			[]ent{d("a", 0, f("a"), no("b")), d("b", m, f("a"), no("b"))},
			// symbolic link to the restricted directory
			[]ent{d("a", m, f("a"), no("b")), {Name: "b", Kind: "s"}},
		)
	}

	for _, m := range permFileModes(tier) {
		out = append(out,
			// unreadable files, with content and empty, below a directory and at the top
			[]ent{d("a", 0, fm("a", "f", m), fm("b", "e", m)), fm("b", "f", m)},
			// unreadable empty file at the top and a symbolic link to it
			[]ent{fm("a", "e", m), {Name: "b", Kind: "s"}},
			// unreadable file with content behind a symbolic link; the link is the first name
			[]ent{{Name: "a", Kind: "s"}, fm("b", "f", m)},
		)
	}

	// unreadable files below a directory that is closed / searchable only /
	// readable only (what can be Stat'ed differs in each) and an unreadable
	// empty file of the other mode beside it (thorough: every pair of modes)
	for _, dm := range []uint32{0o10000, 0o10111, 0o10444} {
		pairs := [][2]uint32{{0o10600, 0o10622}}
		if tier == "thorough" {
			pairs = nil

			for _, m := range permFileModes(tier) {
				for _, m2 := range permFileModes(tier) {
					pairs = append(pairs, [2]uint32{m, m2})
				}
			}
		}

		for _, mm := range pairs {
			out = append(out,
				[]ent{d("a", dm, fm("a", "f", mm[0]), fm("b", "e", mm[0])), fm("b", "e", mm[1])},
			)
		}
	}

	return out
}

// permLabel names what is restricted in a scenario for the signatures: the
// position and kind of the first restricted entry, and the distinct modes of
// the tree in order of appearance.
func permLabel(es []ent) (which, mode string) {
	var modes []string

	note := func(pos string, e ent) {
		if e.Mode == 0 {
			return
		}

		if which == "" {
			which = pos

			if e.Kind != "d" {
				which += "-file"
			}
		}

		m := fmt.Sprintf("%04o", e.Mode&0o7777)
		if e.Kind != "d" {
			m = "f" + m
		}

		for _, x := range modes {
			if x == m {
				return
			}
		}

		modes = append(modes, m)
	}

	for _, e := range es {
		note("top", e)

		for _, k := range e.Kids {
			note("nested", k)
		}
	}

	if which == "" {
		return "none", ""
	}

	return which, strings.Join(modes, "+")
}

// runPerm is the non-administrator part: MemFS seen by an ordinary user versus
// the kernel under setfsuid/setfsgid. Returns a harness error text ("" if the
// sandbox behaved).
func runPerm(c *checker, tier string) string {
	if os.Geteuid() != 0 {
		return "non-administrator part needs root (setfsuid)"
	}

	c.user = "nonadmin"
	scen := permScenarios(tier)

	// probe: the sandbox must enforce DAC for the switched thread
	probe := []ent{{Name: "a", Kind: "d", Mode: 0o10000, Kids: []ent{{Name: "a", Kind: "f"}, {Name: "b", Kind: "-"}}}, {Name: "b", Kind: "-"}}
	if err := prepareKernel(c.R, treeOps(probe)); err != nil {
		return "probe tree: " + err.Error()
	}

	var e1, e2, e3 error

	if err := asUser(1001, 1001, func() {
		_, e1 = os.ReadDir(c.R + "/a")
		_, e2 = os.Lstat(c.R)
		_, e3 = os.ReadDir(c.R)
	}); err != nil {
		return "asUser: " + err.Error()
	}

	if fsx.ErrKind(e1) != "EACCES" || e2 != nil || e3 != nil {
		return fmt.Sprintf("sandbox does not enforce permissions as expected under setfsuid: ReadDir(mode 0 dir)=%s Lstat(R)=%v ReadDir(R)=%v",
			fsx.ErrKind(e1), e2, e3)
	}

	if _, err := os.ReadDir(c.R + "/a"); err != nil {
		return "credentials not restored after asUser: " + err.Error()
	}

	for i, es := range scen {
		ops := treeOps(es)

		if err := prepareKernel(c.R, ops); err != nil {
			return "kernel tree: " + err.Error()
		}

		uid, gid := -1, -1

		view := func(in *inst) (avfs.VFS, error) {
			idm := in.base.Idm()

			if _, err := idm.AddGroup("g14"); err != nil {
				return nil, fmt.Errorf("AddGroup: %v", err)
			}

			u, err := idm.AddUser("u14", "g14")
			if err != nil {
				return nil, fmt.Errorf("AddUser: %v", err)
			}

			uid, gid = u.Uid(), u.Gid()

			sub, err := in.base.Sub("/")
			if err != nil {
				return nil, fmt.Errorf("Sub(/): %v", err)
			}

			if err := sub.SetUser(u); err != nil {
				return nil, fmt.Errorf("SetUser: %v", err)
			}

			if in.base.User().Uid() != 0 || sub.User().Uid() != uid {
				return nil, fmt.Errorf("view does not keep its own user")
			}

			if err := sub.Chdir(c.R); err != nil {
				return nil, fmt.Errorf("Chdir(R) as user: %s", fsx.ErrKind(err))
			}

			return sub, nil
		}

		// learn the ids the identity manager hands out (fresh instance, same every time)
		probeInst, err := buildInst("MemFS", c.R, nil)
		if err != nil {
			return "MemFS: " + err.Error()
		}

		if _, err := view(probeInst); err != nil {
			return "MemFS view: " + err.Error()
		}

		var qr []qres

		qs := c.u.plainQueries()

		if err := asUser(uid, gid, func() { qr = oraclePass(c.R, qs) }); err != nil {
			return "asUser: " + err.Error()
		}

		which, mode := permLabel(es)
		c.extra = map[string]string{"user": "nonadmin", "mode": mode, "restricted": which}

		c.checkTree(es, ops, qs, qr, []string{"MemFS"}, view)
		c.st.TreesDone = append(c.st.TreesDone, i)

		if i < 3 {
			c.addSamples(es, qr, len(c.st.Samples)+2)
		}
	}

	c.extra = nil

	return ""
}
