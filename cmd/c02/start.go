package main

// Start states with a history.
//
// General lesson: what can be observed of a file (its bytes, its size) does not
// determine the state of the implementation behind it. A buffer that was once
// longer keeps the old bytes in its spare capacity; a file that was emptied by
// Truncate(0), by O_TRUNC or by being written over has gone through different
// code than one that never held anything; a gap made by Truncate or by a write
// beyond the end was filled by somebody. Code that re-uses storage ("the
// capacity is large enough, no need to allocate") is right on every file that
// only ever grew and wrong on one that shrank before. A search that always
// starts from a file made by one WriteFile needs the whole past of the file
// inside its depth bound; so the past is put into the START STATE: every
// system below begins where a short prologue (executed on both sides, call by
// call, with the same comparisons as any other call) has left the file, and
// the full alphabet is explored from there. Whatever is then written, extended
// or read is compared with the kernel byte for byte through every name and
// every readable handle after every call, as everywhere in this driver.

import (
	"fmt"
	"os"
	"strings"

	"github.com/avfs/avfs"

	"verif/lib/bfs"
	"verif/lib/fsx"
)

// prepStep is one call of a prologue.
type prepStep struct {
	Kind   string // WriteFile | P.Truncate | open | Write | Seek | Truncate | Close | keep
	Flags  int
	Data   string
	N      int64
	Whence int
}

func (p prepStep) String() string {
	switch p.Kind {
	case "WriteFile":
		return fmt.Sprintf("WriteFile(f,%q,0644)", p.Data)
	case "P.Truncate":
		return fmt.Sprintf("Truncate(f,%d)", p.N)
	case "open":
		return fmt.Sprintf("h=OpenFile(f,%s,0640)", fsx.FlagString(p.Flags))
	case "Write":
		return fmt.Sprintf("h.Write(%q)", p.Data)
	case "Seek":
		return fmt.Sprintf("h.Seek(%d,%d)", p.N, p.Whence)
	case "Truncate":
		return fmt.Sprintf("h.Truncate(%d)", p.N)
	case "Close":
		return "h.Close()"
	case "keep":
		return "h0=h (stays open)"
	}

	return p.Kind
}

type startState struct {
	Name  string
	What  string
	Steps []prepStep
}

// startStates lists the histories a file may have behind it when the search
// starts. The names are the <content> part of a system name.
var startStates = []startState{
	{
		Name: "abcdef.pt2", What: "written long, then shrunk to a non-zero size through its name (content \"ab\")",
		Steps: []prepStep{{Kind: "WriteFile", Data: "abcdef"}, {Kind: "P.Truncate", N: 2}},
	},
	{
		Name: "abcdef.h0@end.ht2", What: "a handle opened O_RDWR and moved to the end of the long file shrinks the file itself and stays open in slot 0 (content \"ab\", offset of h0 = 6)",
		Steps: []prepStep{
			{Kind: "WriteFile", Data: "abcdef"}, {Kind: "open", Flags: os.O_RDWR}, {Kind: "Seek", N: 0, Whence: 2},
			{Kind: "Truncate", N: 2}, {Kind: "keep"},
		},
	},
	{
		Name: "abcdef.pt0.hw-ab", What: "written long, emptied by Truncate(0), written again shorter through a handle (content \"ab\")",
		Steps: []prepStep{
			{Kind: "WriteFile", Data: "abcdef"}, {Kind: "P.Truncate", N: 0},
			{Kind: "open", Flags: os.O_WRONLY}, {Kind: "Write", Data: "ab"}, {Kind: "Close"},
		},
	},
	// ---- thorough tier only
	{
		Name: "ab.pt5", What: "extended by Truncate through its name (content \"ab\\0\\0\\0\")",
		Steps: []prepStep{{Kind: "WriteFile", Data: "ab"}, {Kind: "P.Truncate", N: 5}},
	},
	{
		Name: "abcdef.ht2", What: "written long, then shrunk to a non-zero size through a handle (content \"ab\")",
		Steps: []prepStep{{Kind: "WriteFile", Data: "abcdef"}, {Kind: "open", Flags: os.O_RDWR}, {Kind: "Truncate", N: 2}, {Kind: "Close"}},
	},
	{
		Name: "abcdef.h0@end.pt2", What: "a handle opened O_RDWR and moved to the end of the long file stays open in slot 0 while the file is shrunk through its name (content \"ab\", offset of h0 = 6)",
		Steps: []prepStep{
			{Kind: "WriteFile", Data: "abcdef"}, {Kind: "open", Flags: os.O_RDWR}, {Kind: "Seek", N: 0, Whence: 2}, {Kind: "keep"},
			{Kind: "P.Truncate", N: 2},
		},
	},
	{
		Name: "ab.ht5", What: "extended by Truncate through a handle (content \"ab\\0\\0\\0\")",
		Steps: []prepStep{{Kind: "WriteFile", Data: "ab"}, {Kind: "open", Flags: os.O_WRONLY}, {Kind: "Truncate", N: 5}, {Kind: "Close"}},
	},
	{
		Name: "ab.seek4.hw-e", What: "extended by a write beyond its end (content \"ab\\0\\0e\")",
		Steps: []prepStep{
			{Kind: "WriteFile", Data: "ab"}, {Kind: "open", Flags: os.O_WRONLY}, {Kind: "Seek", N: 4, Whence: 0},
			{Kind: "Write", Data: "e"}, {Kind: "Close"},
		},
	},
	{
		Name: "abcdef.otrunc.hw-ab", What: "written long, emptied by an open with O_TRUNC, written again shorter through that handle (content \"ab\")",
		Steps: []prepStep{
			{Kind: "WriteFile", Data: "abcdef"}, {Kind: "open", Flags: os.O_WRONLY | os.O_TRUNC}, {Kind: "Write", Data: "ab"}, {Kind: "Close"},
		},
	},
	{
		Name: "abcdef.wf-ab", What: "written long, then written over by a shorter WriteFile (content \"ab\")",
		Steps: []prepStep{{Kind: "WriteFile", Data: "abcdef"}, {Kind: "WriteFile", Data: "ab"}},
	},
}

// quickStarts is the number of leading entries of startStates the quick tier explores.
const quickStarts = 3

func startNames(n int) []string {
	var names []string

	for i, st := range startStates {
		if i < n {
			names = append(names, st.Name)
		}
	}

	return names
}

func findStart(name string) *startState {
	for i := range startStates {
		if startStates[i].Name == name {
			return &startStates[i]
		}
	}

	return nil
}

// startText describes the start state of a file system (for replays).
func startText(system string) string {
	parts := strings.Split(system, "/")
	if len(parts) != 5 || parts[1] != "file" {
		return ""
	}

	st := findStart(parts[2])
	if st == nil {
		return fmt.Sprintf("WriteFile(f,%q,0644) on both sides", strings.Replace(parts[2], "empty", "", 1))
	}

	var calls []string
	for _, p := range st.Steps {
		calls = append(calls, p.String())
	}

	return st.What + ": " + strings.Join(calls, "; ") + " on both sides before the history starts"
}

// startDiffers records that the two sides differ before the first call of a history.
func (s *fsys) startDiffers(step, diff, exp, obs string) {
	parts := strings.Split(s.name, "/")

	s.preViol = &bfs.Viol{
		Sig: map[string]string{"fs": s.fsName, "kind": "start-state", "start": parts[2], "step": step, "diff": diff},
		Detail: detail{
			What: "the two sides differ in the start state (" + startText(s.name) + ")", Call: step,
			Expected: strings.ReplaceAll(exp, s.R, "R"), Observed: strings.ReplaceAll(obs, s.R, "R"),
		}.String(),
	}

	if s.trace {
		fmt.Printf("  %-46s START STATES DIFFER: kernel %s, avfs %s\n", step, exp, obs)
	}
}

// prepCall executes one call of the prologue on one side; *h is that side's handle.
func (s *fsys) prepCall(kernel bool, p prepStep, h *hfile) res {
	switch p.Kind {
	case "WriteFile":
		var err error

		data := []byte(p.Data)
		if kernel {
			err = os.WriteFile(s.fp, data, 0o644)
		} else {
			err = s.v.WriteFile(s.fp, data, 0o644)
		}

		fsx.Scribble(data)

		return res{Kind: errKind(err), Msg: errMsg(err)}
	case "P.Truncate":
		var err error

		if kernel {
			err = os.Truncate(s.fp, p.N)
		} else {
			err = s.v.Truncate(s.fp, p.N)
		}

		return res{Kind: errKind(err), Msg: errMsg(err)}
	case "open":
		var err error

		if kernel {
			var f *os.File

			if f, err = os.OpenFile(s.fp, p.Flags, 0o640); err == nil {
				*h = f
			}
		} else {
			var f avfs.File

			if f, err = s.v.OpenFile(s.fp, p.Flags, 0o640); err == nil {
				*h = f
			}
		}

		return res{Kind: errKind(err), Msg: errMsg(err)}
	}

	if *h == nil {
		return res{Kind: "no-handle"}
	}

	switch p.Kind {
	case "Write":
		data := []byte(p.Data)
		n, err := (*h).Write(data)
		fsx.Scribble(data)

		return res{Kind: errKind(err), N: n, Msg: errMsg(err)}
	case "Seek":
		r, err := (*h).Seek(p.N, p.Whence)

		return res{Kind: errKind(err), Off: r, Msg: errMsg(err)}
	case "Truncate":
		err := (*h).Truncate(p.N)

		return res{Kind: errKind(err), Msg: errMsg(err)}
	case "Close":
		err := (*h).Close()
		*h = nil

		return res{Kind: errKind(err), Msg: errMsg(err)}
	}

	panic("c02: unknown prologue step " + p.Kind)
}

// prologue brings both sides into the start state of a history-start system.
// An error is a harness error (the kernel side refused a call of the table); a
// difference between the two sides is recorded in s.preViol and reported as a
// violation by every first call.
func (s *fsys) prologue() error {
	var (
		kh, vh hfile
		flags  int
	)

	defer func() {
		if kh != nil {
			_ = kh.Close()
		}
	}()

	for _, p := range s.start {
		if p.Kind == "keep" {
			kf, _ := kh.(*os.File)
			vf, _ := vh.(avfs.File)

			if kf == nil || vf == nil || len(s.slots) == 0 {
				return fmt.Errorf("prologue: no handle / no slot to keep")
			}

			s.slots[0] = slot{st: stOpen, flags: flags, k: kf, v: vf}
			kh, vh = nil, nil

			if s.trace {
				fmt.Printf("  %-46s\n", p.String())
			}

			continue
		}

		if p.Kind == "open" {
			flags = p.Flags
		}

		rk := s.prepCall(true, p, &kh)
		if rk.Kind != "ok" {
			return fmt.Errorf("prologue: kernel side: %s: %s", p, rk)
		}

		rv := guarded(func() res { return s.prepCall(false, p, &vh) })

		if s.trace {
			fmt.Printf("  %-46s kernel %s\n  %-46s avfs   %s\n", p.String(), rk, "", strings.ReplaceAll(rv.String(), s.R, "R"))
		}

		if rk.Kind != rv.Kind || rk.N != rv.N || rk.Off != rv.Off {
			d := "result"
			if rk.Kind == rv.Kind {
				d = "count-or-offset"
			}

			s.startDiffers(p.Kind, d, rk.String(), rv.String())

			return nil
		}
	}

	return nil
}
