package main

// Directory-handle system of C02: a directory R/d with k entries, two handles
// opened on it, histories of ReadDir(n)/Readdirnames(n)/Close, with up to
// maxMods modifications of the directory in between (an entry that sorts before
// / after all others created, the first / the last entry removed, the first
// entry renamed to a name that sorts last). The kernel's entry ORDER is
// unspecified, so the oracle is: same batch sizes and error kinds as *os.File,
// every name delivered at most once over the life of the handle, only names
// of the directory (with the right type), union = directory content once the
// kernel has delivered everything, then io.EOF.
//
// A handle that had started reading when the directory was modified is not
// compared with the kernel (its answers are file-system specific there) but is
// judged by the rule every directory stream obeys (getdents, os.File, what the
// property's "each entry exactly once ... then io.EOF" means while the directory
// changes): an entry that exists during the WHOLE listing - from the first piece
// to io.EOF - is delivered exactly once, whatever is created, removed or renamed
// meanwhile; entries that came or went meanwhile may or may not appear
// (violations of kind whole-listing, see listing below).

import (
	"fmt"
	"io/fs"
	"os"
	"path/filepath"
	"sort"
	"strings"

	"github.com/avfs/avfs"

	"verif/lib/bfs"
	"verif/lib/fsx"
	"verif/lib/kf"
)

type dop struct {
	Kind string // ReadDir Readdirnames Close | Create Remove Rename
	Slot int
	N    int
	Arg  string // Create, Remove: the entry; Rename: the old name
	To   string // Rename: the new name
}

func (o dop) String() string {
	switch o.Kind {
	case "Create":
		return "WriteFile(d/" + o.Arg + ")"
	case "Remove":
		return "Remove(d/" + o.Arg + ")"
	case "Rename":
		return "Rename(d/" + o.Arg + ",d/" + o.To + ")"
	case "Close":
		return fmt.Sprintf("h%d.Close()", o.Slot)
	}

	return fmt.Sprintf("h%d.%s(%d)", o.Slot, o.Kind, o.N)
}

type dslot struct {
	st      int
	k       *os.File
	v       avfs.File
	usedD   bool
	usedN   bool
	started bool           // a read call was made on this handle
	stale   bool           // ... before the directory was modified: kernel answers are file-system specific from then on
	kdel    []string       // names delivered by the kernel
	vdel    map[string]int // names delivered by the emulation
	lst     listing        // the listing in progress on the emulated handle
}

// listing is what the emulated handle owes its caller, judged without the kernel: the
// pieces ReadDir(n) or Readdirnames(n), n > 0, deliver from the first call on a handle
// up to the first io.EOF are ONE listing; whole holds
// the names that have been in the directory since that listing began (a name that is
// removed, renamed away or replaced meanwhile leaves it, a name that is created meanwhile
// never enters it), got counts what the listing has delivered. Every name of whole must
// be delivered exactly once before io.EOF.
//
// The lesson: code that lists "in pieces" keeps a cursor; a cursor that is an INDEX is only
// right for the list it was taken from. An implementation that looks at the directory again
// between two pieces (to drop removed names, to show new ones) while it keeps the numeric
// cursor skips or repeats entries that were there all the time - the loop "read a piece,
// remove what it named, read the next piece" (os.RemoveAll) then leaves entries behind. So
// the directory is modified between the pieces before AND behind the cursor (first / last
// name in either order, a name that sorts before / after every other), and what was
// delivered is judged against what existed all along, not only against the end state.
//
// Handles that mix ReadDir and Readdirnames or use n <= 0 are not judged by this rule (kind
// "mixed"): the emulation's two caches and shared cursor re-deliver there (known finding,
// compared with the kernel above).
type listing struct {
	kind  string          // "" no read call yet | ReadDir | Readdirnames | mixed | ended
	whole map[string]bool // nil: no listing in progress
	got   map[string]int
}

func (l *listing) String() string {
	if l.whole == nil {
		return l.kind + ":-"
	}

	var got []string

	for n, c := range l.got {
		got = append(got, fmt.Sprintf("%s*%d", n, c))
	}

	sort.Strings(got)

	return fmt.Sprintf("%s:whole%v:got%v", l.kind, sortedNames(l.whole), got)
}

// gone is called when a name stops denoting the entry it denoted (removed, renamed away, replaced).
func (l *listing) gone(name string) {
	if l.whole != nil {
		delete(l.whole, name)
	}
}

// piece records one read call of the emulated handle that returned (kind ok or EOF) and
// returns what the rule has to say about it.
func (l *listing) piece(call string, n int, kind string, names []string, content map[string]bool) (diffs, whats []string) {
	if l.kind != "ended" && (n <= 0 || (l.kind != "" && l.kind != call)) {
		l.kind, l.whole, l.got = "mixed", nil, nil
	}

	if l.kind == "mixed" || l.kind == "ended" {
		return nil, nil
	}

	l.kind = call

	if l.whole == nil {
		l.whole, l.got = map[string]bool{}, map[string]int{}

		for c := range content {
			l.whole[c] = false
		}
	}

	for _, name := range names {
		name = strings.TrimSuffix(name, "/")
		l.got[name]++

		if _, ok := l.whole[name]; ok && l.got[name] == 2 {
			diffs = append(diffs, "twice")
			whats = append(whats, "an entry that was in the directory during the whole listing was delivered twice by that listing: "+name)
		}
	}

	if kind == "EOF" {
		for _, name := range sortedNames(l.whole) {
			if l.got[name] == 0 {
				diffs = append(diffs, "missed")
				whats = append(whats, "io.EOF, and an entry that was in the directory during the whole listing was never delivered: "+name)
			}
		}

		// the listing is over; os.File answers io.EOF from here on, the emulation starts again
		// (known finding, compared with the kernel above): nothing more to judge on this handle
		l.kind, l.whole, l.got = "ended", nil, nil
	}

	return diffs, whats
}

type dsys struct {
	name     string
	fsName   string
	k        int
	R        string
	dp       string
	v        avfs.VFS
	ops      []dop
	slots    [2]dslot
	maxMods  int
	mods     int             // modifications of the directory made so far
	content  map[string]bool // current content (kernel side): name -> is directory
	previous map[string]bool // every entry the directory has had: name -> is directory
	key      string
	trace    bool
	kept     keeper // every DirEntry, and the FileInfo of its Info(), the emulated handles have delivered since Reset (kept.go)
}

func buildDirOps(k, maxMods int) []dop {
	var ops []dop

	for s := 0; s < 2; s++ {
		for _, k := range []string{"ReadDir", "Readdirnames"} {
			for _, n := range []int{-1, 0, 1, 2, 5} {
				ops = append(ops, dop{Kind: k, Slot: s, N: n})
			}
		}

		ops = append(ops, dop{Kind: "Close", Slot: s})
	}

	// modifications before and behind every cursor: the emulation lists by name (e1 first),
	// tmpfs by age (the newest first), so the first and the last entry and a new name that
	// sorts before (c) and after (z) every other cover both ends on both sides; the Rename
	// takes a name away at one end and adds (or replaces) one at the other in one call
	// (with one modification per history the Rename is the call that adds z; WriteFile(z) is
	// in the alphabet from two modifications on, where it makes the Rename a replacing one)
	ops = append(ops, dop{Kind: "Create", Slot: -1, Arg: "c"})

	if maxMods > 1 {
		ops = append(ops, dop{Kind: "Create", Slot: -1, Arg: "z"})
	}

	ops = append(ops, dop{Kind: "Remove", Slot: -1, Arg: "e1"})

	if k > 1 {
		ops = append(ops, dop{Kind: "Remove", Slot: -1, Arg: dirEntries[k-1].name})
	}

	return append(ops, dop{Kind: "Rename", Slot: -1, Arg: "e1", To: "z"})
}

func (s *dsys) NumOps() int           { return len(s.ops) }
func (s *dsys) OpString(i int) string { return s.ops[i].String() }
func (s *dsys) Key() string           { return s.key }

func (s *dsys) closeHandles() {
	for i := range s.slots {
		if s.slots[i].k != nil {
			_ = s.slots[i].k.Close()
		}

		s.slots[i] = dslot{}
	}
}

func (s *dsys) Close() {
	s.closeHandles()
	_ = os.Chdir("/")
	_ = os.RemoveAll(filepath.Dir(s.R))
}

var dirEntries = []struct {
	name string
	dir  bool
}{{"e1", false}, {"e2", true}, {"e3", false}, {"e4", true}}

func (s *dsys) Reset() error {
	s.closeHandles()
	_ = os.Chdir("/")

	if err := cleanDir(s.R); err != nil {
		return err
	}

	if err := os.MkdirAll(s.dp, 0o755); err != nil {
		return err
	}

	s.v = newVFS(s.fsName)
	_ = s.v.SetUMask(0o022)
	s.kept.reset(s.v)

	if err := s.v.MkdirAll(s.dp, 0o755); err != nil {
		return fmt.Errorf("avfs MkdirAll(R/d): %v", err)
	}

	for _, e := range dirEntries[:s.k] {
		p := s.dp + "/" + e.name

		var err1, err2 error

		if e.dir {
			err1, err2 = os.Mkdir(p, 0o755), s.v.Mkdir(p, 0o755)
		} else {
			err1, err2 = os.WriteFile(p, []byte("x"), 0o644), s.v.WriteFile(p, []byte("x"), 0o644)
		}

		if err1 != nil || err2 != nil {
			return fmt.Errorf("setup of %s: kernel %v, avfs %v", p, err1, err2)
		}
	}

	for i := range s.slots {
		kh, err := os.OpenFile(s.dp, os.O_RDONLY, 0)
		if err != nil {
			return err
		}

		vf, err := s.v.OpenFile(s.dp, os.O_RDONLY, 0)
		if err != nil {
			_ = kh.Close()

			return fmt.Errorf("avfs OpenFile(R/d): %v", err)
		}

		s.slots[i] = dslot{st: stOpen, k: kh, v: vf, vdel: map[string]int{}}
	}

	s.mods = 0
	s.previous = map[string]bool{}

	if err := s.readContent(); err != nil {
		return err
	}

	s.mkKey()

	return nil
}

func (s *dsys) readContent() error {
	es, err := os.ReadDir(s.dp)
	if err != nil {
		return err
	}

	s.content = map[string]bool{}
	for _, e := range es {
		s.content[e.Name()] = e.IsDir()
		s.previous[e.Name()] = e.IsDir()
	}

	return nil
}

func sortedNames(m map[string]bool) []string {
	var out []string

	for n, d := range m {
		if d {
			n += "/"
		}

		out = append(out, n)
	}

	sort.Strings(out)

	return out
}

func (s *dsys) mkKey() {
	var b strings.Builder

	fmt.Fprintf(&b, "content=%v mods=%d ", sortedNames(s.content), s.mods)

	for i := range s.slots {
		sl := &s.slots[i]
		if sl.st != stOpen {
			fmt.Fprintf(&b, "| h%d:%s ", i, stNames[sl.st])

			continue
		}

		del := append([]string{}, sl.kdel...)
		sort.Strings(del)
		fmt.Fprintf(&b, "| h%d:open D%v N%v started=%v stale=%v del=%v lst=%s ", i, sl.usedD, sl.usedN, sl.started, sl.stale, del, sl.lst.String())
	}

	s.key = b.String()
}

type dres struct {
	Kind  string   `json:"kind"`
	Names []string `json:"names"` // directories carry a trailing "/" (ReadDir only)
	Msg   string   `json:"msg,omitempty"`
}

func (r dres) String() string {
	return fmt.Sprintf("%s %v %s", r.Kind, r.Names, r.Msg)
}

// dcall executes a call on one side; keep (nil on the kernel side) is given every entry a ReadDir delivers.
func dcall(h hfile, o dop, keep func(call string, de fs.DirEntry)) dres {
	switch o.Kind {
	case "ReadDir":
		es, err := h.ReadDir(o.N)
		r := dres{Kind: errKind(err), Msg: errMsg(err)}

		for _, e := range es {
			n := e.Name()
			if e.IsDir() {
				n += "/"
			}

			r.Names = append(r.Names, n)

			if keep != nil {
				keep(o.String(), e)
			}
		}

		// what a caller may do with a slice it was given: overwrite it and append to
		// it (os.File hands out a fresh slice per call; a piece of a listing the handle
		// keeps for the next pieces would be written over through its spare capacity)
		for i := range es[:cap(es)] {
			es[:cap(es)][i] = nil
		}

		return r
	case "Readdirnames":
		ns, err := h.Readdirnames(o.N)
		r := dres{Kind: errKind(err), Names: append([]string(nil), ns...), Msg: errMsg(err)}

		for i := range ns[:cap(ns)] {
			ns[:cap(ns)][i] = "\x00scribbled"
		}

		return r
	case "Close":
		err := h.Close()

		return dres{Kind: errKind(err), Msg: errMsg(err)}
	}

	panic("c02: unknown dir op " + o.Kind)
}

func lenClass(l, n, remaining int) string {
	switch {
	case l == 0:
		return "0"
	case n > 0 && l == n:
		return "n"
	case l == remaining:
		return "rest"
	case n > 0 && l > n:
		return ">n"
	case l > remaining:
		return ">rest"
	}

	return "<rest"
}

func (s *dsys) Step(i int) bfs.StepResult {
	o := s.ops[i]
	keyBefore := s.key

	var viols []bfs.Viol

	szCls := "empty"
	if len(s.content) > 0 {
		szCls = "nonempty"
	}

	if o.Slot < 0 {
		// at most maxMods modifications of the directory per history
		if s.mods >= s.maxMods {
			return bfs.StepResult{Key: s.key, Outcome: "skip"}
		}

		s.kept.next()

		p, q := s.dp+"/"+o.Arg, s.dp+"/"+o.To

		var kcall, vcall func() error

		switch o.Kind {
		case "Create":
			kcall = func() error { return os.WriteFile(p, []byte("x"), 0o644) }
			vcall = func() error { return s.v.WriteFile(p, []byte("x"), 0o644) }
		case "Remove":
			kcall = func() error { return os.Remove(p) }
			vcall = func() error { return s.v.Remove(p) }
		default:
			kcall = func() error { return os.Rename(p, q) }
			vcall = func() error { return s.v.Rename(p, q) }
		}

		kerr := kcall()
		rk := res{Kind: errKind(kerr), Msg: errMsg(kerr)}
		rv := guarded(func() res {
			err := vcall()

			return res{Kind: errKind(err), Msg: errMsg(err)}
		})

		broken := rv.Kind == "PANIC" || rv.Kind == "DEADLOCK"

		if rk.Kind != rv.Kind {
			broken = true
			viols = append(viols, bfs.Viol{
				Sig:    map[string]string{"fs": s.fsName, "call": "dir." + o.Kind, "handle": "-", "arg": o.Arg, "sizeclass": szCls, "kernel": rk.Kind, "avfs": rv.Kind, "kind": "result"},
				Detail: detail{What: "error kind differs", Call: o.String(), Expected: rk.String(), Observed: rv.String()}.String(),
			})
		}

		if rk.Kind == "ok" {
			s.mods++

			for j := range s.slots {
				if s.slots[j].st == stOpen && s.slots[j].started {
					s.slots[j].stale = true
				}

				// the names that stopped denoting the entry they denoted (a WriteFile of an
				// existing name keeps the entry)
				if o.Kind != "Create" {
					s.slots[j].lst.gone(o.Arg)
				}

				if o.Kind == "Rename" {
					s.slots[j].lst.gone(o.To)
				}
			}
		}

		if err := s.readContent(); err != nil {
			broken = true
		}

		if !broken {
			viols = append(viols, s.keptViols(o, "-", o.Arg, szCls, rk.Kind, rv.Kind)...)
		}

		s.mkKey()

		if broken {
			s.key = "broken|" + s.key
		}

		s.tracef(o.String(), rk.String(), rv.String(), viols)

		return bfs.StepResult{Changed: s.key != keyBefore, Key: s.key, Broken: broken, Rebuild: broken, Outcome: "dir." + o.Kind + "/" + rk.Kind, Viols: viols}
	}

	sl := &s.slots[o.Slot]
	remaining := len(s.content) - len(sl.kdel)

	hclass := "closed"

	if sl.st == stOpen {
		switch {
		case len(sl.kdel) == 0:
			hclass = "open:fresh"
		case remaining > 0:
			hclass = "open:partial"
		default:
			hclass = "open:exhausted"
		}

		if (sl.usedD && o.Kind == "Readdirnames") || (sl.usedN && o.Kind == "ReadDir") {
			hclass += ":mixed"
		}

		if sl.stale {
			hclass += ":stale"
		}
	}

	rk := dcall(sl.k, o, nil)

	var rv dres

	s.kept.next()

	gk, gmsg := fsx.Guard(func() { rv = dcall(sl.v, o, s.kept.keepEntry) })
	if gk != "" {
		rv = dres{Kind: gk, Msg: gmsg}
	}

	arg := ""
	kc, vc := rk.Kind, rv.Kind

	if o.Kind != "Close" {
		arg = fmt.Sprintf("n=%d", o.N)
		kc += ":len=" + lenClass(len(rk.Names), o.N, remaining)
		vc += ":len=" + lenClass(len(rv.Names), o.N, remaining)
	}

	if gk != "" {
		vc = gk + ":" + stripDigits(strings.SplitN(gmsg, " @ ", 2)[0])
	}

	sig := func(kind string) map[string]string {
		return map[string]string{"fs": s.fsName, "call": "dir." + o.Kind, "handle": hclass, "arg": arg, "sizeclass": szCls, "kernel": kc, "avfs": vc, "kind": kind}
	}

	add := func(kind, what string) {
		viols = append(viols, bfs.Viol{Sig: sig(kind), Detail: detail{What: what, Call: o.String(), Expected: rk.String(), Observed: rv.String()}.String()})
	}

	stale := sl.stale
	wasOpen := sl.st == stOpen

	switch {
	case gk != "":
		add("result", "the call did not return on the emulated side")
	case !wasOpen:
		if rv.Kind != "closed" && rv.Kind != rk.Kind {
			add("result", "error kind differs")
		}
	case !stale && rk.Kind != rv.Kind:
		add("result", "error kind differs")
	case !stale && len(rk.Names) != len(rv.Names):
		add("batch", "batch size differs")
	}

	if o.Kind == "Close" {
		if wasOpen {
			sl.st = stClosed
		}
	} else if wasOpen && gk == "" {
		sl.started = true

		if o.Kind == "ReadDir" {
			sl.usedD = true
		} else {
			sl.usedN = true
		}

		for _, n := range rk.Names {
			sl.kdel = append(sl.kdel, strings.TrimSuffix(n, "/"))
		}

		// avfs-internal protocol clauses (hold with or without modification)
		switch {
		case rv.Kind != "ok" && rv.Kind != "EOF":
			if stale {
				add("protocol", "unexpected error from a directory read")
			}
		case o.N > 0 && len(rv.Names) > o.N:
			add("protocol", "batch larger than n")
		case o.N > 0 && (len(rv.Names) == 0) != (rv.Kind == "EOF"):
			add("protocol", "for n > 0 an empty batch must come with io.EOF and a non-empty one with a nil error")
		case o.N <= 0 && rv.Kind != "ok":
			add("protocol", "for n <= 0 the error at the end of the directory must be nil")
		}

		batch := map[string]bool{}

		for _, n := range rv.Names {
			isDir := strings.HasSuffix(n, "/")
			n = strings.TrimSuffix(n, "/")

			d, ok := s.content[n]
			if !ok && stale {
				d, ok = s.previous[n]
			}

			switch {
			case !ok:
				add("unknown-name", "a name that is not in the directory was delivered: "+n)
			case o.Kind == "ReadDir" && d != isDir:
				add("type", "entry type differs from the directory content: "+n)
			}

			if batch[n] || (!stale && sl.vdel[n] > 0) {
				add("dup", "a name was delivered twice through the same handle: "+n)
			}

			batch[n] = true
			sl.vdel[n]++
		}

		if !stale && len(viols) == 0 && len(sl.kdel) == len(s.content) && len(sl.vdel) != len(s.content) {
			add("union", "the kernel handle has delivered the whole directory, the emulated handle has not")
		}

		// the rule that needs no kernel: what existed during the whole listing is delivered exactly once
		if rv.Kind == "ok" || rv.Kind == "EOF" {
			diffs, whats := sl.lst.piece(o.Kind, o.N, rv.Kind, rv.Names, s.content)

			for j := range diffs {
				v := bfs.Viol{Sig: sig("whole-listing"), Detail: detail{What: whats[j], Call: o.String(), Expected: rk.String(), Observed: rv.String()}.String()}
				v.Sig["diff"] = diffs[j]
				viols = append(viols, v)
			}
		}
	}

	broken := len(viols) > 0

	// entries delivered earlier must still read as they did (kept.go); a changed value does not
	// make the futures of the two sides incomparable
	if gk == "" {
		viols = append(viols, s.keptViols(o, hclass, arg, szCls, kc, vc)...)
	}

	s.mkKey()

	if broken {
		s.key = "broken|" + s.key
	}

	s.tracef(o.String(), rk.String(), rv.String(), viols)

	return bfs.StepResult{Changed: s.key != keyBefore, Key: s.key, Broken: broken, Rebuild: broken, Outcome: "dir." + o.Kind + "/" + kc, Viols: dedupViols(viols)}
}

// keptViols reads every value the emulated handles have delivered so far again (kept.go).
func (s *dsys) keptViols(o dop, hclass, arg, szCls, kc, vc string) (viols []bfs.Viol) {
	for _, kd := range s.kept.check() {
		viols = append(viols, bfs.Viol{
			Sig: map[string]string{
				"fs": s.fsName, "call": "dir." + o.Kind, "handle": hclass, "arg": arg, "sizeclass": szCls, "kernel": kc, "avfs": vc,
				"kind": "kept-value", "from": kd.from, "diff": kd.diff,
			},
			Detail: detail{What: kd.what, Call: o.String(), Expected: kd.was, Observed: kd.now}.String(),
		})
	}

	return viols
}

func dedupViols(vs []bfs.Viol) []bfs.Viol {
	seen := map[string]bool{}

	var out []bfs.Viol

	for _, v := range vs {
		k := kf.Sig(v.Sig).String()
		if !seen[k] {
			seen[k] = true
			out = append(out, v)
		}
	}

	return out
}

func (s *dsys) tracef(call, rk, rv string, viols []bfs.Viol) {
	if !s.trace {
		return
	}

	fmt.Printf("  %-30s kernel %s\n  %-30s avfs   %s\n  %-30s key    %s\n", call, rk, "", rv, "", s.key)

	for _, v := range viols {
		fmt.Printf("  %-30s VIOL   %s %s\n", "", kf.Sig(v.Sig), v.Detail)
	}
}
