// c02: open-file I/O on MemFS / OrefaFS behaves as os.File on Linux.
// Engine A (bfs): every history up to a depth bound over a static alphabet of
// handle and path operations is executed on the real emulated file system
// and, in lock-step, on *os.File / package os in a tmpfs scratch directory
// (the Linux kernel is the oracle): same byte count, bytes, offset and error
// kind call by call; same content, size, attributes and offsets through every
// name and every open handle after every call; every FileInfo / DirEntry the
// emulated side has handed out earlier in the history is read again after
// every call and must not have changed (kept.go). State identity is taken from
// the kernel side. The file a history starts from is either fresh (one
// WriteFile) or has a history of its own (start.go: shrunk, extended, emptied
// and rewritten, with a handle left beyond its end). A second family of
// systems checks directory handles (ReadDir(n)/Readdirnames(n) batching).
package main

import (
	"encoding/json"
	"flag"
	"fmt"
	"os"
	"path/filepath"
	"sort"
	"strconv"
	"strings"
	"syscall"
	"time"

	"github.com/avfs/avfs/verifrt"

	"verif/lib/bfs"
	"verif/lib/ev"
	"verif/lib/kf"
)

// System names:
//
//	<FS>/file/<content>/s<slots>/<q|t>   content: empty | abc | abcdef | the name of a start state with a history (start.go);
//	                                     q = the quick flag sets, t = all 48
//	<FS>/dir/k<entries>/m<modifications of the directory per history>
func factory(trace bool) func(string) bfs.System {
	return func(name string) bfs.System {
		verifrt.SetMode(verifrt.ModeSeq)
		syscall.Umask(0o022)

		scratch := os.Getenv("VERIF_SCRATCH")
		if scratch == "" {
			scratch = "/dev/shm"
		}

		base := filepath.Join(scratch, fmt.Sprintf("c02-%d", os.Getpid()))
		R := filepath.Join(base, "w")
		parts := strings.Split(name, "/")

		switch {
		case len(parts) == 5 && parts[1] == "file":
			content := parts[2]
			if content == "empty" {
				content = ""
			}

			n, _ := strconv.Atoi(strings.TrimPrefix(parts[3], "s"))
			s := &fsys{name: name, fsName: parts[0], content: content, nslots: n, R: R, fp: R + "/f", gp: R + "/g", trace: trace}

			if st := findStart(parts[2]); st != nil {
				s.start = st.Steps
			} else if content != "" && content != "abc" && content != "abcdef" {
				fmt.Fprintln(os.Stderr, "c02: unknown start state", parts[2])
				os.Exit(2)
			}

			s.slots = make([]slot, n)
			s.ks = make([]kslot, n)
			s.ops = buildFileOps(n, parts[4] == "t")

			return s
		case len(parts) == 4 && parts[1] == "dir":
			k, _ := strconv.Atoi(strings.TrimPrefix(parts[2], "k"))
			m, _ := strconv.Atoi(strings.TrimPrefix(parts[3], "m"))

			return &dsys{name: name, fsName: parts[0], k: k, maxMods: m, R: R, dp: R + "/d", ops: buildDirOps(k, m), trace: trace}
		}

		fmt.Fprintln(os.Stderr, "c02: unknown system", name)
		os.Exit(2)

		return nil
	}
}

type job struct {
	system string
	depth  int
	group  string
	share  bool // true: gets an equal share of what is left of the budget; false: may run until the global deadline
}

func jobs(tier string, depth int) []job {
	var js []job

	fss := []string{"MemFS", "OrefaFS"}
	contents := []string{"empty", "abc", "abcdef"}

	add := func(group, suffix string, d int, share bool) {
		for _, f := range fss {
			for _, c := range contents {
				js = append(js, job{system: fmt.Sprintf("%s/file/%s/%s", f, c, suffix), depth: d, group: group, share: share})
			}
		}
	}

	// start states with a history (start.go): the full alphabet from a file that was
	// shrunk, extended, emptied and rewritten before the history starts
	addHist := func(group, suffix string, d, n int) {
		for _, f := range fss {
			for _, c := range startNames(n) {
				js = append(js, job{system: fmt.Sprintf("%s/file/%s/%s", f, c, suffix), depth: d, group: group})
			}
		}
	}

	// dm: modifications of the directory per history (dir.go)
	dd, dm := 4, 1
	if tier == "thorough" {
		dd, dm = 6, 3
	}

	for _, f := range fss {
		for k := 0; k <= 4; k++ {
			js = append(js, job{system: fmt.Sprintf("%s/dir/k%d/m%d", f, k, dm), depth: dd, group: fmt.Sprintf("dir-upto%dmods", dm)})
		}
	}

	switch {
	case depth > 0:
		add("file-2slots-12flags", "s2/q", depth, false)
		addHist("file-1slot-12flags-history-starts", "s1/q", depth, len(startStates))
	case tier == "thorough":
		add("file-2slots-12flags", "s2/q", 4, false)
		add("file-3slots-48flags", "s3/t", 3, false)
		addHist("file-2slots-12flags-history-starts", "s2/q", 3, len(startStates))
		addHist("file-1slot-12flags-history-starts", "s1/q", 4, len(startStates))
		// as deep as the rest of the budget allows (repeats depths 1-4 of the first group)
		add("file-2slots-12flags-deep", "s2/q", 5, true)
	default:
		add("file-2slots-12flags", "s2/q", 3, false)
		addHist("file-1slot-12flags-history-starts", "s1/q", 3, quickStarts)
	}

	return js
}

func runReplay(path string) {
	b, err := os.ReadFile(path)
	if err != nil {
		fmt.Fprintln(os.Stderr, err)
		os.Exit(2)
	}

	var doc struct {
		Replay struct {
			System  string   `json:"system"`
			History []string `json:"history"`
			Op      string   `json:"op"`
		} `json:"replay"`
	}

	if err := json.Unmarshal(b, &doc); err != nil || doc.Replay.System == "" {
		fmt.Fprintln(os.Stderr, "c02: not a replay file:", path, err)
		os.Exit(2)
	}

	sys := factory(true)(doc.Replay.System)
	defer sys.Close()

	fmt.Printf("replay of %s on system %s\n", path, doc.Replay.System)

	if t := startText(doc.Replay.System); t != "" {
		fmt.Printf("start state: %s\n", t)
	}

	if err := sys.Reset(); err != nil {
		fmt.Fprintln(os.Stderr, "c02: reset:", err)
		os.Exit(2)
	}

	nviol := 0

	for _, o := range append(append([]string{}, doc.Replay.History...), doc.Replay.Op) {
		idx := -1

		for i := 0; i < sys.NumOps(); i++ {
			if sys.OpString(i) == o {
				idx = i

				break
			}
		}

		if idx < 0 {
			fmt.Fprintln(os.Stderr, "c02: operation not in the alphabet:", o)
			os.Exit(2)
		}

		sr := sys.Step(idx)
		nviol += len(sr.Viols)
	}

	fmt.Printf("replay finished: %d oracle failures\n", nviol)

	if nviol > 0 {
		sys.Close()
		os.Exit(1)
	}
}

func main() {
	id := flag.String("id", "C02", "")
	tier := flag.String("tier", "quick", "")
	depth := flag.Int("depth", 0, "depth bound of the file systems (0: per tier)")
	systems := flag.String("systems", "", "comma separated system names (default: per tier)")
	replay := flag.String("replay", "", "replay file to re-execute with a trace")
	workers := flag.Int("workers", 0, "worker processes (0: number of CPUs)")

	var wflag string

	flag.StringVar(&wflag, "bfsworker", "", "")
	flag.Parse()

	bfs.MaybeWorker(factory(false))

	if os.Geteuid() != 0 {
		fmt.Fprintln(os.Stderr, "c02: needs root (Chown/Chmod through handles on the kernel side); harness precondition")
		os.Exit(2)
	}

	if _, err := os.Stat("/proc/self/fd"); err != nil {
		fmt.Fprintln(os.Stderr, "c02: /proc/self/fd is needed to read unlinked files for the state key; harness precondition")
		os.Exit(2)
	}

	if *replay != "" {
		runReplay(*replay)

		return
	}

	verifDir := os.Getenv("VERIF_DIR")
	if verifDir == "" {
		verifDir = "."
	}

	rep, err := kf.NewReporter(*id, filepath.Join(verifDir, "known_findings.txt"), filepath.Join(verifDir, "replays"))
	if err != nil {
		fmt.Fprintln(os.Stderr, err)
		os.Exit(2)
	}

	rep.Discover = os.Getenv("VERIF_DISCOVER") != ""

	budget := 150
	if b, err := strconv.Atoi(os.Getenv("VERIF_BUDGET_S")); err == nil {
		budget = b
	} else if *tier == "thorough" {
		budget = 1200
	}

	start := time.Now()
	deadline := start.Add(time.Duration(budget) * time.Second)

	js := jobs(*tier, *depth)

	if *systems != "" {
		js = nil

		for _, sn := range strings.Split(*systems, ",") {
			d := *depth
			if d == 0 {
				d = 3
			}

			js = append(js, job{system: sn, depth: d, group: "selected"})
		}
	}

	tmpfs := "tmpfs"

	var sfs syscall.Statfs_t

	scratch := os.Getenv("VERIF_SCRATCH")
	if scratch == "" {
		scratch = "/dev/shm"
	}

	if err := syscall.Statfs(scratch, &sfs); err != nil || sfs.Type != 0x01021994 {
		tmpfs = fmt.Sprintf("NOT tmpfs (statfs type %#x)", sfs.Type)
	}

	type sysStat struct {
		bfs.Stats
		Group    string  `json:"group"`
		Bound    int     `json:"depth_bound"`
		Ops      int     `json:"alphabet"`
		Executed int     `json:"transitions_executed"` // without operations that do not apply to the state (open on a used slot, call on an empty slot)
		WallS    float64 `json:"wall_s"`
	}

	type instance struct {
		sig    kf.Sig
		replay map[string]any
		hist   int
		count  int
	}

	var (
		all        []sysStat
		harnessErr string
		agg        = map[string]*instance{}
	)

	for ji, j := range js {
		probe := factory(false)(j.system)

		// equal share of what is left of the budget
		left := time.Until(deadline)
		dl := time.Now().Add(left / time.Duration(len(js)-ji))

		if !j.share {
			dl = deadline
		}

		t0 := time.Now()
		cfg := bfs.Config{
			System: j.system, MaxDepth: j.depth, Deadline: dl, Workers: *workers,
			Report: func(system string, hist []string, op string, v bfs.Viol) {
				// keep, per signature, the instance with the shortest history (across systems)
				k := kf.Sig(v.Sig).String()

				a := agg[k]
				if a == nil {
					a = &instance{sig: kf.Sig(v.Sig), hist: 1 << 30}
					agg[k] = a
				}

				a.count++

				if len(hist) >= a.hist {
					return
				}

				var d detail

				_ = json.Unmarshal([]byte(v.Detail), &d)

				a.hist = len(hist)
				a.replay = map[string]any{
					"system": system, "history": append([]string{}, hist...), "op": op, "call": d.Call, "what": d.What,
					"expected_kernel": d.Expected, "observed_avfs": d.Observed, "start_state": startText(system),
					"note": "R = scratch directory on tmpfs; f = R/f, g = R/g, d = R/d; the same absolute paths exist in the emulated file system; re-run with a trace: ./check C02 quick -replay <this file>",
				}

				if d.Call == "" {
					a.replay["detail"] = v.Detail
				}
			},
		}

		st := bfs.Run(cfg, probe.OpString)
		ss := sysStat{Stats: st, Group: j.group, Bound: j.depth, Ops: probe.NumOps(), Executed: st.Transitions - st.Outcomes["skip"], WallS: time.Since(t0).Seconds()}
		all = append(all, ss)

		if st.HarnessErr != "" {
			harnessErr = j.system + ": " + st.HarnessErr
		}

		fmt.Printf("C02 %-28s ops=%d states=%d transitions=%d (executed %d) depth_completed=%d/%d exhaustive=%v states_per_depth=%v %.1fs\n",
			j.system, probe.NumOps(), st.States, st.Transitions, ss.Executed, st.DepthDone, j.depth, st.Exhaustive, st.PerDepth, ss.WallS)
	}

	states, trans := 0, 0
	outcomes := map[string]int{}
	exh := true
	groupDepth := map[string]int{}
	groupBound := map[string]int{}

	var samples []any

	for _, st := range all {
		states += st.States
		trans += st.Executed

		for k, n := range st.Outcomes {
			if k != "skip" {
				outcomes[k] += n
			}
		}

		if !st.Exhaustive {
			exh = false
		}

		if d, ok := groupDepth[st.Group]; !ok || st.DepthDone < d {
			groupDepth[st.Group] = st.DepthDone
		}

		groupBound[st.Group] = st.Bound

		for i, s := range st.Samples {
			if i < 2 {
				samples = append(samples, map[string]any{"system": st.System, "history": s})
			}
		}
	}

	if len(samples) == 0 {
		samples = append(samples, "no successor state found")
	}

	var groups []string
	for g := range groupDepth {
		groups = append(groups, g)
	}

	sort.Strings(groups)

	var bound []string
	for _, g := range groups {
		bound = append(bound, fmt.Sprintf("%s: histories of length <= %d (completed %d)", g, groupBound[g], groupDepth[g]))
	}

	var oc []string
	for k := range outcomes {
		oc = append(oc, k)
	}

	sort.Strings(oc)

	var sigKeys []string
	for k := range agg {
		sigKeys = append(sigKeys, k)
	}

	sort.Strings(sigKeys)

	for _, k := range sigKeys {
		for i := 0; i < agg[k].count; i++ {
			rep.Report(agg[k].sig, agg[k].replay)
		}
	}

	code := rep.Finish()

	if harnessErr != "" {
		fmt.Fprintln(os.Stderr, "harness error:", harnessErr)
		os.Exit(2)
	}

	_ = ev.Write(filepath.Join(verifDir, "evidence", *id+".json"), ev.Evidence{
		PropertyID: *id, Tier: *tier, Seed: ev.Seed(), Level: "model_checking",
		Coverage: map[string]any{
			"states": states, "transitions": trans, "traces_validated_against_impl": trans,
			"evaluations": trans, "distinct_nontrivial": len(outcomes),
			"rule":            "every history of length <= bound over a static alphabet (open with each flag set, Read, ReadAt, Write, WriteString, WriteAt, Seek, Truncate, Stat, Sync, Chmod, Chown, Chdir, Close, Name per handle slot; offsets and sizes from {-1,0,1,size-1,size,size+2} evaluated against the kernel-side size; path-level Truncate, Rename, Link, Remove, ReadFile, Stat) executed on a fresh MemFS/OrefaFS and in lock-step on *os.File in a fresh tmpfs directory at the same absolute path; start states: the file made by one WriteFile (\"\", \"abc\", \"abcdef\") and, in the groups named history-starts, the file left behind by a prologue executed and compared on both sides (written long and shrunk to a non-zero size through its name / through a handle, extended by Truncate or by a write beyond the end, emptied by Truncate(0) / O_TRUNC / WriteFile and written again shorter, a handle left open beyond the end of the shrunk file; the systems list names them, start.go holds the calls) so that writes, WriteAt and Truncate beyond the end after a shrink lie within the bound; after every call every fs.FileInfo the emulated side has returned earlier on that instance (File.Stat / Stat of the alphabet, Lstat of both names and Stat through every open handle of the state observation that follows every call; in the directory systems every fs.DirEntry of a ReadDir and the fs.FileInfo of its Info()) is read again through all its accessors (Name, Size, Mode, ModTime, IsDir, Type, owner, group, link count) and must answer what it answered when it was returned (violations of kind kept-value); breadth-first with state deduplication on the kernel-side key; transitions = calls actually executed on both sides; distinct_nontrivial = distinct (call, kernel outcome class) pairs observed",
			"samples":         samples,
			"outcome_classes": oc,
			"exhaustive":      exh, "bound": strings.Join(bound, "; "),
			"systems": all, "known_findings_matched": append([]string{}, rep.KnownMatched()...),
			"total_violation_instances": rep.Total, "budget_s": budget, "scratch": tmpfs,
		},
		Assumptions: []string{
			"oracle = Linux kernel + package os (*os.File) on tmpfs, as root; error KINDS are compared (errno, EOF, closed, invalid, negative-offset, writeat-append), not messages",
			"state identity = kernel side only: bytes/mode/link count per inode class (f, g, unlinked files read through /proc/self/fd), per slot state, flags, kernel offset; states in which the two sides diverged (content, size, offset, handle presence, panic) are recorded but not expanded",
			"on a closed handle the emulation may answer with a closed-file error where package os answers an argument check first (negative offset, WriteAt on O_APPEND, zero-length ReadAt/WriteAt): the statement asks for a closed-file error",
			"Name on a nil handle is not compared (a panic is sanctioned; (*os.File)(nil).Name() panics too)",
			"Seek whence is taken from {0,1,2,5}: SEEK_DATA/SEEK_HOLE (3,4) have file-system specific answers on tmpfs and are not defined by the property",
			"start states with a history are reached by a fixed prologue per system (not enumerated): 3 of the 10 prologues in the quick tier with one handle slot, all 10 in the thorough tier with one slot (one call deeper) and with two slots; a difference between the two sides during the prologue is reported as a violation of kind start-state and that system is not explored further",
			"only R/f is opened; R/g is observed through ReadFile/Stat after every call; uid/gid are not compared (Chown is called with the root ids)",
			"values handed out earlier (kept.go): os.File.Stat / os.Stat / os.Lstat / File.ReadDir return snapshots, so the emulated side is compared with itself (what a kept value answered when it was returned against what it answers after every later call of the same history); a kept fs.DirEntry is read again through Name/IsDir/Type only (package os allows Info() to look at the file at the time of the call), the fs.FileInfo its Info() gave when the entry was delivered is kept as a value of its own; values are kept per instance since its reset: along the history that reaches a state and along the calls tried from that state that leave the kernel-side state unchanged (the instance is rebuilt after a call that changes it); the kernel side keeps nothing (values of package os are copies)",
			"directory handles (systems <FS>/dir/k<entries>/m<modifications>): a directory of k <= 4 entries, two handles, ReadDir(n)/Readdirnames(n) with n from {-1,0,1,2,5}, Close, and at most m modifications of the directory per history (1 in the quick tier, 3 in the thorough tier) from: WriteFile of a name that sorts before (c) / after (z, only when m > 1) every entry, Remove of the first (e1) / the last entry, Rename of e1 to z - so that names before and behind the cursor of a listing in progress come and go on both sides (the emulation lists by name, tmpfs by age); kernel entry order is unspecified, so batch sizes, error kinds, no-duplicate, membership, type and union are compared, not order; after a modification a handle that had started reading is not compared with the kernel (its answers are file-system specific there) but checked for the emulation-internal protocol clauses and for the rule of kind whole-listing: within the first listing of a handle (the pieces of ReadDir(n) only or Readdirnames(n) only, n > 0, from its first read call to the first io.EOF) every entry that was in the directory from the first piece to io.EOF without being removed, renamed away or replaced is delivered exactly once; entries that came or went meanwhile may or may not appear; handles that mix the two calls or use n <= 0 and calls after the first io.EOF are not judged by that rule (re-delivery there is the listed finding KF-C02-004); the rule was run once against the os.File handles of the same histories (depth 4, 2 modifications, k = 0..4) and held on all of them; the state key of the directory systems includes the state of that listing on the emulated handle",
			"random long histories (second half of the quantifier) are sampling and are not run; replaced by the exhaustive bound",
		},
		Violations: rep.NewCount(),
	})

	fmt.Printf("C02 summary: systems=%d states=%d transitions_executed=%d outcome_classes=%d bound: %s exhaustive=%v wall=%.1fs\n",
		len(all), states, trans, len(outcomes), strings.Join(bound, "; "), exh, time.Since(start).Seconds())

	os.Exit(code)
}
