package main

// File system of C02: one regular file R/f, a second name R/g, up to 3 handle
// slots; every operation is executed on the real MemFS/OrefaFS and, in
// lock-step, on *os.File / package os in a tmpfs scratch directory. The file
// starts fresh (one WriteFile) or with a history of its own (start.go).

import (
	"encoding/json"
	"fmt"
	"io/fs"
	"os"
	"path/filepath"
	"reflect"
	"sort"
	"strconv"
	"strings"
	"syscall"

	"github.com/avfs/avfs"
	"github.com/avfs/avfs/vfs/memfs"
	"github.com/avfs/avfs/vfs/orefafs"

	"verif/lib/bfs"
	"verif/lib/fsx"
	"verif/lib/kf"
)

// hfile is the part of avfs.File / *os.File the property speaks about.
type hfile interface {
	Read(b []byte) (int, error)
	ReadAt(b []byte, off int64) (int, error)
	Write(b []byte) (int, error)
	WriteAt(b []byte, off int64) (int, error)
	WriteString(s string) (int, error)
	Seek(off int64, whence int) (int64, error)
	Truncate(size int64) error
	Stat() (fs.FileInfo, error)
	Sync() error
	Chmod(m fs.FileMode) error
	Chown(uid, gid int) error
	Chdir() error
	Close() error
	Name() string
	ReadDir(n int) ([]fs.DirEntry, error)
	Readdirnames(n int) ([]string, error)
}

const (
	stEmpty = iota
	stOpen
	stClosed
	stNil
)

var stNames = []string{"empty", "open", "closed", "nil"}

// offset / size classes, evaluated against the kernel-side size at step time
var offNames = []string{"-1", "0", "1", "size-1", "size", "size+2"}

func offValue(cls int, size int64) int64 {
	switch cls {
	case 0:
		return -1
	case 1:
		return 0
	case 2:
		return 1
	case 3:
		return size - 1
	case 4:
		return size
	}

	return size + 2
}

// op is one static element of the alphabet.
type op struct {
	Kind   string // open Read ReadAt Write WriteString WriteAt Seek Truncate Stat Sync Chmod Chown Chdir Close Name | P.Truncate P.Rename P.Link P.RemoveF P.RemoveG P.ReadFile P.Stat
	Slot   int
	Flags  int
	N      int
	Data   string
	Off    int // index into offNames; -1: none
	Whence int
}

func (o op) isPath() bool { return strings.HasPrefix(o.Kind, "P.") }

// argClass is the class of the arguments (part of signatures).
func (o op) argClass() string {
	switch o.Kind {
	case "open":
		return fsx.FlagString(o.Flags)
	case "Read":
		return fmt.Sprintf("n=%d", o.N)
	case "ReadAt":
		return fmt.Sprintf("n=%d,off=%s", o.N, offNames[o.Off])
	case "Write", "WriteString":
		return fmt.Sprintf("len=%d", len(o.Data))
	case "WriteAt":
		return fmt.Sprintf("len=%d,off=%s", len(o.Data), offNames[o.Off])
	case "Seek":
		return fmt.Sprintf("off=%s,whence=%d", offNames[o.Off], o.Whence)
	case "Truncate", "P.Truncate":
		return "sz=" + offNames[o.Off]
	}

	return ""
}

func (o op) String() string {
	if o.isPath() {
		switch o.Kind {
		case "P.Truncate":
			return "Truncate(f," + o.argClass() + ")"
		case "P.Rename":
			return "Rename(f,g)"
		case "P.ReplaceF":
			return "WriteFile(r,new);Rename(r,f)"
		case "P.Link":
			return "Link(f,g)"
		case "P.RemoveF":
			return "Remove(f)"
		case "P.RemoveG":
			return "Remove(g)"
		case "P.ReadFile":
			return "ReadFile(f)"
		case "P.Stat":
			return "Stat(f)"
		}
	}

	if o.Kind == "open" {
		return fmt.Sprintf("h%d=OpenFile(f,%s,0640)", o.Slot, fsx.FlagString(o.Flags))
	}

	a := o.argClass()

	switch o.Kind {
	case "Write", "WriteString", "WriteAt":
		a = fmt.Sprintf("%q", o.Data)
		if o.Kind == "WriteAt" {
			a += ",off=" + offNames[o.Off]
		}
	case "Chmod":
		a = "0600"
	case "Chown":
		a = "0,0"
	}

	return fmt.Sprintf("h%d.%s(%s)", o.Slot, o.Kind, a)
}

var quickFlags = []int{
	os.O_RDONLY, os.O_WRONLY, os.O_RDWR, os.O_RDWR | os.O_APPEND, os.O_WRONLY | os.O_APPEND, os.O_RDWR | os.O_TRUNC,
	os.O_WRONLY | os.O_CREATE | os.O_EXCL, os.O_RDWR | os.O_CREATE, os.O_RDONLY | os.O_TRUNC, os.O_RDONLY | os.O_APPEND,
	os.O_RDONLY | os.O_CREATE, os.O_WRONLY | os.O_CREATE | os.O_TRUNC,
	// refused on an existing file: must not have truncated it
	os.O_RDWR | os.O_CREATE | os.O_EXCL | os.O_TRUNC,
}

func allFlags() []int {
	var flags []int

	for _, acc := range []int{os.O_RDONLY, os.O_WRONLY, os.O_RDWR} {
		for m := 0; m < 16; m++ {
			f := acc
			if m&1 != 0 {
				f |= os.O_APPEND
			}

			if m&2 != 0 {
				f |= os.O_TRUNC
			}

			if m&4 != 0 {
				f |= os.O_CREATE
			}

			if m&8 != 0 {
				f |= os.O_EXCL
			}

			flags = append(flags, f)
		}
	}

	return flags
}

// whences: 0,1,2 and one invalid value. SEEK_DATA/SEEK_HOLE (3,4) are
// implemented by tmpfs with file-system specific answers (ENXIO ...), the
// property does not define them, so they are left out.
var whences = []int{0, 1, 2, 5}

func buildFileOps(slots int, full bool) []op {
	flags := quickFlags
	if full {
		flags = allFlags()
	}

	var ops []op

	for s := 0; s < slots; s++ {
		for _, f := range flags {
			ops = append(ops, op{Kind: "open", Slot: s, Flags: f, Off: -1})
		}

		for _, n := range []int{0, 1, 4} {
			ops = append(ops, op{Kind: "Read", Slot: s, N: n, Off: -1})
		}

		for _, n := range []int{0, 1, 4} {
			for o := range offNames {
				ops = append(ops, op{Kind: "ReadAt", Slot: s, N: n, Off: o})
			}
		}

		for _, d := range []string{"", "X", "YZ"} {
			ops = append(ops, op{Kind: "Write", Slot: s, Data: d, Off: -1})
		}

		for _, d := range []string{"", "X", "YZ"} {
			if !full && d == "X" {
				continue // WriteString is Write([]byte(s)) on both sides
			}

			ops = append(ops, op{Kind: "WriteString", Slot: s, Data: d, Off: -1})
		}

		for _, d := range []string{"", "X", "YZ"} {
			for o := range offNames {
				ops = append(ops, op{Kind: "WriteAt", Slot: s, Data: d, Off: o})
			}
		}

		for _, w := range whences {
			for o := range offNames {
				ops = append(ops, op{Kind: "Seek", Slot: s, Off: o, Whence: w})
			}
		}

		for o := range offNames {
			ops = append(ops, op{Kind: "Truncate", Slot: s, Off: o})
		}

		for _, k := range []string{"Stat", "Sync", "Chmod", "Chown", "Chdir", "Close", "Name"} {
			ops = append(ops, op{Kind: k, Slot: s, Off: -1})
		}
	}

	for o := range offNames {
		ops = append(ops, op{Kind: "P.Truncate", Off: o, Slot: -1})
	}

	// P.ReplaceF: another file is renamed over f (rename(2) unlinks the replaced
	// file as unlink(2) does: handles open on it keep working on the old content)
	for _, k := range []string{"P.Rename", "P.ReplaceF", "P.Link", "P.RemoveF", "P.RemoveG", "P.ReadFile", "P.Stat"} {
		ops = append(ops, op{Kind: k, Off: -1, Slot: -1})
	}

	return ops
}

// res is the outcome of one call on one side.
type res struct {
	Kind string `json:"kind"`
	N    int    `json:"n"`
	Data string `json:"data,omitempty"`
	Off  int64  `json:"off,omitempty"`
	Info string `json:"info,omitempty"`
	Msg  string `json:"msg,omitempty"`
}

func (r res) String() string {
	b, _ := json.Marshal(r)

	return string(b)
}

func errKind(err error) string {
	if err != nil && strings.Contains(err.Error(), "invalid use of WriteAt on file opened with O_APPEND") {
		return "writeat-append"
	}

	return fsx.ErrKind(err)
}

func errMsg(err error) string {
	if err == nil {
		return ""
	}

	return err.Error()
}

func guarded(f func() res) (r res) {
	k, msg := fsx.Guard(func() { r = f() })
	if k != "" {
		return res{Kind: k, Msg: msg}
	}

	return r
}

func clip(b []byte, n int) string {
	if n < 0 {
		n = 0
	}

	if n > len(b) {
		n = len(b)
	}

	return string(b[:n])
}

type slot struct {
	st    int
	flags int
	k     *os.File
	v     avfs.File // typed nil pointer inside when the emulated OpenFile failed
}

// kernel-side observation of one slot / of the whole system (never depends on
// the code under test)
type kslot struct {
	off    int64
	size   int64
	target string // f | g | f+g | orphan
}

type fsys struct {
	name    string
	fsName  string
	content string
	nslots  int
	R       string
	fp, gp  string
	v       avfs.VFS
	ops     []op
	slots   []slot
	ks      []kslot
	fSize   int64
	fClass  string // absent | file | linked
	gClass  string
	key     string
	diff    map[string]bool
	trace   bool
	initErr error
	start   []prepStep // nil: the file is created with its content by one WriteFile
	preViol *bfs.Viol  // the two sides already differ in the start state (history starts only)
	kept    keeper     // every FileInfo the emulated side has handed out since Reset (kept.go)
}

func (s *fsys) NumOps() int           { return len(s.ops) }
func (s *fsys) OpString(i int) string { return s.ops[i].String() }
func (s *fsys) Key() string           { return s.key }

func (s *fsys) closeHandles() {
	for i := range s.slots {
		if s.slots[i].k != nil {
			_ = s.slots[i].k.Close()
		}

		s.slots[i] = slot{}
	}
}

func (s *fsys) Close() {
	s.closeHandles()
	_ = os.Chdir("/")
	_ = os.RemoveAll(filepath.Dir(s.R))
}

// cleanDir makes dir an existing, empty directory. The directory itself is
// kept between resets (nothing in the alphabets changes its attributes), so
// that 16 worker processes do not contend on the lock of the common parent.
func cleanDir(dir string) error {
	es, err := os.ReadDir(dir)
	if err != nil {
		if os.IsNotExist(err) {
			return os.MkdirAll(dir, 0o755)
		}

		return err
	}

	for _, e := range es {
		if err := os.RemoveAll(filepath.Join(dir, e.Name())); err != nil {
			return err
		}
	}

	return nil
}

func newVFS(fsName string) avfs.VFS {
	dirs := []avfs.DirInfo{{Path: "/tmp", Perm: 0o777}}

	switch fsName {
	case "MemFS":
		return memfs.NewWithOptions(&memfs.Options{OSType: avfs.OsLinux, SystemDirs: dirs})
	case "OrefaFS":
		return orefafs.NewWithOptions(&orefafs.Options{OSType: avfs.OsLinux, SystemDirs: dirs})
	}

	panic("unknown file system " + fsName)
}

func (s *fsys) Reset() error {
	if s.initErr != nil {
		return s.initErr
	}

	s.closeHandles()
	s.preViol = nil
	_ = os.Chdir("/")

	if err := cleanDir(s.R); err != nil {
		return err
	}

	if s.start == nil {
		if err := os.WriteFile(s.fp, []byte(s.content), 0o644); err != nil {
			return err
		}
	}

	if err := os.Chdir(s.R); err != nil {
		return err
	}

	s.v = newVFS(s.fsName)
	_ = s.v.SetUMask(0o022)
	s.kept.reset(s.v)

	if err := s.v.MkdirAll(s.R, 0o755); err != nil {
		return fmt.Errorf("avfs MkdirAll(R): %v", err)
	}

	if s.start == nil {
		if err := s.v.WriteFile(s.fp, []byte(s.content), 0o644); err != nil {
			return fmt.Errorf("avfs WriteFile(f): %v", err)
		}
	}

	if err := s.v.Chdir(s.R); err != nil {
		return fmt.Errorf("avfs Chdir(R): %v", err)
	}

	s.diff = map[string]bool{}

	if s.start != nil {
		if err := s.prologue(); err != nil {
			return err
		}

		if s.preViol != nil {
			s.observeKernel()

			return nil
		}
	}

	ki, vi, poisoned := s.observe()
	if poisoned && s.start == nil {
		return fmt.Errorf("initial observation of the emulated file system panicked")
	}

	for i := range ki {
		if ki[i].val != vi[i].val {
			if s.start != nil {
				// the calls of the prologue answered alike but left different files behind
				s.startDiffers("observation "+ki[i].label, diffClass(ki[i].kind, ki[i].val, vi[i].val), ki[i].val, vi[i].val)

				return nil
			}

			return fmt.Errorf("initial states differ at %s: kernel %s, avfs %s", ki[i].label, ki[i].val, vi[i].val)
		}
	}

	return nil
}

type obsItem struct {
	label string // content:f attr:f offset:h0 ...
	kind  string // content | attr | offset
	via   string // f | g | h<i>
	val   string
}

func kInfo(fi fs.FileInfo) (sz int64, mode string, nlink uint64, ino uint64) {
	st, _ := fi.Sys().(*syscall.Stat_t)
	if st != nil {
		nlink, ino = uint64(st.Nlink), st.Ino
	}

	return fi.Size(), fsx.ModeString(fi.Mode()), nlink, ino
}

func attrString(size int64, mode string, nlink uint64, dir bool) string {
	t := "f"
	if dir {
		t = "d"
	}

	return fmt.Sprintf("%s sz=%d mode=%s nlink=%d", t, size, mode, nlink)
}

func (s *fsys) vAttr(fi fs.FileInfo) string {
	nl := uint64(0)

	func() {
		defer func() { _ = recover() }()

		nl = s.v.ToSysStat(fi).Nlink()
	}()

	return attrString(fi.Size(), fsx.ModeString(fi.Mode()), nl, fi.IsDir())
}

func kAttr(fi fs.FileInfo) string {
	sz, mode, nl, _ := kInfo(fi)

	return attrString(sz, mode, nl, fi.IsDir())
}

func readable(flags int) bool { return flags&3 == os.O_RDONLY || flags&3 == os.O_RDWR }

// observe looks at both sides through every name and every open handle,
// computes the state key from the kernel side and returns the two parallel
// observation lists.
func (s *fsys) observe() (ki, vi []obsItem, poisoned bool) {
	ki = s.observeKernel()
	vi, poisoned = s.observeAvfs(ki)

	return ki, vi, poisoned
}

// observeKernel looks at the kernel side only and sets the state key.
func (s *fsys) observeKernel() (ki []obsItem) {
	type class struct {
		ino  uint64
		line string
	}

	var classes []class

	classOf := func(ino uint64, line func() string) int {
		for i, c := range classes {
			if c.ino == ino {
				return i
			}
		}

		classes = append(classes, class{ino: ino, line: line()})

		return len(classes) - 1
	}

	var kb strings.Builder

	var inoF, inoG uint64

	// --- kernel side: the two names
	for i, p := range []string{s.fp, s.gp} {
		via := "f"
		if i == 1 {
			via = "g"
		}

		fi, err := os.Lstat(p)
		if err != nil {
			ki = append(ki, obsItem{"content:" + via, "content", via, errKind(err)}, obsItem{"attr:" + via, "attr", via, errKind(err)})
			fmt.Fprintf(&kb, "%s=- ", via)

			if i == 0 {
				s.fSize, s.fClass = 0, "absent"
			} else {
				s.gClass = "absent"
			}

			continue
		}

		b, rerr := os.ReadFile(p)
		sz, mode, nl, ino := kInfo(fi)
		ki = append(ki, obsItem{"content:" + via, "content", via, fmt.Sprintf("%s:%q", errKind(rerr), b)},
			obsItem{"attr:" + via, "attr", via, "ok:" + kAttr(fi)})

		c := classOf(ino, func() string { return fmt.Sprintf("%s n%d %q", mode, nl, b) })
		fmt.Fprintf(&kb, "%s=c%d ", via, c)

		cl := "file"
		if nl > 1 {
			cl = "linked"
		}

		if i == 0 {
			s.fSize, s.fClass, inoF = sz, cl, ino
		} else {
			s.gClass, inoG = cl, ino
		}
	}

	// --- kernel side: the slots
	s.ks = make([]kslot, len(s.slots))

	for i := range s.slots {
		sl := &s.slots[i]
		via := fmt.Sprintf("h%d", i)

		if sl.st != stOpen {
			if sl.st == stEmpty {
				fmt.Fprintf(&kb, "| %s:empty ", via)
			} else {
				fmt.Fprintf(&kb, "| %s:%s %s ", via, stNames[sl.st], fsx.FlagString(sl.flags))
			}

			s.ks[i] = kslot{size: s.fSize, target: "-"}

			continue
		}

		off, oerr := sl.k.Seek(0, 1)
		ki = append(ki, obsItem{"offset:" + via, "offset", via, fmt.Sprintf("%s:%d", errKind(oerr), off)})

		fi, serr := sl.k.Stat()
		if serr != nil {
			ki = append(ki, obsItem{"attr:" + via, "attr", via, errKind(serr)})
			fmt.Fprintf(&kb, "| %s:open %s off=%d !stat ", via, fsx.FlagString(sl.flags), off)

			// cannot happen on an open descriptor; keep the two observation lists parallel
			if readable(sl.flags) {
				ki = append(ki, obsItem{"content:" + via, "content", via, "!stat"})
			}

			continue
		}

		sz, mode, nl, ino := kInfo(fi)
		ki = append(ki, obsItem{"attr:" + via, "attr", via, "ok:" + kAttr(fi)})

		tgt := "orphan"

		switch {
		case s.fClass != "absent" && ino == inoF && s.gClass != "absent" && ino == inoG:
			tgt = "f+g"
		case s.fClass != "absent" && ino == inoF:
			tgt = "f"
		case s.gClass != "absent" && ino == inoG:
			tgt = "g"
		}

		s.ks[i] = kslot{off: off, size: sz, target: tgt}

		c := classOf(ino, func() string {
			b, _ := os.ReadFile(fmt.Sprintf("/proc/self/fd/%d", sl.k.Fd()))

			return fmt.Sprintf("%s n%d %q", mode, nl, b)
		})

		fmt.Fprintf(&kb, "| %s:open %s off=%d c%d ", via, fsx.FlagString(sl.flags), off, c)

		if readable(sl.flags) {
			buf := make([]byte, sz+4)
			n, rerr := sl.k.ReadAt(buf, 0)
			ki = append(ki, obsItem{"content:" + via, "content", via, fmt.Sprintf("%s:%q", errKind(rerr), clip(buf, n))})
		}
	}

	for i, c := range classes {
		fmt.Fprintf(&kb, "| c%d:%s ", i, c.line)
	}

	s.key = kb.String()

	return ki
}

// observeAvfs produces the same items, in the same order, from the emulated side.
func (s *fsys) observeAvfs(ki []obsItem) (vi []obsItem, poisoned bool) {
	k, msg := fsx.Guard(func() {
		for i, p := range []string{s.fp, s.gp} {
			via := "f"
			if i == 1 {
				via = "g"
			}

			fi, err := s.v.Lstat(p)
			if err != nil {
				vi = append(vi, obsItem{"content:" + via, "content", via, errKind(err)}, obsItem{"attr:" + via, "attr", via, errKind(err)})

				continue
			}

			s.kept.keepInfo("Lstat", "Lstat("+via+") of the observation", fi)

			b, rerr := s.v.ReadFile(p)
			vi = append(vi, obsItem{"content:" + via, "content", via, fmt.Sprintf("%s:%q", errKind(rerr), b)},
				obsItem{"attr:" + via, "attr", via, "ok:" + s.vAttr(fi)})
		}

		for i := range s.slots {
			sl := &s.slots[i]
			via := fmt.Sprintf("h%d", i)

			if sl.st != stOpen {
				continue
			}

			off, oerr := sl.v.Seek(0, 1)
			vi = append(vi, obsItem{"offset:" + via, "offset", via, fmt.Sprintf("%s:%d", errKind(oerr), off)})

			fi, serr := sl.v.Stat()
			if serr != nil {
				vi = append(vi, obsItem{"attr:" + via, "attr", via, errKind(serr)})
			} else {
				s.kept.keepInfo("File.Stat", via+".Stat() of the observation", fi)
				vi = append(vi, obsItem{"attr:" + via, "attr", via, "ok:" + s.vAttr(fi)})
			}

			if readable(sl.flags) {
				buf := make([]byte, s.ks[i].size+4)
				n, rerr := sl.v.ReadAt(buf, 0)
				vi = append(vi, obsItem{"content:" + via, "content", via, fmt.Sprintf("%s:%q", errKind(rerr), clip(buf, n))})
			}
		}
	})
	if k != "" {
		// pad so that the lists stay parallel
		for len(vi) < len(ki) {
			it := ki[len(vi)]
			it.val = k + " " + msg
			vi = append(vi, it)
		}

		return vi, true
	}

	return vi, false
}

// concrete arguments of one step
type concrete struct {
	Off  int64  `json:"off,omitempty"`
	Size int64  `json:"size_before"`
	Text string `json:"call"`
}

// hcall executes a handle operation on one side; keep (nil on the kernel side) is given every
// value with reference semantics the call returns.
func (s *fsys) hcall(h hfile, o op, off int64, attr func(fs.FileInfo) string, cwd func() string, keep func(from, call string, fi fs.FileInfo)) res {
	switch o.Kind {
	case "Read":
		b := make([]byte, o.N)
		n, err := h.Read(b)

		return res{Kind: errKind(err), N: n, Data: clip(b, n), Msg: errMsg(err)}
	case "ReadAt":
		b := make([]byte, o.N)
		n, err := h.ReadAt(b, off)

		return res{Kind: errKind(err), N: n, Data: clip(b, n), Msg: errMsg(err)}
	case "Write":
		// the buffer is overwritten once the call has returned: os.File keeps no
		// reference to it, an implementation that does shows a change of content
		data := []byte(o.Data)
		n, err := h.Write(data)
		fsx.Scribble(data)

		return res{Kind: errKind(err), N: n, Msg: errMsg(err)}
	case "WriteString":
		n, err := h.WriteString(o.Data)

		return res{Kind: errKind(err), N: n, Msg: errMsg(err)}
	case "WriteAt":
		data := []byte(o.Data)
		n, err := h.WriteAt(data, off)
		fsx.Scribble(data)

		return res{Kind: errKind(err), N: n, Msg: errMsg(err)}
	case "Seek":
		r, err := h.Seek(off, o.Whence)

		return res{Kind: errKind(err), Off: r, Msg: errMsg(err)}
	case "Truncate":
		err := h.Truncate(off)

		return res{Kind: errKind(err), Msg: errMsg(err)}
	case "Stat":
		fi, err := h.Stat()
		r := res{Kind: errKind(err), Msg: errMsg(err)}

		if err == nil {
			r.Info = "name=" + fi.Name() + " " + attr(fi)

			if keep != nil {
				keep("File.Stat", o.String(), fi)
			}
		}

		return r
	case "Sync":
		err := h.Sync()

		return res{Kind: errKind(err), Msg: errMsg(err)}
	case "Chmod":
		err := h.Chmod(0o600)

		return res{Kind: errKind(err), Msg: errMsg(err)}
	case "Chown":
		err := h.Chown(0, 0)

		return res{Kind: errKind(err), Msg: errMsg(err)}
	case "Chdir":
		err := h.Chdir()

		return res{Kind: errKind(err), Msg: errMsg(err), Info: "cwd=" + cwd()}
	case "Close":
		err := h.Close()

		return res{Kind: errKind(err), Msg: errMsg(err)}
	case "Name":
		return res{Kind: "ok", Data: h.Name()}
	}

	panic("c02: unknown handle op " + o.Kind)
}

func (s *fsys) kcwd() string {
	d, err := os.Getwd()
	if err != nil {
		return "!" + errKind(err)
	}

	return strings.Replace(d, s.R, "R", 1)
}

func (s *fsys) vcwd() string {
	d, err := s.v.Getwd()
	if err != nil {
		return "!" + errKind(err)
	}

	return strings.Replace(d, s.R, "R", 1)
}

// pathCall executes a path-level operation on one side.
func (s *fsys) pathCall(kernel bool, o op, sz int64) res {
	var err error

	switch o.Kind {
	case "P.Truncate":
		if kernel {
			err = os.Truncate(s.fp, sz)
		} else {
			err = s.v.Truncate(s.fp, sz)
		}
	case "P.Rename":
		if kernel {
			err = os.Rename(s.fp, s.gp)
		} else {
			err = s.v.Rename(s.fp, s.gp)
		}
	case "P.ReplaceF":
		rp := filepath.Join(filepath.Dir(s.fp), "r")
		if kernel {
			if err = os.WriteFile(rp, []byte("new"), 0o644); err == nil {
				err = os.Rename(rp, s.fp)
			}
		} else {
			if err = s.v.WriteFile(rp, []byte("new"), 0o644); err == nil {
				err = s.v.Rename(rp, s.fp)
			}
		}
	case "P.Link":
		if kernel {
			err = os.Link(s.fp, s.gp)
		} else {
			err = s.v.Link(s.fp, s.gp)
		}
	case "P.RemoveF", "P.RemoveG":
		p := s.fp
		if o.Kind == "P.RemoveG" {
			p = s.gp
		}

		if kernel {
			err = os.Remove(p)
		} else {
			err = s.v.Remove(p)
		}
	case "P.ReadFile":
		var b []byte

		if kernel {
			b, err = os.ReadFile(s.fp)
		} else {
			b, err = s.v.ReadFile(s.fp)
		}

		r := res{Kind: errKind(err), N: len(b), Data: string(b), Msg: errMsg(err)}
		fsx.Scribble(b) // a returned slice must not be the file's own storage

		return r
	case "P.Stat":
		var fi fs.FileInfo

		if kernel {
			fi, err = os.Stat(s.fp)
		} else {
			fi, err = s.v.Stat(s.fp)
		}

		r := res{Kind: errKind(err), Msg: errMsg(err)}

		if err == nil {
			if kernel {
				r.Info = "name=" + fi.Name() + " " + kAttr(fi)
			} else {
				r.Info = "name=" + fi.Name() + " " + s.vAttr(fi)
				s.kept.keepInfo("Stat", o.String(), fi)
			}
		}

		return r
	default:
		panic("c02: unknown path op " + o.Kind)
	}

	return res{Kind: errKind(err), Msg: errMsg(err)}
}

func sizeClass(n int64) string {
	if n == 0 {
		return "empty"
	}

	return "nonempty"
}

func relClass(off, size int64) string {
	switch {
	case off < 0:
		return "<0"
	case off == size:
		return "=size"
	case off < size:
		return "<size"
	}

	return ">size"
}

// outClass renders an outcome as a class (kind plus count/offset class).
func outClass(o op, r res, size int64) string {
	if r.Kind == "PANIC" || r.Kind == "DEADLOCK" {
		m := r.Msg
		if i := strings.Index(m, " @ "); i >= 0 {
			m = m[:i]
		}

		m = stripDigits(m)

		return r.Kind + ":" + m
	}

	switch o.Kind {
	case "Read", "ReadAt":
		return r.Kind + ":" + nClass(r.N, o.N)
	case "Write", "WriteString", "WriteAt":
		return r.Kind + ":" + nClass(r.N, len(o.Data))
	case "Seek":
		if r.Kind == "ok" {
			return r.Kind + ":off" + relClass(r.Off, size)
		}
	}

	return r.Kind
}

func stripDigits(m string) string {
	var b strings.Builder

	prev := false

	for _, c := range m {
		if c >= '0' && c <= '9' {
			if !prev {
				b.WriteByte('N')
			}

			prev = true

			continue
		}

		prev = false

		b.WriteRune(c)
	}

	return b.String()
}

func nClass(n, want int) string {
	switch {
	case n == 0 && want == 0:
		return "n=0=len"
	case n == 0:
		return "n=0"
	case n == want:
		return "n=len"
	case n < want:
		return "n<len"
	}

	return "n>len"
}

type detail struct {
	What     string   `json:"what"`
	Call     string   `json:"call"`
	Expected string   `json:"expected_kernel"`
	Observed string   `json:"observed_avfs"`
	Steps    []string `json:"steps,omitempty"`
}

func (d detail) String() string {
	b, _ := json.Marshal(d)

	return string(b)
}

func (s *fsys) Step(i int) bfs.StepResult {
	o := s.ops[i]
	keyBefore := s.key

	if s.preViol != nil {
		// the start state itself is the counterexample: nothing behind it is comparable
		if s.trace {
			fmt.Printf("  %-46s VIOL   %s %s\n", "", kf.Sig(s.preViol.Sig), s.preViol.Detail)
		}

		return bfs.StepResult{Key: s.key, Broken: true, Outcome: "start-state/differs", Viols: []bfs.Viol{*s.preViol}}
	}

	var (
		sl     *slot
		hclass = "-"
		target string
		pos    = "-"
		size   = s.fSize
		szCls  string
	)

	if !o.isPath() {
		sl = &s.slots[o.Slot]

		if (o.Kind == "open") != (sl.st == stEmpty) {
			return bfs.StepResult{Key: s.key, Outcome: "skip"}
		}

		switch sl.st {
		case stEmpty:
			hclass = "new"
		case stOpen:
			hclass = fsx.FlagString(sl.flags)
			size = s.ks[o.Slot].size

			switch o.Kind {
			case "Read", "Write", "WriteString", "Seek": // calls that depend on the handle's current offset
				pos = relClass(s.ks[o.Slot].off, size)
			}
			target = s.ks[o.Slot].target
		default:
			hclass = stNames[sl.st]
		}
	}

	if target == "" {
		target = "f:" + s.fClass + ",g:" + s.gClass
	}

	szCls = sizeClass(size)
	if (o.isPath() || sl.st != stOpen) && s.fClass == "absent" {
		szCls = "absent"
	}

	var off int64
	if o.Off >= 0 {
		off = offValue(o.Off, size)
	}

	call := o.String()
	if o.Off >= 0 {
		call += fmt.Sprintf(" [size=%d => %s=%d]", size, offNames[o.Off], off)
	}

	// ---- execute on both sides
	var rk, rv res

	s.kept.next()

	stBefore := stEmpty
	if sl != nil {
		stBefore = sl.st
	}

	switch {
	case o.isPath():
		rk = s.pathCall(true, o, off)
		rv = guarded(func() res { return s.pathCall(false, o, off) })
	case o.Kind == "open":
		f, err := os.OpenFile(s.fp, o.Flags, 0o640)
		rk = res{Kind: errKind(err), Msg: errMsg(err)}
		sl.flags = o.Flags

		if err == nil {
			sl.k, sl.st = f, stOpen
		} else {
			sl.k, sl.st = nil, stNil
		}

		rv = guarded(func() res {
			vf, err := s.v.OpenFile(s.fp, o.Flags, 0o640)
			sl.v = vf

			r := res{Kind: errKind(err), Msg: errMsg(err)}
			if err != nil && vf != nil {
				// the property's nil-handle clause is about the typed nil the emulation returns with an error
				if rv := reflect.ValueOf(vf); rv.Kind() != reflect.Ptr || !rv.IsNil() {
					r.Info = "non-nil handle returned with the error"
				}
			}

			return r
		})
	case o.Kind == "Name" && sl.st == stNil:
		// (*os.File)(nil).Name() panics as well; the property sanctions a panic here: nothing to compare
		rv = guarded(func() res { return s.hcall(sl.v, o, off, s.vAttr, s.vcwd, s.kept.keepInfo) })

		return bfs.StepResult{Key: s.key, Outcome: "Name/nil-handle:" + rv.Kind}
	default:
		rk = s.hcall(sl.k, o, off, kAttr, s.kcwd, nil)
		rv = guarded(func() res { return s.hcall(sl.v, o, off, s.vAttr, s.vcwd, s.kept.keepInfo) })

		if o.Kind == "Close" && sl.st == stOpen {
			sl.st = stClosed
		}
	}

	if s.trace {
		fmt.Printf("  %-46s kernel %s\n  %-46s avfs   %s\n", call, rk, "", strings.ReplaceAll(rv.String(), s.R, "R"))
	}

	kc, vc := outClass(o, rk, size), outClass(o, rv, size)

	base := map[string]string{
		"fs": s.fsName, "call": strings.TrimPrefix(o.Kind, "P."), "handle": hclass, "target": target, "pos": pos,
		"arg": o.argClass(), "sizeclass": szCls, "kernel": kc, "avfs": vc,
	}

	if o.isPath() {
		base["call"] = "path." + strings.TrimPrefix(o.Kind, "P.")
	}

	sig := func(extra ...string) map[string]string {
		m := map[string]string{}
		for k, v := range base {
			m[k] = v
		}

		for i := 0; i+1 < len(extra); i += 2 {
			m[extra[i]] = extra[i+1]
		}

		return m
	}

	var viols []bfs.Viol

	add := func(what string, sg map[string]string, exp, obs string) {
		viols = append(viols, bfs.Viol{Sig: sg, Detail: detail{What: what, Call: call, Expected: strings.ReplaceAll(exp, s.R, "R"), Observed: strings.ReplaceAll(obs, s.R, "R")}.String()})
	}

	poisoned := rv.Kind == "PANIC" || rv.Kind == "DEADLOCK"
	diverged := false

	// ---- per-call oracle
	switch {
	case poisoned:
		add("the call did not return on the emulated side", sig("kind", "result"), rk.String(), rv.String())
	case stBefore == stClosed && rv.Kind == "closed":
		// "any call on a closed handle fails with a closed-file error": accepted
		// even where package os answers an argument check first.
	case rk.Kind != rv.Kind:
		add("error kind differs", sig("kind", "result"), rk.String(), rv.String())
	default:
		switch o.Kind {
		case "Read", "ReadAt", "Write", "WriteString", "WriteAt", "P.ReadFile":
			if rk.N != rv.N || rk.Data != rv.Data {
				add("byte count or bytes differ", sig("kind", "bytes"), rk.String(), rv.String())
			}
		case "Seek":
			if rk.Kind == "ok" && rk.Off != rv.Off {
				add("returned offset differs", sig("kind", "offset"), rk.String(), rv.String())
			}
		case "Stat", "P.Stat":
			if rk.Info != rv.Info {
				add("Stat result differs", sig("kind", "result", "diff", "stat:"+fieldDiff(rk.Info, rv.Info)), rk.String(), rv.String())
			}
		case "Name":
			if rk.Data != rv.Data {
				add("Name differs", sig("kind", "result", "diff", "name"), rk.String(), rv.String())
			}
		case "Chdir":
			if rk.Info != rv.Info {
				add("working directory differs after Chdir", sig("kind", "result", "diff", "cwd"), rk.String(), rv.String())
			}
		case "open":
			if rv.Info != "" {
				add(rv.Info, sig("kind", "result", "diff", "handle-with-error"), rk.String(), rv.String())
			}
		}
	}

	if o.Kind == "open" && !poisoned && (rk.Kind == "ok") != (rv.Kind == "ok") {
		diverged = true // one side has a handle, the other has none
	}

	// ---- state oracle
	diffBefore := s.diff
	nd := map[string]bool{}

	if !poisoned && !diverged {
		ki, vi, p := s.observe()
		poisoned = p

		contentDiff := map[string]bool{}

		for j := range ki {
			if ki[j].kind == "content" && ki[j].val != vi[j].val {
				contentDiff[ki[j].via] = true
			}
		}

		for j := range ki {
			if ki[j].val == vi[j].val {
				continue
			}

			it := ki[j]
			via := it.via

			if strings.HasPrefix(via, "h") {
				if sl != nil && via == fmt.Sprintf("h%d", o.Slot) {
					via = "self"
				} else {
					via = "other-handle"
				}
			}

			dc := diffClass(it.kind, it.val, vi[j].val)
			dk := it.label + ":" + dc
			nd[dk] = true

			// content, size, offset, presence: the futures of the two sides are
			// not comparable any more; mode / link count only: keep exploring
			if it.kind != "attr" || strings.Contains(dc, "sz") || strings.HasPrefix(dc, "kind:") || p {
				diverged = true
			}

			if it.kind == "attr" && dc == "sz" && contentDiff[it.via] {
				continue // the size difference is implied by the content difference seen through the same name / handle
			}

			sg := sig("kind", "post-"+it.kind, "via", via, "diff", dc)

			if !diffBefore[dk] {
				add("state differs after the call: "+it.label, sg, it.val, vi[j].val)
			}
		}
	} else {
		// keep the key on the kernel side current
		s.observeKernel()
	}

	s.diff = nd

	// ---- values handed out earlier (kept.go): by the calls of the history and by the
	// observations, on this instance since its Reset; read again after every call,
	// whether or not the two sides still agree (the emulation is compared with itself)
	if !poisoned {
		for _, kd := range s.kept.check() {
			add(kd.what, sig("kind", "kept-value", "from", kd.from, "diff", kd.diff), kd.was, kd.now)
		}
	}

	broken := poisoned || diverged
	key := s.key

	if broken {
		key = "broken|" + key
		s.key = key
	}

	if s.trace {
		fmt.Printf("  %-46s key    %s\n", "", key)

		for _, v := range viols {
			fmt.Printf("  %-46s VIOL   %s %s\n", "", kf.Sig(v.Sig), v.Detail)
		}
	}

	return bfs.StepResult{
		Changed: key != keyBefore, Key: key, Broken: broken, Rebuild: broken,
		Outcome: base["call"] + "/" + kc, Viols: viols,
	}
}

func fieldDiff(a, b string) string {
	fa, fb := strings.Fields(a), strings.Fields(b)
	if len(fa) != len(fb) {
		return "shape"
	}

	var d []string

	for i := range fa {
		if fa[i] != fb[i] {
			n := fa[i]
			if j := strings.Index(n, "="); j >= 0 {
				n = n[:j]
			}

			d = append(d, n)
		}
	}

	sort.Strings(d)

	return strings.Join(d, "+")
}

// diffClass classifies how two observation values differ.
func diffClass(kind, k, v string) string {
	ks, vs := strings.SplitN(k, ":", 2), strings.SplitN(v, ":", 2)
	if ks[0] != vs[0] || len(ks) < 2 || len(vs) < 2 {
		return "kind:" + ks[0] + "!=" + firstWord(vs[0])
	}

	switch kind {
	case "content":
		// lengths in bytes, not of the quoted rendering (a gap of zeros is 4 characters per byte there)
		kl, vl := len(ks[1]), len(vs[1])

		if ku, err := strconv.Unquote(ks[1]); err == nil {
			if vu, err := strconv.Unquote(vs[1]); err == nil {
				kl, vl = len(ku), len(vu)
			}
		}

		switch {
		case vl < kl:
			return "avfs-shorter"
		case vl > kl:
			return "avfs-longer"
		}

		return "same-length"
	case "offset":
		var a, b int64

		fmt.Sscan(ks[1], &a)
		fmt.Sscan(vs[1], &b)

		if b < a {
			return "avfs-less"
		}

		return "avfs-greater"
	}

	return fieldDiff(ks[1], vs[1])
}

func firstWord(s string) string {
	if i := strings.IndexByte(s, ' '); i >= 0 {
		return s[:i]
	}

	return s
}
