package main

// Values handed out earlier must stay what they were.
//
// General lesson: a call is not finished with when it has returned. Comparing
// each result with the oracle at the moment it is obtained proves that the
// value was right THEN; it says nothing about what the value shows when the
// caller looks at it again. os.File.Stat, os.Stat, os.Lstat, File.ReadDir and
// DirEntry.Info hand out snapshots: a program keeps the FileInfo of a first
// Stat, changes the file, calls Stat again and compares the two. An
// implementation that re-uses the structure it handed out ("one FileInfo per
// handle, refilled by every Stat, so that polling does not allocate"), that
// returns a view of the live node instead of a copy, or that hands out the
// elements of a cache it keeps updating is right call by call and wrong for
// that program. So the harness KEEPS every value with reference semantics that
// the emulated side ever returned in a history - the fs.FileInfo of every
// File.Stat / Stat / Lstat (those asked for by a call of the alphabet and those
// the harness obtains itself when it observes the state through every name and
// every open handle after every call), every fs.DirEntry of a ReadDir and the
// fs.FileInfo of its Info() - and reads every one of them again after every
// later call of the history: all its accessors (Name, Size, Mode, ModTime,
// IsDir, Type, owner, group, link count) must answer what they answered when
// the value was returned. The kernel side needs no counterpart: the values of
// package os are plain copies. (Returned byte and name slices are covered
// from the other direction: the harness scribbles over them after the call and
// the state comparison shows whether that reached the implementation.)

import (
	"fmt"
	"io/fs"
	"sort"
	"strings"

	"github.com/avfs/avfs"

	"verif/lib/fsx"
)

// snap is everything the accessors of a kept value answer.
type snap struct {
	name   string
	size   int64
	mode   fs.FileMode
	mtime  int64
	dir    bool
	typ    fs.FileMode
	sys    bool // the owner / group / link count could be read
	uid    int
	gid    int
	nlink  uint64
	broken string // reading the value panicked
}

func (a snap) String() string {
	if a.broken != "" {
		return "unreadable: " + a.broken
	}

	return fmt.Sprintf("name=%s sz=%d mode=%s mtime=%d dir=%v type=%s sys=%v uid=%d gid=%d nlink=%d",
		a.name, a.size, fsx.ModeString(a.mode), a.mtime, a.dir, fsx.ModeString(a.typ), a.sys, a.uid, a.gid, a.nlink)
}

// diff names the accessors that answer differently.
func (a snap) diff(b snap) string {
	var d []string

	for _, f := range []struct {
		n  string
		ne bool
	}{
		{"name", a.name != b.name}, {"sz", a.size != b.size}, {"mode", a.mode != b.mode}, {"mtime", a.mtime != b.mtime},
		{"dir", a.dir != b.dir}, {"type", a.typ != b.typ}, {"owner", a.sys != b.sys || a.uid != b.uid || a.gid != b.gid},
		{"nlink", a.nlink != b.nlink}, {"unreadable", a.broken != b.broken},
	} {
		if f.ne {
			d = append(d, f.n)
		}
	}

	sort.Strings(d)

	return strings.Join(d, "+")
}

type keptValue struct {
	from string // class of the call that returned it: File.Stat | Stat | Lstat | ReadDir | DirEntry.Info
	call string // the call itself
	step int    // number of the call of the history after which it was returned (0: while the start state was observed)
	fi   fs.FileInfo
	de   fs.DirEntry // set instead of fi for a directory entry: Name / IsDir / Type only (Info may legitimately be read at the time of the call)
	was  snap
}

// keeper holds the values one instance of the emulated file system has handed out since its Reset.
type keeper struct {
	v    avfs.VFS
	step int
	vals []keptValue
}

func (k *keeper) reset(v avfs.VFS) {
	k.v, k.step, k.vals = v, 0, nil
}

// next starts the next call of the history.
func (k *keeper) next() { k.step++ }

func (k *keeper) read(kv *keptValue) (sn snap) {
	kind, msg := fsx.Guard(func() {
		if kv.de != nil {
			sn = snap{name: kv.de.Name(), dir: kv.de.IsDir(), typ: kv.de.Type()}

			return
		}

		fi := kv.fi
		sn = snap{name: fi.Name(), size: fi.Size(), mode: fi.Mode(), mtime: fi.ModTime().UnixNano(), dir: fi.IsDir(), typ: fi.Mode().Type()}

		func() {
			defer func() { _ = recover() }()

			st := k.v.ToSysStat(fi)
			sn.uid, sn.gid, sn.nlink, sn.sys = st.Uid(), st.Gid(), st.Nlink(), true
		}()
	})
	if kind != "" {
		return snap{broken: kind + " " + stripDigits(strings.SplitN(msg, " @ ", 2)[0])}
	}

	return sn
}

// keepInfo remembers a FileInfo the emulated side has just returned.
func (k *keeper) keepInfo(from, call string, fi fs.FileInfo) {
	if fi == nil {
		return
	}

	kv := keptValue{from: from, call: call, step: k.step, fi: fi}
	kv.was = k.read(&kv)
	k.vals = append(k.vals, kv)
}

// keepEntry remembers a DirEntry the emulated side has just returned, and the FileInfo it gives now.
func (k *keeper) keepEntry(call string, de fs.DirEntry) {
	if de == nil {
		return
	}

	kv := keptValue{from: "ReadDir", call: call, step: k.step, de: de}
	kv.was = k.read(&kv)
	k.vals = append(k.vals, kv)

	var fi fs.FileInfo

	if kind, _ := fsx.Guard(func() { fi, _ = de.Info() }); kind == "" && fi != nil {
		k.keepInfo("DirEntry.Info", call+": "+kv.was.name+".Info()", fi)
	}
}

type keptDiff struct {
	from, diff, what, was, now string
}

// check reads every kept value again. It is called once per call of the history, after the call and
// after the observation of the state that follows it. A value that changed is reported once (it is
// compared with its new content from then on).
func (k *keeper) check() (out []keptDiff) {
	for i := range k.vals {
		kv := &k.vals[i]

		now := k.read(kv)
		if now == kv.was {
			continue
		}

		when := fmt.Sprintf("by call %d of the history", kv.step)
		if kv.step == 0 {
			when = "before the first call of the history"
		}

		out = append(out, keptDiff{
			from: kv.from, diff: kv.was.diff(now), was: "when it was returned: " + kv.was.String(), now: "now: " + now.String(),
			what: fmt.Sprintf("a value returned earlier (%s, %s) has changed after this call: what a call hands out is a snapshot", kv.call, when),
		})

		kv.was = now
	}

	return out
}
