package main

import (
	"fmt"
	"strings"

	"github.com/avfs/avfs"
)

// PathIterator checks.
//
// What is checked, exactly:
//
//  1. Input paths are absolute for the emulated OS: "/"+w for Linux, `C:\`+w
//     and `\\h\s\`+w for Windows, w over {a, b, separator}.
//  2. Termination: Next() returns false after at most len(path)+2 calls.
//  3. At every step Left()+Part()+Right() == path == Path().
//  4. Parts. For a *clean* path (reference Clean(p) == p) the sequence of
//     Part() values equals exactly the separator-delimited elements of the
//     path after the volume name (none for a bare root). For an *unclean* path
//     (doubled or trailing separators) the statement does not say whether
//     empty elements are parts; the iterator yields an empty part for a doubled
//     separator and none for a trailing one. The check is the lenient reading
//     that holds for both: the non-empty yielded parts equal the non-empty
//     elements, in order.
//  5. ReplacePart(t) at every position: Path() afterwards equals the
//     reference Join(t, Right) if the reference IsAbs(t), else
//     Join(Left, t, Right) (Left/Right taken just before the call).
//     The boolean: if the new path does not start with the old Left() the
//     result must be true (a "true" with an unchanged prefix is conservative
//     and only counted). If the volume name of the path did not change, the
//     iteration continued with Next() must yield exactly the remaining parts
//     of the new path: all of them after a reset (true), those after Left()
//     otherwise.

type iterRun struct {
	parts      []string
	reassemble bool
	terminated bool
	p          any
}

func (o *osCtx) iterate(path string) (r iterRun) {
	defer func() {
		if e := recover(); e != nil {
			r.p = e
		}
	}()

	r.reassemble = true
	pi := avfs.NewPathIterator(o.v, path)

	for i := 0; ; i++ {
		if i > len(path)+2 {
			return r
		}

		if !pi.Next() {
			break
		}

		r.parts = append(r.parts, pi.Part())

		if pi.Left()+pi.Part()+pi.Right() != path || pi.Path() != path {
			r.reassemble = false
		}
	}

	r.terminated = true

	return r
}

type replaceRun struct {
	ok          bool // the iterator could be advanced to the requested step
	left, right string
	reset       bool
	newPath     string
	rest        []string
	terminated  bool
	p           any
}

func (o *osCtx) replace(path string, step int, t string) (r replaceRun) {
	defer func() {
		if e := recover(); e != nil {
			r.p = e
		}
	}()

	pi := avfs.NewPathIterator(o.v, path)

	for i := 0; i <= step; i++ {
		if !pi.Next() {
			return r
		}
	}

	r.ok = true
	r.left, r.right = pi.Left(), pi.Right()
	r.reset = pi.ReplacePart(t)
	r.newPath = pi.Path()

	for i := 0; ; i++ {
		if i > len(r.newPath)+2 {
			return r
		}

		if !pi.Next() {
			break
		}

		r.rest = append(r.rest, pi.Part())
	}

	r.terminated = true

	return r
}

func splitNonEmpty(s string, sep byte) []string {
	var out []string

	for _, e := range strings.Split(s, string(sep)) {
		if e != "" {
			out = append(out, e)
		}
	}

	return out
}

func nonEmpty(in []string) []string {
	var out []string

	for _, e := range in {
		if e != "" {
			out = append(out, e)
		}
	}

	return out
}

func equalStrings(a, b []string) bool {
	if len(a) != len(b) {
		return false
	}

	for i := range a {
		if a[i] != b[i] {
			return false
		}
	}

	return true
}

func partsClass(want, got []string) string {
	hasEmpty := len(nonEmpty(got)) != len(got)

	c := "same-count-different"

	switch {
	case len(got) < len(want):
		c = "fewer"
	case len(got) > len(want):
		c = "more"
	}

	if hasEmpty {
		c += "+empty-part"
	}

	return c
}

// iterPath runs all iterator checks on one absolute path.
func (w *worker) iterPath(o *osCtx, path string, repl []string) {
	w.begin(o, "iter", path, "", "")

	ref := &o.ref
	volLen := len(ref.volumeName(path))
	clean := ref.clean(path) == path
	exp := splitNonEmpty(path[volLen:], o.sep)

	class := o.shape(path) + ",clean"
	if !clean {
		class = o.shape(path) + ",unclean"
	}

	rec := func(fn int, check, class, wantC, gotC string, step int, args []string, wantV, gotV string, vol ...string) {
		x := args3{n: len(args)}
		copy(x.a[:], args)

		w.record(o, fn, class, wantC, gotC, o.volCause(x, vol...), check,
			func() example { return example{Args: args, Step: step, Want: wantV, Got: gotV} }, len(strings.Join(args, "")))
	}

	run := o.iterate(path)
	code := len(exp)

	if code > nCodes-29 {
		code = nCodes - 29
	}

	w.cnt.add(o.idx, fIterParts, uint8(28+code))

	switch {
	case run.p != nil:
		rec(fIterParts, "parts", class, "no-panic", panicClass(run.p), 0, []string{path}, fmt.Sprintf("%q", exp), panicClass(run.p))

		return
	case !run.terminated:
		rec(fIterParts, "terminate", class, "terminates", "no-termination", 0, []string{path}, "Next() == false eventually", "still true after len(path)+2 calls")

		return
	}

	if !run.reassemble {
		rec(fIterParts, "reassemble", class, "Left+Part+Right==path", "differs", 0, []string{path}, path, "Left()+Part()+Right() != path at some step")
	}

	got := run.parts
	if !clean {
		got = nonEmpty(got)
	}

	if !equalStrings(got, exp) {
		rec(fIterParts, "parts", class, "all-parts", partsClass(exp, run.parts), 0, []string{path}, fmt.Sprintf("%q", exp), fmt.Sprintf("%q", run.parts))
	}

	// ReplacePart at every position reached by the iteration.
	for step := range run.parts {
		for _, t := range repl {
			w.replaceCheck(o, path, step, t, class, rec)
		}
	}
}

func (w *worker) replaceCheck(o *osCtx, path string, step int, t, pathClass string,
	rec func(fn int, check, class, wantC, gotC string, step int, args []string, wantV, gotV string, vol ...string),
) {
	ref := &o.ref
	r := o.replace(path, step, t)
	args := []string{path, t}
	class := joinClasses(pathClass, "repl:"+o.shape(t))

	if r.p != nil {
		w.cnt.add(o.idx, fIterReplace, ocError)
		rec(fIterReplace, "replace", class, "no-panic", panicClass(r.p), step, args, "returns", panicClass(r.p))

		return
	}

	if !r.ok {
		return // cannot happen: step < number of parts of a deterministic iteration
	}

	elems := []string{r.left, t, r.right}
	if ref.isAbs(t) {
		elems = elems[1:]
	}

	exp := ref.join(elems...)

	if r.reset {
		w.cnt.add(o.idx, fIterReplace, ocBoolTrue)
	} else {
		w.cnt.add(o.idx, fIterReplace, ocBoolFalse)
	}

	if r.newPath != exp {
		rec(fIterReplace, "replace-path", class, strOutcome(o, exp), gotStrOutcome(o, exp, r.newPath, nil), step, args, q(exp), q(r.newPath), strings.Join(elems, `\`), exp, r.newPath)

		return
	}

	prefixKept := strings.HasPrefix(exp, r.left)

	if !prefixKept && !r.reset {
		rec(fIterReplace, "replace-flag", class, "true(prefix changed)", "false", step, args, "true", "false")

		return
	}

	if prefixKept && r.reset {
		w.resetConservative++
	}

	// continued iteration, only when the volume name is unchanged
	oldVol, newVol := ref.volumeName(path), ref.volumeName(exp)
	if oldVol != newVol {
		return
	}

	if !r.terminated {
		rec(fIterReplace, "replace-terminate", class, "terminates", "no-termination", step, args, "Next() == false eventually", "still true")

		return
	}

	var want []string

	flag := "after-reset"

	if r.reset {
		want = splitNonEmpty(exp[len(newVol):], o.sep)
	} else {
		flag = "no-reset"
		want = splitNonEmpty(exp[len(r.left):], o.sep)
	}

	if !equalStrings(r.rest, want) {
		rec(fIterReplace, "replace-continue", class, flag+":remaining-parts", flag+":"+partsClass(want, r.rest), step, args,
			fmt.Sprintf("new path %q, then parts %q", exp, want), fmt.Sprintf("parts %q", r.rest))
	}
}
