package main

import (
	"fmt"
	"os"
	"strconv"
	"time"
)

// Last-resort hang detection. Every call evaluated here takes microseconds;
// the only known non-terminating construct (the element loop of Rel) is
// decided beforehand by relDiverges. Should a worker nevertheless make no
// progress for stallLimit, the input it holds is re-evaluated on the reference
// alone in a sacrificial goroutine, then on the system under test alone: if the
// reference returns and the system under test does not (20 s), that is
// reported as a violation ("return exactly what path/filepath returns"); if
// the reference does not return either, that is a harness error; if both
// return, the stall was not a hang and the run continues. In both cases the run is ended: a stuck
// goroutine cannot be stopped. No verdict other than HANG depends on time.
var stallLimit = 90 * time.Second // VERIF_C13_STALL_S overrides (used to test the watchdog itself)

func (d *driver) watchdog() {
	if v, err := strconv.Atoi(os.Getenv("VERIF_C13_STALL_S")); err == nil && v > 0 {
		stallLimit = time.Duration(v) * time.Second
	}

	last := make([]uint64, len(d.workers))
	since := make([]time.Time, len(d.workers))

	for i := range since {
		since[i] = time.Now()
	}

	for {
		time.Sleep(5 * time.Second)

		for i, w := range d.workers {
			p := w.progress.Load()
			if p != last[i] || !w.busy.Load() {
				last[i], since[i] = p, time.Now()

				continue
			}

			if time.Since(since[i]) < stallLimit {
				continue
			}

			d.stalled(w)

			since[i] = time.Now() // not a hang after all
		}
	}
}

func (d *driver) stalled(w *worker) {
	o, kind, args := w.curOS, w.curKind, w.curArgs

	fns := map[string][]string{
		"single": {"Clean", "Split", "Dir", "Base", "IsAbs", "FromSlash", "ToSlash", "VolumeName", "Join"},
		"pair":   {"Join", "Rel"},
		"triple": {"Join"},
		"match":  {"Match"},
		"iter":   {"Clean", "VolumeName", "IsAbs", "Join"},
		"abs":    {"Clean"},
	}[kind]

	n := map[string]int{"single": 1, "pair": 2, "triple": 3, "match": 2, "iter": 1, "abs": 1}[kind]

	done := make(chan struct{})

	go func() {
		for _, fn := range fns {
			if fn == "Rel" && relDiverges(&o.ref, o, args[0], args[1]) {
				continue
			}

			_ = render(&o.ref, fn, args[:n])
		}

		close(done)
	}()

	select {
	case <-done:
	case <-time.After(20 * time.Second):
		harness("no progress for %v on %s %s%q and the reference does not return either", stallLimit, o.name, kind, args[:n])
	}

	// ... and the system under test, on the same input, in a fresh goroutine:
	// only if that call does not return either is it a hang (a stopped or
	// starved process must not be mistaken for one).
	sutDone := make(chan struct{})

	go func() {
		defer close(sutDone)

		if kind == "iter" {
			_ = o.iterate(args[0])

			return
		}

		for _, fn := range fns {
			_ = render(&o.sut, fn, args[:n])
		}
	}()

	select {
	case <-sutDone:
		fmt.Fprintf(os.Stderr, "c13: note: a worker showed no progress for %v on %s %s%q but the same calls return when repeated: not a hang, continuing\n",
			stallLimit, o.name, kind, args[:n])

		return
	case <-time.After(20 * time.Second):
	}

	fmt.Fprintf(os.Stderr, "c13: a worker made no progress for %v on %s %s%q; the reference returns: the system under test hangs\n",
		stallLimit, o.name, kind, args[:n])

	// stop the other workers at their next task boundary, then finish with
	// what has been gathered (the stuck worker no longer touches its state).
	d.expired.Store(true)
	time.Sleep(3 * time.Second)

	x := args3{a: args, n: n}
	fn := map[string]int{"single": fClean, "pair": fRel, "triple": fJoin3, "match": fMatch, "iter": fIterParts, "abs": fAbs}[kind]
	hw := newWorker()
	hw.record(o, fn, kind+":"+o.classOf(x), "returns", "HANG(no progress; the same call repeated in a fresh goroutine does not return in 20s; the reference returns)", o.volCause(x), "",
		func() example { return example{Args: x.slice(), Want: "returns", Got: "does not return"} }, x.size())
	d.workers = append(d.workers, hw)
	d.aborted = fmt.Sprintf("watchdog: %s %s%q never returned", o.name, kind, args[:n])

	code := d.finish()

	d.cleanup()
	os.Exit(code)
}
