package main

import "strings"

// Input/output classes used in violation signatures. The aim is to group
// instances by root cause (how the string begins, i.e. which volume syntax it
// carries) without recording raw strings.

func isSlash(c byte) bool { return c == '/' || c == '\\' }

func isLetter(c byte) bool { return 'a' <= c && c <= 'z' || 'A' <= c && c <= 'Z' }

// sepOrEnd reports whether s ends at i or has a separator there.
func sepOrEnd(s string, i int) bool { return len(s) == i || len(s) > i && isSlash(s[i]) }

func hasPrefixFold(s, prefix string) bool {
	return len(s) >= len(prefix) && strings.EqualFold(s[:len(prefix)], prefix)
}

// winShape classifies how a string begins under Windows path syntax.
func winShape(s string) string {
	switch {
	case s == "":
		return "empty"
	case len(s) >= 2 && s[1] == ':':
		kind := "drive"

		switch {
		case isSlash(s[0]):
			kind = "sepdrive" // `\:` : a drive for Go >= 1.21, a rooted path before
		case !isLetter(s[0]):
			kind = "odddrive" // `?:`, `.:`, `::` ...
		}

		if len(s) > 2 && isSlash(s[2]) {
			return kind + "-abs"
		}

		return kind + "-rel"
	case !isSlash(s[0]):
		// relative, no volume; a colon in the first element matters to Clean.
		for i := 0; i < len(s) && !isSlash(s[i]); i++ {
			if s[i] == ':' {
				return "rel-colon"
			}
		}

		return "rel"
	case len(s) >= 3 && s[1] == '?' && s[2] == '?' && sepOrEnd(s, 3):
		return `\??\` // root local device
	case len(s) < 2 || !isSlash(s[1]):
		return "rooted"
	}

	// two leading separators
	rest := s[2:]

	switch {
	case rest == "":
		return `\\`
	case isSlash(rest[0]):
		return `\\\`
	case rest[0] == '.' && sepOrEnd(rest, 1):
		if len(rest) >= 5 && hasPrefixFold(rest[2:], "UNC") && sepOrEnd(rest, 5) {
			return `\\.\UNC`
		}

		return `\\.\`
	case rest[0] == '?' && sepOrEnd(rest, 1):
		if len(rest) >= 5 && hasPrefixFold(rest[2:], "UNC") && sepOrEnd(rest, 5) {
			return `\\?\UNC`
		}

		return `\\?\`
	}

	// \\host...
	i := 0
	for i < len(rest) && !isSlash(rest[i]) {
		i++
	}

	dot := ""
	if rest[0] == '.' {
		dot = "-dothost"
	}

	if i == len(rest) {
		return "unc-hostonly" + dot
	}

	share := rest[i+1:]

	switch {
	case share == "":
		return "unc-noshare" + dot
	case isSlash(share[0]):
		return "unc-emptyshare" + dot
	case share[0] == '.':
		return "unc-dotshare" + dot
	}

	return "unc" + dot
}

func linShape(s string) string {
	switch {
	case s == "":
		return "empty"
	case s[0] == '/':
		return "abs"
	}

	return "rel"
}

// hasDotDot reports whether one of the separator-delimited elements is "..".
func hasDotDot(s string, win bool) bool {
	for i := 0; i+1 < len(s); i++ {
		if s[i] != '.' || s[i+1] != '.' {
			continue
		}

		before := i == 0 || s[i-1] == '/' || win && (s[i-1] == '\\' || i == 2 && s[1] == ':')
		after := i+2 == len(s) || s[i+2] == '/' || win && s[i+2] == '\\'

		if before && after {
			return true
		}
	}

	return false
}

// shape is the input/output class of a string for the OS of o.
func (o *osCtx) shape(s string) string {
	var c string
	if o.win {
		c = winShape(s)
	} else {
		c = linShape(s)
	}

	if hasDotDot(s, o.win) {
		c += "+dotdot"
	}

	return c
}

// volAgree tells whether reference and implementation see the same volume
// name length in s (Windows only; the root cause behind most disagreements).
func (o *osCtx) volAgree(s string) bool {
	if !o.win {
		return true
	}

	got, p := s1(o.sut.volumeName, s)

	return p == nil && len(got) == len(o.ref.volumeName(s))
}

// relation of an observed string to the expected one.
func relation(want, got string) string {
	switch {
	case got == want:
		return "equal"
	case strings.EqualFold(got, want):
		return "casefold-equal"
	case len(got) < len(want) && strings.HasPrefix(want, got):
		return "prefix-of-want"
	case len(got) < len(want) && strings.HasSuffix(want, got):
		return "suffix-of-want"
	case len(got) > len(want) && strings.HasPrefix(got, want):
		return "want-plus-suffix"
	case len(got) > len(want) && strings.HasSuffix(got, want):
		return "prefix-plus-want"
	case len(got) < len(want):
		return "shorter"
	case len(got) > len(want):
		return "longer"
	}

	return "same-length"
}

// matchClass classifies a Match pattern or name by the syntax it contains.
func matchClass(s string, sep byte) string {
	if s == "" {
		return "empty"
	}

	var b strings.Builder

	for _, f := range []struct {
		c    string
		name string
	}{
		{"*", "star"}, {"?", "qm"}, {"[", "lbr"}, {"]", "rbr"}, {"-", "dash"}, {"^", "caret"},
		{"\\", "bslash"}, {"/", "slash"}, {"é", "nonascii"},
	} {
		if strings.Contains(s, f.c) {
			if b.Len() > 0 {
				b.WriteByte('+')
			}

			b.WriteString(f.name)
		}
	}

	if b.Len() == 0 {
		return "literal"
	}

	_ = sep

	return b.String()
}
