package main

import (
	"encoding/json"
	"fmt"
	"os"
	"path/filepath"
	"strings"

	"github.com/avfs/avfs"
)

// render evaluates one call through an api and prints the result; it is a
// second, slow path independent of the comparison code of checks.go, used for
// evidence samples and for -replay.
func render(a *api, fn string, args []string) (out string) {
	defer func() {
		if e := recover(); e != nil {
			out = panicClass(e)
		}
	}()

	switch fn {
	case "Clean":
		return q(a.clean(args[0]))
	case "Dir":
		return q(a.dir(args[0]))
	case "Base":
		return q(a.base(args[0]))
	case "FromSlash":
		return q(a.fromSlash(args[0]))
	case "ToSlash":
		return q(a.toSlash(args[0]))
	case "VolumeName":
		return q(a.volumeName(args[0]))
	case "Split":
		d, f := a.split(args[0])

		return q(d) + "," + q(f)
	case "IsAbs":
		return boolName(a.isAbs(args[0]))
	case "Join":
		return q(a.join(args...))
	case "Rel":
		r, err := a.rel(args[0], args[1])
		if err != nil {
			return "error"
		}

		return q(r)
	case "Match":
		m, err := a.match(args[0], args[1])
		c, _ := matchOutcome(a, m, err)

		return c
	}

	return "unsupported function " + fn
}

type replayFile struct {
	Property  string            `json:"property"`
	Signature map[string]string `json:"signature"`
	Replay    replayObj         `json:"replay"`
}

type replayObj struct {
	Kind      string    `json:"kind"` // call | abs | aux | iter
	OS        string    `json:"os"`
	Func      string    `json:"func"`
	Check     string    `json:"check,omitempty"`
	Instances uint64    `json:"instances"`
	Examples  []example `json:"examples"`
	Reference string    `json:"reference"`
	GoTest    string    `json:"go_test,omitempty"`
}

func (d *driver) replayObject(f *finding) replayObj {
	o := d.os[f.os]
	r := replayObj{OS: o.name, Func: fnName[f.fn], Check: f.sig["check"], Instances: f.n, Examples: f.ex, Kind: "call"}

	switch f.fn {
	case fAbs:
		r.Kind = "abs"
	case fFromUnixPath, fSplitAbs:
		r.Kind = "aux"
	case fIterParts, fIterReplace:
		r.Kind = "iter"
	}

	r.Reference = "path/filepath of the host toolchain"
	if o.win {
		r.Reference = "verif/ref/winpath (Windows sources of the toolchain, retargeted)"
	}

	if len(f.ex) > 0 {
		r.GoTest = goTest(o, f, f.ex[0])
	}

	return r
}

// goTest renders a plain Go test reproducing the first example against /repo
// (go test -tags avfs_setostype), without any verification machinery.
func goTest(o *osCtx, f *finding, e example) string {
	var call string

	switch f.fn {
	case fFromUnixPath:
		call = fmt.Sprintf("avfs.FromUnixPath(vfs, %q)", e.Args[0])
	case fSplitAbs:
		call = fmt.Sprintf("avfs.SplitAbs(vfs, %q)", e.Args[0])
	case fVolumeName:
		call = fmt.Sprintf("avfs.VolumeName(vfs, %q)", e.Args[0])
	case fIterParts:
		call = fmt.Sprintf("pi := avfs.NewPathIterator(vfs, %q); for pi.Next() { t.Log(pi.Part()) }", e.Args[0])
	case fIterReplace:
		call = fmt.Sprintf("pi := avfs.NewPathIterator(vfs, %q); for i := 0; i <= %d; i++ { pi.Next() }; reset := pi.ReplacePart(%q); t.Log(reset, pi.Path())",
			e.Args[0], e.Step, e.Args[1])
	case fAbs:
		call = fmt.Sprintf("_ = vfs.MkdirAll(%q, 0o755); _ = vfs.Chdir(%q); got, err := vfs.Abs(%q); t.Log(got, err)", e.Cwd, e.Cwd, e.Args[0])
	default:
		call = fmt.Sprintf("t.Log(vfs.%s(%s))", fnName[f.fn], quoteArgs(e.Args))
	}

	if f.fn == fFromUnixPath || f.fn == fSplitAbs || f.fn == fVolumeName {
		call = "t.Log(" + call + ")"
	}

	return fmt.Sprintf(`//go:build avfs_setostype

package memfs_test

import (
	"testing"

	"github.com/avfs/avfs"
	"github.com/avfs/avfs/vfs/memfs"
)

// %s on %s: want %s, got %s
func TestC13Replay(t *testing.T) {
	vfs := memfs.NewWithOptions(&memfs.Options{OSType: avfs.Os%s})
	_ = avfs.OsLinux
	%s
}
`, fnName[f.fn], o.name, e.Want, e.Got, o.name, call)
}

// replay re-executes the examples of a replay file; exit code 1 if any still
// violates, 0 if none does, 2 if the file cannot be used.
func (d *driver) replay(path string) int {
	b, err := os.ReadFile(path)
	if err != nil {
		harness("%v", err)
	}

	var rf replayFile
	if err := json.Unmarshal(b, &rf); err != nil {
		harness("%s: %v", path, err)
	}

	var o *osCtx

	for _, c := range d.os {
		if c.name == rf.Replay.OS {
			o = c
		}
	}

	if o == nil || len(rf.Replay.Examples) == 0 {
		harness("%s: no OS type / no example", path)
	}

	bad := 0

	for _, e := range rf.Replay.Examples {
		switch rf.Replay.Kind {
		case "call":
			want := render(&o.ref, rf.Replay.Func, e.Args)
			got := render(&o.sut, rf.Replay.Func, e.Args)
			fmt.Printf("%s %s(%s): reference %s, avfs %s\n", o.name, rf.Replay.Func, quoteArgs(e.Args), want, got)

			if want != got {
				bad++
			}
		default:
			// run the check itself on a fresh worker and look for the signature
			w := newWorker()
			d.scratch = ""

			switch rf.Replay.Kind {
			case "aux":
				w.aux(o, e.Args[0])
			case "iter":
				var repl []string
				if len(e.Args) > 1 {
					repl = []string{e.Args[1]}
				}

				w.iterPath(o, e.Args[0], repl)
			case "abs":
				v, err := newFS(avfs.OsLinux)
				if err != nil {
					harness("%v", err)
				}

				if err := os.MkdirAll(e.Cwd, 0o755); err != nil {
					harness("%v", err)
				}

				_ = v.MkdirAll(e.Cwd, 0o755)
				_ = v.Chdir(e.Cwd)
				os.Unsetenv("PWD")

				if err := os.Chdir(e.Cwd); err != nil {
					harness("%v", err)
				}

				w.absCheck(o, &absCtx{cwd: e.Cwd, ref: filepath.Abs, sut: v.Abs}, e.Args[0])
			default:
				harness("%s: unknown replay kind %q", path, rf.Replay.Kind)
			}

			hit := false

			for _, f := range w.agg {
				same := true

				for k, v := range rf.Signature {
					if f.sig[k] != v {
						same = false
					}
				}

				if same {
					hit = true

					for _, x := range f.ex {
						fmt.Printf("%s %s(%s)%s: want %s, got %s\n", o.name, rf.Replay.Func, quoteArgs(x.Args), exampleSuffix(x), x.Want, x.Got)
					}
				}
			}

			if hit {
				bad++
			} else {
				fmt.Printf("%s %s(%s): signature not reproduced\n", o.name, rf.Replay.Func, quoteArgs(e.Args))
			}
		}
	}

	if bad > 0 {
		fmt.Printf("replay: %d of %d examples still violate %s\n", bad, len(rf.Replay.Examples), strings.TrimSpace(rf.Property))

		return 1
	}

	fmt.Println("replay: not reproduced")

	return 0
}

// samples writes out a few of the cases actually enumerated (fixed indices of
// the enumeration), with both results.
func (d *driver) samples() []any {
	var out []any

	one := func(o *osCtx, fn string, args ...string) {
		out = append(out, map[string]any{
			"os": o.name, "func": fn, "args": args,
			"reference": render(&o.ref, fn, args), "avfs": render(&o.sut, fn, args),
		})
	}

	for _, o := range d.os {
		one(o, "Clean", sigma.at(5, 4321))
		one(o, "Clean", sigma.at(4, 8000))
		one(o, "Split", sigma.at(5, 200000))
		one(o, "Dir", sigma.at(4, 13000))
		one(o, "Base", sigma.at(3, 700))
		one(o, "IsAbs", sigma.at(3, 4*169+4*13+0))
		one(o, "VolumeName", volumePrefixes[2]+sigma.at(3, 4*169))
		one(o, "Join", sigma.at(3, 1000), sigma.at(2, 30))
		one(o, "Rel", sigma.at(3, 3*169+2), sigma.at(3, 3*169+13))
		one(o, "Join", sigma.at(2, 3*13), sigma.at(1, 2), sigma.at(2, 5))
		one(o, "Match", sigma.at(4, 8*2197+0*169+10*13+9), sigma.at(1, 1))
	}

	return out
}
