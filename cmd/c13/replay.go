package main

import (
	"encoding/json"
	"fmt"
	"os"
	"path/filepath"
	"runtime"
	"strings"
	"time"

	"github.com/avfs/avfs"
)

// render evaluates one call through an api and prints the result; it is a
// second, slow path independent of the comparison code of checks.go, used for
// evidence samples and for -replay.
func render(a *api, fn string, args []string) (out string) {
	defer func() {
		if e := recover(); e != nil {
			out = panicClass(e)
		}
	}()

	switch fn {
	case "Clean":
		return q(a.clean(args[0]))
	case "Dir":
		return q(a.dir(args[0]))
	case "Base":
		return q(a.base(args[0]))
	case "FromSlash":
		return q(a.fromSlash(args[0]))
	case "ToSlash":
		return q(a.toSlash(args[0]))
	case "VolumeName":
		return q(a.volumeName(args[0]))
	case "Split":
		d, f := a.split(args[0])

		return q(d) + "," + q(f)
	case "IsAbs":
		return boolName(a.isAbs(args[0]))
	case "Join":
		return q(a.join(args...))
	case "Rel":
		r, err := a.rel(args[0], args[1])
		if err != nil {
			return "error"
		}

		return q(r)
	case "Match":
		m, err := a.match(args[0], args[1])
		c, _ := matchOutcome(a, m, err)

		return c
	}

	return "unsupported function " + fn
}

// renderTimeout is render in a goroutine that is given up after 20 s (a
// replayed HANG finding must not hang the replay).
func renderTimeout(a *api, fn string, args []string) string {
	ch := make(chan string, 1)

	go func() { ch <- render(a, fn, args) }()

	select {
	case r := <-ch:
		return r
	case <-time.After(20 * time.Second):
		return "does not return (20s)"
	}
}

type replayFile struct {
	Property  string            `json:"property"`
	Signature map[string]string `json:"signature"`
	Replay    replayObj         `json:"replay"`
}

type replayObj struct {
	Kind      string    `json:"kind"` // call | abs | aux | iter | joinclean
	OS        string    `json:"os"`
	Func      string    `json:"func"`
	Check     string    `json:"check,omitempty"`
	Instances uint64    `json:"instances"`
	Examples  []example `json:"examples"`
	Reference string    `json:"reference"`
	GoTest    string    `json:"go_test,omitempty"`
}

func (d *driver) replayObject(f *finding) replayObj {
	o := d.os[f.os]
	r := replayObj{OS: o.name, Func: fnName[f.fn], Check: f.sig["check"], Instances: f.n, Examples: f.ex, Kind: "call"}

	switch f.fn {
	case fAbs:
		r.Kind = "abs"
	case fFromUnixPath, fSplitAbs:
		r.Kind = "aux"
	case fIterParts, fIterReplace:
		r.Kind = "iter"
	}

	if r.Check == joinCleanCheck {
		r.Kind = "joinclean"
	}

	r.Reference = referenceName(o)

	if len(f.ex) > 0 {
		r.GoTest = goTest(o, f, f.ex[0])
	}

	return r
}

// goTest renders a plain Go test reproducing the first example against /repo
// (go test -tags avfs_setostype ./vfs/memfs), without any verification
// machinery; the expected value is the reference's answer, inlined.
func goTest(o *osCtx, f *finding, e example) string {
	var body string

	call := fmt.Sprintf("vfs.%s(%s)", fnName[f.fn], quoteArgs(e.Args))

	switch f.fn {
	case fClean, fDir, fBase, fFromSlash, fToSlash, fJoin0, fJoin1, fJoin2, fJoin3, fVolumeName:
		if f.sig["check"] == joinCleanCheck {
			body = fmt.Sprintf("// Join is Clean of the concatenation of its elements\n\tif got, want := %s, vfs.Clean(%q); got != want {\n\t\tt.Errorf(\"got %%q, want %%q\", got, want)\n\t}", call, o.joinRaw(e.Args))

			break
		}

		if f.fn == fVolumeName {
			call = fmt.Sprintf("avfs.VolumeName(vfs, %q)", e.Args[0])
		}

		body = fmt.Sprintf("if got, want := %s, %s; got != want {\n\t\tt.Errorf(\"got %%q, want %%q\", got, want)\n\t}", call, e.Want)
	case fIsAbs:
		body = fmt.Sprintf("if got, want := %s, %s; got != want {\n\t\tt.Errorf(\"got %%v, want %%v\", got, want)\n\t}", call, e.Want)
	case fSplit:
		body = fmt.Sprintf("dir, file := %s\n\tif want := [2]string{%s}; dir != want[0] || file != want[1] {\n\t\tt.Errorf(\"got %%q %%q, want %%q\", dir, file, want)\n\t}", call, e.Want)
	case fRel, fAbs:
		pre := ""
		if f.fn == fAbs {
			pre = fmt.Sprintf("_ = vfs.MkdirAll(%q, 0o755)\n\t_ = vfs.Chdir(%q)\n\t", e.Cwd, e.Cwd)
		}

		if e.Want == "error" {
			body = fmt.Sprintf("%sif got, err := %s; err == nil {\n\t\tt.Errorf(\"got %%q, want an error\", got)\n\t}", pre, call)
		} else {
			body = fmt.Sprintf("%sif got, err := %s; err != nil || got != %s {\n\t\tt.Errorf(\"got %%q %%v, want %%q\", got, err, %s)\n\t}", pre, call, e.Want, e.Want)
		}
	case fMatch:
		body = fmt.Sprintf("m, err := %s\n\tgot := map[bool]string{true: \"true\", false: \"false\"}[m]\n\tif err != nil {\n\t\tgot = \"error-other\"\n\t\tif errors.Is(err, filepath.ErrBadPattern) {\n\t\t\tgot = \"ErrBadPattern\"\n\t\t}\n\t}\n\tif got != %q {\n\t\tt.Errorf(\"got %%s, want %s\", got)\n\t}", call, e.Want, e.Want)
	case fFromUnixPath:
		body = fmt.Sprintf("t.Log(avfs.FromUnixPath(vfs, %q)) // must not panic", e.Args[0])
	case fSplitAbs:
		body = fmt.Sprintf("t.Log(avfs.SplitAbs(vfs, %q)) // must not panic", e.Args[0])
	case fIterParts:
		body = fmt.Sprintf("pi := avfs.NewPathIterator(vfs, %q)\n\tfor pi.Next() {\n\t\tt.Logf(\"%%q + %%q + %%q\", pi.Left(), pi.Part(), pi.Right())\n\t}\n\t// want: %s; got: %s", e.Args[0], e.Want, e.Got)
	case fIterReplace:
		body = fmt.Sprintf("pi := avfs.NewPathIterator(vfs, %q)\n\tfor i := 0; i <= %d; i++ {\n\t\tpi.Next()\n\t}\n\treset := pi.ReplacePart(%q)\n\tt.Logf(\"reset=%%v path=%%q\", reset, pi.Path())\n\tfor pi.Next() {\n\t\tt.Logf(\"part %%q\", pi.Part())\n\t}\n\t// want: %s; got: %s",
			e.Args[0], e.Step, e.Args[1], e.Want, e.Got)
	}

	imports := "\t\"testing\"\n\n\t\"github.com/avfs/avfs\"\n\t\"github.com/avfs/avfs/vfs/memfs\"\n"
	if f.fn == fMatch {
		imports = "\t\"errors\"\n\t\"path/filepath\"\n" + imports
	}

	return fmt.Sprintf(`//go:build avfs_setostype

package memfs_test

import (
%s)

// %s on a %s-typed MemFS; expected value: %s.
func TestC13Replay(t *testing.T) {
	vfs := memfs.NewWithOptions(&memfs.Options{OSType: avfs.Os%s})

	%s
}
`, imports, fnName[f.fn], o.name, referenceName(o), o.name, body)
}

func referenceName(o *osCtx) string {
	if o.win {
		return "path/filepath of " + runtime.Version() + " for GOOS=windows (verif/ref/winpath)"
	}

	return "path/filepath of " + runtime.Version() + " on the host"
}

// replay re-executes the examples of a replay file; exit code 1 if any still
// violates, 0 if none does, 2 if the file cannot be used.
func (d *driver) replay(path string) int {
	b, err := os.ReadFile(path)
	if err != nil {
		harness("%v", err)
	}

	var rf replayFile
	if err := json.Unmarshal(b, &rf); err != nil {
		harness("%s: %v", path, err)
	}

	var o *osCtx

	for _, c := range d.os {
		if c.name == rf.Replay.OS {
			o = c
		}
	}

	if o == nil || len(rf.Replay.Examples) == 0 {
		harness("%s: no OS type / no example", path)
	}

	bad := 0

	for _, e := range rf.Replay.Examples {
		switch rf.Replay.Kind {
		case "call":
			want := renderTimeout(&o.ref, rf.Replay.Func, e.Args)
			got := renderTimeout(&o.sut, rf.Replay.Func, e.Args)
			fmt.Printf("%s %s(%s): reference %s, avfs %s\n", o.name, rf.Replay.Func, quoteArgs(e.Args), want, got)

			if want != got {
				bad++
			}
		default:
			// run the check itself on a fresh worker and look for the signature
			w := newWorker()
			d.scratch = ""

			switch rf.Replay.Kind {
			case "aux":
				w.aux(o, e.Args[0])
			case "joinclean":
				w.joinAny(o, e.Args)
			case "iter":
				var repl []string
				if len(e.Args) > 1 {
					repl = []string{e.Args[1]}
				}

				w.iterPath(o, e.Args[0], repl)
			case "abs":
				v, err := newFS(avfs.OsLinux)
				if err != nil {
					harness("%v", err)
				}

				if err := os.MkdirAll(e.Cwd, 0o755); err != nil {
					harness("%v", err)
				}

				_ = v.MkdirAll(e.Cwd, 0o755)
				_ = v.Chdir(e.Cwd)
				os.Unsetenv("PWD")

				if err := os.Chdir(e.Cwd); err != nil {
					harness("%v", err)
				}

				w.absCheck(o, &absCtx{cwd: e.Cwd, ref: filepath.Abs, sut: v.Abs}, e.Args[0])
			default:
				harness("%s: unknown replay kind %q", path, rf.Replay.Kind)
			}

			hit := false

			for _, f := range w.agg {
				same := true

				for k, v := range rf.Signature {
					if f.sig[k] != v {
						same = false
					}
				}

				if same {
					hit = true

					for _, x := range f.ex {
						fmt.Printf("%s %s(%s)%s: want %s, got %s\n", o.name, rf.Replay.Func, quoteArgs(x.Args), exampleSuffix(x), x.Want, x.Got)
					}
				}
			}

			if hit {
				bad++
			} else {
				fmt.Printf("%s %s(%s): signature not reproduced\n", o.name, rf.Replay.Func, quoteArgs(e.Args))
			}
		}
	}

	if bad > 0 {
		fmt.Printf("replay: %d of %d examples still violate %s\n", bad, len(rf.Replay.Examples), strings.TrimSpace(rf.Property))

		return 1
	}

	fmt.Println("replay: not reproduced")

	return 0
}

// samples writes out a few of the cases actually enumerated (fixed indices of
// the enumeration), with both results.
func (d *driver) samples() []any {
	var out []any

	one := func(o *osCtx, fn string, args ...string) {
		out = append(out, map[string]any{
			"os": o.name, "func": fn, "args": args,
			"reference": render(&o.ref, fn, args), "avfs": render(&o.sut, fn, args),
		})
	}

	for _, o := range d.os {
		one(o, "Clean", sigma.at(5, 4321))
		one(o, "Clean", sigma.at(4, 8000))
		one(o, "Split", sigma.at(5, 200000))
		one(o, "Dir", sigma.at(4, 13000))
		one(o, "Base", sigma.at(3, 700))
		one(o, "IsAbs", sigma.at(3, 4*169+4*13+0))
		one(o, "VolumeName", volumePrefixes[2]+sigma.at(3, 4*169))
		one(o, "Join", sigma.at(3, 1000), sigma.at(2, 30))
		one(o, "Rel", sigma.at(3, 3*169+2), sigma.at(3, 3*169+13))
		one(o, "Join", sigma.at(2, 3*13), sigma.at(1, 2), sigma.at(2, 5))
		one(o, "Match", sigma.at(4, 8*2197+0*169+10*13+9), sigma.at(1, 1))
	}

	return out
}
