package main

import (
	"strings"
	"time"

	"github.com/avfs/avfs"
)

type args3 struct {
	a [3]string
	n int
}

func (x args3) slice() []string { return append([]string(nil), x.a[:x.n]...) }

func (x args3) size() int { return len(x.a[0]) + len(x.a[1]) + len(x.a[2]) }

func (o *osCtx) classOf(x args3) string {
	switch x.n {
	case 0:
		return "no-args"
	case 1:
		return o.shape(x.a[0])
	case 2:
		return joinClasses(o.shape(x.a[0]), o.shape(x.a[1]))
	}

	return joinClasses(o.shape(x.a[0]), o.shape(x.a[1]), o.shape(x.a[2]))
}

// volCause names the root cause "the two sides parse a different volume
// name": it returns the shape of the first string among the arguments and the
// extra strings (intermediate strings the function parses, then the results)
// on whose volume-name length reference and implementation disagree, "none"
// if they agree on all of them, "n/a" for the Linux type (no volumes).
func (o *osCtx) volCause(x args3, extra ...string) string {
	if !o.win {
		return "n/a"
	}

	for i := 0; i < x.n; i++ {
		if !o.volAgree(x.a[i]) {
			return winShape(x.a[i])
		}
	}

	for _, s := range extra {
		if !o.volAgree(s) {
			return winShape(s)
		}
	}

	return "none"
}

func strOutcome(o *osCtx, s string) string { return "str:" + o.shape(s) }

func gotStrOutcome(o *osCtx, want, got string, p any) string {
	if p != nil {
		return panicClass(p)
	}

	return "str:" + o.shape(got) + "," + relation(want, got)
}

func gotValue(got string, p any) string {
	if p != nil {
		return panicClass(p)
	}

	return q(got)
}

// cmpStr: a function returning one string.
func (w *worker) cmpStr(o *osCtx, fn int, x args3, want, got string, p any, extraVol ...string) {
	w.cnt.add(o.idx, fn, strCode(x.a[0], want))

	if p == nil && got == want {
		return
	}

	extra := append(append([]string{}, extraVol...), want)
	if p == nil {
		extra = append(extra, got)
	}

	w.record(o, fn, o.classOf(x), strOutcome(o, want), gotStrOutcome(o, want, got, p),
		o.volCause(x, extra...), "",
		func() example { return example{Args: x.slice(), Want: q(want), Got: gotValue(got, p)} }, x.size())
}

func boolName(b bool) string {
	if b {
		return "true"
	}

	return "false"
}

func (w *worker) cmpBool(o *osCtx, fn int, x args3, want, got bool, p any) {
	code := uint8(ocBoolFalse)
	if want {
		code = ocBoolTrue
	}

	w.cnt.add(o.idx, fn, code)

	if p == nil && got == want {
		return
	}

	gotC := boolName(got)
	if p != nil {
		gotC = panicClass(p)
	}

	w.record(o, fn, o.classOf(x), boolName(want), gotC, o.volCause(x), "",
		func() example { return example{Args: x.slice(), Want: boolName(want), Got: gotC} }, x.size())
}

func fileClass(f string) string {
	if f == "" {
		return "nofile"
	}

	return "file"
}

func (w *worker) cmpSplit(o *osCtx, x args3, wd, wf, gd, gf string, p any) {
	w.cnt.add(o.idx, fSplit, strCode(x.a[0], wd))

	if p == nil && gd == wd && gf == wf {
		return
	}

	gotC := panicClass(p)
	if p == nil {
		gotC = "split:" + o.shape(gd) + "|" + fileClass(gf) + "," + relation(wd, gd)
	}

	w.record(o, fSplit, o.classOf(x), "split:"+o.shape(wd)+"|"+fileClass(wf), gotC,
		o.volCause(x), "",
		func() example {
			g := gotC
			if p == nil {
				g = q(gd) + "," + q(gf)
			}

			return example{Args: x.slice(), Want: q(wd) + "," + q(wf), Got: g}
		}, x.size())
}

// cmpStrErr: a function returning (string, error); error-ness is compared,
// and the string only when both succeed.
func (w *worker) cmpStrErr(o *osCtx, fn int, x args3, cwd string, want string, wantErr error, got string, gotErr error, p any) {
	if wantErr != nil {
		w.cnt.add(o.idx, fn, ocError)
	} else {
		w.cnt.add(o.idx, fn, strCode(x.a[x.n-1], want))
	}

	if p == nil && (wantErr != nil) == (gotErr != nil) && (wantErr != nil || got == want) {
		return
	}

	wantC, wantV := "error", "error"
	if wantErr == nil {
		wantC, wantV = strOutcome(o, want), q(want)
	}

	var gotC, gotV string

	switch {
	case p != nil:
		gotC = panicClass(p)
		gotV = gotC
	case gotErr != nil:
		gotC, gotV = "error", "error: "+gotErr.Error()
	case wantErr != nil:
		gotC, gotV = "str:"+o.shape(got), q(got)
	default:
		gotC, gotV = gotStrOutcome(o, want, got, nil), q(got)
	}

	var extra []string
	if wantErr == nil {
		extra = append(extra, want)
	}

	if p == nil && gotErr == nil {
		extra = append(extra, got)
	}

	w.record(o, fn, o.classOf(x), wantC, gotC, o.volCause(x, extra...), "",
		func() example { return example{Args: x.slice(), Cwd: cwd, Want: wantV, Got: gotV} }, x.size())
}

func matchOutcome(a *api, m bool, err error) (string, uint8) {
	switch {
	case err == nil && m:
		return "true", ocBoolTrue
	case err == nil:
		return "false", ocBoolFalse
	case a.badPattern(err):
		return "ErrBadPattern", ocBadPat
	}

	return "error-other", ocError
}

// single evaluates every one-argument function on s.
func (w *worker) single(o *osCtx, s string) {
	w.begin(o, "single", s, "", "")

	r, a := &o.ref, &o.sut
	x := args3{a: [3]string{s}, n: 1}

	{
		got, p := s1(a.clean, s)
		w.cmpStr(o, fClean, x, r.clean(s), got, p)
	}
	{
		wd, wf := r.split(s)
		gd, gf, p := s1ss(a.split, s)
		w.cmpSplit(o, x, wd, wf, gd, gf, p)
	}
	{
		got, p := s1(a.dir, s)

		if want := r.dir(s); p == nil && got == want {
			w.cnt.add(o.idx, fDir, strCode(s, want))
		} else {
			// Dir cleans the part between the volume name and the last
			// separator: a string of its own in which a volume is looked for.
			w.cmpStr(o, fDir, x, want, got, p, o.dirMiddle(s))
		}
	}
	{
		got, p := s1(a.base, s)
		w.cmpStr(o, fBase, x, r.base(s), got, p)
	}
	{
		got, p := s1b(a.isAbs, s)
		w.cmpBool(o, fIsAbs, x, r.isAbs(s), got, p)
	}
	{
		got, p := s1(a.fromSlash, s)
		w.cmpStr(o, fFromSlash, x, r.fromSlash(s), got, p)
	}
	{
		got, p := s1(a.toSlash, s)
		w.cmpStr(o, fToSlash, x, r.toSlash(s), got, p)
	}
	{
		got, p := s1(a.volumeName, s)
		w.cmpStr(o, fVolumeName, x, r.volumeName(s), got, p)
	}
	{
		var p any

		got := sJoin(a.join, &p, s)
		w.cmpJoin(o, fJoin1, x, r.join(s), got, p)
	}

	w.aux(o, s)
}

// dirMiddle returns the string the reference Dir hands to Clean.
func (o *osCtx) dirMiddle(s string) string {
	vol := len(o.ref.volumeName(s))

	i := len(s) - 1
	for i >= vol && s[i] != '/' && !(o.win && s[i] == '\\') {
		i--
	}

	return s[vol : i+1]
}

// aux: helpers of vfs.go that the property does not list by name but that
// belong to the same lexical layer (anchors: FromUnixPath, SplitAbs). They
// have no counterpart in path/filepath, so the only oracle is "never panic";
// SplitAbs is documented for absolute paths and is only fed those.
func (w *worker) aux(o *osCtx, s string) {
	x := args3{a: [3]string{s}, n: 1}

	_, p := s1(func(s string) string { return avfs.FromUnixPath(o.v, s) }, s)
	w.cnt.add(o.idx, fFromUnixPath, 28)

	if p != nil {
		w.record(o, fFromUnixPath, o.classOf(x), "no-panic", panicClass(p), o.volCause(x), "",
			func() example { return example{Args: x.slice(), Want: "returns", Got: panicClass(p)} }, x.size())
	}

	if !o.ref.isAbs(s) {
		return
	}

	_, _, p = s1ss(func(s string) (string, string) { return avfs.SplitAbs(o.v, s) }, s)
	w.cnt.add(o.idx, fSplitAbs, 28)

	if p != nil {
		w.record(o, fSplitAbs, o.classOf(x), "no-panic", panicClass(p), o.volCause(x), "",
			func() example { return example{Args: x.slice(), Want: "returns", Got: panicClass(p)} }, x.size())
	}
}

// absCheck compares Abs for the Linux type: the process and the MemFS have
// been moved to the same working directory cwd.
func (w *worker) absCheck(o *osCtx, ac *absCtx, s string) {
	w.begin(o, "abs", s, "", "")

	x := args3{a: [3]string{s}, n: 1}
	want, wantErr := ac.ref(s)
	got, gotErr, p := s1se(ac.sut, s)
	w.cmpStrErr(o, fAbs, x, ac.cwd, want, wantErr, got, gotErr, p)
}

// pair evaluates Join(a, b) and Rel(a, b).
func (w *worker) pair(o *osCtx, s, t string) {
	w.begin(o, "pair", s, t, "")

	r, a := &o.ref, &o.sut
	x := args3{a: [3]string{s, t}, n: 2}

	{
		var p any

		got := sJoin(a.join, &p, s, t)
		w.cmpJoin(o, fJoin2, x, r.join(s, t), got, p)
	}

	// Rel. The toolchain's own Windows Rel does not terminate on some inputs
	// (go1.23: Rel(`\\h\s`, `\\h\s\`) — the element loop never ends when the
	// base is a bare UNC volume and the target its root). Where the reference
	// is undefined there is nothing to compare; such inputs are decided by the
	// preamble (relDiverges), skipped and counted.
	if o.win && len(s) >= 2 && isSlash(s[0]) && isSlash(s[1]) {
		if relDiverges(r, o, s, t) {
			w.refDiverges++
			w.noteDiverging(s, t)

			return
		}

		if relDiverges(a, o, s, t) && w.confirmHang(a, s, t) {
			w.cnt.add(o.idx, fRel, ocError)
			w.record(o, fRel, o.classOf(x), "returns", "HANG(never returns: predicted from the preamble of Rel, confirmed by a sacrificial call)",
				o.volCause(x), "",
				func() example { return example{Args: x.slice(), Want: "returns", Got: "does not return"} }, x.size())

			return
		}
	}

	want, wantErr := r.rel(s, t)
	got, gotErr, p := s2se(a.rel, s, t)
	w.cmpStrErr(o, fRel, x, "", want, wantErr, got, gotErr, p)
}

// relDiverges decides, from the preamble of Rel evaluated with the primitives
// of implementation a, whether its element-comparison loop never terminates:
// that is the case exactly when, after the volume names are stripped and the
// base adjusted ("." -> "", bare UNC volume -> separator), base and target are
// equal word for word although the cleaned paths as a whole were not.
func relDiverges(a *api, o *osCtx, basepath, targpath string) (div bool) {
	defer func() {
		if recover() != nil {
			div = false
		}
	}()

	same := func(x, y string) bool {
		if o.win {
			return strings.EqualFold(x, y)
		}

		return x == y
	}

	baseVol, targVol := a.volumeName(basepath), a.volumeName(targpath)
	base, targ := a.clean(basepath), a.clean(targpath)

	if same(targ, base) {
		return false
	}

	base, targ = base[len(baseVol):], targ[len(targVol):]

	if base == "." {
		base = ""
	} else if base == "" && len(a.volumeName(baseVol)) > 2 {
		base = string(o.sep)
	}

	baseSlashed := len(base) > 0 && base[0] == o.sep
	targSlashed := len(targ) > 0 && targ[0] == o.sep

	if baseSlashed != targSlashed || !same(baseVol, targVol) {
		return false
	}

	return same(base, targ)
}

// confirmHang runs Rel in a goroutine that is given up if it has not returned
// after 2 s (the call takes microseconds when it returns at all). Only inputs
// for which relDiverges already predicts divergence get here; at most 3
// confirmations per worker are attempted (each lost goroutine spins forever),
// later predicted instances are taken as confirmed by the first ones.
func (w *worker) confirmHang(a *api, s, t string) bool {
	if w.hangConfirmed >= 3 {
		return true
	}

	done := make(chan struct{})

	go func() {
		defer func() { _ = recover(); close(done) }()

		_, _ = a.rel(s, t)
	}()

	select {
	case <-done:
		return false
	case <-time.After(2 * time.Second):
		w.hangConfirmed++

		return true
	}
}

func (w *worker) noteDiverging(s, t string) {
	if len(w.divergeEx) < 3 {
		w.divergeEx = append(w.divergeEx, [2]string{s, t})
	}
}

// joinCleanCheck is the "check" field of the decomposition oracle of Join.
const joinCleanCheck = "join-equals-clean-of-concatenation"

// cmpJoin judges one Join call against the reference and, where it disagrees,
// asks where the disagreement comes from.
//
// Lesson (C13-r5m1): a disagreement may be charged to a known volume-parsing
// defect only when it sits in a string in which the function really looks for
// a volume. Join never parses its elements (nor its result): it concatenates
// them and hands the concatenation to Clean, the only place where a volume is
// looked for. Attributing by "some argument or the result is a device path"
// excused Join(`\`, `\??`) returning the Root Local Device path `\??` as a case
// of "avfs does not know `\??\` volumes". So:
//
//  1. the volume cause of a Join disagreement is taken from the concatenation
//     alone;
//
//  2. every disagreement is also judged against the implementation itself:
//     path/filepath's Join is Clean of the concatenation (checked on the
//     reference for the instance), so the implementation's Join must be the
//     implementation's own Clean of that same concatenation. Then the
//     disagreement with the reference is Clean's, and may be a known finding
//     about volumes; otherwise Join itself concatenates differently, which no
//     volume finding can excuse — also not when the concatenation carries a
//     disputed volume (`?:` + `\a`).
func (w *worker) cmpJoin(o *osCtx, fn int, x args3, want, got string, p any) {
	w.cnt.add(o.idx, fn, strCode(x.a[0], want))

	if p == nil && got == want {
		return
	}

	raw := o.joinRaw(x.a[:x.n])

	w.record(o, fn, o.classOf(x), strOutcome(o, want), gotStrOutcome(o, want, got, p),
		o.volCause(args3{}, raw), "",
		func() example { return example{Args: x.slice(), Want: q(want), Got: gotValue(got, p)} }, x.size())

	if p != nil {
		return // reported above
	}

	// the model of the reference's concatenation must reproduce the reference
	model, self := "", ""

	if raw != "" {
		var pc any

		model = o.ref.clean(raw)

		if self, pc = s1(o.sut.clean, raw); pc != nil {
			return // Clean panics on the concatenation: a finding of Clean, reported where Clean is judged
		}
	}

	if model != want {
		w.joinModelOff++

		return
	}

	w.joinSelf++

	if got == self {
		return
	}

	w.record(o, fn, o.classOf(x), strOutcome(o, self), gotStrOutcome(o, self, got, nil), "none", joinCleanCheck,
		func() example {
			return example{Args: x.slice(), Want: q(self) + " (its own Clean of the concatenation " + q(raw) + ")", Got: q(got)}
		}, x.size())
}

// joinRaw returns the string the reference Join hands to Clean: a copy of the
// concatenation rules of the toolchain. It is used to attribute a disagreement
// to a volume-name cause and, for the decomposition oracle of cmpJoin, only on
// instances where the reference's Clean of it is the reference's Join. For
// Windows the concatenation rules of the toolchain's join (no separator after
// a separator or a colon, `.\` before a leading `??` element after a lone
// separator), for Linux the non-empty suffix of elements joined by "/".
func (o *osCtx) joinRaw(elem []string) string {
	if !o.win {
		for i, e := range elem {
			if e != "" {
				return strings.Join(elem[i:], "/")
			}
		}

		return ""
	}

	var (
		b    strings.Builder
		last byte
	)

	for _, e := range elem {
		switch {
		case b.Len() == 0:
		case isSlash(last):
			for len(e) > 0 && isSlash(e[0]) {
				e = e[1:]
			}

			if b.Len() == 1 && strings.HasPrefix(e, "??") && (len(e) == 2 || isSlash(e[2])) {
				b.WriteString(`.\`)
			}
		case last == ':':
		default:
			b.WriteByte('\\')

			last = '\\'
		}

		if len(e) > 0 {
			b.WriteString(e)
			last = e[len(e)-1]
		}
	}

	return b.String()
}

func (w *worker) triple(o *osCtx, s, t, u string) {
	w.begin(o, "triple", s, t, u)

	x := args3{a: [3]string{s, t, u}, n: 3}

	var p any

	got := sJoin(o.sut.join, &p, s, t, u)
	w.cmpJoin(o, fJoin3, x, o.ref.join(s, t, u), got, p)
}

// joinAny judges Join on any number (<= 3) of elements (replay).
func (w *worker) joinAny(o *osCtx, elem []string) {
	x := args3{n: min(len(elem), 3)}
	copy(x.a[:], elem)

	var p any

	got := sJoin(o.sut.join, &p, elem...)
	w.cmpJoin(o, [...]int{fJoin0, fJoin1, fJoin2, fJoin3}[x.n], x, o.ref.join(elem...), got, p)
}

func (w *worker) join0(o *osCtx) {
	var p any

	got := sJoin(o.sut.join, &p)
	w.cmpStr(o, fJoin0, args3{}, o.ref.join(), got, p)
}

func (w *worker) matchCheck(o *osCtx, pattern, name string) {
	w.begin(o, "match", pattern, name, "")

	wm, werr := o.ref.match(pattern, name)
	gm, gerr, p := s2be(o.sut.match, pattern, name)

	wantC, code := matchOutcome(&o.ref, wm, werr)
	w.cnt.add(o.idx, fMatch, code)

	gotC := ""
	if p != nil {
		gotC = panicClass(p)
	} else {
		gotC, _ = matchOutcome(&o.sut, gm, gerr)
	}

	if gotC == wantC {
		return
	}

	w.record(o, fMatch, joinClasses("pattern:"+matchClass(pattern, o.sep), "name:"+matchClass(name, o.sep)),
		wantC, gotC, o.volCause(args3{}), "",
		func() example { return example{Args: []string{pattern, name}, Want: wantC, Got: gotC} }, len(pattern)+len(name))
}
