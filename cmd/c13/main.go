// c13: lexical path functions of a file system emulating OS type T equal
// path/filepath of T (T = Linux, Windows), never panic; PathIterator yields
// the parts of an absolute path and splices replacements as Join does.
//
// Engine C (DESIGN.md §3): bounded exhaustive enumeration of inputs — every
// string up to a length over the 13-symbol alphabet of the property, every
// pair / triple up to smaller lengths, a dictionary of volume-shaped prefixes,
// every string / pair over a second alphabet holding the two ends (and the
// outer neighbours) of the character ranges the code tests, paths and Join
// arguments built from whole elements the Windows functions treat specially
// (see enum.go) — each evaluated on a MemFS of type T (build tag
// avfs_setostype: the generic implementation of vfs_ostype_on.go) and on the
// reference: the host's path/filepath for Linux, verif/ref/winpath (the toolchain's Windows sources
// retargeted by cmd/genwinpath and validated against the toolchain's own test
// tables before use) for Windows. No sampling, no randomness.
package main

import (
	"flag"
	"fmt"
	"os"
	"path/filepath"
	"runtime"
	"sort"
	"strconv"
	"strings"
	"sync"
	"sync/atomic"
	"time"

	"github.com/avfs/avfs"

	"verif/lib/ev"
	"verif/lib/kf"
	"verif/ref/winpath"
	"verif/ref/winpath/selftest"
)

// dictionary of volume-shaped prefixes (volume syntax needs >= 5 characters,
// beyond the exhaustive single-string bound for most shapes).
var volumePrefixes = []string{
	`C:`, `c:`, `\\h\s`, `\\.\`, `\\?\`, `\??\`, `//h/s/`, `\\.\C:`, `\\?\UNC\h\s`,
}

type levelRec struct {
	Phase    string  `json:"phase"`
	Level    int     `json:"level"`
	Bound    string  `json:"bound"`
	Tasks    int     `json:"tasks"`
	Complete bool    `json:"complete"`
	Seconds  float64 `json:"seconds"`
}

type driver struct {
	id, tier string
	verifDir string
	os       []*osCtx
	workers  []*worker
	start    time.Time
	deadline time.Time
	budget   float64
	expired  atomic.Bool
	levels   []levelRec
	skipped  []string // phases not started because the budget was exhausted

	all   []string // all strings with <= 4 symbols
	off   []int    // level offsets into all
	dict1 []string // prefix + string <= 3
	dict2 []string // (prefix + string <= 2) and strings <= 2

	scratch     string
	ownsScratch bool

	selfTests, selfRows int // reference self-test: functions run, table rows

	aborted string // set by the watchdog
}

func harness(format string, args ...any) {
	fmt.Fprintf(os.Stderr, "c13: harness error (not a verdict): "+format+"\n", args...)
	os.Exit(2)
}

type task func(w *worker)

// parallel runs the tasks on all cores; it returns false if the budget ran
// out before every task was executed.
func (d *driver) parallel(tasks []task) bool {
	var (
		next     atomic.Int64
		complete atomic.Bool
		wg       sync.WaitGroup
	)

	complete.Store(true)

	for _, w := range d.workers {
		wg.Add(1)

		go func(w *worker) {
			defer wg.Done()
			defer func() {
				if r := recover(); r != nil {
					// panics of the system under test are recovered at the call;
					// anything arriving here is the reference or the harness.
					harness("panic outside the system under test: %v", r)
				}
			}()

			for {
				i := int(next.Add(1)) - 1
				if i >= len(tasks) {
					return
				}

				if d.expired.Load() || time.Now().After(d.deadline) {
					d.expired.Store(true)
					complete.Store(false)

					return
				}

				w.busy.Store(true)
				tasks[i](w)
				w.busy.Store(false)
			}
		}(w)
	}

	wg.Wait()

	return complete.Load()
}

// level runs one level of one phase and records it. It returns false when
// the phase must stop (budget).
func (d *driver) level(phase string, lvl int, bound string, tasks []task) bool {
	if d.expired.Load() {
		d.levels = append(d.levels, levelRec{Phase: phase, Level: lvl, Bound: bound, Tasks: len(tasks)})

		return false
	}

	t0 := time.Now()
	ok := d.parallel(tasks)
	d.levels = append(d.levels, levelRec{
		Phase: phase, Level: lvl, Bound: bound, Tasks: len(tasks), Complete: ok,
		Seconds: float64(time.Since(t0).Milliseconds()) / 1000,
	})

	return ok
}

// --- phases ---

func (d *driver) singleLevel(l int) bool {
	return d.singleOver("single", sigma, "", l)
}

// edgeSingleLevel: the one-argument functions on all strings of l symbols
// over the range-edge alphabet (see sigmaEdge).
func (d *driver) edgeSingleLevel(l int) bool {
	return d.singleOver("edge-single", sigmaEdge, " over the range-edge alphabet", l)
}

func (d *driver) singleOver(phase string, alpha alphabet, what string, l int) bool {
	var tasks []task

	n := alpha.count(l)

	const chunk = 2048

	for _, o := range d.os {
		for lo := 0; lo < n; lo += chunk {
			o, lo, hi := o, lo, min(lo+chunk, n)

			tasks = append(tasks, func(w *worker) {
				alpha.each(l, lo, hi, func(s string) { w.single(o, s) })
			})
		}
	}

	if l == 0 && phase == "single" {
		for _, o := range d.os {
			o := o
			tasks = append(tasks, func(w *worker) { w.join0(o) })
		}
	}

	return d.level(phase, l, fmt.Sprintf("all strings of %d symbols%s, 9 one-argument functions + 2 auxiliary, both OS types", l, what), tasks)
}

// elemPaths: the one-argument functions on paths enumerated as sequences of
// words (see pathWords): every prefix + w1 s1 w2 ... wk.
func (d *driver) elemPaths(k int) bool {
	var paths []string

	eachWordPath(k, func(s string) { paths = append(paths, s) })

	var tasks []task

	const chunk = 1024

	for _, o := range d.os {
		for _, pre := range pathPrefixes {
			for lo := 0; lo < len(paths); lo += chunk {
				o, pre, part := o, pre, paths[lo:min(lo+chunk, len(paths))]

				tasks = append(tasks, func(w *worker) {
					for _, s := range part {
						w.single(o, pre+s)
					}
				})
			}
		}
	}

	return d.level("elem-paths", k, fmt.Sprintf("%d prefixes x all sequences of %d words over %d words (empty, a, ., .., ?, ??, C:) joined by either slash at every position (%d paths): 9 one-argument functions + 2 auxiliary, both OS types",
		len(pathPrefixes), k, len(pathWords), len(pathPrefixes)*len(paths)), tasks)
}

// edgePairs: Join/2 and Rel on all pairs of strings <= 3 symbols over the
// range-edge alphabet (quick: its 9-symbol part, thorough: all of it).
func (d *driver) edgePairs() bool {
	alpha := sigmaEdgePairs
	if d.tier == "thorough" {
		alpha = sigmaEdge
	}

	strs, _ := alpha.upTo(3)

	var tasks []task

	const chunk = 8

	for _, o := range d.os {
		for lo := 0; lo < len(strs); lo += chunk {
			o, part := o, strs[lo:min(lo+chunk, len(strs))]

			tasks = append(tasks, func(w *worker) {
				for _, a := range part {
					for _, b := range strs {
						w.pair(o, a, b)
					}
				}
			})
		}
	}

	return d.level("edge-pairs", 3, fmt.Sprintf("all pairs of strings <= 3 symbols over the %d range-edge symbols %q (%d strings): Join/2, Rel", len(alpha), []string(alpha), len(strs)), tasks)
}

// joinElems: Join/3 on all triples of elements made of leading separators, a
// word and a tail (see joinElements).
func (d *driver) joinElems() bool {
	elems := joinElements(d.tier == "thorough")

	var tasks []task

	for _, o := range d.os {
		for _, a := range elems {
			o, a := o, a

			tasks = append(tasks, func(w *worker) {
				for _, b := range elems {
					for _, c := range elems {
						w.triple(o, a, b, c)
					}
				}
			})
		}
	}

	return d.level("join-elems", 3, fmt.Sprintf("all triples over %d elements (0-2 leading separators + a word of {empty, a, ., .., ?, ??, ???, ??a, C:} + a tail of {nothing, \\, \\a}; thorough tier: more of each): Join/3", len(elems)), tasks)
}

func (d *driver) dictSingle() bool {
	var tasks []task

	const chunk = 1024

	for _, o := range d.os {
		for lo := 0; lo < len(d.dict1); lo += chunk {
			o, part := o, d.dict1[lo:min(lo+chunk, len(d.dict1))]

			tasks = append(tasks, func(w *worker) {
				for _, s := range part {
					w.single(o, s)
				}
			})
		}
	}

	return d.level("dict-single", 3, fmt.Sprintf("%d volume prefixes x all strings <= 3 symbols", len(volumePrefixes)), tasks)
}

func (d *driver) pairLevel(l int) bool {
	var tasks []task

	end := d.off[l+1]
	lvlStart := d.off[l]

	const chunk = 8

	for _, o := range d.os {
		for lo := 0; lo < end; lo += chunk {
			o, lo, hi := o, lo, min(lo+chunk, end)

			tasks = append(tasks, func(w *worker) {
				for i := lo; i < hi; i++ {
					a := d.all[i]

					from := lvlStart
					if i >= lvlStart {
						from = 0
					}

					for _, b := range d.all[from:end] {
						w.pair(o, a, b)
					}
				}
			})
		}
	}

	return d.level("pairs", l, fmt.Sprintf("all pairs with max length %d symbols: Join/2, Rel", l), tasks)
}

func (d *driver) dictPairs() bool {
	var tasks []task

	const chunk = 8

	for _, o := range d.os {
		for lo := 0; lo < len(d.dict2); lo += chunk {
			o, part := o, d.dict2[lo:min(lo+chunk, len(d.dict2))]

			tasks = append(tasks, func(w *worker) {
				for _, a := range part {
					for _, b := range d.dict2 {
						w.pair(o, a, b)
					}
				}
			})
		}
	}

	return d.level("dict-pairs", 2, fmt.Sprintf("all pairs over {prefix+s, s : %d prefixes, s <= 2 symbols} (%d strings): Join/2, Rel", len(volumePrefixes), len(d.dict2)), tasks)
}

func (d *driver) join3() bool {
	var tasks []task

	strs := d.all[:d.off[3]] // <= 2 symbols

	for _, o := range d.os {
		for _, a := range strs {
			o, a := o, a

			tasks = append(tasks, func(w *worker) {
				for _, b := range strs {
					for _, c := range strs {
						w.triple(o, a, b, c)
					}
				}
			})
		}
	}

	return d.level("join3", 2, "all triples of strings <= 2 symbols: Join/3", tasks)
}

func (d *driver) matchLevel(l int) bool {
	var tasks []task

	names := d.all[:d.off[4]] // <= 3 symbols
	n := sigma.count(l)

	const chunk = 32

	for _, o := range d.os {
		for lo := 0; lo < n; lo += chunk {
			o, lo, hi := o, lo, min(lo+chunk, n)

			tasks = append(tasks, func(w *worker) {
				sigma.each(l, lo, hi, func(p string) {
					for _, name := range names {
						w.matchCheck(o, p, name)
					}
				})
			})
		}
	}

	return d.level("match", l, fmt.Sprintf("all patterns of %d symbols x all names <= 3 symbols", l), tasks)
}

// foldPairs: Rel (and Join/2, Split, ... through pair) on arguments whose
// elements, share or host differ only by letter case, including the pairs whose
// two cases have different UTF-8 lengths (Kelvin sign / k, long s / s,
// U+023A / U+2C65): path/filepath compares with simple case folding on Windows
// and byte-wise on Linux.
func (d *driver) foldPairs() bool {
	words := []string{"k", "K", "\u212a", "s", "S", "\u017f", "\u023a", "\u2c65", "a"}

	var rels []string

	for _, w1 := range words {
		rels = append(rels, w1)

		for _, w2 := range words {
			rels = append(rels, w1+`\`+w2, w1+"/"+w2)
		}
	}

	var dict []string

	for _, pre := range []string{"", `\`, "/", `C:\`, `c:`, `\\h\s\`, `\\k\s\`, "\\\\\u212a\\s\\", "\\\\h\\\u017f\\"} {
		for _, r := range rels {
			dict = append(dict, pre+r)
		}
	}

	var tasks []task

	const chunk = 8

	for _, o := range d.os {
		for lo := 0; lo < len(dict); lo += chunk {
			o, part := o, dict[lo:min(lo+chunk, len(dict))]

			tasks = append(tasks, func(w *worker) {
				for _, a := range part {
					for _, b := range dict {
						w.pair(o, a, b)
					}
				}
			})
		}
	}

	return d.level("fold-pairs", 2, fmt.Sprintf("all pairs over %d paths of <= 2 elements drawn from letters whose cases fold together (ASCII, Kelvin sign, long s, U+023A/U+2C65) under 9 prefixes: Join/2, Rel", len(dict)), tasks)
}

// matchUTF8: Match on patterns made of class syntax and of runes at the edges
// of UTF-8 decoding: U+FFFD validly encoded (what a decoder returns for an
// error, but a legitimate member of a class), an invalid byte, a 3-byte and a
// 4-byte rune.
func (d *driver) matchUTF8() bool {
	pieces := alphabet{"[", "]", "^", "-", "\ufffd", "\xff", "a", "*", "\\", "\u212a", "\U0001F600"}
	names := []string{"", "a", "\ufffd", "\xff", "\u212a", "\U0001F600", "\ufffda", "a\xff", "-", "^", "]", "\\"}

	var tasks []task

	const chunk = 256

	for l := 1; l <= 5; l++ {
		n := pieces.count(l)

		for _, o := range d.os {
			for lo := 0; lo < n; lo += chunk {
				o, l, lo, hi := o, l, lo, min(lo+chunk, n)

				tasks = append(tasks, func(w *worker) {
					pieces.each(l, lo, hi, func(p string) {
						for _, name := range names {
							w.matchCheck(o, p, name)
						}
					})
				})
			}
		}
	}

	return d.level("match-utf8", 5, fmt.Sprintf("all patterns of <= 5 pieces over %d pieces (class syntax, U+FFFD, an invalid byte, 3- and 4-byte runes) x %d names", len(pieces), len(names)), tasks)
}

// --- Abs (Linux type only) ---

type absCtx struct {
	cwd string
	ref func(string) (string, error)
	sut func(string) (string, error)
}

func (d *driver) absPhase(maxLevel int, withDict bool, tag string) bool {
	lin := d.os[0]
	cwds := []string{"/", filepath.Join(d.scratch, "a"), filepath.Join(d.scratch, "a", "B")}

	defer func() { _ = os.Chdir("/") }()

	for ci, cwd := range cwds {
		v, err := newFS(avfs.OsLinux)
		if err != nil {
			harness("%v", err)
		}

		if err := os.MkdirAll(cwd, 0o755); err != nil {
			harness("%v", err)
		}

		if err := v.MkdirAll(cwd, 0o755); err != nil {
			harness("MemFS.MkdirAll(%q): %v", cwd, err)
		}

		if err := v.Chdir(cwd); err != nil {
			harness("MemFS.Chdir(%q): %v", cwd, err)
		}

		if err := os.Chdir(cwd); err != nil {
			harness("%v", err)
		}

		hostWd, err1 := os.Getwd()
		memWd, err2 := v.Getwd()

		if err1 != nil || err2 != nil || hostWd != cwd || memWd != cwd {
			harness("working directories do not line up: host %q (%v), MemFS %q (%v), wanted %q", hostWd, err1, memWd, err2, cwd)
		}

		ac := &absCtx{cwd: cwd, ref: filepath.Abs, sut: v.Abs}

		from := 0
		if !withDict {
			from = maxLevel // extra level only
		}

		for l := from; l <= maxLevel; l++ {
			var tasks []task

			n := sigma.count(l)

			const chunk = 4096

			for lo := 0; lo < n; lo += chunk {
				lo, hi := lo, min(lo+chunk, n)

				tasks = append(tasks, func(w *worker) {
					sigma.each(l, lo, hi, func(s string) { w.absCheck(lin, ac, s) })
				})
			}

			if !d.level("abs"+tag, l, fmt.Sprintf("Abs, Linux type, working directory #%d (%s), all strings of %d symbols", ci, cwdName(ci), l), tasks) {
				return false
			}
		}

		if withDict {
			dict := d.dict1
			tasks := []task{func(w *worker) {
				for _, s := range dict {
					w.absCheck(lin, ac, s)
				}
			}}

			if !d.level("abs-dict", 3, fmt.Sprintf("Abs, Linux type, working directory #%d (%s), dictionary", ci, cwdName(ci)), tasks) {
				return false
			}
		}
	}

	return true
}

func cwdName(i int) string { return [...]string{"/", "<scratch>/a", "<scratch>/a/B"}[i] }

// --- PathIterator ---

func (d *driver) iterPhase(maxLen int) bool {
	var tasks []task

	type cfg struct {
		o     *osCtx
		roots []string
		alpha alphabet
		repl  [][]string // per root
	}

	linRepl, _ := alphabet{"a", "/", "."}.upTo(3)

	winBack, _ := alphabet{"a", `\`, "."}.upTo(3)
	winFwd, _ := alphabet{"a", "/", "."}.upTo(3)

	seen := map[string]bool{}

	var winNoVol, winDrive []string

	for _, s := range append(append([]string{}, winBack...), winFwd...) {
		if !seen[s] {
			seen[s] = true

			winNoVol = append(winNoVol, s)
		}
	}

	winDrive = append(winDrive, winNoVol...)

	// range edge (see sigmaEdge): a root on the last lower-case drive, spliced
	// with the same drive and with the first upper-case one.
	winEdge := append([]string{}, winNoVol...)

	for _, s := range winBack {
		winDrive = append(winDrive, `C:`+s, `D:`+s)
		winEdge = append(winEdge, `z:`+s, `A:`+s)
	}

	cfgs := []cfg{
		{d.os[0], []string{"/"}, alphabet{"a", "b", "/"}, [][]string{linRepl}},
		// drive root: replacements without volume and with the same / another drive;
		// UNC root: replacements without volume only.
		{d.os[1], []string{`C:\`, `\\h\s\`, `z:\`}, alphabet{"a", "b", `\`}, [][]string{winDrive, winNoVol, winEdge}},
	}

	nPaths := 0

	for _, c := range cfgs {
		tails, _ := c.alpha.upTo(maxLen)

		const chunk = 16

		for ri, root := range c.roots {
			for lo := 0; lo < len(tails); lo += chunk {
				o, root, part, repl := c.o, root, tails[lo:min(lo+chunk, len(tails))], c.repl[ri]
				nPaths += len(part)

				tasks = append(tasks, func(w *worker) {
					for _, t := range part {
						w.iterPath(o, root+t, repl)
					}
				})
			}
		}
	}

	return d.level("iterator", maxLen, fmt.Sprintf(
		"%d absolute paths: root (/ | C:\\ | \\\\h\\s\\ | z:\\) + all strings <= %d symbols over {a,b,separator}; ReplacePart at every position with all strings <= 3 over {a,separator,.} (Windows: both slashes, and C:/D: prefixed for the root C:\\, z:/A: prefixed for the root z:\\)",
		nPaths, maxLen), tasks)
}

// --- main ---

func main() {
	id := flag.String("id", "C13", "property id")
	tier := flag.String("tier", envOr("VERIF_TIER", "quick"), "quick|thorough")
	replay := flag.String("replay", "", "replay file to re-execute")
	flag.Parse()

	if *tier != "quick" && *tier != "thorough" {
		harness("unknown tier %q", *tier)
	}

	d := &driver{id: *id, tier: *tier, start: time.Now()}
	d.verifDir = envOr("VERIF_DIR", "/verif")

	// 1. the Windows reference must be the retargeted copy of *this* toolchain
	// and must pass the toolchain's own Windows tables.
	if winpath.GeneratedFrom != runtime.Version() {
		harness("ref/winpath was generated from %s but the driver is built with %s: run ./setup.sh", winpath.GeneratedFrom, runtime.Version())
	}

	rows := selftest.Rows()
	nTests, failures := selftest.Run()
	d.selfTests, d.selfRows = nTests, rows

	if len(failures) > 0 || nTests < 11 || rows < 200 {
		for _, f := range failures {
			fmt.Fprintln(os.Stderr, "c13: reference self-test:", f)
		}

		harness("the Windows reference fails the toolchain's own tables (%d failures, %d tests, %d rows): refusing to use it", len(failures), nTests, rows)
	}

	if winpath.Separator != '\\' || winpath.ListSeparator != ';' || filepath.Separator != '/' {
		harness("separators: winpath %q, host %q — the Linux reference needs a POSIX host", winpath.Separator, filepath.Separator)
	}

	// 2. systems under test
	for _, win := range []bool{false, true} {
		o, err := newOSCtx(win)
		if err != nil {
			harness("%v", err)
		}

		d.os = append(d.os, o)
	}

	if *replay != "" {
		os.Exit(d.replay(*replay))
	}

	// 3. budget
	d.budget = 50
	if d.tier == "thorough" {
		d.budget = 1080
	}

	if b, err := strconv.ParseFloat(os.Getenv("VERIF_BUDGET_S"), 64); err == nil && b > 0 {
		d.budget = b
	}

	d.deadline = d.start.Add(time.Duration(d.budget * float64(time.Second)))

	nw := runtime.GOMAXPROCS(0)
	for i := 0; i < nw; i++ {
		d.workers = append(d.workers, newWorker())
	}

	d.all, d.off = sigma.upTo(4)

	for _, p := range volumePrefixes {
		for _, s := range d.all[:d.off[4]] {
			d.dict1 = append(d.dict1, p+s)
		}

		for _, s := range d.all[:d.off[3]] {
			d.dict2 = append(d.dict2, p+s)
		}
	}

	d.dict2 = append(d.dict2, d.all[:d.off[3]]...)

	d.setupScratch()
	defer d.cleanup()

	os.Unsetenv("PWD") // os.Getwd must report the directory, not the environment

	go d.watchdog()

	// 4. enumeration. The core (quick bounds) runs first in both tiers; the
	// thorough tier then adds one more level to each space, cheapest first.
	d.run()

	code := d.finish()

	d.cleanup()
	os.Exit(code)
}

func envOr(k, def string) string {
	if v := os.Getenv(k); v != "" {
		return v
	}

	return def
}

func (d *driver) setupScratch() {
	root := os.Getenv("VERIF_SCRATCH")
	if root == "" {
		base := "/dev/shm"
		if st, err := os.Stat(base); err != nil || !st.IsDir() {
			base = os.TempDir()
		}

		dir, err := os.MkdirTemp(base, "avfs-verif-c13.")
		if err != nil {
			harness("%v", err)
		}

		root = dir
		d.ownsScratch = true
	} else if err := os.MkdirAll(root, 0o755); err != nil {
		harness("%v", err)
	}

	real, err := filepath.EvalSymlinks(root)
	if err != nil {
		harness("%v", err)
	}

	d.scratch = filepath.Join(real, "c13")
}

func (d *driver) cleanup() {
	_ = os.Chdir("/")

	if d.scratch != "" {
		_ = os.RemoveAll(d.scratch)

		if d.ownsScratch {
			_ = os.RemoveAll(filepath.Dir(d.scratch))
		}

		d.scratch = ""
	}
}

func (d *driver) phase(name string, f func() bool) {
	if d.expired.Load() {
		d.skipped = append(d.skipped, name)

		return
	}

	f()
}

func (d *driver) run() {
	upto := func(from, to int, f func(int) bool) func() bool {
		return func() bool {
			for l := from; l <= to; l++ {
				if !f(l) {
					return false
				}
			}

			return true
		}
	}

	iterLen := 6
	if d.tier == "thorough" {
		iterLen = 8
	}

	elemLen := 4
	if d.tier == "thorough" {
		elemLen = 5
	}

	d.phase("single<=5", upto(0, 5, d.singleLevel))
	d.phase("dict-single", d.dictSingle)
	d.phase("edge-single<=5", upto(0, 5, d.edgeSingleLevel))
	d.phase("elem-paths", upto(1, elemLen, d.elemPaths))
	d.phase("edge-pairs", d.edgePairs)
	d.phase("join-elems", d.joinElems)
	d.phase("iterator", func() bool { return d.iterPhase(iterLen) })
	d.phase("join3", d.join3)
	d.phase("pairs<=3", upto(0, 3, d.pairLevel))
	d.phase("dict-pairs", d.dictPairs)
	d.phase("fold-pairs", d.foldPairs)
	d.phase("match-utf8", d.matchUTF8)
	d.phase("abs<=5", func() bool { return d.absPhase(5, true, "") })
	d.phase("match<=4", upto(0, 4, d.matchLevel))

	if d.tier != "thorough" {
		return
	}

	d.phase("single=6", func() bool { return d.singleLevel(6) })
	d.phase("edge-single=6", func() bool { return d.edgeSingleLevel(6) })
	d.phase("abs=6", func() bool { return d.absPhase(6, false, "") })
	d.phase("match=5", func() bool { return d.matchLevel(5) })
	d.phase("pairs=4", func() bool { return d.pairLevel(4) })
}

// completed returns, per phase, the highest level L such that every level
// <= L that was planned ran to completion (-1: none).
func (d *driver) completed() map[string]int {
	best := map[string]int{}
	broken := map[string]bool{}

	for _, l := range d.levels {
		if _, ok := best[l.Phase]; !ok {
			best[l.Phase] = -1
		}
	}

	// abs runs its levels once per working directory: a level counts when all
	// three runs completed.
	type pl struct {
		p string
		l int
	}

	okCount, count := map[pl]int{}, map[pl]int{}

	for _, l := range d.levels {
		k := pl{l.Phase, l.Level}
		count[k]++

		if l.Complete {
			okCount[k]++
		}
	}

	var keys []pl
	for k := range count {
		keys = append(keys, k)
	}

	sort.Slice(keys, func(i, j int) bool {
		if keys[i].p != keys[j].p {
			return keys[i].p < keys[j].p
		}

		return keys[i].l < keys[j].l
	})

	for _, k := range keys {
		if broken[k.p] {
			continue
		}

		if okCount[k] == count[k] && (!strings.HasPrefix(k.p, "abs") || count[k] == 3) {
			best[k.p] = k.l
		} else {
			broken[k.p] = true
		}
	}

	return best
}

func (d *driver) finish() int {
	// merge the goroutine-local results
	total := &counters{}
	agg := aggregator{}

	var (
		resetConservative, refDiverges uint64
		joinSelf, joinModelOff         uint64
		divergeEx                      [][2]string
	)

	for _, w := range d.workers {
		total.merge(&w.cnt)
		agg.merge(w.agg)
		resetConservative += w.resetConservative
		refDiverges += w.refDiverges
		joinSelf += w.joinSelf
		joinModelOff += w.joinModelOff
		divergeEx = append(divergeEx, w.divergeEx...)
	}

	sort.Slice(divergeEx, func(i, j int) bool {
		a, b := divergeEx[i], divergeEx[j]
		if len(a[0])+len(a[1]) != len(b[0])+len(b[1]) {
			return len(a[0])+len(a[1]) < len(b[0])+len(b[1])
		}

		return a[0]+"\x00"+a[1] < b[0]+"\x00"+b[1]
	})

	if len(divergeEx) > 5 {
		divergeEx = divergeEx[:5]
	}

	rep, err := kf.NewReporter(d.id, filepath.Join(d.verifDir, "known_findings.txt"), filepath.Join(d.verifDir, "replays"))
	if err != nil {
		harness("%v", err)
	}

	rep.Discover = os.Getenv("VERIF_DISCOVER") != ""

	keys := make([]string, 0, len(agg))
	for k := range agg {
		keys = append(keys, k)
	}

	sort.Strings(keys)

	var instances, unknownInstances uint64

	for _, k := range keys {
		f := agg[k]
		instances += f.n

		// One Report per distinct signature: instances run into the hundreds of
		// millions in the thorough tier; the true count travels in the replay
		// object ("instances") and in the C13-SIG lines of discover mode.
		known := rep.Report(f.sig, d.replayObject(f))
		if !known {
			unknownInstances += f.n
		}

		if rep.Discover && !known {
			e := f.ex[0]
			fmt.Printf("C13-SIG n=%d sig=%s example: %s(%s)%s want %s got %s\n", f.n, f.sig.String(), fnName[f.fn],
				quoteArgs(e.Args), exampleSuffix(e), e.Want, e.Got)
		}
	}

	// evidence
	var evals uint64

	perFn := map[string]any{}
	distinct, distinctAll := 0, 0
	classes := map[string][]string{}

	for f := 0; f < nFuncs; f++ {
		row := map[string]uint64{}

		for o := 0; o < 2; o++ {
			evals += total.evals[o][f]
			row[d.os[o].name] = total.evals[o][f]

			for c := 0; c < nCodes; c++ {
				if total.codes[o][f][c] == 0 {
					continue
				}

				distinctAll++

				if !trivialCode(c) {
					distinct++
				}

				k := d.os[o].name + "/" + fnKey[f]
				classes[k] = append(classes[k], codeName(c))
			}
		}

		perFn[fnKey[f]] = row
	}

	done := d.completed()
	exhaustive := len(d.skipped) == 0 && d.aborted == ""

	for _, l := range d.levels {
		if !l.Complete {
			exhaustive = false
		}
	}

	bound := d.boundString(done)

	assumptions := []string{
		"Abs for T=Windows not decided (Go's implementation asks the Win32 API)",
		"inputs longer than the bound / coverage-guided fuzzing clause not covered: the claim is exhaustive within the stated bounds over the 13-symbol alphabet, the volume-prefix dictionary, the 12-symbol range-edge alphabet (both ends of the two drive-letter ranges and the characters just outside them; no other character range is tested by the lexical layer) and the word-built paths and Join elements (coverage.range_edge_alphabet, path_words, path_prefixes, join_elements)",
		"Join: a disagreement with the reference is charged to a known volume-parsing finding only when the two sides parse a different volume in the concatenation the reference's Join hands to Clean — the only string in which Join looks for a volume —, not when an element or the result merely looks like a device path; and every disagreement is also judged against the implementation's own Clean of that concatenation (only where the reference's Clean of it is the reference's Join: coverage.join_decomposition): a Join that is not its own Clean of the concatenation is reported whatever the volumes",
		"Linux reference = path/filepath of the host toolchain " + runtime.Version() + " (host is POSIX); Windows reference = verif/ref/winpath, generated from the same toolchain's Windows sources by cmd/genwinpath and accepted only after passing the toolchain's own Windows test tables in this process",
		"Abs for T=Linux is compared with filepath.Abs after moving the process and the MemFS to the same working directory (3 directories); PWD is unset",
		"Rel on Windows: pairs on which the toolchain's own Rel does not terminate (decided from its preamble, e.g. Rel(`\\\\h\\s`, `\\\\h\\s\\`)) have no expected value and are skipped; they are counted in coverage.rel_reference_diverges",
		"FromUnixPath and SplitAbs (no path/filepath counterpart) are only checked for 'never panic'; SplitAbs only on absolute inputs",
		"PathIterator: exact part sequence on clean absolute paths; on unclean ones only the non-empty parts are compared (the statement does not fix whether empty elements are parts); the ReplacePart flag is checked one way (prefix changed => true); continued iteration only when the volume name is unchanged",
		"Rel and Abs: error presence is compared, not the message; Match: outcome class true/false/ErrBadPattern/other error",
	}

	cov := map[string]any{
		"evaluations":                     evals,
		"distinct_nontrivial":             distinct,
		"distinct_outcome_classes":        distinctAll,
		"rule":                            "every (OS type, function, input tuple) of the bounded spaces below is evaluated once on a MemFS of that type and on the reference; an evaluation's outcome class is taken from the REFERENCE result: for string results (relation to the first input: identity | proper prefix | proper suffix | shorter | same length | longer) x (first byte: empty | separator | dot | other), for booleans true|false, for errors error|ErrBadPattern, for the iterator the number of parts / the reset flag. distinct_nontrivial = number of distinct (OS type, function, outcome class) triples observed whose class is not 'identity', 'false' or 'zero parts'",
		"exhaustive":                      exhaustive,
		"bound":                           bound,
		"bounds_completed":                done,
		"levels":                          d.levels,
		"phases_skipped_by_budget":        d.skipped,
		"per_function":                    perFn,
		"outcome_classes":                 classes,
		"samples":                         d.samples(),
		"alphabet":                        []string(sigma),
		"range_edge_alphabet":             []string(sigmaEdge),
		"range_edge_pairs_alphabet_quick": []string(sigmaEdgePairs),
		"path_words":                      []string(pathWords),
		"path_prefixes":                   pathPrefixes,
		"join_elements":                   joinElements(d.tier == "thorough"),
		"join_decomposition": map[string]any{
			"judged": joinSelf, "model_of_concatenation_off": joinModelOff, "check": joinCleanCheck,
			"rule": "for every Join (Join/1, /2, /3 of every phase) whose result differs from the reference's: Join(elems) of the implementation == Clean(c) of the implementation, c = the concatenation built by the rules of the toolchain's join; judged only where Clean(c) of the reference == Join(elems) of the reference (model_of_concatenation_off counts the others, expected 0)",
		},
		"volume_prefix_dictionary":             volumePrefixes,
		"violating_instances":                  instances,
		"violating_instances_unknown":          unknownInstances,
		"violation_signatures":                 len(agg),
		"known_findings_matched":               rep.KnownMatched(),
		"iterator_reset_with_unchanged_prefix": resetConservative,
		"reference": map[string]any{
			"windows_generated_from": winpath.GeneratedFrom, "selftest_functions": d.selfTests, "selftest_table_rows": d.selfRows,
			"selftest_failures": 0, "sources": winpath.Sources,
		},
		"rel_reference_diverges": map[string]any{
			"skipped_pairs": refDiverges, "examples": divergeEx,
			"note": "the toolchain's Windows Rel never returns on these inputs (bare UNC volume against its own root); no expected value exists, the pair is skipped for Rel (Join is still compared)",
		},
		"aborted":  d.aborted,
		"budget_s": d.budget,
		"workers":  len(d.workers),
	}

	if err := ev.Write(filepath.Join(d.verifDir, "evidence", d.id+".json"), ev.Evidence{
		PropertyID: d.id, Tier: d.tier, Seed: ev.Seed(), Level: "exploration",
		Coverage: cov, Assumptions: assumptions, Violations: rep.NewCount(),
	}); err != nil {
		harness("cannot write evidence: %v", err)
	}

	code := rep.Finish()

	fmt.Printf("c13: %s tier, %d evaluations in %.1fs on %d goroutines; %s; exhaustive=%v; %d violating instances in %d signatures (%d unmatched signatures)\n",
		d.tier, evals, time.Since(d.start).Seconds(), len(d.workers), bound, exhaustive, instances, len(agg), rep.NewCount())

	return code
}

func (d *driver) boundString(done map[string]int) string {
	var parts []string

	for _, p := range []string{"single", "dict-single", "edge-single", "elem-paths", "abs", "abs-dict", "pairs", "dict-pairs", "edge-pairs", "join3", "join-elems", "match", "iterator"} {
		if l, ok := done[p]; ok && l >= 0 {
			parts = append(parts, fmt.Sprintf("%s<=%d", p, l))
		} else if ok {
			parts = append(parts, p+":cut-by-budget")
		}
	}

	return "completed symbol-length bounds: " + strings.Join(parts, " ")
}

func quoteArgs(a []string) string {
	q := make([]string, len(a))
	for i, s := range a {
		q[i] = strconv.Quote(s)
	}

	return strings.Join(q, ", ")
}

func exampleSuffix(e example) string {
	s := ""
	if e.Cwd != "" {
		s += " cwd=" + e.Cwd
	}

	if e.Step != 0 {
		s += fmt.Sprintf(" step=%d", e.Step)
	}

	return s
}
