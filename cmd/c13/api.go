package main

import (
	"errors"
	"fmt"
	"path/filepath"
	"regexp"
	"strings"

	"github.com/avfs/avfs"
	"github.com/avfs/avfs/vfs/memfs"

	"verif/ref/winpath"
)

// api is the set of lexical path functions of one implementation for one OS
// type: either the reference (host path/filepath for Linux, verif/ref/winpath
// for Windows) or the system under test (a MemFS of that OS type).
type api struct {
	clean, dir, base, fromSlash, toSlash, volumeName func(string) string
	split                                            func(string) (string, string)
	isAbs                                            func(string) bool
	join                                             func(...string) string
	rel                                              func(string, string) (string, error)
	match                                            func(string, string) (bool, error)
	badPattern                                       func(error) bool // is err the bad-pattern error of this implementation
}

// osCtx bundles everything needed to check one emulated OS type.
type osCtx struct {
	idx  int    // 0 Linux, 1 Windows
	name string // "Linux" | "Windows"
	win  bool
	sep  byte
	v    *memfs.MemFS
	ref  api
	sut  api
}

func newOSCtx(win bool) (*osCtx, error) {
	o := &osCtx{name: "Linux", sep: '/'}
	ost := avfs.OsLinux

	if win {
		o.idx, o.name, o.win, o.sep = 1, "Windows", true, '\\'
		ost = avfs.OsWindows
	}

	v, err := newFS(ost)
	if err != nil {
		return nil, err
	}

	o.v = v
	o.sut = sutAPI(v)

	if win {
		o.ref = api{
			clean: winpath.Clean, dir: winpath.Dir, base: winpath.Base, fromSlash: winpath.FromSlash,
			toSlash: winpath.ToSlash, volumeName: winpath.VolumeName, split: winpath.Split, isAbs: winpath.IsAbs,
			join: winpath.Join, rel: winpath.Rel, match: winpath.Match,
			badPattern: func(err error) bool { return err == winpath.ErrBadPattern },
		}
	} else {
		o.ref = api{
			clean: filepath.Clean, dir: filepath.Dir, base: filepath.Base, fromSlash: filepath.FromSlash,
			toSlash: filepath.ToSlash, volumeName: filepath.VolumeName, split: filepath.Split, isAbs: filepath.IsAbs,
			join: filepath.Join, rel: filepath.Rel, match: filepath.Match,
			badPattern: func(err error) bool { return err == filepath.ErrBadPattern },
		}
	}

	return o, nil
}

// newFS returns a MemFS emulating ost; it fails (harness precondition) when
// the binary was not built with -tags avfs_setostype or the emulation cannot
// be selected.
func newFS(ost avfs.OSType) (v *memfs.MemFS, err error) {
	defer func() {
		if r := recover(); r != nil {
			err = fmt.Errorf("memfs.NewWithOptions(OSType=%v) panicked: %v", ost, r)
		}
	}()

	v = memfs.NewWithOptions(&memfs.Options{OSType: ost})

	if !v.HasFeature(avfs.FeatSetOSType) {
		return nil, errors.New("driver not built with -tags avfs_setostype: the generic path implementation is not compiled in")
	}

	if v.OSType() != ost {
		return nil, fmt.Errorf("MemFS reports OS type %v, wanted %v", v.OSType(), ost)
	}

	want := uint8('/')
	if ost == avfs.OsWindows {
		want = '\\'
	}

	if v.PathSeparator() != want {
		return nil, fmt.Errorf("MemFS of type %v has separator %q", ost, v.PathSeparator())
	}

	return v, nil
}

func sutAPI(v *memfs.MemFS) api {
	return api{
		clean: v.Clean, dir: v.Dir, base: v.Base, fromSlash: v.FromSlash, toSlash: v.ToSlash,
		volumeName: func(s string) string { return avfs.VolumeName(v, s) },
		split:      v.Split, isAbs: v.IsAbs, join: v.Join, rel: v.Rel, match: v.Match,
		// avfs documents filepath.ErrBadPattern as the only error of Match.
		badPattern: func(err error) bool { return errors.Is(err, filepath.ErrBadPattern) },
	}
}

// --- guarded calls of the system under test: a panic is an outcome. ---

func s1(f func(string) string, a string) (r string, p any) {
	defer func() {
		if e := recover(); e != nil {
			p = e
		}
	}()

	return f(a), nil
}

func s1b(f func(string) bool, a string) (r bool, p any) {
	defer func() {
		if e := recover(); e != nil {
			p = e
		}
	}()

	return f(a), nil
}

func s1ss(f func(string) (string, string), a string) (r1, r2 string, p any) {
	defer func() {
		if e := recover(); e != nil {
			p = e
		}
	}()

	r1, r2 = f(a)

	return r1, r2, nil
}

func s1se(f func(string) (string, error), a string) (r string, err error, p any) { //nolint:revive
	defer func() {
		if e := recover(); e != nil {
			p = e
		}
	}()

	r, err = f(a)

	return r, err, nil
}

func sJoin(f func(...string) string, p *any, elem ...string) (r string) {
	defer func() {
		if e := recover(); e != nil {
			*p = e
		}
	}()

	return f(elem...)
}

func s2se(f func(string, string) (string, error), a, b string) (r string, err error, p any) { //nolint:revive
	defer func() {
		if e := recover(); e != nil {
			p = e
		}
	}()

	r, err = f(a, b)

	return r, err, nil
}

func s2be(f func(string, string) (bool, error), a, b string) (r bool, err error, p any) { //nolint:revive
	defer func() {
		if e := recover(); e != nil {
			p = e
		}
	}()

	r, err = f(a, b)

	return r, err, nil
}

var digits = regexp.MustCompile(`[0-9]+`)

// panicClass normalises a panic value: numbers (indices, lengths) are
// replaced by N so that one defect is one class.
func panicClass(p any) string {
	msg := fmt.Sprint(p)
	if i := strings.IndexByte(msg, '\n'); i >= 0 {
		msg = msg[:i]
	}

	if len(msg) > 100 {
		msg = msg[:100]
	}

	return "PANIC(" + digits.ReplaceAllString(msg, "N") + ")"
}
