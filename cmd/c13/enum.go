package main

// Exhaustive enumeration of strings over a small alphabet. A "length" is a
// number of alphabet symbols (é is one symbol, two bytes).

type alphabet []string

// sigma is the alphabet of the property: letters of both cases, '.', both
// slashes, ':', the Match metacharacters and a non-ASCII rune.
var sigma = alphabet{"a", "B", ".", "/", "\\", ":", "?", "*", "[", "]", "-", "^", "é"}

// sigmaEdge is the alphabet of the range-edge phases.
//
// Lesson (C13-r5m2): code that tests a character against a range
// ('a' <= c && c <= 'z') is wrong first at the two ends of the range, and
// sigma holds one inner letter per case only. The only ranges the lexical
// layer tests are the two drive-letter ranges (VolumeNameLen; toUpper of the
// case-blind prefix test) — no digit is ever tested — so the alphabet holds
// both ends of both ranges (a z A Z), the four characters just outside them
// (` { @ [), and what it takes to put them in the place of a drive letter,
// of a UNC host or share and of a plain element (: both slashes and the dot).
var sigmaEdge = alphabet{"a", "z", "A", "Z", "`", "{", "@", "[", ":", "\\", "/", "."}

// sigmaEdgePairs is the part of sigmaEdge used for the pairs of the quick
// tier (Join/2, Rel: drive letters of both arguments, compared case-blind):
// both ends of both ranges, the neighbour above the lower-case and the one
// below the upper-case range, colon, backslash, dot. The thorough tier takes
// all of sigmaEdge.
var sigmaEdgePairs = alphabet{"a", "z", "A", "Z", "{", "@", ":", "\\", "."}

// Elements instead of characters.
//
// Lesson (C13-r5m1): the Windows lexical functions treat some whole ELEMENTS
// specially — `??` after a lone separator (Root Local Device: Join inserts
// `.\`, Clean's post-processing `\.`), `.` and `?` after two separators
// (device paths), `..`, a first element with a colon (Clean inserts `.\`) —
// and Join strips the leading separators of an element before or after
// looking at it. Strings of <= 3 characters over sigma hold at most one such
// element and never one behind two separators; so paths and Join arguments
// are also enumerated as sequences of words.
//
// joinElements: every (leading separators) + word + (tail) — the arguments of
// the join-elems phase (all triples).
func joinElements(thorough bool) []string {
	lead := []string{"", `\`, "/", `\\`}
	words := []string{"", "a", ".", "..", "?", "??", "???", "??a", "C:"}
	tail := []string{"", `\`, `\a`}

	if thorough {
		lead = append(lead, `//`)
		// "UNC": `\\.\UNC\` and `\\?\UNC\` are prefixes of the toolchain's volume
		// parser. avfs does not take `\\.\UNC\h\s` for a volume — the defect of
		// KF-C13-002, whose pattern lists that volume-cause shape too.
		words = append(words, "z:", "UNC")
		tail = append(tail, "/", `\..`)
	}

	var out []string

	seen := map[string]bool{}

	for _, l := range lead {
		for _, w := range words {
			for _, t := range tail {
				if e := l + w + t; !seen[e] {
					seen[e] = true

					out = append(out, e)
				}
			}
		}
	}

	return out
}

// pathWords / pathPrefixes: the elem-paths phase evaluates the one-argument
// functions on prefix + w1 s1 w2 ... wk (k <= 4 quick, 5 thorough), every wi a
// word, every si one of the two slashes.
var (
	pathWords    = alphabet{"", "a", ".", "..", "?", "??", "C:"}
	pathPrefixes = []string{"", `\`, "/", `C:`, `C:\`, `\\`, `\\h\s`, `\\h\s\`, `\\.\`, `\??\`}
)

// eachWordPath calls fn for every w1 s1 w2 ... wk over pathWords and the two
// slashes, in a fixed order (words as big-endian digits, then separators as
// the bits of a counter).
func eachWordPath(k int, fn func(s string)) {
	if k == 0 {
		return
	}

	seps := [2]string{`\`, "/"}
	n := pathWords.count(k)
	digits := make([]int, k)

	var buf []byte

	for i := 0; i < n; i++ {
		for j, idx := k-1, i; j >= 0; j-- {
			digits[j] = idx % len(pathWords)
			idx /= len(pathWords)
		}

		for m := 0; m < 1<<(k-1); m++ {
			buf = buf[:0]

			for j, d := range digits {
				if j > 0 {
					buf = append(buf, seps[m>>(j-1)&1]...)
				}

				buf = append(buf, pathWords[d]...)
			}

			fn(string(buf))
		}
	}
}

// count returns the number of strings with exactly l symbols.
func (a alphabet) count(l int) int {
	n := 1
	for i := 0; i < l; i++ {
		n *= len(a)
	}

	return n
}

// countUpTo returns the number of strings with at most l symbols.
func (a alphabet) countUpTo(l int) int {
	n := 0
	for i := 0; i <= l; i++ {
		n += a.count(i)
	}

	return n
}

// at returns the idx-th string with exactly l symbols (big-endian digits).
func (a alphabet) at(l, idx int) string {
	var buf [64]byte

	digits := make([]int, l)
	for i := l - 1; i >= 0; i-- {
		digits[i] = idx % len(a)
		idx /= len(a)
	}

	b := buf[:0]
	for _, d := range digits {
		b = append(b, a[d]...)
	}

	return string(b)
}

// each calls fn for the strings lo <= index < hi of level l, in index order.
func (a alphabet) each(l, lo, hi int, fn func(s string)) {
	if lo >= hi {
		return
	}

	digits := make([]int, l)
	for i, idx := l-1, lo; i >= 0; i-- {
		digits[i] = idx % len(a)
		idx /= len(a)
	}

	buf := make([]byte, 0, 4*l)

	for n := lo; n < hi; n++ {
		buf = buf[:0]
		for _, d := range digits {
			buf = append(buf, a[d]...)
		}

		fn(string(buf))

		for i := l - 1; i >= 0; i-- {
			digits[i]++
			if digits[i] < len(a) {
				break
			}

			digits[i] = 0
		}
	}
}

// upTo returns all strings with at most l symbols, by length then index, and
// the start offset of every level (len l+2).
func (a alphabet) upTo(l int) (all []string, start []int) {
	all = make([]string, 0, a.countUpTo(l))

	for k := 0; k <= l; k++ {
		start = append(start, len(all))
		a.each(k, 0, a.count(k), func(s string) { all = append(all, s) })
	}

	start = append(start, len(all))

	return all, start
}
