package main

// Exhaustive enumeration of strings over a small alphabet. A "length" is a
// number of alphabet symbols (é is one symbol, two bytes).

type alphabet []string

// sigma is the alphabet of the property: letters of both cases, '.', both
// slashes, ':', the Match metacharacters and a non-ASCII rune.
var sigma = alphabet{"a", "B", ".", "/", "\\", ":", "?", "*", "[", "]", "-", "^", "é"}

// count returns the number of strings with exactly l symbols.
func (a alphabet) count(l int) int {
	n := 1
	for i := 0; i < l; i++ {
		n *= len(a)
	}

	return n
}

// countUpTo returns the number of strings with at most l symbols.
func (a alphabet) countUpTo(l int) int {
	n := 0
	for i := 0; i <= l; i++ {
		n += a.count(i)
	}

	return n
}

// at returns the idx-th string with exactly l symbols (big-endian digits).
func (a alphabet) at(l, idx int) string {
	var buf [64]byte

	digits := make([]int, l)
	for i := l - 1; i >= 0; i-- {
		digits[i] = idx % len(a)
		idx /= len(a)
	}

	b := buf[:0]
	for _, d := range digits {
		b = append(b, a[d]...)
	}

	return string(b)
}

// each calls fn for the strings lo <= index < hi of level l, in index order.
func (a alphabet) each(l, lo, hi int, fn func(s string)) {
	if lo >= hi {
		return
	}

	digits := make([]int, l)
	for i, idx := l-1, lo; i >= 0; i-- {
		digits[i] = idx % len(a)
		idx /= len(a)
	}

	buf := make([]byte, 0, 4*l)

	for n := lo; n < hi; n++ {
		buf = buf[:0]
		for _, d := range digits {
			buf = append(buf, a[d]...)
		}

		fn(string(buf))

		for i := l - 1; i >= 0; i-- {
			digits[i]++
			if digits[i] < len(a) {
				break
			}

			digits[i] = 0
		}
	}
}

// upTo returns all strings with at most l symbols, by length then index, and
// the start offset of every level (len l+2).
func (a alphabet) upTo(l int) (all []string, start []int) {
	all = make([]string, 0, a.countUpTo(l))

	for k := 0; k <= l; k++ {
		start = append(start, len(all))
		a.each(k, 0, a.count(k), func(s string) { all = append(all, s) })
	}

	start = append(start, len(all))

	return all, start
}
