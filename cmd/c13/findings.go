package main

import (
	"sort"
	"strconv"
	"strings"
	"sync/atomic"

	"verif/lib/kf"
)

// function ids (per-function counters and signature names).
const (
	fClean = iota
	fSplit
	fDir
	fBase
	fIsAbs
	fFromSlash
	fToSlash
	fVolumeName
	fJoin0
	fJoin1
	fJoin2
	fJoin3
	fRel
	fAbs
	fMatch
	fFromUnixPath
	fSplitAbs
	fIterParts
	fIterReplace
	nFuncs
)

// fnName is the "func" field of signatures; fnKey the key of per-function counts.
var fnName = [nFuncs]string{
	"Clean", "Split", "Dir", "Base", "IsAbs", "FromSlash", "ToSlash", "VolumeName",
	"Join", "Join", "Join", "Join", "Rel", "Abs", "Match", "FromUnixPath", "SplitAbs",
	"PathIterator", "PathIterator.ReplacePart",
}

var fnKey = [nFuncs]string{
	"Clean", "Split", "Dir", "Base", "IsAbs", "FromSlash", "ToSlash", "VolumeName",
	"Join/0", "Join/1", "Join/2", "Join/3", "Rel", "Abs", "Match", "FromUnixPath(aux)", "SplitAbs(aux)",
	"PathIterator", "PathIterator.ReplacePart",
}

// outcome codes of the *reference* result, for the measured count of distinct
// outcome classes (see rule in evidence).
const (
	ocBoolFalse = 24
	ocBoolTrue  = 25
	ocError     = 26
	ocBadPat    = 27
	nCodes      = 48
)

// strCode classifies a string result relative to the (first) input:
// relation (identity, proper prefix, proper suffix, shorter, same length,
// longer) x first byte (empty, separator, dot, other).
func strCode(in, out string) uint8 {
	var rel uint8

	switch {
	case out == in:
		rel = 0
	case len(out) < len(in) && in[:len(out)] == out:
		rel = 1
	case len(out) < len(in) && in[len(in)-len(out):] == out:
		rel = 2
	case len(out) < len(in):
		rel = 3
	case len(out) == len(in):
		rel = 4
	default:
		rel = 5
	}

	var first uint8

	if out != "" {
		switch out[0] {
		case '/', '\\':
			first = 1
		case '.':
			first = 2
		default:
			first = 3
		}
	}

	return rel*4 + first
}

func codeName(c int) string {
	switch c {
	case ocBoolFalse:
		return "false"
	case ocBoolTrue:
		return "true"
	case ocError:
		return "error"
	case ocBadPat:
		return "ErrBadPattern"
	}

	if c >= 28 {
		return "n=" + strconv.Itoa(c-28)
	}

	rel := [...]string{"identity", "proper-prefix", "proper-suffix", "shorter", "same-length", "longer"}[c/4]
	first := [...]string{"empty", "sep", "dot", "other"}[c%4]

	return rel + "/" + first
}

// trivialCode: the function returned its input unchanged or the boolean false.
func trivialCode(c int) bool { return c < 4 || c == ocBoolFalse || c == 28 }

type counters struct {
	evals [2][nFuncs]uint64
	codes [2][nFuncs][nCodes]uint64
}

func (c *counters) add(os, fn int, code uint8) {
	c.evals[os][fn]++
	c.codes[os][fn][code]++
}

func (c *counters) merge(d *counters) {
	for o := 0; o < 2; o++ {
		for f := 0; f < nFuncs; f++ {
			c.evals[o][f] += d.evals[o][f]
			for k := 0; k < nCodes; k++ {
				c.codes[o][f][k] += d.codes[o][f][k]
			}
		}
	}
}

// example is one concrete violating instance (kept in the replay object).
type example struct {
	Args []string `json:"args"`
	Cwd  string   `json:"cwd,omitempty"`
	Step int      `json:"step,omitempty"` // PathIterator: number of Next() calls before ReplacePart
	Want string   `json:"want"`
	Got  string   `json:"got"`
}

func (e *example) size() int {
	n := 0
	for _, a := range e.Args {
		n += len(a)
	}

	return n
}

// less orders examples: shortest total input first, then lexicographically;
// every instance is seen in every run, so the kept examples do not depend on
// goroutine scheduling.
func (e *example) less(f *example) bool {
	if a, b := e.size(), f.size(); a != b {
		return a < b
	}

	if len(e.Args) != len(f.Args) {
		return len(e.Args) < len(f.Args)
	}

	for i := range e.Args {
		if e.Args[i] != f.Args[i] {
			return e.Args[i] < f.Args[i]
		}
	}

	if e.Cwd != f.Cwd {
		return e.Cwd < f.Cwd
	}

	return e.Step < f.Step
}

const maxExamples = 3

type finding struct {
	os, fn int
	sig    kf.Sig
	n      uint64
	ex     []example // sorted, at most maxExamples
}

func (f *finding) addExample(e example) {
	if len(f.ex) == maxExamples && !e.less(&f.ex[maxExamples-1]) {
		return
	}

	f.ex = append(f.ex, e)
	sort.Slice(f.ex, func(i, j int) bool { return f.ex[i].less(&f.ex[j]) })

	// drop duplicates (the same instance can be met again after a merge)
	out := f.ex[:0]

	for i := range f.ex {
		if i > 0 && !f.ex[i-1].less(&f.ex[i]) && !f.ex[i].less(&f.ex[i-1]) {
			continue
		}

		out = append(out, f.ex[i])
	}

	f.ex = out
	if len(f.ex) > maxExamples {
		f.ex = f.ex[:maxExamples]
	}
}

// wouldKeep reports whether an example of the given size could enter f.ex
// (cheap pre-test so that most instances do not allocate).
func (f *finding) wouldKeep(size int) bool {
	return len(f.ex) < maxExamples || size <= f.ex[len(f.ex)-1].size()
}

type aggregator map[string]*finding

func (a aggregator) merge(b aggregator) {
	for k, fb := range b {
		fa, ok := a[k]
		if !ok {
			a[k] = fb

			continue
		}

		fa.n += fb.n

		for _, e := range fb.ex {
			fa.addExample(e)
		}
	}
}

// worker holds the goroutine-local state.
type worker struct {
	cnt counters
	agg aggregator
	// informational: ReplacePart returned true although the prefix is unchanged
	resetConservative uint64
	// inputs on which the reference Rel itself does not terminate (skipped)
	refDiverges   uint64
	divergeEx     [][2]string
	hangConfirmed int
	// decomposition oracle of Join (applied to the disagreements with the
	// reference): instances judged, and instances on which the model of the
	// reference's concatenation did not reproduce the reference (not judged;
	// expected 0)
	joinSelf, joinModelOff uint64

	// watchdog: progress counter and the input being evaluated
	progress atomic.Uint64
	busy     atomic.Bool
	curOS    *osCtx
	curKind  string
	curArgs  [3]string
}

// begin notes the input about to be evaluated (read by the watchdog only when
// the worker has made no progress for a long time).
func (w *worker) begin(o *osCtx, kind string, a, b, c string) {
	w.curOS, w.curKind, w.curArgs = o, kind, [3]string{a, b, c}
	w.progress.Add(1)
}

func newWorker() *worker { return &worker{agg: aggregator{}} }

// record notes one violating instance.
//
//	class    input class (shapes of the arguments)
//	wantC    class of the expected outcome, gotC class of the observed one
//	va       volume cause (see volCause): "none", "n/a" (Linux) or the shape of
//	         the first string whose volume name the two sides parse differently
//	check    sub-check (PathIterator only)
func (w *worker) record(o *osCtx, fn int, class, wantC, gotC, va, check string, mk func() example, size int) {
	key := o.name + "\x00" + fnName[fn] + "\x00" + check + "\x00" + class + "\x00" + wantC + "\x00" + gotC + "\x00" + va

	f, ok := w.agg[key]
	if !ok {
		sig := kf.Sig{"os": o.name, "func": fnName[fn], "class": class, "want": wantC, "got": gotC, "volcause": va}
		if check != "" {
			sig["check"] = check
		}

		f = &finding{os: o.idx, fn: fn, sig: sig}
		w.agg[key] = f
	}

	f.n++

	if f.wouldKeep(size) {
		f.addExample(mk())
	}
}

func q(s string) string { return strconv.Quote(s) }

func joinClasses(cs ...string) string { return strings.Join(cs, " , ") }
