package main

import (
	"fmt"
	"strings"

	"github.com/avfs/avfs"
	"github.com/avfs/avfs/vfs/basepathfs"
	"github.com/avfs/avfs/vfs/failfs"
	"github.com/avfs/avfs/vfs/rofs"
)

// Stacked and wrapped bases: one more dimension of every system of this driver.
//
// General lesson. "Its base file system" is ANY file system of the library, and
// a wrapper that knows the type of its base is tempted to look through it: to
// flatten a FailFS built on a FailFS (take the base of its base, copy the
// failure function the base has at that moment), to unwrap the handles or Sub
// file systems of a base of its own kind, to ask a read-only base nothing. None
// of that shows on a leaf file system. A wrapper is therefore enumerated on
// every wrapper of the library as its base as well, and when that base carries
// configuration of its own that can change (the failure function of a lower
// FailFS) with that configuration set BEFORE the upper layer is built, AFTER it
// is built, and in MID-HISTORY - code that copies at construction time, or at
// first use, is only wrong for one of these orders.
//
// Two families, both over the same alphabet, histories and fault plans as the
// unstacked systems:
//
//	twin stacks (transparency clause): the FailFS under test is failfs.New(W(a))
//	  and the twin is W(b) driven directly, W = a lower FailFS carrying
//	  failfs.ReadOnlyFunc (set before / after / in mid-history), a RoFS, a
//	  BasePathFS, a Sub view. Plans none, okfunc and the single-fault plans on
//	  the upper FailFS (so "the upper layer fails / lets through while the lower
//	  one is armed": what the upper function lets through must be answered by
//	  the lower FailFS exactly as the lower FailFS answers when driven directly).
//	plan stacks: failfs.New(failfs.New(a)) where the failure function of the
//	  plan (recording always-nil / "consultation k returns E") sits on the LOWER
//	  FailFS, installed before or after the upper one is built, and the upper one
//	  has no function of its own. An upper FailFS without function is
//	  indistinguishable from its base, its base is a FailFS with that function:
//	  the stack as a whole has to meet every oracle of the single FailFS (own id
//	  consulted before any base effect, exactly E - the very error value, passed
//	  up unchanged -, base untouched, twin base that skips the failed call in
//	  lock-step afterwards).
const (
	stRoPre    = "ff-ro-pre"    // twin stack: lower FailFS, ReadOnlyFunc set before the upper FailFS is built
	stRoPost   = "ff-ro-post"   // twin stack: lower FailFS, ReadOnlyFunc set after the upper FailFS is built (and before the upper function is)
	stRoMid    = "ff-ro-mid"    // twin stack: lower FailFS, its function set to ReadOnlyFunc / OkFunc by letters of the alphabet
	stRoFS     = "rofs"         // twin stack: rofs.New(base)
	stBasePath = "basepath"     // twin stack: basepathfs.New(base, "/")
	stSubView  = "subview"      // twin stack: base.Sub("/") (MemFS)
	stPlanPre  = "ff-plan-pre"  // plan stack: function of the plan on the lower FailFS, installed before the upper one is built
	stPlanPost = "ff-plan-post" // plan stack: function of the plan on the lower FailFS, installed after the upper one is built
)

var stackDesc = map[string]string{
	"":         "failfs.New(base), twin = base",
	stRoPre:    "failfs.New(lower) with lower = failfs.New(base) carrying failfs.ReadOnlyFunc set BEFORE the upper FailFS is built; twin = such a lower FailFS on the twin base, driven directly",
	stRoPost:   "as ff-ro-pre, ReadOnlyFunc set on the lower FailFS AFTER the upper FailFS is built (and before the upper function is installed)",
	stRoMid:    "as ff-ro-pre, the lower FailFS starts without function and two letters lower.SetFailFunc(ReadOnlyFunc|OkFunc) replace it in mid-history on both sides",
	stRoFS:     "failfs.New(rofs.New(base)), twin = rofs.New(twin base) driven directly",
	stBasePath: "failfs.New(basepathfs.New(base, \"/\")), twin = basepathfs.New(twin base, \"/\") driven directly",
	stSubView:  "failfs.New(base.Sub(\"/\")), twin = twin base.Sub(\"/\") driven directly",
	stPlanPre:  "failfs.New(lower) without function, the function of the plan (recording / single fault) installed on lower = failfs.New(base) BEFORE the upper FailFS is built; twin = base",
	stPlanPost: "as ff-plan-pre, the function of the plan installed on the lower FailFS AFTER the upper FailFS is built",
}

func knownStack(st string) bool {
	_, ok := stackDesc[st]

	return ok
}

// planOnLower: the failure function of the plan is installed on the lower
// FailFS and the FailFS under test keeps the function it is constructed with.
func planOnLower(st string) bool { return st == stPlanPre || st == stPlanPost }

// twinWrapped: the twin is the same wrapper on the twin base, driven directly.
func twinWrapped(st string) bool { return st != "" && !planOnLower(st) }

func lowerIsFailFS(st string) bool {
	return st == stRoPre || st == stRoPost || st == stRoMid || planOnLower(st)
}

// under builds what the FailFS of this stack is built on (impl side) or what
// the twin is (twin side of a twin stack), over the raw base of the side.
func (s *sys) under(sd *side) (avfs.VFS, error) {
	switch {
	case s.stack == "":
		return sd.base, nil
	case lowerIsFailFS(s.stack):
		sd.lower = failfs.New(sd.base)

		return sd.lower, nil
	case s.stack == stRoFS:
		return rofs.New(sd.base), nil
	case s.stack == stBasePath:
		return basepathfs.NewWithErr(sd.base, "/")
	case s.stack == stSubView:
		return sd.base.Sub("/")
	}

	return nil, fmt.Errorf("unknown stack %q", s.stack)
}

// armLower installs the function of the lower FailFS of a side; when: "pre"
// (the upper FailFS does not exist yet) or "post" (it has just been built).
func (s *sys) armLower(sd *side, impl bool, when string) {
	switch {
	case sd.lower == nil:
	case (s.stack == stRoPre && when == "pre") || (s.stack == stRoPost && when == "post"):
		_ = sd.lower.SetFailFunc(failfs.ReadOnlyFunc)
	case impl && (s.plan == "okfunc" || s.plan == "fault") &&
		((s.stack == stPlanPre && when == "pre") || (s.stack == stPlanPost && when == "post")):
		_ = sd.lower.SetFailFunc(s.failFn)
	}
}

// stepLower is a letter of the ff-ro-mid stack: the failure function of the
// lower FailFS is replaced, on both sides (it is a call on the base of the
// FailFS under test, not on that FailFS: no oracle applies to the call itself,
// all of them to what follows).
func (s *sys) stepLower(o op) string {
	f := failfs.FailFunc(failfs.OkFunc)
	if o.C.A == "ReadOnlyFunc" {
		f = failfs.ReadOnlyFunc
	}

	for _, sd := range []*side{s.impl, s.twin} {
		if sd != nil && sd.lower != nil {
			_ = sd.lower.SetFailFunc(f)
		}
	}

	s.lowerFn = o.C.A
	s.lastRender = "ok"

	return "lower.SetFailFunc/ok"
}

// sysName is the name given to the factory: base/plan[/stack].
func sysName(base, plan, stack string) string {
	if stack == "" {
		return base + "/" + plan
	}

	return base + "/" + plan + "/" + stack
}

func splitSysName(name string) (base, plan, stack string, ok bool) {
	parts := strings.SplitN(name, "/", 3)
	if len(parts) < 2 {
		return "", "", "", false
	}

	if len(parts) == 3 {
		stack = parts[2]
	}

	return parts[0], parts[1], stack, knownStack(stack)
}
