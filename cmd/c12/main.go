// c12: FailFS is transparent unless told to fail, and an injected failure has
// no effect.
//
// Technique: model checking / exhaustive fault enumeration on the real code.
//
//	(i)   engine A (lib/bfs): every history up to a depth of the call alphabet
//	      (VFS calls on the FailFS, File methods on pooled handles, every call
//	      again through a pooled Sub file system) on failfs.New(base) in
//	      lock-step with a twin base driven directly; plans "none" (FailFS as
//	      constructed) and "okfunc" (a recording always-nil failure function
//	      that overwrites every field of the *FailParam it was handed after
//	      reading it - the block is the function's, sys.go scribbleParam - as
//	      does the function of the single-fault plans of (ii)).
//	      Oracle: outcome kind+value and the injected dump of the base equal on
//	      both sides after every call; in the okfunc plan additionally every
//	      directly invoked method consults its own FnVFS id before any base
//	      effect, and every change of the base made by a composite the property
//	      lists (Create, WriteFile, ReadFile, ReadDir, Glob, MkdirTemp) follows
//	      the consultation of a PRIMITIVE id (kind effect-without-primitive,
//	      sys.go builtOnPrimitives): a primitive that is never put to the
//	      function cannot be made to fail. The alphabet holds the argument
//	      values that select a default (empty dir, empty pattern of the temp
//	      calls).
//	(ii)  fault enumeration (fault.go): for every history up to a bound, its
//	      consultation trace c_0..c_{n-1}; for every k and every error E of a
//	      2-element set a fresh run with the plan "consultation k returns E".
//	      Oracle: a primitive returns exactly E, a composite a non-nil error;
//	      the base state snapshotted by the failure function when it returns E
//	      is unchanged at the next consultation / at return; no panic
//	      afterwards; and a twin base that does NOT execute the failed call is
//	      driven in lock-step, so that every later call of the history (let
//	      through by the failure function) must answer and leave the base
//	      exactly as on the twin (sys.stepFault). Coverage assertion over the
//	      FnVFS enumeration.
//	(ii') handle programmes (fault.go, expandHandle): open; [one File call];
//	      File method F made to fail; every File method G; Close - for every
//	      pool open, F, consultation, E and G: an injected failure of a File
//	      method has no effect on the handle either (after a failed Close the
//	      handle still reads, writes, seeks, stats and closes as the twin base
//	      handle that was never closed). The File alphabet of every part holds
//	      each method also with the argument tuples that do nothing or only
//	      query (ops.go, fileNoopCalls: Seek(0,SeekCurrent), Truncate(current
//	      size), empty buffers, ReadDir(0) ...): a shortcut for them placed in
//	      front of the consultation is entered by no tuple that has an effect.
//	(iii) engine A with failfs.ReadOnlyFunc installed: the base dump including
//	      contents and modification times is identical around every call of
//	      the alphabet, whatever the call returned; the OpenFile flag alphabet
//	      includes access mode O_RDONLY with O_TRUNC / O_CREATE /
//	      O_CREATE|O_EXCL / O_APPEND on every path.
//	(iv)  stacked and wrapped bases (stack.go): "its base" is any file system of
//	      the library. (i) again with the FailFS under test built on a lower
//	      FailFS carrying ReadOnlyFunc (set before the upper one is built, after
//	      it is built, in mid-history), on a RoFS, a BasePathFS, a Sub view - the
//	      twin being that wrapped base driven directly; (ii) and (ii') again with
//	      the failure function of the plan on the LOWER FailFS (installed before /
//	      after the upper one is built, the upper one having none), and on the
//	      upper FailFS over a lower one that refuses changes.
//	(vi)  the moment the function is installed (when.go): SetFailFunc is a call
//	      like any other. (i), (ii), (ii') and (iii) again with no function
//	      during the first 1, 2 calls of the history and the function of the
//	      plan installed afterwards - every object (handles, Sub file systems)
//	      made before the function exists has to obey it -, and (i) with the
//	      recording function replaced by a second one and removed again in
//	      mid-history: a function that was replaced is never consulted again.
//	(vii) depth of derivation (family.go): what Sub hands out is a FailFS that
//	      hands out file systems and handles in turn, and the whole family has
//	      one function, whichever member SetFailFunc is called on. Letters
//	      s=sub.Sub(p) (the pooled view replaced by a view of itself) and handle
//	      programmes Sub;Sub;open in every part; and (i), (ii), (ii'), (iii),
//	      (vi) again from start states whose pool holds a view of depth 1, 2
//	      (thorough: 3), the function of the plan being installed through the
//	      root, an intermediate view, the pooled view or a sibling of it, before
//	      or after the rest of the family is derived.
package main

import (
	"encoding/json"
	"flag"
	"fmt"
	"os"
	"path/filepath"
	"sort"
	"strconv"
	"strings"
	"time"

	"github.com/avfs/avfs"
	"github.com/avfs/avfs/verifrt"

	"verif/lib/bfs"
	"verif/lib/ev"
	"verif/lib/fsx"
	"verif/lib/kf"
)

func factory(name string) bfs.System {
	verifrt.SetMode(verifrt.ModeSeq)

	base, plan, stack, ok := splitSysName(name)
	if !ok {
		fmt.Fprintln(os.Stderr, "c12: bad system name", name)
		os.Exit(2)
	}

	return newSys(base, plan, stack)
}

func die(format string, a ...any) {
	fmt.Fprintf(os.Stderr, "c12: harness error: "+format+"\n", a...)
	os.Exit(2)
}

func flagStrings() []string {
	out := make([]string, len(flagSets))
	for i, f := range flagSets {
		out[i] = fsx.FlagString(f)
	}

	return out
}

func fnNames(m map[avfs.FnVFS]bool) []string {
	var out []string
	for fn := range m {
		out = append(out, fn.String())
	}

	sort.Strings(out)

	return out
}

func main() {
	id := flag.String("id", "C12", "property id")
	tier := flag.String("tier", "quick", "quick|thorough")
	replay := flag.String("replay", "", "replay file to re-execute")
	bases := flag.String("bases", "MemFS,OrefaFS", "base file systems")
	only := flag.String("only", "", "run only these parts (comma list of: fault,handle,none,okfunc,readonly,stack,when,family,conc)")
	depthF := flag.Int("depth", 0, "override the history bound of all parts")

	var w1, w2 string

	flag.StringVar(&w1, "bfsworker", "", "internal")
	flag.StringVar(&w2, "faultworker", "", "internal")
	flag.Parse()

	bfs.MaybeWorker(factory)
	maybeFaultWorker()

	verifrt.SetMode(verifrt.ModeSeq)

	verifDir := os.Getenv("VERIF_DIR")
	if verifDir == "" {
		verifDir = "/verif"
	}

	if *tier != "quick" && *tier != "thorough" {
		die("unknown tier %q", *tier)
	}

	if *replay != "" {
		os.Exit(doReplay(*replay))
	}

	rep, err := kf.NewReporter(*id, filepath.Join(verifDir, "known_findings.txt"), filepath.Join(verifDir, "replays"))
	if err != nil {
		die("known findings: %v", err)
	}

	rep.Discover = os.Getenv("VERIF_DISCOVER") != ""

	bfsDepth, faultHist := 2, 2

	// File calls put between the open and the failing call of a handle programme
	// (besides none): position moved by a read, a write, a seek, a directory
	// read, and a handle that is already closed
	handlePres := []string{"Read(4)", `Write("XY")`, "Seek(1,1)", "ReadDir(1)", "Close()"}

	// Stacked and wrapped bases (stack.go). Fault enumeration: histories of up to
	// `hist` calls with every single-fault plan, the function of the plan on the
	// lower FailFS (installed before / after the upper one is built) and on the
	// upper FailFS over a lower one carrying ReadOnlyFunc (set before / after);
	// handle programmes through the stacks marked `handle`. Engine A: the twin
	// stacks join the list of systems below, with the depths set here (bases
	// that cannot change: stackDepth; BasePathFS and Sub view: wideDepth;
	// function of the lower FailFS replaced in mid-history: midDepth, 0 = not run).
	type stackRun struct {
		stack  string
		hist   int
		handle bool
		pres   []string
	}

	stackRuns := []stackRun{{stPlanPre, 1, false, nil}, {stPlanPost, 1, true, nil}, {stRoPre, 1, false, nil}, {stRoPost, 1, false, nil}}
	stackDepth, wideDepth, midDepth := 2, 1, 0

	// The moment the function of the plan is installed (when.go). Engine A: the
	// recording plan and the read-only plan with no function during the first
	// 1..whenLate calls of the history, the recording plan with its function
	// replaced and removed in mid-history (swap), same depth as (i). Fault
	// enumeration with the schedules of whenRuns: histories of up to `hist` calls
	// (0: none) with every single-fault plan, handle programmes with the function
	// installed at every position inside the opening prefix.
	type whenRun struct {
		when   string
		hist   int
		handle bool
		pres   []string
	}

	whenLate := 1
	whenRuns := []whenRun{{lateWhen(1), 0, true, nil}}

	// Depth of derivation and the member of the family SetFailFunc is called on
	// (family.go), MemFS only (OrefaFS has no Sub). Engine A from start states
	// whose pool holds a view of depth d: every member of the family as the
	// target of SetFailFunc, in the recording plan and in the read-only plan; the
	// order "pre" (family derived under the function) for the root (thorough: for
	// every member). famSystems lists plan x schedule x target x order for the
	// given depths of the pooled view: recording plan with histories <= shallow,
	// read-only plan (few states: the base cannot change) with histories <= deep.
	// Fault enumeration: every single-fault plan of all histories of up to `hist`
	// calls, handle programmes through the pooled view where `handle`.
	type famRun struct {
		plan  string // plan[@schedule]
		fam   string
		depth int
	}

	type famFault struct {
		fam    string
		hist   int
		handle bool
		pres   []string
	}

	var (
		famRuns   []famRun
		famFaults []famFault
	)

	famSystems := func(depths []int, scheds []string, allPre bool, deep, shallow int) {
		for _, d := range depths {
			f := family{Depth: d}

			for _, t := range f.members() {
				for _, pre := range []bool{false, true} {
					if pre && !(allPre || t == "root") || (pre && t == "w") {
						continue // w is derived last: nothing is born after it
					}

					fam := famName(d, t, pre)

					for _, sc := range scheds {
						if pre && strings.HasPrefix(sc, "late") {
							continue // nothing is installed while the family is derived
						}

						famRuns = append(famRuns, famRun{planWhen("okfunc", sc), fam, shallow})

						if sc != whenSwap {
							famRuns = append(famRuns, famRun{planWhen("readonly", sc), fam, deep})
						}
					}
				}
			}
		}
	}

	if *tier == "thorough" {
		// depth 2: every schedule, every target, both orders; depths 1 and 3: function
		// before the first call; four systems as deep as (i) (they replace their
		// shallower namesakes)
		famSystems([]int{2}, []string{"", lateWhen(1), whenSwap}, true, 2, 2)
		famSystems([]int{1, 3}, []string{""}, false, 2, 2)

		for _, fr := range []famRun{
			{"okfunc", famName(2, "root", false), 3}, {planWhen("okfunc", whenSwap), famName(2, "v2", false), 3},
			{planWhen("okfunc", whenSwap), famName(2, "v1", false), 3}, {"readonly", famName(2, "v2", false), 3},
		} {
			for i := range famRuns {
				if famRuns[i].plan == fr.plan && famRuns[i].fam == fr.fam {
					famRuns[i].depth = fr.depth
				}
			}
		}
	} else {
		// Every letter through the pooled view is applicable in every state of these
		// systems, which makes them three to four times as dear per state as (i): one
		// call in the recording plan for every target, and two calls for the schedule
		// swap with the pooled view as target - its first call is the recording plan
		// with the function installed through the nested view, its second call has
		// the function replaced through it
		famSystems([]int{2}, []string{""}, false, 2, 1)
		famSystems([]int{1}, []string{""}, false, 1, 1)
		famRuns = append(famRuns, famRun{planWhen("okfunc", whenSwap), famName(2, "v2", false), 2})
		famFaults = []famFault{{famName(2, "root", false), 1, true, nil}, {famName(2, "v2", false), 1, false, nil}}
	}

	if *tier == "thorough" {
		bfsDepth, faultHist = 3, 3
		stackRuns = []stackRun{
			{stPlanPre, 2, true, handlePres}, {stPlanPost, 2, true, handlePres}, {stRoPre, 2, false, nil}, {stRoPost, 2, true, handlePres},
		}
		stackDepth, wideDepth, midDepth = 3, 2, 3
		handlePres = []string{"*"}
		handleFollowAll = true
		whenLate = 2
		whenRuns = []whenRun{{lateWhen(1), 2, true, handlePres}}
		famFaults = []famFault{
			{famName(2, "root", false), 2, true, handlePres}, {famName(2, "v2", false), 2, true, nil},
			{famName(2, "v1", false), 1, false, nil}, {famName(3, "root", false), 1, true, nil}, {famName(1, "w", false), 1, false, nil},
		}
	}

	// what the follow-up call G of a handle programme ranges over (fault.go, expandHandle)
	followCount, followText := len(fileCalls())-len(fileNoopCalls()), "every File call but the neutral argument tuples (those are enumerated as F, and as G in the thorough tier)"
	if handleFollowAll {
		followCount, followText = len(fileCalls()), "every File call of the alphabet, the neutral argument tuples included"
	}

	if *depthF > 0 {
		bfsDepth, faultHist = *depthF, *depthF
		stackDepth, wideDepth = *depthF, *depthF

		if midDepth > 0 {
			midDepth = *depthF
		}

		for i := range stackRuns {
			stackRuns[i].hist = *depthF
		}

		for i := range whenRuns {
			whenRuns[i].hist = *depthF
		}

		for i := range famRuns {
			famRuns[i].depth = *depthF
		}

		for i := range famFaults {
			famFaults[i].hist = *depthF
		}
	}

	budget := 0.0
	if s := os.Getenv("VERIF_BUDGET_S"); s != "" {
		budget, _ = strconv.ParseFloat(s, 64)
	} else if *tier == "thorough" {
		budget = 1200
	}

	start := time.Now()
	at := func(frac float64) time.Time {
		if budget <= 0 {
			return time.Time{}
		}

		return start.Add(time.Duration(frac * budget * float64(time.Second)))
	}

	part := func(p string) bool {
		if *only == "" {
			return true
		}

		for _, x := range strings.Split(*only, ",") {
			if x == p {
				return true
			}
		}

		return false
	}

	baseNames := strings.Split(*bases, ",")

	report := func(sig map[string]string, replay any, count int) {
		for i := 0; i < count; i++ {
			rep.Report(kf.Sig(sig), replay)
		}
	}

	harnessErr := ""

	// ---- (ii) fault enumeration, histories <= 2 -------------------------------
	var engines []*faultEngine

	if part("fault") || part("handle") {
		for _, b := range baseNames {
			fe := newFaultEngine(b, "", "")
			engines = append(engines, fe)

			if part("fault") {
				for l := 0; l < faultHist && l < 2; l++ {
					fe.runLevel(at(0.30), report)
				}

				fmt.Printf("C12 fault %s: letters=%d histories=%d (length<=%d complete) fault-free runs=%d single-fault runs=%d states=%d\n",
					b, fe.probe.NumOps(), fe.Histories, fe.HistLen, fe.FaultFree, fe.FaultRuns, fe.States)
			}

			if part("handle") {
				fe.runHandle(handlePres, at(0.40), report)

				fmt.Printf("C12 handle programmes %s: opening prefixes=%d (pre in %v) fault-free runs open;[pre];F=%d single-fault runs open;[pre];F fails;G;Close=%d twin followed to the end in %d %s\n",
					b, fe.HPrefixes, handlePres, fe.HProgs, fe.HRuns, fe.HFollowed, fe.HPartial)
			}

			if fe.HarnessErr != "" {
				harnessErr = "fault enumeration on " + b + ": " + fe.HarnessErr
			}
		}
	}

	// ---- (iv) fault enumeration through stacked FailFS ------------------------
	var stackEngines []*faultEngine

	if part("stack") && (part("fault") || part("handle")) && harnessErr == "" {
		for _, sr := range stackRuns {
			for _, b := range baseNames {
				fe := newFaultEngine(b, sr.stack, "")
				stackEngines = append(stackEngines, fe)

				if part("fault") {
					for l := 0; l < sr.hist; l++ {
						fe.runLevel(at(0.48), report)
					}

					fmt.Printf("C12 fault %s: letters=%d histories=%d (length<=%d complete) fault-free runs=%d single-fault runs=%d states=%d %s\n",
						fe.label(), fe.probe.NumOps(), fe.Histories, fe.HistLen, fe.FaultFree, fe.FaultRuns, fe.States, fe.Partial)
				}

				if part("handle") && sr.handle {
					fe.runHandle(sr.pres, at(0.52), report)

					fmt.Printf("C12 handle programmes %s: opening prefixes=%d (pre in %v) fault-free runs open;[pre];F=%d single-fault runs open;[pre];F fails;G;Close=%d twin followed to the end in %d %s\n",
						fe.label(), fe.HPrefixes, sr.pres, fe.HProgs, fe.HRuns, fe.HFollowed, fe.HPartial)
				}

				if fe.HarnessErr != "" {
					harnessErr = "fault enumeration on " + fe.label() + ": " + fe.HarnessErr
				}
			}
		}
	}

	// ---- (vi) fault enumeration with the function installed in mid-history ----
	var whenEngines []*faultEngine

	if part("when") && (part("fault") || part("handle")) && harnessErr == "" {
		for _, wr := range whenRuns {
			for _, b := range baseNames {
				fe := newFaultEngine(b, "", wr.when)
				whenEngines = append(whenEngines, fe)

				if part("fault") && wr.hist > 0 {
					for l := 0; l < wr.hist; l++ {
						fe.runLevel(at(0.56), report)
					}

					fmt.Printf("C12 fault %s: letters=%d histories=%d (length<=%d complete) fault-free runs=%d single-fault runs=%d states=%d %s\n",
						fe.label(), fe.probe.NumOps(), fe.Histories, fe.HistLen, fe.FaultFree, fe.FaultRuns, fe.States, fe.Partial)
				}

				if part("handle") && wr.handle {
					fe.runHandle(wr.pres, at(0.60), report)

					fmt.Printf("C12 handle programmes %s: (opening prefix, position of SetFailFunc inside it)=%d (pre in %v) fault-free runs open;[pre];F=%d single-fault runs open;[pre];F fails;G;Close=%d twin followed to the end in %d %s\n",
						fe.label(), fe.HPrefixes, wr.pres, fe.HProgs, fe.HRuns, fe.HFollowed, fe.HPartial)
				}

				if fe.HarnessErr != "" {
					harnessErr = "fault enumeration on " + fe.label() + ": " + fe.HarnessErr
				}
			}
		}
	}

	// ---- (vii) fault enumeration from start states that hold a family ---------
	var famEngines []*faultEngine

	if part("family") && (part("fault") || part("handle")) && harnessErr == "" {
		for _, fr := range famFaults {
			for _, b := range baseNames {
				if b != "MemFS" {
					continue // OrefaFS has no Sub
				}

				fe := newFaultEngine(b, "", joinWhen("", fr.fam))
				famEngines = append(famEngines, fe)

				if part("fault") && fr.hist > 0 {
					for l := 0; l < fr.hist; l++ {
						fe.runLevel(at(0.62), report)
					}

					fmt.Printf("C12 fault %s: letters=%d histories=%d (length<=%d complete) fault-free runs=%d single-fault runs=%d states=%d %s\n",
						fe.label(), fe.probe.NumOps(), fe.Histories, fe.HistLen, fe.FaultFree, fe.FaultRuns, fe.States, fe.Partial)
				}

				if part("handle") && fr.handle {
					fe.runHandle(fr.pres, at(0.64), report)

					fmt.Printf("C12 handle programmes %s: (open through the pooled view of the family, SetFailFunc before it or at a position inside the prefix)=%d (pre in %v) fault-free runs open;[pre];F=%d single-fault runs open;[pre];F fails;G;Close=%d twin followed to the end in %d %s\n",
						fe.label(), fe.HPrefixes, fr.pres, fe.HProgs, fe.HRuns, fe.HFollowed, fe.HPartial)
				}

				if fe.HarnessErr != "" {
					harnessErr = "fault enumeration on " + fe.label() + ": " + fe.HarnessErr
				}
			}
		}
	}

	// ---- (i) and (iii): engine A ----------------------------------------------
	type bfsSystem struct {
		name  string
		depth int
	}

	var (
		stats   []bfs.Stats
		sysList []bfsSystem
		heavy   []bfsSystem

		stackSystems, stackStates, stackTrans int
		whenSystems, whenStates, whenTrans    int
		famSystemsN, famStates, famTrans      int
		famCut                                []string
	)

	depthDone := bfsDepth
	bfsStacks := map[string]bool{}

	// Systems whose base cannot change (read-only plan, lower FailFS carrying
	// ReadOnlyFunc, RoFS) have few states: they go first and leave what they do
	// not use of their share of the budget to the others.
	for _, b := range baseNames {
		if part("readonly") {
			sysList = append(sysList, bfsSystem{sysName(b, "readonly", ""), bfsDepth})

			if part("when") {
				// (vi) before ReadOnlyFunc is installed the base can change: as many states as plan none
				for n := 1; n <= whenLate; n++ {
					heavy = append(heavy, bfsSystem{sysName(b, planWhen("readonly", lateWhen(n)), ""), bfsDepth})
				}
			}
		}

		for _, p := range []string{"none", "okfunc"} {
			if part(p) {
				heavy = append(heavy, bfsSystem{sysName(b, p, ""), bfsDepth})
			}

			if part("when") && part(p) && p == "okfunc" {
				// (vi) objects first, function afterwards; function replaced and removed
				for n := 1; n <= whenLate; n++ {
					heavy = append(heavy, bfsSystem{sysName(b, planWhen(p, lateWhen(n)), ""), bfsDepth})
				}

				heavy = append(heavy, bfsSystem{sysName(b, planWhen(p, whenSwap), ""), bfsDepth})
			}

			if !part("stack") || !part(p) {
				continue
			}

			for _, st := range []string{stRoPre, stRoPost, stRoFS} {
				sysList = append(sysList, bfsSystem{sysName(b, p, st), stackDepth})
			}

			if p == "okfunc" && *tier != "thorough" {
				continue // bases that can change, mid-history arming: plan none only in the quick tier
			}

			if b == "MemFS" {
				// OrefaFS: "/" cannot be the base path of a BasePathFS (Stat("/") fails), and it has no Sub
				heavy = append(heavy, bfsSystem{sysName(b, p, stBasePath), wideDepth}, bfsSystem{sysName(b, p, stSubView), wideDepth})
			}

			if midDepth > 0 && p == "none" {
				heavy = append(heavy, bfsSystem{sysName(b, p, stRoMid), midDepth})
			}
		}
	}

	// (vii) start states that hold a family: one base, short or shallow - before the heavy ones
	if part("family") {
		for _, b := range baseNames {
			if b != "MemFS" {
				continue // OrefaFS has no Sub
			}

			for _, fr := range famRuns {
				p, sched := splitPlan(fr.plan)
				if !part(p) {
					continue
				}

				bs := bfsSystem{sysName(b, planWhen(p, joinWhen(sched, fr.fam)), ""), fr.depth}
				if fr.depth > 2 {
					heavy = append(heavy, bs)
				} else {
					sysList = append(sysList, bs)
				}
			}
		}
	}

	sysList = append(sysList, heavy...)

	for i, bs := range sysList {
		if harnessErr != "" {
			break
		}

		var deadline time.Time

		if budget > 0 {
			end := at(0.78)
			left := time.Until(end)

			if left < 0 {
				left = 0
			}

			deadline = time.Now().Add(left / time.Duration(len(sysList)-i))
		}

		sn := bs.name
		probe := factory(sn)
		base, plan, stack, _ := splitSysName(sn)

		cfg := bfs.Config{
			System: sn, MaxDepth: bs.depth, Deadline: deadline,
			Report: func(_ string, hist []string, op string, v bfs.Viol) {
				rep.Report(kf.Sig(v.Sig), map[string]any{
					"system": base, "plan": plan, "stack": stack,
					"history": append(append([]string{}, hist...), op), "detail": v.Detail,
				})
			},
		}

		st := bfs.Run(cfg, probe.OpString)
		stats = append(stats, st)

		if st.HarnessErr != "" {
			harnessErr = sn + ": " + st.HarnessErr
		}

		fmt.Printf("C12 bfs %s: letters=%d states=%d transitions=%d depth_completed=%d/%d exhaustive=%v\n",
			sn, probe.NumOps(), st.States, st.Transitions, st.DepthDone, bs.depth, st.Exhaustive)

		if stack == "" {
			_, when := splitPlan(plan)
			_, fam := splitWhen(when)

			if fam == "" && st.DepthDone < depthDone {
				depthDone = st.DepthDone // the systems of (vii) have bounds of their own, listed by name
			}

			switch {
			case fam != "":
				famSystemsN++
				famStates += st.States
				famTrans += st.Transitions

				if st.DepthDone < bs.depth {
					famCut = append(famCut, sn)
				}
			case when != "":
				whenSystems++
				whenStates += st.States
				whenTrans += st.Transitions
			}
		} else {
			stackSystems++
			stackStates += st.States
			stackTrans += st.Transitions
			bfsStacks[stack+" (plan "+plan+"): histories of length <= "+strconv.Itoa(bs.depth)] = true
		}
	}

	// ---- (ii) deeper level with what is left of the budget --------------------
	if part("fault") && harnessErr == "" {
		for i, fe := range engines {
			for l := 2; l < faultHist; l++ {
				var deadline time.Time

				if budget > 0 {
					end := at(0.93)
					left := time.Until(end)

					if left < 0 {
						left = 0
					}

					// share the remaining time in proportion to the work left: prefixes x letters
					w, rest := fe.workLeft(), 0.0
					for _, f2 := range engines[i:] {
						rest += f2.workLeft()
					}

					if rest > 0 {
						deadline = time.Now().Add(time.Duration(float64(left) * w / rest))
					} else {
						deadline = time.Now().Add(left)
					}
				}

				fe.runLevel(deadline, report)
			}

			if fe.HarnessErr != "" {
				harnessErr = "fault enumeration on " + fe.Base + ": " + fe.HarnessErr
			}

			if faultHist > 2 {
				fmt.Printf("C12 fault %s: histories=%d (length<=%d complete; %s) single-fault runs=%d\n",
					fe.Base, fe.Histories, fe.HistLen, fe.Partial, fe.FaultRuns)
			}
		}
	}

	// ---- coverage assertion over the FnVFS enumeration ------------------------
	covered := map[avfs.FnVFS]int{}
	injected := map[avfs.FnVFS]int{}
	invoked := map[avfs.FnVFS]bool{}
	classes := map[string]int{}
	foutcomes := map[string]int{}

	var (
		runs, faultRuns, histories int
		hprogs, hruns, hfollowed   int
		hprefixes                  int
		fsamples                   []any
	)

	faultExh := true

	var stackRunsN, stackHist, whenRunsN, whenHist, whenHRuns, famRunsN, famHist, famHRuns int

	for i, fe := range append(append(append(append([]*faultEngine{}, engines...), stackEngines...), whenEngines...), famEngines...) {
		if i >= len(engines)+len(stackEngines)+len(whenEngines) {
			// engines that start with a family add runs and classes, as the stacked ones do
			famRunsN += fe.FaultFree + fe.FaultRuns + fe.HProgs
			famHist += fe.Histories
			famHRuns += fe.HRuns
		} else if i >= len(engines)+len(stackEngines) {
			// engines with a schedule add runs and classes, as the stacked ones do
			whenRunsN += fe.FaultFree + fe.FaultRuns + fe.HProgs
			whenHist += fe.Histories
			whenHRuns += fe.HRuns
		} else if i >= len(engines) {
			// stacked engines add runs and classes; the coverage assertion over the FnVFS
			// enumeration is made on the single FailFS (a lower FailFS is never asked
			// for the ids of the composites re-implemented by the upper one)
			stackRunsN += fe.FaultFree + fe.FaultRuns + fe.HProgs
			stackHist += fe.Histories
		} else {
			for k, n := range fe.Covered {
				covered[k] += n
			}

			for k := range fe.Invoked {
				invoked[k] = true
			}
		}

		for k, n := range fe.Injected {
			injected[k] += n
		}

		for k, n := range fe.Classes {
			classes[k] += n
		}

		for k, n := range fe.Outcomes {
			foutcomes[k] += n
		}

		runs += fe.FaultFree + fe.FaultRuns + fe.HProgs
		faultRuns += fe.FaultRuns
		histories += fe.Histories
		hprogs += fe.HProgs
		hruns += fe.HRuns
		hfollowed += fe.HFollowed
		hprefixes += fe.HPrefixes

		for _, s := range fe.Samples {
			fsamples = append(fsamples, s)
		}

		if !fe.Exhaustive {
			faultExh = false
		}
	}

	var coveredNames, uncovered, holes, unreachableSeen []string

	if part("fault") && harnessErr == "" && len(engines) > 0 && engines[0].HistLen >= 2 {
		for _, fn := range allFn() {
			switch {
			case covered[fn] > 0:
				coveredNames = append(coveredNames, fn.String())

				if _, ok := unreachableFn[fn]; ok {
					unreachableSeen = append(unreachableSeen, fn.String())
				}
			case unreachableFn[fn] != "":
			case invoked[fn]:
				// the method owning the id was called on a wrapped object and the id never showed up
				uncovered = append(uncovered, fn.String())
				rep.Report(kf.Sig{"plan": "fault", "kind": "uncovered-fn", "fn": fn.String(), "want": "consulted at least once", "got": "never consulted"},
					map[string]any{"detail": "the method owning this id was invoked directly in the enumerated histories, yet no trace contains the id"})
			default:
				holes = append(holes, fn.String())
			}
		}

		for _, fn := range unreachableSeen {
			fmt.Printf("NOTE: property=%s FnVFS id %s is listed as unreachable in the driver but was consulted\n", *id, fn)
		}

		if len(uncovered) > 0 {
			fmt.Printf("C12: FnVFS ids never consulted although their method was invoked: %s\n", strings.Join(uncovered, ","))
		}

		if len(holes) > 0 {
			harnessErr = "coverage assertion: FnVFS ids that no enumerated call could reach (alphabet hole, or a new id): " + strings.Join(holes, ",")
		}
	}

	// ---- evidence ------------------------------------------------------------
	states, trans := 0, 0
	boutcomes := map[string]int{}
	bfsExh := true

	var samples []any

	for _, st := range stats {
		states += st.States
		trans += st.Transitions

		for k, n := range st.Outcomes {
			boutcomes[k] += n
		}

		if !st.Exhaustive {
			bfsExh = false
		}

		for i, s := range st.Samples {
			if i < 2 {
				samples = append(samples, map[string]any{"system": st.System, "history": s})
			}
		}
	}

	samples = append(append([]any{}, fsamples...), samples...)
	if len(samples) == 0 {
		samples = append(samples, "nothing executed")
	}

	var unreachable []string
	for fn, why := range unreachableFn {
		unreachable = append(unreachable, fn.String()+": "+why)
	}

	var noID []string
	for m, why := range noIDVFS {
		noID = append(noID, m+": "+why)
	}

	sort.Strings(noID)

	classNames := make([]string, 0, len(classes))
	for k := range classes {
		classNames = append(classNames, k)
	}

	sort.Strings(classNames)

	injNames := map[string]int{}
	for fn, n := range injected {
		injNames[fn.String()] = n
	}

	histDone := faultHist
	for _, fe := range engines {
		if fe.HistLen < histDone {
			histDone = fe.HistLen
		}
	}

	var stackList, bfsStackNames []string

	usedStacks := map[string]bool{}

	for _, fe := range stackEngines {
		usedStacks[fe.Stack] = true
	}

	for _, st := range stats {
		if _, _, stack, _ := splitSysName(st.System); stack != "" {
			usedStacks[stack] = true
		}
	}

	for st := range usedStacks {
		stackList = append(stackList, st+": "+stackDesc[st])
	}

	for k := range bfsStacks {
		bfsStackNames = append(bfsStackNames, k)
	}

	sort.Strings(stackList)
	sort.Strings(bfsStackNames)

	stackFaultBound := "none"

	if len(stackEngines) > 0 {
		var parts []string

		for _, sr := range stackRuns {
			p := fmt.Sprintf("%s: all single-fault plans of all histories of length <= %d", sr.stack, sr.hist)
			if sr.handle {
				p += fmt.Sprintf(" and the handle programmes with pre in {none%s}", strings.Join(append([]string{""}, sr.pres...), ", "))
			}

			parts = append(parts, p)
		}

		stackFaultBound = strings.Join(parts, "; ")

		for _, fe := range stackEngines {
			if !fe.Exhaustive {
				stackFaultBound += " (" + fe.label() + " cut by the budget: " + fe.Partial + " " + fe.HPartial + ")"
			}
		}
	}

	// (vi) what was run with a schedule of SetFailFunc calls
	var whenBfsNames, whenSchedules []string

	usedWhens := map[string]bool{}

	// (vii) what was run from start states that hold a family
	var famBfsNames, famList []string

	usedFams := map[string]bool{}
	famBound := map[string][]string{} // "plan[@schedule], histories of length <= n" -> families

	for _, st := range stats {
		if _, plan, stack, _ := splitSysName(st.System); stack == "" {
			p, when := splitPlan(plan)
			sched, fam := splitWhen(when)

			switch {
			case fam != "":
				usedFams[fam] = true

				if sched != "" {
					usedWhens[sched] = true
				}

				k := fmt.Sprintf("plan %s, histories of length <= %d", planWhen(p, sched), st.DepthDone)
				famBound[k] = append(famBound[k], fam)
			case when != "":
				usedWhens[when] = true
				whenBfsNames = append(whenBfsNames, fmt.Sprintf("%s (plan %s, %s): histories of length <= %d", when, p, st.System[:strings.IndexByte(st.System, '/')], st.DepthDone))
			}
		}
	}

	for k, fams := range famBound {
		sort.Strings(fams)
		famBfsNames = append(famBfsNames, k+": families "+strings.Join(fams, " "))
	}

	sort.Strings(famBfsNames)

	famFaultBound := "none"

	if len(famEngines) > 0 {
		var parts []string

		for _, fr := range famFaults {
			usedFams[fr.fam] = true

			p := fmt.Sprintf("%s: all single-fault plans of all histories of length <= %d", fr.fam, fr.hist)
			if fr.handle {
				p += fmt.Sprintf(" and the handle programmes opened through the pooled view with pre in {none%s}, SetFailFunc before the programme and at every position inside its opening prefix",
					strings.Join(append([]string{""}, fr.pres...), ", "))
			}

			parts = append(parts, p)
		}

		famFaultBound = strings.Join(parts, "; ")

		for _, fe := range famEngines {
			if !fe.Exhaustive {
				famFaultBound += " (" + fe.label() + " cut by the budget: " + fe.Partial + " " + fe.HPartial + ")"
			}
		}
	}

	if len(famCut) > 0 {
		famBfsNames = append(famBfsNames, "cut by the budget: "+strings.Join(famCut, " "))
	}

	for f := range usedFams {
		famList = append(famList, f+": "+famDesc(f))
	}

	sort.Strings(famList)

	whenFaultBound := "none"

	if len(whenEngines) > 0 {
		var parts []string

		for _, wr := range whenRuns {
			usedWhens[wr.when] = true

			p := wr.when + ":"
			if wr.hist > 0 {
				p += fmt.Sprintf(" all single-fault plans of all histories of length <= %d", wr.hist)
			}

			if wr.handle {
				if wr.hist > 0 {
					p += " and"
				}

				p += fmt.Sprintf(" the handle programmes with pre in {none%s}, SetFailFunc at every position inside the opening prefix (after the Sub, after the open, after pre) whatever the number in the name of the schedule",
					strings.Join(append([]string{""}, wr.pres...), ", "))
			}

			parts = append(parts, p)
		}

		whenFaultBound = strings.Join(parts, "; ")

		for _, fe := range whenEngines {
			if !fe.Exhaustive {
				whenFaultBound += " (" + fe.label() + " cut by the budget: " + fe.Partial + " " + fe.HPartial + ")"
			}
		}
	}

	for w := range usedWhens {
		whenSchedules = append(whenSchedules, w+": "+whenDesc(w))
	}

	sort.Strings(whenBfsNames)
	sort.Strings(whenSchedules)

	if harnessErr != "" {
		// a harness error is never a verdict: no VIOLATION lines, no evidence
		fmt.Fprintln(os.Stderr, "c12: harness error:", harnessErr)
		os.Exit(2)
	}

	// concurrent clause (conc.go)
	var conc map[string]any

	if *only == "" || strings.Contains(","+*only+",", ",conc,") {
		conc = runConc(*tier, rep)
	}

	code := rep.Finish()

	e := ev.Evidence{
		PropertyID: *id, Tier: *tier, Seed: ev.Seed(), Level: "fault_enumeration",
		Coverage: map[string]any{
			"evaluations":         runs,
			"distinct_nontrivial": len(classes),
			"rule": "evaluations = executions of a whole history on fresh real instances in part (ii): one fault-free run per history (recording always-nil failure function that overwrites its *FailParam after reading it, " +
				"lock-step with the twin base) + one run per (consultation index k of its trace, error E in {private sentinel, *fs.PathError{ErrPermDenied}, *fs.PathError{ErrNoSuchFileOrDir} (an fs.ErrNotExist error, the kind composites branch on)}), " +
				"each in lock-step with a twin base that skips the failed call; plus the handle programmes: one fault-free run per (opening prefix, File method F) and one run " +
				"'prefix; F with consultation k returning E; G; Close' per (prefix, F, k, E, File method G), counted in single_fault_runs as well; " +
				"distinct_nontrivial = number of distinct (FnVFS id of the failing consultation, harness-level method it fired in, E, outcome class: exact-E | other-error:<errno> | nil | PANIC | DEADLOCK) " +
				"classes whose injected consultation was reached and returned E in the run (checked against the run's own trace)",
			"samples":           samples,
			"histories":         histories,
			"single_fault_runs": faultRuns,
			"concurrent_part":   conc,
			"handle_programmes": map[string]any{
				"shape":                        "open (every pool open of slot 0 on the FailFS, and on MemFS through Sub(\"/\") and through Sub(\"/\") of Sub(\"/\")); [pre]; F fails; G; Close - F: every File call of the alphabet, G: " + followText,
				"neutral_argument_tuples":      noopStrings(),
				"opening_prefixes":             hprefixes,
				"pre":                          append([]string{"(none)"}, handlePres...),
				"fault_free_runs":              hprogs,
				"single_fault_runs":            hruns,
				"twin_followed_to_the_end":     hfollowed,
				"openflag_alphabet_every_path": flagStrings(),
			},
			"parameter_block": map[string]any{
				"lesson": "the failure function is code of the user's and receives a POINTER to the parameter block: besides answering it may write to the block. The block is the function's copy of the arguments; " +
					"what the base executes and what an error reports are the arguments of the caller. Code that forwards fp.Path instead of its own argument is right for every function that only reads",
				"how": "every recording function of the harness (recording plan, single-fault plans; on the FailFS under test, on the lower FailFS of a plan stack, through any member of a family; before and after SetFailFunc replaces it) " +
					"overwrites every field of *FailParam (Op, Path, NewPath, Perm, Flag, Uid, Gid, Size, ATime, MTime) after rendering it into the trace, whether it then answers nil or E",
				"oracle":      "unchanged: a let-through call behaves exactly as on the twin base (outcome kind and value, base state), a refused call returns exactly E and leaves the base untouched",
				"not_covered": "the concurrent read-only pass and the read-only plan use functions that only read the block (failfs.ReadOnlyFunc is the library's)",
			},
			"effect_attribution": map[string]any{
				"lesson": "an effect on the base is the work of a primitive, and a fault plan can only make fail what IS consulted: a composite that short-cuts to the base (for some argument values: the empty dir that selects the default temp directory) " +
					"never puts the primitive to the failure function, so that a function refusing FnMkdir and not FnMkdirTemp is bypassed - visible only on the fault-free trace",
				"oracle": "recording plan, every call of Create, WriteFile, ReadFile, ReadDir, Glob, MkdirTemp made directly on the FailFS or a Sub view: the base state is taken at every consultation and at return; " +
					"a change is attributed to the consultation that precedes it; kind effect-without-primitive if that is the id of a composite (FnMkdirTemp, FnCreateTemp, FnReadDir, FnReadFile, FnWriteFile, FnWalkDir) or if there is none",
				"default_selecting_arguments": []string{"CreateTemp(\"\", \"t*\")", "MkdirTemp(\"\", \"m*\")", "CreateTemp(\"\", \"\")", "MkdirTemp(\"\", \"\")"},
				"not_covered":                 "CreateTemp and WalkDir are not in the property's list of composites built on primitives (FailFS.CreateTemp consults FnCreateTemp and leaves the rest to the base): nothing is demanded of their traces",
			},
			"fault_classes":         classNames,
			"plans_injected_per_fn": injNames,
			"fn_covered":            coveredNames,
			"fn_not_covered":        append(append([]string{}, uncovered...), holes...),
			"fn_unreachable_listed": unreachable,
			"methods_without_fn_id": noID,
			"fault_engines":         engines,
			"stacked_bases": map[string]any{
				"lesson": "a wrapper has to be enumerated on every wrapper of the library as its base, with the configuration of that base (failure function of a lower FailFS) " +
					"set before the upper layer is built, after it is built and in mid-history: code that looks through a base of a known type, or copies its configuration at construction time or at first use, is wrong for some of these orders only",
				"stacks":                    stackList,
				"fault_engines":             stackEngines,
				"fault_runs":                stackRunsN,
				"fault_histories":           stackHist,
				"bfs_systems":               stackSystems,
				"bfs_states":                stackStates,
				"bfs_transitions":           stackTrans,
				"bfs_history_bound":         bfsStackNames,
				"composite_ids_of_the_base": "plan stacks: FailFS re-implements ReadDir, ReadFile and MkdirTemp over itself, so a FailFS built on a FailFS never asks the lower one for FnReadDir / FnReadFile / FnMkdirTemp; the own-id oracle reports it (kind no-consultation, stack ff-plan-*)",
			},
			"installation_moment": map[string]any{
				"lesson": "SetFailFunc is a call of the API like any other: the function that governs is the one installed now, for every object the FailFS has ever handed out. " +
					"A harness that installs the function right after the constructor only sees objects born under it; code that decides at the birth of an object whether or how it will consult " +
					"(bare base handle while there is nothing to inject, function copied into the object) is wrong only for 'objects first, function afterwards', code that keeps what it copied only once the function is replaced or removed",
				"schedules":                whenSchedules,
				"bfs_systems":              whenSystems,
				"bfs_states":               whenStates,
				"bfs_transitions":          whenTrans,
				"bfs_history_bound":        whenBfsNames,
				"fault_engines":            whenEngines,
				"fault_runs":               whenRunsN,
				"fault_histories":          whenHist,
				"handle_programme_runs":    whenHRuns,
				"oracle_after_installing":  "the oracles of the plan on every object whenever it was obtained (own id consulted before any base effect; exactly E, base untouched, twin in lock-step; base unchangeable under ReadOnlyFunc)",
				"oracle_before_installing": "recording and single-fault plans: lock-step with the twin base (the FailFS as constructed); read-only plan: none (the calls build what ReadOnlyFunc then has to govern)",
				"oracle_after_replacing":   "kind stale-function: no consultation may arrive at a recording function that is not the one installed now; after SetFailFunc(failfs.OkFunc) none at all; lock-step with the twin throughout",
			},
			"derivation_depth": map[string]any{
				"lesson": "derivation is recursive: what a wrapper hands out (a file system from Sub) is itself a wrapper that hands out file systems and handles, and the statement holds for the whole family with one failure function, " +
					"the one installed now through whichever member SetFailFunc was called. Code that links every derived object to the one it was derived from builds a chain, code that assumes the chain is flat agrees with it " +
					"on the constructor's object and its direct children only: the depth of the objects in the pool, and the member SetFailFunc is called on, are dimensions",
				"letters": "s=sub.Sub(\"/\"), s=sub.Sub(\"/d\") in every system on MemFS (the pooled view is replaced by a view derived from it; the chain of Sub calls is part of the state); " +
					"handle programmes with the opening prefix Sub(\"/\");Sub(\"/\");open in every fault engine on MemFS",
				"families":              famList,
				"bfs_systems":           famSystemsN,
				"bfs_states":            famStates,
				"bfs_transitions":       famTrans,
				"bfs_history_bound":     famBfsNames,
				"fault_engines":         famEngines,
				"fault_runs":            famRunsN,
				"fault_histories":       famHist,
				"handle_programme_runs": famHRuns,
				"oracle":                "those of the plan, unchanged, on the calls through the root (failfs.*) and through the pooled view (sub.*, handles opened through it): own id consulted before any base effect, exactly E, base untouched, twin (the same chain of Sub calls on the twin base) in lock-step, base unchangeable under ReadOnlyFunc, stale-function",
			},
			"fault_outcomes_distinct":       len(foutcomes),
			"states":                        states,
			"transitions":                   trans,
			"traces_validated_against_impl": trans + runs,
			"bfs_outcomes_distinct":         len(boutcomes),
			"bfs_systems":                   stats,
			"exhaustive":                    bfsExh && faultExh && harnessErr == "",
			"bound": fmt.Sprintf("(i)/(iii) all histories of length <= %d (completed %d) per system, OpenFile with %d flag sets (4 of them O_RDONLY plus TRUNC / CREATE / CREATE|EXCL / APPEND) on each of %d paths; "+
				"(ii) all single-fault plans of all histories of length <= %d (completed %d), twin in lock-step before and after the failure; "+
				"(ii') all handle programmes open;[pre];F fails;G;Close with pre in {none, %s} (\"*\" = every File call), every File call F (every consultation, every error; %d letters per handle, of which %d are the argument tuples that do nothing or only query: %s) and every File call G (%d letters: %s); "+
				"(iv) stacked and wrapped bases, same alphabet, twin = the wrapped base driven directly (twin stacks) or the bare base (plan stacks): engine A %s; fault enumeration %s; "+
				"(vi) moment of SetFailFunc, same alphabet: engine A %s; fault enumeration %s; "+
				"(vii) depth of derivation, same alphabet (which includes Sub of the pooled view), start states whose pool holds the view dN = root.Sub(\"/\")...Sub(\"/\") (N Sub calls), "+
				"SetFailFunc called on the member named (root, v1..vN, a sibling w of vN), .pre = before the rest of the family is derived, MemFS: engine A %s; fault enumeration %s; "+
				"(viii) in every recording and single-fault plan above the failure function overwrites its *FailParam after reading it, and the temp calls are enumerated with the arguments that select a default "+
				"(dir \"\" with patterns \"t*\"/\"m*\" and \"\") besides every named directory; every base effect of a listed composite is attributed to the consultation that precedes it",
				bfsDepth, depthDone, len(flagSets), len(nsPaths), faultHist, histDone, strings.Join(handlePres, ", "), len(fileCalls()), len(fileNoopCalls()), noopStrings(), followCount, followText,
				strings.Join(bfsStackNames, ", "), stackFaultBound, strings.Join(whenBfsNames, ", "), whenFaultBound,
				strings.Join(famBfsNames, "; "), famFaultBound),
			"known_findings_matched": append([]string{}, rep.KnownMatched()...),
		},
		Assumptions: []string{
			"one fault per run; errors injected: a private errors.New sentinel and &fs.PathError{Op:\"x\",Path:\"y\",Err:avfs.ErrPermDenied}",
			"the recording and single-fault functions of the harness overwrite the whole *FailParam after reading it (one fixed garbage value per field: nonexistent paths /scribbled/old, /scribbled/new, complemented Perm/Flag/Size, negative ids, fixed times); " +
				"a function that edits the block into OTHER values that happen to name existing objects is not enumerated separately",
			"base state = injected node-graph dump (names, types, permission bits, owners, bytes, link counts, hard-link classes, link targets) + cwd + umask + current user of the base; " +
				"the read-only plan adds the modification time of every entry and ignores cwd/umask/user, which the statement does not list",
			"state of the base handle behind a FailFile (open/closed, offset, directory position) is not observable directly: 'untouched' is checked on the file system state when the failure is injected, " +
				"and on the handle through the results of the later calls of the history, compared with the twin base handle on which the failed call was not executed",
			"fault plan: the twin does not execute the call made to fail when it is a primitive (File method or VFS method that consults only its own id) or a composite whose first and only consultation failed; " +
				"when a composite (Create, WriteFile, ReadFile, ReadDir, Glob, MkdirTemp, CreateTemp, WalkDir) fails half-way its partial effects cannot be mirrored: the twin is dropped and the remaining calls " +
				"are only required not to panic inside FailFS and to leave the untouched clause intact; calls before the failure are judged by the fault-free run (twin in lock-step)",
			"handle programmes: one File call at most between the open and the failing call, one follow-up call G and the final Close after it; handle slot 0 only (slots are symmetric); " +
				"histories that interleave calls on other objects between the failure and the follow-up are covered only within the general bound of (ii)",
			"read-only plan: 'cannot be changed' = node-graph dump with contents and modification times identical before/after every call, independent of what the call returned",
			"handles or file systems returned together with an error are not pooled",
			"small scope: 9 paths, <= 2 handle slots, 1 Sub slot (MemFS only: OrefaFS has no Sub), temp names supplied by the harness (0,0,1,1,... forcing one collision per later temp call)",
			"sequential execution (verifrt.ModeSeq): a self-deadlock is decided, not timed out",
			"stacked bases: the failure function carried by a lower FailFS of a twin stack is stateless (failfs.ReadOnlyFunc / OkFunc), so both sides answer alike whatever the number of consultations; " +
				"single-fault plans on a lower FailFS are judged by the oracles of the single FailFS on the stack as a whole (plan stacks), not against a second counting function; " +
				"in-history replacement of the lower function (ff-ro-mid) is part of the thorough tier only (it needs histories of three calls to show anything the ff-ro-post stack does not); " +
				"BasePathFS and Sub view are rooted at \"/\" so that the path alphabet keeps its meaning, hence on MemFS only (\"/\" of OrefaFS cannot be a base path, OrefaFS has no Sub); the read-only plan is not repeated on stacks",
			"moment of SetFailFunc: the SetFailFunc calls are not letters but a schedule keyed on the position in the history (after 1, 2 calls), so that they do not use up the history bound; " +
				"functions installed: the recording always-nil function(s) of the harness, the single-fault function, failfs.ReadOnlyFunc, and failfs.OkFunc for 'removed' (the function failfs.New installs: SetFailFunc(nil) is not enumerated, " +
				"the API has no notion of it - the next call panics); the read-only plan is not continued after its function is removed (it has no twin that could say what the base must look like afterwards): removal is judged on the recording plan, " +
				"by which function is consulted; schedules are run on the single FailFS only, not combined with the stacked bases of (iv)",
			"depth of derivation: the families of the start states are chains of Sub(\"/\") (every member sees the whole tree, so that the path alphabet keeps its meaning) of depth <= 2 (thorough: 3) with one sibling outside the pool; " +
				"only the root and the deepest view of the chain receive calls of the alphabet (the intermediate views and the sibling only ever receive SetFailFunc); every SetFailFunc call of a schedule goes to the same member; " +
				"the Sub calls that derive the family are not calls of the history (their consultations are let through unrecorded, a fault plan cannot fire in them: Sub as a call that fails is a letter of the alphabet); " +
				"deeper or differently rooted views arise only from the letters s=sub.Sub(p) within the history bound; MemFS only (OrefaFS has no Sub); families are not combined with the stacked bases of (iv)",
		},
		Violations: rep.NewCount(),
	}

	if err := ev.Write(filepath.Join(verifDir, "evidence", *id+".json"), e); err != nil {
		die("evidence: %v", err)
	}

	fmt.Printf("c12: tier=%s bfs systems=%d (of which on stacked bases=%d, with SetFailFunc in mid-history=%d, starting with a family of derived file systems=%d) states=%d transitions=%d (depth %d/%d) | fault: histories=%d runs=%d (of which through stacked FailFS=%d, with SetFailFunc in mid-history=%d, starting with a family=%d) single-fault=%d (of which handle programmes=%d, twin followed=%d) classes=%d length %d/%d | FnVFS covered %d/%d (+%d listed unreachable) | new signatures=%d exhaustive=%v wall=%.1fs\n",
		*tier, len(stats), stackSystems, whenSystems, famSystemsN, states, trans, depthDone, bfsDepth, histories, runs, stackRunsN, whenRunsN, famRunsN, faultRuns, hruns, hfollowed, len(classes), histDone, faultHist,
		len(coveredNames), len(allFn()), len(unreachableFn), rep.NewCount(), bfsExh && faultExh && harnessErr == "", ev.Elapsed())

	os.Exit(code)
}

// doReplay re-executes the history (and plan) of a replay file and prints
// what happens.
func doReplay(path string) int {
	b, err := os.ReadFile(path)
	if err != nil {
		die("replay: %v", err)
	}

	var f struct {
		Replay struct {
			System  string   `json:"system"`
			Plan    string   `json:"plan"`
			Stack   string   `json:"stack"`
			History []string `json:"history"`
			Fault   *struct {
				K   int    `json:"k"`
				Err string `json:"err"`
			} `json:"fault"`
		} `json:"replay"`
	}

	if err := json.Unmarshal(b, &f); err != nil {
		die("replay: %v", err)
	}

	r := f.Replay
	if r.System == "" || len(r.History) == 0 {
		die("replay: %s holds no history", path)
	}

	s := newSys(r.System, r.Plan, r.Stack) // r.Plan: plan[@when]

	if s.plan == "fault" {
		if r.Fault == nil {
			die("replay: fault plan without k")
		}

		err = s.resetFault(r.Fault.K, r.Fault.Err)
	} else {
		err = s.Reset()
	}

	if err != nil {
		die("replay: %v", err)
	}

	index := map[string]int{}
	for i := range s.ops {
		index[s.ops[i].String()] = i
	}

	bad := 0

	installed := ""

	showFn := func() {
		if s.when != "" && s.installed != installed {
			installed = s.installed
			obj := "failfs"
			if s.fam != nil {
				obj = "[family " + s.famName + ", family.go] " + s.fam.Target
			}

			fmt.Printf("        %s.SetFailFunc(%s)   [schedule %q]\n", obj, installed, s.sched)
		}
	}

	showFn()

	for j, h := range r.History {
		i, ok := index[h]
		if !ok {
			die("replay: %q is not a letter of the alphabet of %s", h, r.System)
		}

		from := len(s.trace)
		s.nsteps = j // position in the history, whether or not the call changes the state (sys.Step)
		sr := s.Step(i)

		fmt.Printf("call %d: %s -> %s\n", j, h, s.lastRender)

		for _, c := range s.trace[from:] {
			fmt.Printf("    consultation %s\n", c)
		}

		for _, v := range sr.Viols {
			bad++
			sig := kf.Sig(v.Sig)
			fmt.Printf("REPLAY: violated: %s\n    %s\n", sig.String(), v.Detail)
		}

		showFn()
	}

	if s.plan == "fault" && !s.fired {
		fmt.Printf("REPLAY: consultation %d was never reached\n", r.Fault.K)
	}

	if bad == 0 {
		fmt.Println("REPLAY: property holds on this history/plan")

		return 0
	}

	return 1
}
