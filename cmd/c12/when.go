package main

import (
	"fmt"
	"strconv"
	"strings"

	"github.com/avfs/avfs"
	"github.com/avfs/avfs/vfs/failfs"
)

// The moment the failure function is installed: one more dimension of every
// plan of this driver.
//
// General lesson. SetFailFunc is a call of the API like any other, and the
// statement quantifies over every sequence of calls: "the failure function" is
// the function installed NOW, for every object the FailFS has ever handed out -
// handles from Open, OpenFile, Create and CreateTemp, file systems from Sub and
// the handles opened through them. A harness that installs the function right
// after the constructor (as every test of the library does) only ever sees
// objects that were born under it. Code that decides at the birth of an object
// whether or how it will consult (hand out the bare base handle while there is
// nothing to inject, copy the function into the object, remember "no function
// yet") is wrong only for the order "objects first, function afterwards"; code
// that keeps what it copied is wrong only once the function is replaced or
// taken away again. So every plan (recording always-nil, single fault,
// read-only) is also run with its function installed in mid-history, after 1, 2,
// ... calls made on a FailFS that has none, and the recording plan with its
// function replaced by another one and removed again in mid-history: the
// function that was replaced must never be consulted again, by any object.
//
// The schedule is part of the plan name: plan[@when], when being
//
//	(empty)  the function of the plan is installed before the first call (as ever)
//	lateN    no function for the first N calls of the history (the FailFS as
//	         constructed: lock-step with the twin base where the plan has a twin,
//	         no oracle in the read-only plan), the function of the plan from then on
//	swap     recording plan: function #0 before the first call, replaced by the
//	         recording function #1 after the first call, removed (failfs.OkFunc,
//	         the function a FailFS is constructed with) after the second call
//	         (the removal is seen by histories of three calls: thorough tier)
//
// After the schedule the plan name may name a family of derived file systems
// the history starts with and the member of it that receives the SetFailFunc
// calls: plan[@[when]~family] (family.go).
//
// The SetFailFunc calls are a schedule keyed on the position in the history
// rather than letters, so that they do not use up the history bound: "open;
// install; call on the old handle" is a history of length 2.
//
// Oracles after the installation: those of the plan, unchanged (own id consulted
// before any base effect, exactly E / base untouched / twin in lock-step, base
// unchangeable under ReadOnlyFunc) - applied to ALL objects, whenever they were
// obtained - plus "stale-function": a consultation that arrives at a recording
// function which is not the one installed now.
const whenSwap = "swap"

type fnEvent struct {
	At int    // number of calls of the history executed before the event
	Fn string // plan | plan#1 | removed
}

// planWhen joins a plan and its schedule into the plan name used in system
// names, signatures' replay files and progress lines.
func planWhen(plan, when string) string {
	if when == "" {
		return plan
	}

	return plan + "@" + when
}

func splitPlan(name string) (plan, when string) {
	if i := strings.IndexByte(name, '@'); i >= 0 {
		return name[:i], name[i+1:]
	}

	return name, ""
}

// lateWhen is the schedule "no function for the first n calls".
func lateWhen(n int) string { return "late" + strconv.Itoa(n) }

// whenEvents is the schedule of SetFailFunc calls of a plan name (the family
// part, family.go, says on which object they are made, not when).
func whenEvents(when string) ([]fnEvent, error) {
	when, _ = splitWhen(when)

	switch {
	case when == "":
		return []fnEvent{{0, "plan"}}, nil
	case when == whenSwap:
		return []fnEvent{{0, "plan"}, {1, "plan#1"}, {2, "removed"}}, nil
	case strings.HasPrefix(when, "late"):
		if n, err := strconv.Atoi(when[4:]); err == nil && n > 0 {
			return []fnEvent{{n, "plan"}}, nil
		}
	}

	return nil, fmt.Errorf("unknown installation schedule %q", when)
}

func whenDesc(when string) string {
	when, _ = splitWhen(when)

	switch {
	case when == "":
		return "the function of the plan is installed before the first call"
	case when == whenSwap:
		return "recording function #0 installed before the first call, replaced by the recording function #1 after the first call of the history, removed again (SetFailFunc(failfs.OkFunc)) after the second (histories of length 2 see the replacement, the removal shows from length 3 on)"
	}

	return "no function during the first " + when[4:] + " call(s) of the history (objects first), the function of the plan installed afterwards"
}

// setWhen changes the schedule of the system; it takes effect at the next Reset.
func (s *sys) setWhen(when string) error {
	ev, err := whenEvents(when)
	if err != nil {
		return err
	}

	sched, fam := splitWhen(when)

	f, err := parseFamily(fam)
	if err != nil {
		return err
	}

	s.when, s.sched, s.famName, s.fam, s.fnEvents = when, sched, fam, f, ev

	return nil
}

// fnTarget is the FailFS SetFailFunc is called on: the FailFS under test, the
// lower FailFS of a plan stack (stack.go), or the member of the family of
// derived file systems the system names (family.go) - they all share the one
// function.
func (s *sys) fnTarget() *failfs.FailFS {
	switch {
	case planOnLower(s.stack):
		return s.impl.lower
	case s.fam != nil:
		return s.famTarget()
	}

	return s.ff
}

// advanceFn performs the SetFailFunc calls that are due once `done` calls of
// the history have been executed.
func (s *sys) advanceFn(done int) {
	for s.fnNext < len(s.fnEvents) && s.fnEvents[s.fnNext].At <= done {
		e := s.fnEvents[s.fnNext]
		s.fnNext++

		var f failfs.FailFunc

		switch {
		case e.Fn == "removed":
			f, s.gen = failfs.OkFunc, -1
		case s.plan == "readonly":
			f = failfs.ReadOnlyFunc
		case s.plan == "okfunc" || s.plan == "fault":
			s.gen = 0
			if e.Fn == "plan#1" {
				s.gen = 1
			}

			f = s.recorder(s.gen)
		default:
			continue // plan none: nothing is ever installed
		}

		if t := s.fnTarget(); t != nil {
			_ = t.SetFailFunc(f)
		}

		s.installed = e.Fn
	}
}

// governed: the function of the plan is installed now (read-only plan: the base
// cannot be changed from now on; recording plans: every directly invoked method
// must consult).
func (s *sys) governed() bool {
	return s.installed == "plan" || s.installed == "plan#1"
}

// recorder is the recording failure function number gen of this system.
func (s *sys) recorder(gen int) failfs.FailFunc {
	return func(v avfs.VFSBase, fn avfs.FnVFS, fp *failfs.FailParam) error {
		return s.consult(gen, v, fn, fp)
	}
}
