package main

import (
	"errors"
	"fmt"
	"io/fs"
	"os"
	"strings"
	"time"

	"github.com/avfs/avfs"

	"verif/lib/fsx"
)

// op is one letter of the alphabet: a call on the FailFS, on the pooled Sub
// file system or on a pooled file handle. Store says whether the object the
// call returns goes into the pool ("file": handle slot Slot, "sub": the Sub
// slot); handles returned by calls with Store=="" are closed at once (the
// Close is a separate harness-level call, part "close").
type op struct {
	Thru  string   `json:"thru"` // failfs | sub | file | lower (stack.go: the failure function of the FailFS below is replaced)
	Slot  int      `json:"slot"`
	Store string   `json:"store,omitempty"` // "" | file | sub
	C     fsx.Call `json:"c"`
}

func (o op) String() string {
	switch {
	case o.Thru == "lower":
		return "lower.SetFailFunc(" + o.C.A + ")"
	case o.Thru == "file":
		return fmt.Sprintf("h%d.%s", o.Slot, fileCallString(o.C))
	case o.Store == "file":
		return fmt.Sprintf("h%d=%s.%s", o.Slot, o.Thru, o.C.String())
	case o.Store == "sub":
		return fmt.Sprintf("s=%s.%s", o.Thru, o.C.String())
	}

	return o.Thru + "." + o.C.String()
}

func fileCallString(c fsx.Call) string {
	switch c.Op {
	case "Read", "ReadDir", "Readdirnames", "Truncate":
		return fmt.Sprintf("%s(%d)", c.Op, c.N)
	case "ReadAt":
		return fmt.Sprintf("ReadAt(%d,off=%d)", c.N, c.M)
	case "Write", "WriteString":
		return fmt.Sprintf("%s(%q)", c.Op, c.Data)
	case "WriteAt":
		return fmt.Sprintf("WriteAt(%q,off=%d)", c.Data, c.M)
	case "Seek":
		return fmt.Sprintf("Seek(%d,%d)", c.N, c.M)
	case "Chmod":
		return fmt.Sprintf("Chmod(%#o)", c.Perm)
	case "Chown":
		return fmt.Sprintf("Chown(%d,%d)", c.N, c.M)
	}

	return c.Op + "()"
}

// variant is the part of a call that selects a behaviour class: the flag set
// of OpenFile; "" otherwise.
func (o op) variant() string {
	if o.Thru != "file" && o.C.Op == "OpenFile" {
		return fsx.FlagString(o.C.Flag)
	}

	return ""
}

var nsPaths = []string{"/d", "/d/f", "/d/h", "/d/e", "/d/e/g", "/d/new", "/nope/x", "/", "d/f"}

// flagSets is the OpenFile flag alphabet of every path, in every plan. The last
// four have the access mode O_RDONLY together with a status flag that changes
// the file system (O_TRUNC empties an existing file, O_CREATE makes a missing
// one) or the handle (O_APPEND): "read-only" is a statement about the whole
// flag word, not about its access-mode bits.
var flagSets = []int{
	os.O_RDONLY, os.O_WRONLY, os.O_RDWR, os.O_WRONLY | os.O_APPEND, os.O_RDWR | os.O_CREATE,
	os.O_RDWR | os.O_CREATE | os.O_EXCL, os.O_WRONLY | os.O_CREATE | os.O_TRUNC, os.O_RDWR | os.O_TRUNC,
	os.O_RDONLY | os.O_TRUNC, os.O_RDONLY | os.O_CREATE, os.O_RDONLY | os.O_CREATE | os.O_EXCL, os.O_RDONLY | os.O_APPEND,
}

// nsCalls is the namespace alphabet (calls on a VFS).
func nsCalls(baseName string) []fsx.Call {
	var cs []fsx.Call

	for _, p := range nsPaths {
		cs = append(cs,
			fsx.Call{Op: "Mkdir", A: p, Perm: 0o755},
			fsx.Call{Op: "MkdirAll", A: p, Perm: 0o750},
			fsx.Call{Op: "Remove", A: p},
			fsx.Call{Op: "RemoveAll", A: p},
			fsx.Call{Op: "Create", A: p},
		)

		for _, f := range flagSets {
			cs = append(cs, fsx.Call{Op: "OpenFile", A: p, Flag: f, Perm: 0o640})
		}

		cs = append(cs,
			fsx.Call{Op: "WriteFile", A: p, Data: "new", Perm: 0o600},
			fsx.Call{Op: "Truncate", A: p, N: 2},
			fsx.Call{Op: "Chmod", A: p, Perm: 0o600},
			fsx.Call{Op: "Chown", A: p, N: 1, M: 1},
			fsx.Call{Op: "Lchown", A: p, N: 2, M: 2},
			fsx.Call{Op: "Chtimes", A: p, N: 5},
			fsx.Call{Op: "Chdir", A: p},
			fsx.Call{Op: "Stat", A: p},
			fsx.Call{Op: "Lstat", A: p},
			fsx.Call{Op: "Open", A: p},
			fsx.Call{Op: "ReadDir", A: p},
			fsx.Call{Op: "ReadFile", A: p},
			fsx.Call{Op: "Readlink", A: p},
			fsx.Call{Op: "EvalSymlinks", A: p},
			fsx.Call{Op: "CreateTemp", A: p, B: "t*"},
			fsx.Call{Op: "MkdirTemp", A: p, B: "m*"},
			fsx.Call{Op: "Glob", A: p},
			fsx.Call{Op: "WalkDir", A: p},
			fsx.Call{Op: "Sub", A: p},
			fsx.Call{Op: "Abs", A: p},
		)
	}

	for _, pr := range [][2]string{
		{"/d/f", "/d/new"}, {"/d/f", "/d/h"}, {"/d/f", "/d/e/g"}, {"/d/e", "/d/new"}, {"/d/e", "/d/f"},
		{"/nope/x", "/d/new"}, {"d/f", "/d/new"}, {"/d/f", "/nope/x"},
	} {
		cs = append(cs, fsx.Call{Op: "Rename", A: pr[0], B: pr[1]}, fsx.Call{Op: "Link", A: pr[0], B: pr[1]})
	}

	for _, pr := range [][2]string{{"f", "/d/new"}, {"/d/e", "/d/new"}, {"nope", "/d/new"}, {"f", "/d/f"}} {
		cs = append(cs, fsx.Call{Op: "Symlink", A: pr[0], B: pr[1]})
	}

	for _, g := range []string{"/d/*", "/*/f", "/d/[", "d/*", "/d/e/?"} {
		cs = append(cs, fsx.Call{Op: "Glob", A: g})
	}

	// (round 12) the "does nothing" value of the arguments of the PATH calls, as
	// for the File calls (fileNoopCalls): a wrapper that answers them itself
	// ("nothing to change") skips the failure function and the base's own
	// verdict on the path. On a name that exists and on one that does not.
	for _, p := range []string{"/d/f", "/d/e", "/nope/x"} {
		cs = append(cs,
			fsx.Call{Op: "Chown", A: p, N: -1, M: -1},
			fsx.Call{Op: "Lchown", A: p, N: -1, M: -1},
			fsx.Call{Op: "Rename", A: p, B: p},
		)
	}

	cs = append(cs,
		fsx.Call{Op: "Truncate", A: "/d/f", N: -1},
		// argument values that select a DEFAULT (empty dir: the temp directory of the
		// file system; empty pattern: the bare random name) are letters of their own:
		// code that branches on them ("dir == \"\": leave it to the base") is reached
		// by no named directory
		fsx.Call{Op: "CreateTemp", A: "", B: "t*"},
		fsx.Call{Op: "MkdirTemp", A: "", B: "m*"},
		fsx.Call{Op: "CreateTemp", A: "", B: ""},
		fsx.Call{Op: "MkdirTemp", A: "", B: ""},
		fsx.Call{Op: "SetUMask", Perm: 0},
		fsx.Call{Op: "SetUMask", Perm: 0o077},
		fsx.Call{Op: "Getwd"},
		fsx.Call{Op: "UMask"},
		fsx.Call{Op: "User"},
		fsx.Call{Op: "SetUserByName", A: "root"},
		fsx.Call{Op: "SetUserByName", A: "u1"},
		fsx.Call{Op: "SetUserByName", A: "nobody"},
		fsx.Call{Op: "SetUser", A: "root"},
		fsx.Call{Op: "SetUser", A: "u1"},
	)

	if baseName == "MemFS" {
		for _, o := range []string{"Lstat", "Stat", "Readlink", "EvalSymlinks", "ReadFile", "Remove", "Lchown", "Chown", "Open"} {
			c := fsx.Call{Op: o, A: "/d/s"}
			if o == "Lchown" || o == "Chown" {
				c.N, c.M = 2, 2
			}

			cs = append(cs, c)
		}
	}

	return cs
}

// fixtureFileSize is the length of the regular file the pool opens (/d/f and its
// link /d/h hold "data", sys.go): the "current size" of the argument tuples below.
const fixtureFileSize = 4

// fileCalls is the File method alphabet: every method with arguments that do
// something, AND with the argument tuples that do NOTHING or only QUERY
// (fileNoopCalls). The letters are the same in every plan, history and handle
// programme (as the failing call F, as the call G that follows it, as "pre" in
// the thorough tier).
func fileCalls() []fsx.Call {
	return append([]fsx.Call{
		{Op: "Read", N: 4}, {Op: "Read", N: 0}, {Op: "ReadAt", N: 2, M: 1},
		{Op: "Write", Data: "XY"}, {Op: "WriteAt", Data: "Z", M: 1}, {Op: "WriteString", Data: "w"},
		{Op: "Seek", N: 0, M: 0}, {Op: "Seek", N: 1, M: 1}, {Op: "Seek", N: -1, M: 2},
		{Op: "Truncate", N: 2}, {Op: "Chmod", Perm: 0o600}, {Op: "Chown", N: 3, M: 3}, {Op: "Chdir"},
		{Op: "Sync"}, {Op: "Stat"}, {Op: "ReadDir", N: -1}, {Op: "ReadDir", N: 1},
		{Op: "Readdirnames", N: -1}, {Op: "Readdirnames", N: 1}, {Op: "Close"}, {Op: "Name"},
	}, fileNoopCalls()...)
}

// fileNoopCalls: the argument values of a method for which the call changes
// nothing - it only reports (the offset, the size), transfers zero bytes, or sets
// what is already there. General lesson: a wrapper is tempted to single these
// values out with a shortcut placed BEFORE its own work ("the offset does not
// move, just ask the base", "nothing to write, return 0, nil", "already that
// size") - and its own work is exactly what the property is about: the failure
// function must be consulted for EVERY call of the method, and an injected error
// returned, whether or not the call would have had an effect. An alphabet made
// only of argument tuples that move, transfer or change something never enters
// such a branch. So each method with a numeric or buffer argument appears also
// with its neutral element:
//
//	Seek(0, SeekCurrent)   "tell": the offset is reported, not moved
//	Seek(0, SeekEnd)       "size": no displacement from the reference point
//	                       (Seek(0, SeekStart) on a fresh handle is in the list above)
//	Truncate(current size) the file already has that length
//	ReadAt(n, off=size)    nothing left to read at the current size
//	ReadAt(0, off=0)       empty buffer (Read(0) is in the list above)
//	Write("")              empty buffer
//	ReadDir(0)             0 = "no limit", the value a "n <= 0" branch tests for
//	Readdirnames(0)        besides the -1 above
func fileNoopCalls() []fsx.Call {
	return []fsx.Call{
		{Op: "Seek", N: 0, M: 1}, {Op: "Seek", N: 0, M: 2},
		{Op: "Truncate", N: fixtureFileSize},
		{Op: "ReadAt", N: 2, M: fixtureFileSize}, {Op: "ReadAt", N: 0, M: 0},
		{Op: "Write", Data: ""},
		{Op: "ReadDir", N: 0}, {Op: "Readdirnames", N: 0},
	}
}

func noopStrings() string {
	var ss []string
	for _, c := range fileNoopCalls() {
		ss = append(ss, fileCallString(c))
	}

	return strings.Join(ss, ", ")
}

func isNoopFileCall(c fsx.Call) bool {
	for _, n := range fileNoopCalls() {
		if n == c {
			return true
		}
	}

	return false
}

func poolOpens(thru string) []fsx.Call {
	if thru == "sub" {
		return []fsx.Call{
			{Op: "OpenFile", A: "/d/f", Flag: os.O_RDWR},
			{Op: "Create", A: "/d/new"},
			{Op: "CreateTemp", A: "/tmp", B: "t*"},
		}
	}

	return []fsx.Call{
		{Op: "OpenFile", A: "/d/f", Flag: os.O_RDONLY},
		{Op: "OpenFile", A: "/d/f", Flag: os.O_RDWR},
		{Op: "OpenFile", A: "/d/f", Flag: os.O_WRONLY | os.O_APPEND},
		{Op: "OpenFile", A: "/d/f", Flag: os.O_RDWR | os.O_TRUNC},
		{Op: "OpenFile", A: "/d", Flag: os.O_RDONLY},
		{Op: "OpenFile", A: "/d/new", Flag: os.O_RDWR | os.O_CREATE | os.O_EXCL, Perm: 0o640},
		{Op: "OpenFile", A: "/d/h", Flag: os.O_RDWR},
		{Op: "Open", A: "/d/e"},
		{Op: "Open", A: "/d/f"},
		{Op: "Create", A: "/d/new"},
		{Op: "Create", A: "/d/f"},
		{Op: "CreateTemp", A: "/tmp", B: "t*"},
		{Op: "CreateTemp", A: "/d", B: "t*"},
	}
}

// buildOps returns the alphabet of one base type. OrefaFS has no Sub file
// systems (Sub always fails), so the through-Sub letters are left out. The
// stack whose lower FailFS changes its failure function in mid-history
// (stack.go) has two letters more: that function becomes ReadOnlyFunc / OkFunc.
func buildOps(baseName, stack string) []op {
	var ops []op

	ns := nsCalls(baseName)
	for _, c := range ns {
		ops = append(ops, op{Thru: "failfs", C: c})
	}

	for slot := 0; slot < 2; slot++ {
		for _, c := range poolOpens("failfs") {
			ops = append(ops, op{Thru: "failfs", Slot: slot, Store: "file", C: c})
		}

		for _, c := range fileCalls() {
			ops = append(ops, op{Thru: "file", Slot: slot, C: c})
		}
	}

	if baseName == "MemFS" {
		ops = append(ops,
			op{Thru: "failfs", Store: "sub", C: fsx.Call{Op: "Sub", A: "/"}},
			op{Thru: "failfs", Store: "sub", C: fsx.Call{Op: "Sub", A: "/d"}},
		)

		for _, c := range ns {
			ops = append(ops, op{Thru: "sub", C: c})
		}

		for slot := 0; slot < 2; slot++ {
			for _, c := range poolOpens("sub") {
				ops = append(ops, op{Thru: "sub", Slot: slot, Store: "file", C: c})
			}
		}

		// Depth of derivation (family.go): the pooled view is replaced by a view
		// derived from IT - Sub of a Sub, and of that one again - so that every
		// "sub." letter and every open through the pool also reaches the
		// grandchildren of the FailFS, not only its children.
		ops = append(ops,
			op{Thru: "sub", Store: "sub", C: fsx.Call{Op: "Sub", A: "/"}},
			op{Thru: "sub", Store: "sub", C: fsx.Call{Op: "Sub", A: "/d"}},
		)
	}

	if stack == stRoMid {
		// appended last: the indices of all other letters are those of the unstacked alphabet
		ops = append(ops,
			op{Thru: "lower", C: fsx.Call{Op: "SetFailFunc", A: "ReadOnlyFunc"}},
			op{Thru: "lower", C: fsx.Call{Op: "SetFailFunc", A: "OkFunc"}},
		)
	}

	return ops
}

// result of one harness-level call.
type result struct {
	Res  fsx.Res
	Err  error     // the error value as returned (identity matters for the fault plans)
	File avfs.File // handle returned with a nil error
	Sub  avfs.VFS
}

func errResult(err error) result {
	r := result{Err: err, Res: fsx.Res{Kind: fsx.ErrKind(err)}}
	if err != nil {
		r.Res.Msg = err.Error()
	}

	return r
}

func valResult(err error, val string) result {
	r := errResult(err)
	r.Res.Val = val

	return r
}

// guarded runs f; a panic or decided deadlock becomes the outcome.
func guarded(f func() result) result {
	var r result

	if k, msg := fsx.Guard(func() { r = f() }); k != "" {
		return result{Res: fsx.Res{Kind: k, Msg: msg}}
	}

	return r
}

func entriesString(es []fs.DirEntry) string {
	names := make([]string, 0, len(es))
	for _, e := range es {
		names = append(names, e.Name()+fsx.TypeChar(e.Type()))
	}

	return strings.Join(names, ",")
}

// execNS applies a namespace call to v. Handles are returned, never closed here.
func execNS(v avfs.VFS, c fsx.Call) result {
	perm := fsx.UnixMode(c.Perm)

	switch c.Op {
	case "Mkdir":
		return errResult(v.Mkdir(c.A, perm))
	case "MkdirAll":
		return errResult(v.MkdirAll(c.A, perm))
	case "Remove":
		return errResult(v.Remove(c.A))
	case "RemoveAll":
		return errResult(v.RemoveAll(c.A))
	case "Create", "Open", "OpenFile", "CreateTemp":
		var (
			f   avfs.File
			err error
		)

		switch c.Op {
		case "Create":
			f, err = v.Create(c.A)
		case "Open":
			f, err = v.Open(c.A)
		case "OpenFile":
			f, err = v.OpenFile(c.A, c.Flag, perm)
		case "CreateTemp":
			f, err = v.CreateTemp(c.A, c.B)
		}

		r := errResult(err)
		if err == nil {
			r.File = f
			if c.Op == "CreateTemp" {
				r.Res.Val = f.Name()
			}
		}

		return r
	case "WriteFile":
		data := []byte(c.Data)
		err := v.WriteFile(c.A, data, perm)
		fsx.Scribble(data)

		return errResult(err)
	case "Truncate":
		return errResult(v.Truncate(c.A, c.N))
	case "Chmod":
		return errResult(v.Chmod(c.A, perm))
	case "Chown":
		return errResult(v.Chown(c.A, int(c.N), int(c.M)))
	case "Lchown":
		return errResult(v.Lchown(c.A, int(c.N), int(c.M)))
	case "Chtimes":
		t := fsx.FixedTime.Add(time.Duration(c.N) * time.Second)

		return errResult(v.Chtimes(c.A, t, t))
	case "Chdir":
		return errResult(v.Chdir(c.A))
	case "Getwd":
		d, err := v.Getwd()

		return valResult(err, d)
	case "MkdirTemp":
		d, err := v.MkdirTemp(c.A, c.B)

		return valResult(err, d)
	case "Stat", "Lstat":
		var (
			fi  fs.FileInfo
			err error
		)

		if c.Op == "Stat" {
			fi, err = v.Stat(c.A)
		} else {
			fi, err = v.Lstat(c.A)
		}

		if err != nil {
			return errResult(err)
		}

		return valResult(nil, fi.Name()+" "+fsx.InfoString(v, fi))
	case "ReadDir":
		es, err := v.ReadDir(c.A)

		return valResult(err, entriesString(es))
	case "ReadFile":
		b, err := v.ReadFile(c.A)
		val := fmt.Sprintf("%q", b)
		fsx.Scribble(b) // a returned slice is the caller's: no file may change with it

		return valResult(err, val)
	case "Readlink":
		s, err := v.Readlink(c.A)

		return valResult(err, s)
	case "EvalSymlinks":
		s, err := v.EvalSymlinks(c.A)

		return valResult(err, s)
	case "Rename":
		return errResult(v.Rename(c.A, c.B))
	case "Link":
		return errResult(v.Link(c.A, c.B))
	case "Symlink":
		return errResult(v.Symlink(c.A, c.B))
	case "SetUMask":
		return errResult(v.SetUMask(perm))
	case "UMask":
		return valResult(nil, fmt.Sprintf("%#o", uint32(v.UMask())))
	case "User":
		u := v.User()

		return valResult(nil, fmt.Sprintf("%s uid%d gid%d admin=%v", u.Name(), u.Uid(), u.Gid(), u.IsAdmin()))
	case "SetUserByName":
		return errResult(v.SetUserByName(c.A))
	case "SetUser":
		u, err := v.Idm().LookupUser(c.A)
		if err != nil {
			// no such user in this identity manager: the administrator stands in
			u = v.Idm().AdminUser()
		}

		return errResult(v.SetUser(u))
	case "Glob":
		m, err := v.Glob(c.A)
		val := strings.Join(m, ",")

		if m == nil {
			val = "<nil>"
		}

		return valResult(err, val)
	case "WalkDir":
		var out []string

		err := v.WalkDir(c.A, func(p string, d fs.DirEntry, err error) error {
			if len(out) > 4096 {
				return errors.New("walk-too-long")
			}

			if err != nil {
				out = append(out, p+"!"+fsx.ErrKind(err))

				return nil
			}

			out = append(out, p+fsx.TypeChar(d.Type()))

			return nil
		})

		return valResult(err, strings.Join(out, ","))
	case "Abs":
		s, err := v.Abs(c.A)

		return valResult(err, s)
	case "Sub":
		s, err := v.Sub(c.A)
		r := errResult(err)

		if err == nil {
			r.Sub = s
		}

		return r
	}

	panic("c12: unknown namespace op " + c.Op)
}

// execFile applies a File method to f; v renders FileInfo values.
func execFile(v avfs.VFS, f avfs.File, c fsx.Call) result {
	switch c.Op {
	case "Read":
		b := make([]byte, c.N)
		n, err := f.Read(b)

		if n < 0 || n > len(b) {
			return valResult(err, fmt.Sprintf("n=%d out of range", n))
		}

		return valResult(err, fmt.Sprintf("%d %q", n, b[:n]))
	case "ReadAt":
		b := make([]byte, c.N)
		n, err := f.ReadAt(b, c.M)

		if n < 0 || n > len(b) {
			return valResult(err, fmt.Sprintf("n=%d out of range", n))
		}

		return valResult(err, fmt.Sprintf("%d %q", n, b[:n]))
	case "Write":
		data := []byte(c.Data)
		n, err := f.Write(data)
		fsx.Scribble(data) // neither side may keep a reference to the caller's buffer

		return valResult(err, fmt.Sprint(n))
	case "WriteAt":
		data := []byte(c.Data)
		n, err := f.WriteAt(data, c.M)
		fsx.Scribble(data)

		return valResult(err, fmt.Sprint(n))
	case "WriteString":
		n, err := f.WriteString(c.Data)

		return valResult(err, fmt.Sprint(n))
	case "Seek":
		n, err := f.Seek(c.N, int(c.M))

		return valResult(err, fmt.Sprint(n))
	case "Truncate":
		return errResult(f.Truncate(c.N))
	case "Chmod":
		return errResult(f.Chmod(fsx.UnixMode(c.Perm)))
	case "Chown":
		return errResult(f.Chown(int(c.N), int(c.M)))
	case "Chdir":
		return errResult(f.Chdir())
	case "Sync":
		return errResult(f.Sync())
	case "Stat":
		fi, err := f.Stat()
		if err != nil {
			return errResult(err)
		}

		return valResult(nil, fi.Name()+" "+fsx.InfoString(v, fi))
	case "ReadDir":
		es, err := f.ReadDir(int(c.N))

		return valResult(err, entriesString(es))
	case "Readdirnames":
		ns, err := f.Readdirnames(int(c.N))

		return valResult(err, strings.Join(ns, ","))
	case "Close":
		return errResult(f.Close())
	case "Name":
		return valResult(nil, f.Name())
	}

	panic("c12: unknown file op " + c.Op)
}
