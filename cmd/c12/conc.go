package main

import (
	"fmt"
	"os"
	"sort"
	"strings"
	"time"

	"github.com/avfs/avfs"
	"github.com/avfs/avfs/verifrt"
	"github.com/avfs/avfs/vfs/failfs"
	"github.com/avfs/avfs/vfs/memfs"
	"github.com/avfs/avfs/vfs/orefafs"

	"verif/lib/fsx"
	"verif/lib/kf"
	"verif/lib/sched"
)

// runConc is the concurrent clause: the failure function decides every call on
// its own, whatever other goroutines are doing on the same FailFS. Two threads
// share one FailFS carrying the supplied read-only failure function, wrapped so
// that entering the failure function is a scheduling point (the harness owns
// that function: a thread can be preempted INSIDE it, which is where state kept
// by FailFS between "consult" and "forward" would show). Every interleaving of
// every pair of calls (preemption bound 2) is executed; oracle: each call
// answers exactly what it answers alone (refused with the read-only error or
// let through), and the base is unchanged at the end.
func runConc(tier string, rep *kf.Reporter) map[string]any {
	verifrt.SetMode(verifrt.ModeSched)
	defer verifrt.SetMode(verifrt.ModeSeq)

	calls := []fsx.Call{
		{Op: "Stat", A: "/d/f"},
		{Op: "ReadFile", A: "/d/f"},
		{Op: "ReadDir", A: "/d"},
		{Op: "Mkdir", A: "/n", Perm: 0o755},
		{Op: "WriteFile", A: "/d/f", Data: "W", Perm: 0o644},
		{Op: "Remove", A: "/d/f"},
		{Op: "Rename", A: "/d/f", B: "/d/g"},
		{Op: "OpenFile", A: "/d/n", Flag: os.O_RDWR | os.O_CREATE, Perm: 0o644},
		{Op: "Chmod", A: "/d/f", Perm: 0o600},
		{Op: "Truncate", A: "/d/f", N: 0},
	}

	type hooked interface {
		avfs.VFS
		VerifDump() []string
	}

	build := func(base string) (hooked, *failfs.FailFS) {
		var b hooked

		if base == "MemFS" {
			b = memfs.NewWithOptions(&memfs.Options{OSType: avfs.OsLinux})
		} else {
			b = orefafs.NewWithOptions(&orefafs.Options{OSType: avfs.OsLinux})
		}

		_ = b.MkdirAll("/d", 0o755)
		_ = b.WriteFile("/d/f", []byte("data"), 0o644)

		f := failfs.New(b)
		_ = f.SetFailFunc(func(v avfs.VFSBase, fn avfs.FnVFS, fp *failfs.FailParam) error {
			verifrt.CallPoint() // a thread may be preempted inside the failure function

			return failfs.ReadOnlyFunc(v, fn, fp)
		})

		return b, f
	}

	bound, execs, progs, multi := 2, 0, 0, 0
	if tier == "thorough" {
		bound = 3
	}

	for _, base := range []string{"MemFS", "OrefaFS"} {
		// what each call answers alone
		alone := make([]string, len(calls))

		verifrt.SetMode(verifrt.ModeSeq)

		for i, c := range calls {
			_, f := build(base)
			alone[i] = fsx.Do(f, c).String()
		}

		verifrt.SetMode(verifrt.ModeSched)

		for i := range calls {
			for j := range calls {
				progs++

				distinct := map[string]bool{}
				pair := []int{i, j}

				run := func(prefix []int8) sched.Exec {
					b, f := build(base)
					before := strings.Join(b.VerifDump(), "\n")
					res := make([]string, 2)
					bodies := make([]func(), 2)

					for t := 0; t < 2; t++ {
						t := t
						bodies[t] = func() {
							verifrt.CallPoint()
							res[t] = fsx.Do(f, calls[pair[t]]).String()
						}
					}

					r := verifrt.Run(prefix, bodies)
					pts := verifrt.Points()
					execs++
					distinct[strings.Join(res, "|")] = true

					if r.Deadlock || r.Overflow {
						rep.Report(kf.Sig{"part": "conc", "base": base, "kind": "deadlock", "prog": calls[i].String() + " || " + calls[j].String()},
							map[string]any{"part": "conc", "schedule": sched.FormatSchedule(pts)})

						return sched.Exec{Res: r, Points: pts}
					}

					after := strings.Join(b.VerifDump(), "\n")

					describe := func() map[string]any {
						return map[string]any{
							"part": "conc", "base": base, "plan": "readonly", "threads": []string{calls[i].String(), calls[j].String()},
							"results": res, "results_alone": []string{alone[i], alone[j]}, "choices": sched.Choices(pts),
							"schedule": sched.FormatSchedule(pts), "base_before": strings.Split(before, "\n"), "base_after": strings.Split(after, "\n"),
						}
					}

					for t := 0; t < 2; t++ {
						if res[t] != alone[pair[t]] {
							rep.Report(kf.Sig{"part": "conc", "base": base, "plan": "readonly", "kind": "answer-depends-on-other-goroutine",
								"call": calls[pair[t]].Op, "other": calls[pair[1-t]].Op, "want": kindOf(alone[pair[t]]), "got": kindOf(res[t])}, describe())
						}
					}

					if after != before {
						rep.Report(kf.Sig{"part": "conc", "base": base, "plan": "readonly", "kind": "base-changed-readonly",
							"call": calls[i].Op + " || " + calls[j].Op, "want": "base unchanged", "got": "base changed"}, describe())
					}

					return sched.Exec{Res: r, Points: pts}
				}

				sched.Explore(run, bound, time.Time{}, 0)

				if len(distinct) > 1 {
					multi++
				}
			}
		}
	}

	fmt.Printf("C12 concurrent: programs=%d schedules=%d bound=%d schedule-dependent-programs=%d\n", progs, execs, bound, multi)

	var names []string
	for _, c := range calls {
		names = append(names, c.String())
	}

	sort.Strings(names)

	return map[string]any{
		"programs": progs, "schedules_executed": execs, "preemption_bound": bound, "programs_with_schedule_dependent_outcome": multi,
		"calls": names,
		"rule":  "every ordered pair of the listed calls, two threads on one FailFS(base) with failfs.ReadOnlyFunc wrapped so that entering the failure function is a scheduling point; every schedule with at most `bound` preemptions (scheduling points: the failure function, every lock acquisition of the base, call boundaries); oracle: each call answers what it answers alone, base node graph unchanged",
	}
}

func kindOf(s string) string {
	if i := strings.IndexByte(s, ':'); i >= 0 {
		return s[:i]
	}

	return s
}
