package main

import (
	"errors"
	"fmt"
	"io"
	"io/fs"
	"strconv"
	"strings"
	"time"

	"github.com/avfs/avfs"
	"github.com/avfs/avfs/idm/memidm"
	"github.com/avfs/avfs/verifrt"
	"github.com/avfs/avfs/vfs/failfs"
	"github.com/avfs/avfs/vfs/memfs"
	"github.com/avfs/avfs/vfs/orefafs"

	"verif/lib/bfs"
	"verif/lib/fsx"
)

// hooked is a base file system with the injected observers.
type hooked interface {
	avfs.VFS
	VerifDump() []string
	CurDir() string
}

// ---------------------------------------------------------------------------
// which FnVFS id a directly invoked method must consult

var (
	ownVFS = map[string][]avfs.FnVFS{
		"Abs": {avfs.FnAbs}, "Chdir": {avfs.FnChdir}, "Chmod": {avfs.FnChmod}, "Chown": {avfs.FnChown},
		"Chtimes": {avfs.FnChtimes}, "CreateTemp": {avfs.FnCreateTemp}, "EvalSymlinks": {avfs.FnEvalSymlinks},
		"Getwd": {avfs.FnGetwd}, "Lchown": {avfs.FnLchown}, "Link": {avfs.FnLink}, "Lstat": {avfs.FnLstat},
		"Mkdir": {avfs.FnMkdir}, "MkdirAll": {avfs.FnMkdirAll}, "MkdirTemp": {avfs.FnMkdirTemp},
		"OpenFile": {avfs.FnOpenFile}, "ReadDir": {avfs.FnReadDir}, "ReadFile": {avfs.FnReadFile},
		"Readlink": {avfs.FnReadlink}, "Remove": {avfs.FnRemove}, "RemoveAll": {avfs.FnRemoveAll},
		"Rename": {avfs.FnRename}, "SetUser": {avfs.FnSetUser}, "SetUserByName": {avfs.FnSetUserByName},
		"Stat": {avfs.FnStat}, "Sub": {avfs.FnSub}, "Symlink": {avfs.FnSymlink}, "Truncate": {avfs.FnTruncate},
		"WalkDir": {avfs.FnWalkDir},
		// no id of their own: they are OpenFile with fixed flags
		"Create": {avfs.FnOpenFile}, "Open": {avfs.FnOpenFile},
		// FnWriteFile exists but WriteFile is a composite over OpenFile: either is accepted
		"WriteFile": {avfs.FnWriteFile, avfs.FnOpenFile},
	}

	// methods for which the FnVFS enumeration has no id: nothing can be demanded
	noIDVFS = map[string]string{
		"SetUMask": "no FnVFS id exists (forwarded without consultation)",
		"UMask":    "no FnVFS id exists (pure accessor)",
		"User":     "no FnVFS id exists (pure accessor)",
		"Glob":     "no FnVFS id exists; Glob consults Lstat/Stat/OpenFile/FileReaddirnames/FileClose of what it visits",
	}

	ownFile = map[string][]avfs.FnVFS{
		"Chdir": {avfs.FnFileChdir}, "Chmod": {avfs.FnFileChmod}, "Chown": {avfs.FnFileChown},
		"Close": {avfs.FnFileClose}, "Read": {avfs.FnFileRead}, "ReadAt": {avfs.FnFileReadAt},
		"ReadDir": {avfs.FnFileReadDir}, "Readdirnames": {avfs.FnFileReaddirnames}, "Seek": {avfs.FnFileSeek},
		"Stat": {avfs.FnFileStat}, "Sync": {avfs.FnFileSync}, "Truncate": {avfs.FnFileTruncate},
		"Write": {avfs.FnFileWrite}, "WriteAt": {avfs.FnFileWriteAt}, "WriteString": {avfs.FnFileWrite},
	}

	// composites: re-implemented over the wrapper (or listed as such by the
	// property); a failure of an inner primitive must make them fail, the
	// exact error value is not demanded.
	composite = map[string]bool{
		"Create": true, "WriteFile": true, "ReadFile": true, "ReadDir": true, "Glob": true,
		"MkdirTemp": true, "CreateTemp": true, "WalkDir": true,
	}

	// Lesson (round 9): an effect on the base is the work of a PRIMITIVE, and the
	// failure function must have been asked about that primitive. A composite that
	// the property lists as "built on primitives" may consult its own id first,
	// but between the consultation of its own id and the change of the base there
	// has to be the consultation of a primitive id - otherwise a function that
	// refuses the primitive (FnMkdir) and not the composite (FnMkdirTemp) is
	// bypassed: the composite does not "fail when a primitive it is built on is
	// made to fail", because the primitive is never put to the function. A fault
	// plan cannot see this (it can only make fail what IS consulted): it is
	// judged on the fault-free trace, where every change of the base state during
	// the composite is attributed to the consultation that precedes it. Code that
	// short-cuts to the base for SOME argument values (the empty dir / pattern
	// that select a default) is wrong for those values only: they are letters.
	builtOnPrimitives = map[string]bool{
		"Create": true, "WriteFile": true, "ReadFile": true, "ReadDir": true, "Glob": true, "MkdirTemp": true,
	}

	// ids of composites: consulting one of them says nothing about the primitive that does the work
	compositeFn = map[avfs.FnVFS]bool{
		avfs.FnMkdirTemp: true, avfs.FnCreateTemp: true, avfs.FnReadDir: true, avfs.FnReadFile: true,
		avfs.FnWriteFile: true, avfs.FnWalkDir: true,
	}

	// FnVFS ids that no call of the public API can make FailFS consult.
	unreachableFn = map[avfs.FnVFS]string{
		avfs.FnWriteFile: "FailFS.WriteFile is avfs.WriteFile over the wrapper: it consults OpenFile, FileWrite, FileClose and never FnWriteFile; no other method uses the id",
	}
)

// allFn enumerates the FnVFS values through the generated stringer.
func allFn() []avfs.FnVFS {
	var out []avfs.FnVFS

	for i := avfs.FnVFS(1); i < 1000; i++ {
		if strings.HasPrefix(i.String(), "FnVFS(") {
			break
		}

		out = append(out, i)
	}

	return out
}

// ---------------------------------------------------------------------------

type side struct {
	base    hooked
	top     avfs.VFS // the FailFS (implementation side) or the base itself (twin)
	obs     avfs.VFS // administrator view of the base used to read mtimes
	files   [2]avfs.File
	forig   [2]string // how the handle was obtained: "failfs.OpenFile", "sub.Create", ...
	fopen   [2]string // the opening op, printed
	flog    [2][]string
	sub     avfs.VFS
	suborig string
	subObs  hooked         // the same subtree obtained from the base directly: dumps what the pooled Sub sees
	lower   *failfs.FailFS // stacks whose lower layer is a FailFS (stack.go): that layer
}

// consRec is one consultation of the failure function.
type consRec struct {
	Fn   avfs.FnVFS
	P    string // parameters, rendered
	Call int    // index of the harness-level call in the history
	Part string // main | close
	Pre  bool   // base state at consultation time == base state when the harness-level call started
	Gen  int    // which recording function was consulted (when.go); the one installed at that moment unless the consultation is stale
	Eff  bool   // the base state changed between this consultation and the next one (or the return) of the same harness-level call
}

func (c consRec) String() string {
	return fmt.Sprintf("%s{%s}@%d/%s", c.Fn, c.P, c.Call, c.Part)
}

type callCtx struct {
	Idx     int
	Part    string
	Via     string
	Method  string
	Variant string
	start   string
	from    int
	rec     bool // a recording failure function was installed when the call started (when.go)
}

// scribbleParam overwrites every field of the parameter block. Lesson (round
// 9): the failure function is code of the USER's and it receives *FailParam, a
// pointer: besides answering it may write to the block (normalise the paths in
// place for its log, wipe it after use). The block is the function's copy of
// the arguments - what the base executes, and what an error reports, are the
// arguments of the caller. As fsx.Scribble does for every buffer handed to the
// library, every recording function of the harness (recording plan, single-
// fault plan, on whichever layer or member it is installed) overwrites the
// whole block after reading it, whether it answers nil or E: every let-through
// call must still behave exactly as on the twin base (outcome, tree), every
// refused call return exactly E.
func scribbleParam(fp *failfs.FailParam) {
	*fp = failfs.FailParam{
		Op: "scribbled-op", Path: "/scribbled/old", NewPath: "/scribbled/new",
		Perm: ^fp.Perm, Flag: ^fp.Flag, Uid: -7 - fp.Uid, Gid: -7 - fp.Gid, Size: ^fp.Size,
		ATime: time.Unix(7, 7), MTime: time.Unix(7, 7),
	}
}

type sys struct {
	baseName string
	plan     string // none | okfunc | readonly | fault
	when     string // the part of the plan name after '@': schedule[~family]
	sched    string // when the function of the plan is installed, replaced, removed (when.go); "": before the first call
	famName  string // family of derived file systems the history starts with and the member SetFailFunc is called on (family.go); "": none
	fam      *family
	stack    string // what the FailFS under test is built on besides the bare base (stack.go); "": the base itself
	lowerFn  string // ff-ro-mid stack: the function the lower FailFS carries now
	ops      []op

	impl, twin *side
	ff         *failfs.FailFS
	rnd        [2]int
	rndSide    int
	nsteps     int
	lastKey    string
	viols      []bfs.Viol

	// schedule of SetFailFunc calls (when.go)
	fnEvents  []fnEvent
	fnNext    int
	gen       int    // number of the recording function installed now; -1: none
	installed string // "": nothing yet | plan | plan#1 | removed

	// family of file systems derived from the FailFS before the history begins (family.go)
	members map[string]avfs.VFS
	setup   bool // the family is being built: consultations are not part of any history

	// recorder
	trace   []consRec
	cur     callCtx
	invoked map[avfs.FnVFS]bool // own ids of methods invoked directly on wrapped objects

	// attribution of base effects to consultations (builtOnPrimitives)
	lastSt   string // base state at the last consultation of the current call, or when it started
	effFirst bool   // the base changed before the first consultation of the current call

	// fault plan
	K           int
	E           error
	EName       string
	fired       bool
	firedCtx    callCtx
	faultFn     avfs.FnVFS
	faultDone   bool
	pending     bool
	pendingSnap string
	faultClass  string
	basePanics  int
	lastRender  string

	// fault plan: the twin base is driven in lock-step; it does not execute the
	// call that was made to fail. twinOff: the twin cannot follow any more (a
	// composite failed half-way, or the sides diverged): from then on only the
	// oracles that need no twin apply.
	twinOff      bool
	setupChecked bool
}

// newSys: plan is a plan name, plan[@when] (when.go).
func newSys(baseName, planName, stack string) *sys {
	plan, when := splitPlan(planName)
	s := &sys{baseName: baseName, plan: plan, stack: stack, ops: buildOps(baseName, stack), K: -1, invoked: map[avfs.FnVFS]bool{}}

	if err := s.setWhen(when); err != nil {
		s.when, s.fnEvents = when, nil // Reset refuses
	}

	return s
}

func (s *sys) NumOps() int           { return len(s.ops) }
func (s *sys) OpString(i int) string { return s.ops[i].String() }
func (s *sys) Close()                {}
func (s *sys) Key() string           { return s.lastKey }

var treePaths = []string{"/", "/tmp", "/d", "/d/f", "/d/e", "/d/e/g", "/d/s"}

func newBase(name string) (b hooked, err error) {
	dirs := []avfs.DirInfo{{Path: "/tmp", Perm: 0o777}}

	k, msg := fsx.Guard(func() {
		switch name {
		case "MemFS":
			idm := memidm.New()
			if _, e := idm.AddGroup("g1"); e != nil {
				err = e

				return
			}

			if _, e := idm.AddUser("u1", "g1"); e != nil {
				err = e

				return
			}

			b = memfs.NewWithOptions(&memfs.Options{Idm: idm, SystemDirs: dirs})
		case "OrefaFS":
			b = orefafs.NewWithOptions(&orefafs.Options{SystemDirs: dirs})
		default:
			err = fmt.Errorf("unknown base %q", name)
		}
	})
	if k != "" {
		return nil, fmt.Errorf("constructor of %s: %s %s", name, k, msg)
	}

	if err != nil {
		return nil, err
	}

	var setupErr error

	must := func(what string, e error) {
		if e != nil && setupErr == nil {
			setupErr = fmt.Errorf("setup of %s: %s: %v", name, what, e)
		}
	}

	k, msg = fsx.Guard(func() {
		must("SetUMask", b.SetUMask(0o022))

		if e := b.Chdir("/"); e != nil && b.CurDir() != "/" {
			must("Chdir /", e)
		}

		must("Mkdir /d", b.Mkdir("/d", 0o755))
		must("WriteFile /d/f", b.WriteFile("/d/f", []byte("data"), 0o644))
		must("Link /d/h", b.Link("/d/f", "/d/h"))
		must("Mkdir /d/e", b.Mkdir("/d/e", 0o755))
		must("WriteFile /d/e/g", b.WriteFile("/d/e/g", []byte("g"), 0o644))

		if name == "MemFS" {
			must("Symlink /d/s", b.Symlink("f", "/d/s"))
		}

		for _, p := range treePaths {
			_ = b.Chtimes(p, fsx.FixedTime, fsx.FixedTime) // "/" of OrefaFS and the symlink may refuse
		}
	})
	if k != "" {
		return nil, fmt.Errorf("setup of %s: %s %s", name, k, msg)
	}

	return b, setupErr
}

// installRandom makes this system the supplier of temp names (the seam is
// process-global): 0,0,1,1,2,2,... per side, so both sides draw the same names
// and every later temp call collides once with an earlier name.
func (s *sys) installRandom() {
	verifrt.SetRandom(func() string {
		v := s.rnd[s.rndSide] / 2
		s.rnd[s.rndSide]++

		return strconv.Itoa(v)
	})
}

func (s *sys) Reset() error {
	s.rnd = [2]int{}
	s.rndSide = 0
	s.nsteps = 0
	s.trace = s.trace[:0]
	s.fired, s.faultDone, s.pending = false, false, false
	s.faultClass = ""
	s.viols = nil
	s.twinOff = false

	s.installRandom()

	a, err := newBase(s.baseName)
	if err != nil {
		return err
	}

	if !knownStack(s.stack) || (s.stack != "" && s.plan == "readonly") || (planOnLower(s.stack) && s.plan == "none") ||
		s.fnEvents == nil || (s.when != "" && (s.stack != "" || s.plan == "none")) || (s.sched == whenSwap && s.plan == "readonly") ||
		(s.fam != nil && s.baseName != "MemFS") {
		return fmt.Errorf("no system %s", sysName(s.baseName, planWhen(s.plan, s.when), s.stack))
	}

	s.fnNext, s.gen, s.installed = 0, -1, ""

	s.impl = &side{base: a}
	s.lowerFn = "OkFunc"

	// what the FailFS under test is built on: the base, or a wrapper of it (stack.go)
	var under avfs.VFS

	if k, msg := fsx.Guard(func() { under, err = s.under(s.impl) }); k != "" {
		return fmt.Errorf("stack %s on %s: %s %s", s.stack, s.baseName, k, msg)
	}

	if err != nil {
		return fmt.Errorf("stack %s on %s: %v", s.stack, s.baseName, err)
	}

	s.armLower(s.impl, true, "pre")

	s.ff = failfs.New(under)
	s.impl.top = s.ff
	s.twin = nil

	s.armLower(s.impl, true, "post")

	switch s.plan {
	case "none":
	case "okfunc", "fault":
		if planOnLower(s.stack) {
			// armLower has installed the recording function on the lower FailFS
			s.fnNext, s.gen, s.installed = len(s.fnEvents), 0, "plan"
		}
	case "readonly":
		s.impl.obs = a

		if s.baseName == "MemFS" {
			o, err := a.Sub("/")
			if err != nil {
				return fmt.Errorf("observer view: %v", err)
			}

			s.impl.obs = o
		}
	default:
		return fmt.Errorf("unknown plan %q", s.plan)
	}

	if s.plan == "none" || s.plan == "okfunc" || s.plan == "fault" {
		b, err := newBase(s.baseName)
		if err != nil {
			return err
		}

		s.twin = &side{base: b, top: b}

		if twinWrapped(s.stack) {
			// transparency with a wrapped base: the twin is the same wrapper, driven directly
			var t avfs.VFS

			if k, msg := fsx.Guard(func() { t, err = s.under(s.twin) }); k != "" {
				return fmt.Errorf("stack %s on the twin %s: %s %s", s.stack, s.baseName, k, msg)
			}

			if err != nil {
				return fmt.Errorf("stack %s on the twin %s: %v", s.stack, s.baseName, err)
			}

			s.twin.top = t

			s.armLower(s.twin, false, "pre")
			s.armLower(s.twin, false, "post")
		}

		// harness self-check (the fault plan builds instances by the hundred thousand: first build only)
		if s.plan != "fault" || !s.setupChecked {
			if sa, sb := baseState(a), baseState(b); sa != sb {
				return fmt.Errorf("twin bases differ after setup: %s", fsx.DiffLines(strings.Split(sa, "\n"), strings.Split(sb, "\n")))
			}
		}
	}

	s.setupChecked = true
	s.members = nil

	// the file systems derived before the history begins, and in the order "pre"
	// the SetFailFunc calls made while they are derived (family.go)
	if s.fam != nil {
		if err := s.buildFamily(); err != nil {
			return err
		}
	}

	// the SetFailFunc calls that precede the first call of the history (when.go)
	s.advanceFn(0)

	if s.plan != "fault" {
		s.lastKey = s.key() // the fault plan has no use for Key(): its callers compute key() when they need it
	}

	return nil
}

// resetFault prepares a run with the plan "consultation k returns e".
func (s *sys) resetFault(k int, ename string) error {
	s.K = k
	s.EName = ename

	switch ename {
	case "permdenied":
		s.E = &fs.PathError{Op: "x", Path: "y", Err: avfs.ErrPermDenied}
	case "notexist":
		// an error of the kind the composites branch on (errors.Is(err, fs.ErrNotExist))
		s.E = &fs.PathError{Op: "x", Path: "y", Err: avfs.ErrNoSuchFileOrDir}
	default:
		s.E = errors.New("c12: injected sentinel failure")
	}

	return s.Reset()
}

// baseState is everything of a base file system that a call can change: the
// node graph (injected dump: names, types, permission bits, owners, bytes,
// link counts, hard-link classes, link targets), cwd, umask, current user.
func baseState(b hooked) string {
	var sb strings.Builder

	for _, l := range b.VerifDump() {
		sb.WriteString(l)
		sb.WriteByte('\n')
	}

	u := "?"
	if ur := b.User(); ur != nil {
		u = ur.Name()
	}

	fmt.Fprintf(&sb, "cwd=%s umask=%#o user=%s", b.CurDir(), uint32(b.UMask()), u)

	return sb.String()
}

// roDump is the snapshot of the read-only plan: node graph plus the
// modification time of every entry (read through an administrator view).
func (s *sys) roDump() string {
	var sb strings.Builder

	sd := s.impl

	for _, l := range sd.base.VerifDump() {
		p := l
		if i := strings.Index(l, " "); i >= 0 {
			p = l[:i]
		}

		if len(p) > 1 {
			p = strings.TrimSuffix(p, "/")
		}

		mt := "?"

		fsx.Guard(func() {
			if fi, err := sd.obs.Lstat(p); err == nil {
				mt = strconv.FormatInt(fi.ModTime().UnixNano(), 10)
			}
		})

		sb.WriteString(l)
		sb.WriteString(" t")
		sb.WriteString(mt)
		sb.WriteByte('\n')
	}

	return sb.String()
}

// viewState: cwd, umask and user of a Sub file system. getwd: a view without
// the CurDir accessor (the Sub of a wrapper) may be asked through Getwd - only
// on the twin side, where no recording failure function can be consulted.
func viewState(v avfs.VFS, getwd bool) string {
	if v == nil {
		return "-"
	}

	cd := "?"
	if c, ok := v.(interface{ CurDir() string }); ok {
		cd = c.CurDir()
	} else if getwd {
		fsx.Guard(func() {
			if d, err := v.Getwd(); err == nil {
				cd = d
			} else {
				cd = "!" + fsx.ErrKind(err)
			}
		})
	}

	u := "?"

	fsx.Guard(func() {
		if ur := v.User(); ur != nil {
			u = ur.Name()
		}
	})

	return fmt.Sprintf("cwd=%s umask=%#o user=%s", cd, uint32(v.UMask()), u)
}

func (s *sys) handleDesc(sd *side, slot int, probe bool) string {
	f := sd.files[slot]
	if f == nil {
		return "-"
	}

	d := sd.fopen[slot]

	if probe {
		r := guarded(func() result {
			n, err := f.Seek(0, io.SeekCurrent)

			return valResult(err, fmt.Sprint(n))
		})
		d += " off=" + r.Res.String()

		r = guarded(func() result {
			fi, err := f.Stat()
			if err != nil {
				return errResult(err)
			}

			return valResult(nil, fsx.InfoString(sd.top, fi))
		})
		d += " st=" + r.Res.String()
	}

	return d + " log=" + strings.Join(sd.flog[slot], ";")
}

func (s *sys) keySide(sb *strings.Builder, ref *side, ri int, probe, withBase bool) {
	if withBase {
		sb.WriteString(baseState(ref.base))
	}

	for slot := range ref.files {
		fmt.Fprintf(sb, "\nh%d: %s", slot, s.handleDesc(ref, slot, probe))
	}

	// temp names drawn so far, on BOTH sides: over a base that refuses changes the
	// FailFS draws a name for MkdirTemp (re-implemented over itself) before its
	// Mkdir is refused, the twin is refused before it draws - the next temp call
	// of the FailFS then gets another name, which is a different state
	fmt.Fprintf(sb, "\nsub: %s %s\nrnd=%d/%d", ref.suborig, viewState(ref.sub, ri == 1 && twinWrapped(s.stack)), s.rnd[0], s.rnd[1])

	if s.when != "" {
		// the function installed now and the SetFailFunc calls still to come are part of the state
		fmt.Fprintf(sb, "\nfn=%s next=%d", s.installed, s.fnNext)
	}

	if s.stack == stRoMid {
		sb.WriteString("\nlower=" + s.lowerFn)
	}

	// The directory a Sub is rooted at can be removed from the tree (RemoveAll of
	// an ancestor): what is then made through the Sub lives in a detached subtree
	// that the dump of the base does not show.
	if ref.subObs != nil {
		fsx.Guard(func() {
			for _, l := range ref.subObs.VerifDump() {
				sb.WriteString("\n  sub| ")
				sb.WriteString(l)
			}
		})
	}
}

// key is the canonical state. Lock-step plans: the twin side, handles probed
// (offset, Stat) since probing a base handle consults nothing. Read-only
// plan: the FailFS side, handles described by the log of the calls made on
// them. Fault plan: the FailFS side described by logs (probing a FailFile
// would consult the failure function) and, while the twin follows, the probed
// twin handles.
func (s *sys) key() string {
	var sb strings.Builder

	switch {
	case s.plan == "fault":
		s.keySide(&sb, s.impl, 0, false, true)

		if s.twin != nil && !s.twinOff {
			// the base of a twin that still follows equals the base above
			sb.WriteString("\n-- twin --")
			s.keySide(&sb, s.twin, 1, true, false)
		}
	case s.twin != nil:
		s.keySide(&sb, s.twin, 1, true, true)
	default:
		s.keySide(&sb, s.impl, 0, false, true)
	}

	return sb.String()
}

// ---------------------------------------------------------------------------
// the failure function of the okfunc and fault plans

func renderParam(fp *failfs.FailParam) string {
	var p []string

	add := func(k, v string) { p = append(p, k+"="+v) }

	if fp.Op != "" {
		add("op", fp.Op)
	}

	if fp.Path != "" {
		add("path", fp.Path)
	}

	if fp.NewPath != "" {
		add("new", fp.NewPath)
	}

	if fp.Perm != 0 {
		add("perm", fmt.Sprintf("%#o", uint32(fp.Perm)))
	}

	if fp.Flag != 0 {
		add("flag", strconv.Itoa(fp.Flag))
	}

	if fp.Uid != 0 || fp.Gid != 0 {
		add("ids", fmt.Sprintf("%d:%d", fp.Uid, fp.Gid))
	}

	if fp.Size != 0 {
		add("size", strconv.FormatInt(fp.Size, 10))
	}

	if !fp.MTime.IsZero() {
		add("mtime", strconv.FormatInt(fp.MTime.Unix(), 10))
	}

	return strings.Join(p, " ")
}

// failFn is recording function #0 (the only one of a system without schedule).
func (s *sys) failFn(v avfs.VFSBase, fn avfs.FnVFS, fp *failfs.FailParam) error {
	return s.consult(0, v, fn, fp)
}

// consult is the body of every recording failure function of the system; gen
// says which of them was called.
func (s *sys) consult(gen int, _ avfs.VFSBase, fn avfs.FnVFS, fp *failfs.FailParam) error {
	if s.setup {
		return nil // a Sub call that derives the family of the start state (family.go): not a call of the history
	}

	st := baseState(s.impl.base)

	s.checkPending(st, "next-consultation")
	s.noteEffect(st)

	idx := len(s.trace)
	s.trace = append(s.trace, consRec{Fn: fn, P: renderParam(fp), Call: s.cur.Idx, Part: s.cur.Part, Pre: st == s.cur.start, Gen: gen})

	scribbleParam(fp) // read, then overwritten: see scribbleParam

	if gen != s.gen {
		// the object that consults holds on to a function that SetFailFunc has replaced or removed
		now := "recording function #" + strconv.Itoa(s.gen)
		if s.gen < 0 {
			now = "no recording function (" + s.installed + ")"
		}

		s.addViol(s.sig(s.cur, "stale-function", "consults the function installed now", "consults a function that was replaced"),
			fmt.Sprintf("%s consulted recording function #%d; installed now: %s", fn, gen, now))
	}

	if s.plan == "fault" && idx == s.K {
		s.fired = true
		s.firedCtx = s.cur
		s.faultFn = fn
		s.pending = true
		s.pendingSnap = st

		return s.E
	}

	return nil
}

// noteEffect attributes a change of the base state since the last consultation
// (or since the harness-level call started) to the consultation that precedes
// it; now is the base state at this moment (builtOnPrimitives).
func (s *sys) noteEffect(now string) {
	if now == s.lastSt {
		return
	}

	s.lastSt = now

	if n := len(s.trace); n > s.cur.from {
		s.trace[n-1].Eff = true
	} else {
		s.effFirst = true
	}
}

func (s *sys) sig(ctx callCtx, kind, want, got string) map[string]string {
	m := map[string]string{
		"base": s.baseName, "plan": s.plan, "via": ctx.Via, "call": ctx.Method, "variant": ctx.Variant,
		"kind": kind, "want": want, "got": got,
	}

	if s.plan == "fault" && s.fired {
		m["fn"] = s.faultFn.String()
	}

	if s.stack != "" {
		m["stack"] = s.stack
	}

	if s.sched != "" {
		m["when"] = s.sched
	}

	if s.famName != "" {
		m["family"] = s.famName
	}

	return m
}

func (s *sys) addViol(sig map[string]string, detail string) {
	s.viols = append(s.viols, bfs.Viol{Sig: sig, Detail: detail})
}

// checkPending: the failure function returned E at the previous consultation
// and took a snapshot; nothing may have changed since ("the underlying file
// system is left untouched by that call", at primitive granularity).
func (s *sys) checkPending(now, when string) {
	if !s.pending {
		return
	}

	s.pending = false

	if now != s.pendingSnap {
		s.addViol(s.sig(s.firedCtx, "base-touched", "untouched", "changed-before-"+when),
			"base state changed after the failure function returned the error: "+
				fsx.DiffLines(strings.Split(s.pendingSnap, "\n"), strings.Split(now, "\n")))
	}
}

func inFailfs(msg string) bool {
	return strings.Contains(msg, "@ github.com/avfs/avfs/vfs/failfs.")
}

func (s *sys) beginCall(ctx callCtx) {
	if s.plan == "okfunc" || s.plan == "fault" {
		ctx.start = baseState(s.impl.base)
	}

	ctx.from = len(s.trace)
	ctx.rec = s.gen >= 0
	s.cur = ctx
	s.lastSt, s.effFirst = ctx.start, false
}

// endCall applies the per-call oracles of the okfunc plan (every directly
// invoked method consults its own id before any base effect) and of the fault
// plan (result of the call during which the injected consultation fired).
func (s *sys) endCall(r result) {
	ctx := s.cur

	own := ownVFS[ctx.Method]
	if ctx.Via == "file" {
		own = ownFile[ctx.Method]
	}

	switch s.plan {
	case "okfunc":
		if ctx.rec && ctx.Via != "file" && builtOnPrimitives[ctx.Method] {
			s.checkEffects(ctx, r)
		}

		if len(own) == 0 || !ctx.rec {
			return // no recording function installed (yet, or any more): nothing can be demanded of the trace
		}

		if ctx.Via != "file" {
			ctx.Variant = "" // the flag set of OpenFile is irrelevant to whether the method consults
		}

		s.invoked[own[0]] = true

		var seen []string

		found, pre := false, false

		for _, c := range s.trace[ctx.from:] {
			if c.Gen != s.gen {
				continue // stale consultation (reported by consult): the function installed now was not asked
			}

			seen = append(seen, c.Fn.String())

			for _, id := range own {
				if c.Fn == id && !found {
					found, pre = true, c.Pre
				}
			}
		}

		switch {
		case !found && len(seen) == 0:
			s.addViol(s.sig(ctx, "no-consultation", "consults "+own[0].String()+" before any base effect", "no consultation at all"),
				"result of the call: "+r.Res.String())
		case !found:
			s.addViol(s.sig(ctx, "no-consultation", "consults "+own[0].String()+" before any base effect", "consults only other ids"),
				"consultations: "+strings.Join(seen, ",")+"; result of the call: "+r.Res.String())
		case !pre:
			s.addViol(s.sig(ctx, "no-consultation", "consults "+own[0].String()+" before any base effect", "consulted after a base effect"),
				"consultations: "+strings.Join(seen, ","))
		}
	case "fault":
		if !s.fired {
			return
		}

		if s.faultDone || s.firedCtx.Idx != ctx.Idx || s.firedCtx.Part != ctx.Part {
			// a later call of the history: must not panic inside FailFS
			if r.Res.Kind == "PANIC" {
				if inFailfs(r.Res.Msg) {
					s.addViol(s.sig(ctx, "panic", "returns", "PANIC"), "after the injected failure: "+r.Res.Msg)
				} else {
					s.basePanics++
				}
			}

			return
		}

		s.faultDone = true

		now := baseState(s.impl.base)
		s.checkPending(now, "return")

		want := "E:" + s.EName
		comp := ctx.Via != "file" && composite[ctx.Method]

		if comp {
			want = "non-nil error"
		}

		outcome := "exact-E"

		switch {
		case r.Res.Kind == "PANIC" || r.Res.Kind == "DEADLOCK":
			outcome = r.Res.Kind
			s.addViol(s.sig(ctx, strings.ToLower(r.Res.Kind), want, r.Res.Kind), r.Res.Msg)
		case r.Err == nil:
			outcome = "nil"
			kind := "nil-error"

			if ctx.Method == "Glob" {
				kind = "nil-error-glob"
			}

			s.addViol(s.sig(ctx, kind, want, "nil"), "the call returned a nil error although consultation "+
				strconv.Itoa(s.K)+" ("+s.faultFn.String()+") returned the injected error; result: "+r.Res.String())
		case r.Err != s.E:
			outcome = "other-error:" + r.Res.Kind

			if !comp {
				s.addViol(s.sig(ctx, "wrong-error", want, "other:"+r.Res.Kind), "returned "+r.Res.Msg)
			}
		}

		// a primitive that is made to fail must leave the base as it was when the call started
		if !comp && now != s.firedCtx.start {
			s.addViol(s.sig(ctx, "base-touched", "untouched", "changed-during-the-failed-call"),
				"base state at return differs from the state when the failed call started: "+
					fsx.DiffLines(strings.Split(s.firedCtx.start, "\n"), strings.Split(now, "\n")))
		}

		s.faultClass = s.faultFn.String() + "|" + ctx.Via + "." + ctx.Method + "|" + s.EName + "|" + outcome
	}
}

// checkEffects: a composite that the property lists as built on primitives
// has returned under a recording function; every change of the base state it
// made must follow the consultation of a primitive id (builtOnPrimitives).
func (s *sys) checkEffects(ctx callCtx, r result) {
	s.noteEffect(baseState(s.impl.base))

	ctx.Variant = ""
	want := "every change of the base follows the consultation of a primitive id"

	var seen []string
	for _, c := range s.trace[ctx.from:] {
		seen = append(seen, c.Fn.String())
	}

	detail := "consultations: " + strings.Join(seen, ",") + "; result of the call: " + r.Res.String()

	if s.effFirst {
		s.addViol(s.sig(ctx, "effect-without-primitive", want, "base changed before any consultation"), detail)
	}

	for _, c := range s.trace[ctx.from:] {
		if c.Eff && compositeFn[c.Fn] {
			s.addViol(s.sig(ctx, "effect-without-primitive", want, "base changed after "+c.Fn.String()+" only"),
				"the base changed between the consultation of "+c.Fn.String()+" and the next one (or the return): the primitive that made the change was never put to the failure function, "+
					"which therefore cannot make it fail; "+detail)
		}
	}
}

// ---------------------------------------------------------------------------
// applying one op to one side

type stepOut struct {
	NA    bool
	Main  result
	Close *result
	ctx   callCtx
}

func originClass(orig string) string {
	switch {
	case strings.HasPrefix(orig, "sub."):
		return "handle-from-Sub"
	case strings.HasSuffix(orig, ".CreateTemp"):
		return "handle-from-CreateTemp"
	}

	return "handle-from-" + strings.TrimPrefix(orig, "failfs.")
}

var (
	logAlways = map[string]bool{"ReadDir": true, "Readdirnames": true}
	logNoProb = map[string]bool{"Read": true, "Write": true, "WriteString": true, "Seek": true, "Close": true, "ReadDir": true, "Readdirnames": true}
)

func (s *sys) apply(sd *side, which int, o op, idx int, skipClose bool) (out stepOut) {
	s.rndSide = which
	track := which == 0

	var (
		target avfs.VFS
		file   avfs.File
	)

	ctx := callCtx{Idx: idx, Part: "main", Via: o.Thru, Method: o.C.Op, Variant: o.variant()}

	switch o.Thru {
	case "failfs":
		target = sd.top
	case "sub":
		if sd.sub == nil {
			return stepOut{NA: true}
		}

		target = sd.sub
	case "file":
		file = sd.files[o.Slot]
		if file == nil {
			return stepOut{NA: true}
		}

		ctx.Variant = originClass(sd.forig[o.Slot])
	}

	switch o.Store {
	case "file":
		if sd.files[o.Slot] != nil || (o.Slot == 1 && sd.files[0] == nil) {
			return stepOut{NA: true}
		}
	case "sub":
		// s=failfs.Sub(p) fills the empty slot; s=sub.Sub(p) replaces the pooled view
		// by a view derived from it (family.go: depth of derivation)
		if sd.sub != nil && o.Thru != "sub" {
			return stepOut{NA: true}
		}
	}

	out.ctx = ctx

	if track {
		s.beginCall(ctx)
	}

	if file != nil {
		out.Main = guarded(func() result { return execFile(sd.top, file, o.C) })

		// handles of this side are probed by key() (see there): then only what a
		// probe cannot see is logged
		probe := s.twin != nil && !(s.plan == "fault" && which == 0)
		if (probe && logAlways[o.C.Op]) || (!probe && logNoProb[o.C.Op]) {
			sd.flog[o.Slot] = append(sd.flog[o.Slot], fileCallString(o.C)+"="+out.Main.Res.Kind)
		}
	} else {
		out.Main = guarded(func() result { return execNS(target, o.C) })
	}

	if track {
		s.endCall(out.Main)
	}

	if f := out.Main.File; f != nil {
		orig := o.Thru + "." + o.C.Op

		if o.Store == "file" {
			sd.files[o.Slot], sd.forig[o.Slot], sd.fopen[o.Slot], sd.flog[o.Slot] = f, orig, o.Thru+"."+o.C.String(), nil
		} else if !skipClose {
			cctx := callCtx{Idx: idx, Part: "close", Via: "file", Method: "Close", Variant: originClass(orig)}
			if track {
				s.beginCall(cctx)
			}

			cl := guarded(func() result { return errResult(f.Close()) })

			if track {
				s.endCall(cl)
			}

			out.Close = &cl
		}
	}

	if out.Main.Sub != nil && o.Store == "sub" {
		// the same subtree obtained from the base directly: from the base, or, for a
		// view derived from the pooled view, from the subtree that view sees
		var from avfs.VFS = sd.base

		orig := o.C.String()

		if o.Thru == "sub" {
			from, orig = nil, sd.suborig+">"+orig // the chain of Sub calls is part of the state: depth matters

			if sd.subObs != nil {
				from = sd.subObs
			}
		}

		sd.sub, sd.suborig, sd.subObs = out.Main.Sub, orig, nil

		if from != nil {
			fsx.Guard(func() {
				if b, err := from.Sub(o.C.A); err == nil {
					sd.subObs, _ = b.(hooked)
				}
			})
		}
	}

	return out
}

func (o stepOut) poisoned() bool {
	k := o.Main.Res.Kind
	if k == "PANIC" || k == "DEADLOCK" {
		return true
	}

	if o.Close != nil {
		k = o.Close.Res.Kind

		return k == "PANIC" || k == "DEADLOCK"
	}

	return false
}

func (o stepOut) outcome(op op) string {
	s := op.Thru + "." + op.C.Op + "/" + o.Main.Res.Kind
	if o.Close != nil {
		s += "+Close/" + o.Close.Res.Kind
	}

	return s
}

func (o stepOut) render() string {
	if o.NA {
		return "n/a"
	}

	s := o.Main.Res.String()
	if o.Main.Res.Kind != "ok" && o.Main.Res.Msg != "" {
		s += " (" + o.Main.Res.Msg + ")"
	}

	if o.Close != nil {
		s += " ; Close: " + o.Close.Res.String()
	}

	return s
}

// ---------------------------------------------------------------------------
// Step

func (s *sys) Step(i int) bfs.StepResult {
	o := s.ops[i]
	s.viols = nil
	s.installRandom()

	idx := s.nsteps
	s.nsteps++

	if o.Thru == "lower" {
		out := s.stepLower(o)
		key := s.key()
		changed := key != s.lastKey
		s.lastKey = key

		return bfs.StepResult{Changed: changed, Key: key, Outcome: out}
	}

	var res bfs.StepResult

	switch s.plan {
	case "readonly":
		res = s.stepReadonly(o, idx)
	case "fault":
		res = s.stepFault(o, idx)
	default:
		res = s.stepLock(o, idx)
	}

	// nsteps is the position in the history (the schedule of SetFailFunc calls is
	// keyed on it, when.go): a letter that is not applicable, or that the engine
	// will not make part of a history because it left the state as it was, does
	// not advance it. The fault plan computes no keys: its callers (fault.go) set
	// nsteps themselves.
	if res.Outcome == "n/a" || (s.plan != "fault" && !res.Changed && !res.Broken && !res.Rebuild) {
		s.nsteps = idx
	}

	return res
}

func (s *sys) cmpRes(ctx callCtx, what string, ri, rt fsx.Res) bool {
	switch {
	case ri.Kind != rt.Kind:
		kind := s.diffKind()
		if ri.Kind == "PANIC" || ri.Kind == "DEADLOCK" {
			kind = strings.ToLower(ri.Kind)

			if s.plan == "fault" && ri.Kind == "PANIC" && inFailfs(ri.Msg) {
				return false // reported by endCall
			}
		}

		s.addViol(s.sig(ctx, kind, rt.Kind, ri.Kind), fmt.Sprintf("%s: base %s (%s), FailFS %s (%s)", what, rt.String(), rt.Msg, ri.String(), ri.Msg))

		return false
	case ri.Val != rt.Val:
		s.addViol(s.sig(ctx, s.diffKind(), rt.Kind+":value", ri.Kind+":other-value"), fmt.Sprintf("%s: base %s, FailFS %s", what, rt.String(), ri.String()))

		return false
	}

	return true
}

// diffKind names a divergence between FailFS and the twin base: in the fault
// plan it can only be seen after the injected failure (see stepFault).
func (s *sys) diffKind() string {
	if s.plan == "fault" {
		return "differs-from-base-after-failure"
	}

	return "differs-from-base"
}

// compareSides is the lock-step oracle: results of the call (and of the Close
// of a handle that is not pooled), base state and Sub view state are equal on
// both sides. skippedClose: the twin did not close the returned handle because
// that Close was the call made to fail.
func (s *sys) compareSides(o op, oi, ot stepOut, skippedClose bool) (broken bool) {
	if ot.NA {
		s.addViol(s.sig(oi.ctx, s.diffKind(), "object present", "twin object missing"), "the twin has no object for this call: an earlier call diverged")

		broken = true
	} else {
		if !s.cmpRes(oi.ctx, "result", oi.Main.Res, ot.Main.Res) {
			broken = true
		}

		switch {
		case skippedClose:
			if (oi.Main.File == nil) != (ot.Main.File == nil) {
				s.addViol(s.sig(oi.ctx, s.diffKind(), "handle", "handle on one side only"), "a handle was returned on one side only")

				broken = true
			}
		case (oi.Close == nil) != (ot.Close == nil):
			s.addViol(s.sig(oi.ctx, s.diffKind(), "handle", "handle on one side only"), "a handle was returned on one side only")

			broken = true
		case oi.Close != nil:
			cctx := oi.ctx
			cctx.Part, cctx.Via, cctx.Method, cctx.Variant = "close", "file", "Close", originClass(o.Thru+"."+o.C.Op)

			if !s.cmpRes(cctx, "Close of the returned handle", oi.Close.Res, ot.Close.Res) {
				broken = true
			}
		}
	}

	// fault plan, before the injected failure: the run is the fault-free run, whose
	// base states the okfunc plan has compared on this very history
	if s.plan == "fault" && !s.fired {
		return broken
	}

	sa, sb := baseState(s.impl.base), baseState(s.twin.base)
	if sa != sb {
		s.addViol(s.sig(oi.ctx, s.diffKind(), "same base state", "base state differs"),
			"base under FailFS vs twin base (-twin +FailFS): "+fsx.DiffLines(strings.Split(sb, "\n"), strings.Split(sa, "\n"))+"; result "+oi.render())

		broken = true
	}

	if (s.impl.sub == nil) != (s.twin.sub == nil) {
		broken = true
	} else if s.impl.sub != nil {
		if va, vb := viewState(s.impl.sub, false), viewState(s.twin.sub, false); va != vb && !strings.Contains(va, "cwd=?") {
			s.addViol(s.sig(oi.ctx, s.diffKind(), "same Sub view state", "Sub view state differs"), "twin "+vb+" FailFS "+va)

			broken = true
		}
	}

	return broken
}

func (s *sys) stepLock(o op, idx int) bfs.StepResult {
	oi := s.apply(s.impl, 0, o, idx, false)
	s.lastRender = oi.render()

	if oi.NA {
		return bfs.StepResult{Outcome: "n/a", Key: s.lastKey}
	}

	ot := s.apply(s.twin, 1, o, idx, false)
	broken := s.compareSides(o, oi, ot, false)

	poisoned := oi.poisoned() || ot.poisoned()

	s.advanceFn(idx + 1)

	key := s.key()
	changed := key != s.lastKey
	s.lastKey = key

	return bfs.StepResult{
		Changed: changed, Key: key, Broken: broken || poisoned, Rebuild: poisoned,
		Outcome: oi.outcome(o), Viols: s.viols,
	}
}

// stepFault: one call under the plan "consultation K returns E", the twin base
// in lock-step. The twin does not execute the call that is made to fail ("the
// underlying file system is left untouched by that call"), so that every later
// call, which the failure function lets through, must behave on FailFS exactly
// as on the twin: same result, same base state, and - through the results of
// the calls on pooled handles - same handle state (an injected FileClose must
// leave the handle open, an injected FileSeek/FileRead/FileWrite must leave
// its offset alone, ...).
//
// The twin can skip the failed call when that call is a primitive (its own id
// is all it consults), or a composite whose failing consultation is its first
// and only one (nothing of the composite was executed). When a composite is
// made to fail half-way its legitimate partial effects cannot be replayed on
// the twin: the twin is dropped and the rest of the history is only required
// not to panic and to leave the untouched clause intact (endCall).
func (s *sys) stepFault(o op, idx int) bfs.StepResult {
	wasFired := s.fired
	nviol := 0

	oi := s.apply(s.impl, 0, o, idx, false)
	s.lastRender = oi.render()

	if oi.NA {
		return bfs.StepResult{Outcome: "n/a"}
	}

	res := bfs.StepResult{Outcome: oi.outcome(o), Rebuild: oi.poisoned(), Broken: oi.poisoned()}

	if s.twin != nil && !s.twinOff {
		nviol = len(s.viols)
		skipMain, skipClose := false, false

		if !wasFired && s.fired {
			ctx := s.firedCtx
			inPart := 0

			for _, c := range s.trace[ctx.from:] {
				if c.Part == ctx.Part {
					inPart++
				}
			}

			comp := ctx.Via != "file" && composite[ctx.Method]

			switch {
			case comp && !(s.K == ctx.from && inPart == 1):
				s.twinOff = true
			case ctx.Part == "main":
				skipMain = true
			default:
				skipClose = true
			}
		}

		switch {
		case s.twinOff:
		case skipMain:
			// nothing was executed, so nothing may have come out of the call or changed
			// (both are reported by endCall: nil-error, base-touched)
			if oi.Main.File != nil || oi.Main.Sub != nil || oi.Close != nil || baseState(s.impl.base) != baseState(s.twin.base) {
				s.twinOff = true
			}

			s.rnd[1] = s.rnd[0]
		default:
			ot := s.apply(s.twin, 1, o, idx, skipClose)

			if s.compareSides(o, oi, ot, skipClose) {
				s.twinOff = true
				res.Broken = true
			}

			if ot.poisoned() {
				s.twinOff = true
				res.Broken, res.Rebuild = true, true
			}

			if !s.fired {
				// before the injected failure the run is the fault-free run, which the
				// okfunc plan judges: a divergence here is reported there
				s.viols = s.viols[:nviol]
			}
		}
	}

	res.Viols = s.viols

	s.advanceFn(idx + 1)

	return res
}

func (s *sys) stepReadonly(o op, idx int) bfs.StepResult {
	// before ReadOnlyFunc is installed (when.go) the calls build the objects and
	// the state the function will have to govern: no oracle of this plan applies
	governed := s.governed()
	before := ""

	if governed {
		before = s.roDump()
	}

	oi := s.apply(s.impl, 0, o, idx, false)
	s.lastRender = oi.render()

	if oi.NA {
		return bfs.StepResult{Outcome: "n/a", Key: s.lastKey}
	}

	after := before
	if governed {
		after = s.roDump()
	}

	broken := false

	if before != after {
		s.addViol(s.sig(oi.ctx, "base-changed-readonly", "base unchanged", "base changed"),
			"base dump incl. mtimes (-before +after): "+fsx.DiffLines(strings.Split(before, "\n"), strings.Split(after, "\n"))+"; result "+oi.render())

		broken = true
	}

	for _, r := range []*result{&oi.Main, oi.Close} {
		if r != nil && r.Res.Kind == "PANIC" && inFailfs(r.Res.Msg) {
			s.addViol(s.sig(oi.ctx, "panic", "returns", "PANIC"), r.Res.Msg)
		}
	}

	poisoned := oi.poisoned()

	s.advanceFn(idx + 1)

	key := s.key()
	changed := key != s.lastKey
	s.lastKey = key

	return bfs.StepResult{
		Changed: changed, Key: key, Broken: broken || poisoned, Rebuild: poisoned,
		Outcome: oi.outcome(o), Viols: s.viols,
	}
}
