package main

import (
	"fmt"
	"strconv"
	"strings"

	"github.com/avfs/avfs"
	"github.com/avfs/avfs/vfs/failfs"

	"verif/lib/fsx"
)

// Depth of derivation, and the member of the family SetFailFunc is called on:
// one more dimension of every plan of this driver (round 7).
//
// General lesson. Derivation is recursive: what a wrapper hands out (a file
// system from Sub) is itself a wrapper that hands out objects (file systems
// from ITS Sub, handles from its Open), and the statement - "every method
// consults the failure function", "ReadOnlyFunc: the base cannot be changed" -
// holds for the whole family, however deep, with ONE function for all of it:
// the one installed now, through whichever member SetFailFunc was called. Code
// that links every derived object to the object it was derived from builds a
// chain; code that assumes the chain is flat (looks one link up, asks "am I the
// root?") agrees with it on the constructor's object and on its direct
// children, which is as far as an object pool filled one level deep ever gets.
// The two disagree from the grandchild on. So (a) the alphabet derives from
// derived objects (letters s=sub.Sub(p): the pooled view is replaced by a view
// of itself, handle programmes Sub;Sub;open), and (b), since a history bound of
// two calls is used up by the two Subs, the family is also a class of START
// STATE: the pool holds a view of depth d when the history begins, and every
// member of the family - root, intermediate view, pooled view, a sibling of
// the pooled view that is in no pool at all - is in turn the one SetFailFunc is
// called on, before the others are derived from it or after.
//
// The family of a system, built by Reset (MemFS only: OrefaFS has no Sub):
//
//	root  = failfs.New(base)        the target of the "failfs." letters
//	v1    = root.Sub("/")  ...  vd = v(d-1).Sub("/")
//	                                vd is in the Sub slot of the pool: the target
//	                                of the "sub." letters and of the opens through it
//	w     = v(d-1).Sub("/")         a sibling of vd (of root's child for d = 1), unused
//	                                but for SetFailFunc
//
// all rooted at "/" so that the path alphabet keeps its meaning; the twin holds
// the view base.Sub("/")...Sub("/") of the same depth, driven directly.
//
// The family is the part of the plan name after '~': plan[@[schedule]~dN.target[.pre]]
//
//	dN      depth of the pooled view (1, 2, 3)
//	target  the member every SetFailFunc call of the schedule (when.go) is made
//	        on: root | v1 .. vN | w
//	pre     the first SetFailFunc call is made as soon as its target exists and
//	        the rest of the family is derived afterwards (objects born under the
//	        function); default: the whole family first, then the function
//
// All oracles of the plan apply unchanged, to calls through root ("failfs.")
// and through the pooled view ("sub.", handles opened through it): own id
// consulted before any base effect, exactly E / base untouched / twin in
// lock-step, base unchangeable under ReadOnlyFunc, stale-function. A member
// that does not obey the function installed through another member shows as
// no-consultation in the recording plans (nothing was asked, so there is no
// consultation a fault plan could make fail either) and as
// base-changed-readonly in the read-only plan.
type family struct {
	Depth  int
	Target string
	Pre    bool
}

const famSep = "~"

// splitWhen cuts the part of a plan name after '@' into the schedule of the
// SetFailFunc calls (when.go) and the family.
func splitWhen(when string) (sched, fam string) {
	if i := strings.Index(when, famSep); i >= 0 {
		return when[:i], when[i+len(famSep):]
	}

	return when, ""
}

func joinWhen(sched, fam string) string {
	if fam == "" {
		return sched
	}

	return sched + famSep + fam
}

// famName is the family part of a plan name.
func famName(depth int, target string, pre bool) string {
	n := "d" + strconv.Itoa(depth) + "." + target
	if pre {
		n += ".pre"
	}

	return n
}

func parseFamily(name string) (*family, error) {
	if name == "" {
		return nil, nil
	}

	parts := strings.Split(name, ".")
	bad := fmt.Errorf("unknown family %q", name)

	if len(parts) < 2 || len(parts) > 3 || len(parts[0]) != 2 || parts[0][0] != 'd' || (len(parts) == 3 && parts[2] != "pre") {
		return nil, bad
	}

	f := &family{Depth: int(parts[0][1] - '0'), Target: parts[1], Pre: len(parts) == 3}
	if f.Depth < 1 || f.Depth > 3 {
		return nil, bad
	}

	for _, m := range f.members() {
		if m == f.Target {
			return f, nil
		}
	}

	return nil, bad
}

// members lists the family in the order it is built.
func (f *family) members() []string {
	out := []string{"root"}
	for i := 1; i <= f.Depth; i++ {
		out = append(out, "v"+strconv.Itoa(i))
	}

	return append(out, "w")
}

func famDesc(name string) string {
	f, err := parseFamily(name)
	if err != nil || f == nil {
		return name
	}

	chain := "root"
	for i := 0; i < f.Depth; i++ {
		chain += `.Sub("/")`
	}

	order := "after the whole family has been derived"
	if f.Pre {
		order = "as soon as that member exists, the rest of the family being derived afterwards (born under the function)"
	}

	return fmt.Sprintf("the pool starts with the view v%d = %s in its Sub slot (twin: the same chain of Sub calls on the twin base); a sibling w = v%d.Sub(\"/\") (v0 = root) exists outside the pool; "+
		"every SetFailFunc call of the schedule is made on member %s, the first one %s", f.Depth, chain, f.Depth-1, f.Target, order)
}

var subRootCall = fsx.Call{Op: "Sub", A: "/"}

// buildFamily derives the family from s.ff, fills the Sub slot of both sides
// and, in the order "pre", makes the SetFailFunc calls that are due before the
// first call of the history as soon as their target exists. The consultations
// of the Sub calls made here are not part of any history: the recording
// function lets them through unrecorded (sys.consult).
func (s *sys) buildFamily() error {
	f := s.fam

	s.setup = true
	defer func() { s.setup = false }()

	s.members = map[string]avfs.VFS{"root": s.ff}

	arm := func(name string) {
		if f.Pre && f.Target == name {
			s.advanceFn(0)
		}
	}

	arm("root")

	derive := func(from avfs.VFS, what string) (v avfs.VFS, err error) {
		if k, msg := fsx.Guard(func() { v, err = from.Sub(subRootCall.A) }); k != "" {
			return nil, fmt.Errorf("family: %s: %s %s", what, k, msg)
		}

		if err != nil {
			return nil, fmt.Errorf("family: %s: %v", what, err)
		}

		return v, nil
	}

	var (
		cur      avfs.VFS = s.ff
		last     avfs.VFS = s.ff // v(d-1)
		obs      avfs.VFS = s.impl.base
		twinView avfs.VFS
		chain    []string
	)

	if s.twin != nil {
		twinView = s.twin.base
	}

	for i := 1; i <= f.Depth; i++ {
		name := "v" + strconv.Itoa(i)
		last = cur

		v, err := derive(cur, name+" on the FailFS side")
		if err != nil {
			return err
		}

		cur = v
		s.members[name] = v
		chain = append(chain, subRootCall.String())

		if obs, err = derive(obs, name+" on the base (observer)"); err != nil {
			return err
		}

		if twinView != nil {
			if twinView, err = derive(twinView, name+" on the twin base"); err != nil {
				return err
			}
		}

		arm(name)
	}

	w, err := derive(last, "w on the FailFS side")
	if err != nil {
		return err
	}

	s.members["w"] = w

	arm("w")

	s.impl.sub, s.impl.suborig = cur, strings.Join(chain, ">")
	s.impl.subObs, _ = obs.(hooked)

	if s.twin != nil {
		s.twin.sub, s.twin.suborig = twinView, s.impl.suborig

		// the subtree seen by the twin's view, obtained from the twin base directly
		tobs := avfs.VFS(s.twin.base)

		for i := 0; i < f.Depth; i++ {
			if tobs, err = derive(tobs, "observer on the twin base"); err != nil {
				return err
			}
		}

		s.twin.subObs, _ = tobs.(hooked)
	}

	return nil
}

// famTarget is the member of the family SetFailFunc is called on. A member that
// has no SetFailFunc (Sub handed out something that is not a FailFS: the other
// oracles report it, nothing it does consults) leaves the call to the root.
func (s *sys) famTarget() *failfs.FailFS {
	if m, ok := s.members[s.fam.Target].(*failfs.FailFS); ok && m != nil {
		return m
	}

	return s.ff
}
