package main

import (
	"bufio"
	"encoding/gob"
	"encoding/json"
	"fmt"
	"io"
	"os"
	"os/exec"
	"runtime"
	"sort"
	"strings"
	"sync"
	"time"

	"github.com/avfs/avfs"
	"github.com/avfs/avfs/verifrt"

	"verif/lib/fsx"
)

// Part (ii): exhaustive single-fault enumeration.
//
// The histories are enumerated breadth-first with state deduplication exactly
// as engine A does (a prefix is the shortest history reaching a distinct
// state); for every prefix and every letter of the alphabet the history
// prefix+letter is run once fault-free with the recording always-nil failure
// function (lock-step with the twin), which yields its consultation trace
// c_0..c_{n-1}; then for EVERY k < n and every error E of a 3-element set the
// history is re-run on a fresh instance with the plan "consultation k returns E".
//
// Workers are subprocesses: the temp-name supplier and the shim mode are
// process-global.

const faultWorkerArg = "-faultworker"

var errNames = []string{"sentinel", "permdenied", "notexist"}

type ftask struct {
	Prefix []int
	Lo, Hi int  // last letters [Lo,Hi) of the alphabet only (Hi == 0: all): a short frontier is cut into slices so that every worker has work; handle programmes: File methods F number [Lo,Hi) only
	Handle bool // handle programmes (expandHandle) instead of one level of the history tree
	Late   int  // handle programmes: the function of the plan is installed after this many calls of the opening prefix (when.go); 0: the schedule of the engine
	GAll   bool // handle programmes: the follow-up call G ranges over the neutral argument tuples (ops.go, fileNoopCalls) as well (thorough tier)
	Quit   bool
}

type fsucc struct {
	Op     int
	Key    string
	Broken bool
}

type fviol struct {
	Sig    map[string]string
	Replay []byte
	Count  int
}

type freply struct {
	Err        string
	InitKey    string
	Succ       []fsucc
	Histories  int
	NA         int
	FaultRuns  int
	HProgs     int // handle programmes: fault-free executions open;[pre];F
	HRuns      int // handle programmes: executions open;[pre];F fails;G;Close
	HFollowed  int // of those: the twin followed up to the end (handle state compared after every call)
	BasePanics int
	Covered    map[int]int
	Injected   map[int]int
	Invoked    map[int]bool
	Classes    map[string]int
	Outcomes   map[string]int
	TraceLens  map[int]int
	Viols      []fviol
	Samples    [][]byte
}

func maybeFaultWorker() {
	for i, a := range os.Args {
		if a == faultWorkerArg && i+1 < len(os.Args) {
			verifrt.SetMode(verifrt.ModeSeq)
			serveFault(os.Args[i+1])
			os.Exit(0)
		}
	}
}

func serveFault(spec string) {
	in := gob.NewDecoder(bufio.NewReader(os.Stdin))
	w := bufio.NewWriter(os.Stdout)
	out := gob.NewEncoder(w)

	// spec: base/stack/when
	parts := append(strings.SplitN(spec, "/", 3), "", "")
	base, stack, when := parts[0], parts[1], parts[2]

	ok := newSys(base, planWhen("okfunc", when), stack)
	ft := newSys(base, planWhen("fault", when), stack)

	for {
		var t ftask
		if err := in.Decode(&t); err != nil || t.Quit {
			return
		}

		var r freply

		if t.Handle {
			w := when
			if t.Late > 0 {
				_, fam := splitWhen(when)
				w = joinWhen(lateWhen(t.Late), fam) // the family of the engine (family.go) stays
			}

			err := ok.setWhen(w)
			if err == nil {
				err = ft.setWhen(w)
			}

			if err != nil {
				r = freply{Err: err.Error()}
			} else {
				r = expandHandle(ok, ft, t.Prefix, t.Lo, t.Hi, t.GAll)
			}
		} else {
			r = expandFault(ok, ft, t.Prefix, t.Lo, t.Hi)
		}

		if err := out.Encode(&r); err != nil {
			return
		}

		w.Flush()
	}
}

func traceStrings(t []consRec) []string {
	out := make([]string, len(t))
	for i, c := range t {
		out[i] = c.String()
	}

	return out
}

func histStrings(s *sys, h []int) []string {
	out := make([]string, len(h))
	for i, o := range h {
		out[i] = s.ops[o].String()
	}

	return out
}

type violBook struct {
	m     map[string]*fviol
	order []string
}

func (b *violBook) add(sig map[string]string, replay func() any) {
	keys := make([]string, 0, len(sig))
	for k := range sig {
		keys = append(keys, k)
	}

	sort.Strings(keys)

	var sb strings.Builder
	for _, k := range keys {
		sb.WriteString(k + "=" + sig[k] + ";")
	}

	k := sb.String()

	if v, ok := b.m[k]; ok {
		v.Count++

		return
	}

	rb, _ := json.Marshal(replay())
	b.m[k] = &fviol{Sig: sig, Replay: rb, Count: 1}
	b.order = append(b.order, k)
}

func expandFault(ok, ft *sys, prefix []int, lo, hi int) (r freply) {
	r.Covered, r.Injected, r.Invoked = map[int]int{}, map[int]int{}, map[int]bool{}
	r.Classes, r.Outcomes, r.TraceLens = map[string]int{}, map[string]int{}, map[int]int{}

	book := &violBook{m: map[string]*fviol{}}

	replayPrefix := func() error {
		if err := ok.Reset(); err != nil {
			return err
		}

		for _, p := range prefix {
			ok.Step(p)
		}

		return nil
	}

	if err := replayPrefix(); err != nil {
		r.Err = err.Error()

		return
	}

	baseKey := ok.Key()
	r.InitKey = baseKey
	plen := len(ok.trace)
	ok.invoked = map[avfs.FnVFS]bool{}

	var applicable []int

	fulls := map[int][]consRec{}
	prefixTrace := append([]consRec{}, ok.trace...)

	for o := range ok.ops {
		if hi > 0 && (o < lo || o >= hi) {
			continue
		}

		ok.trace = ok.trace[:plen]
		ok.nsteps = len(prefix)

		sr := ok.Step(o)
		if sr.Outcome == "n/a" {
			r.NA++

			continue
		}

		r.Histories++
		r.Outcomes[sr.Outcome]++

		full := append([]consRec{}, ok.trace...)
		hist := append(append([]int{}, prefix...), o)
		freeRes := ok.lastRender
		r.TraceLens[len(full)-plen]++

		for _, c := range full[plen:] {
			r.Covered[int(c.Fn)]++
		}

		for _, v := range sr.Viols {
			v := v
			book.add(v.Sig, func() any {
				return map[string]any{
					"system": ok.baseName, "stack": ok.stack, "plan": planWhen("okfunc", ok.when), "history": histStrings(ok, hist),
					"trace": traceStrings(full), "result_of_last_call": freeRes, "detail": v.Detail,
				}
			})
		}

		if sr.Changed {
			r.Succ = append(r.Succ, fsucc{Op: o, Key: sr.Key, Broken: sr.Broken})
		}

		applicable = append(applicable, o)
		fulls[o] = full

		// every single-fault plan of this history whose failing consultation
		// lies in the last call (those inside the prefix: pass B below)
		for k := plen; k < len(full); k++ {
			for _, en := range errNames {
				if err := ft.resetFault(k, en); err != nil {
					r.Err = err.Error()

					return
				}

				var (
					results []string
					viols   []struct {
						sig    map[string]string
						detail string
					}
				)

				for _, p := range hist {
					fr := ft.Step(p)
					results = append(results, ft.lastRender)

					for _, v := range fr.Viols {
						viols = append(viols, struct {
							sig    map[string]string
							detail string
						}{v.Sig, v.Detail})
					}

					if fr.Rebuild {
						break // instance poisoned by a panic/deadlock: the rest of the history is meaningless
					}
				}

				r.FaultRuns++
				r.BasePanics += ft.basePanics
				ft.basePanics = 0

				if !ft.fired || len(ft.trace) <= k || !sameCons(ft.trace[:k+1], full[:k+1]) {
					r.Err = fmt.Sprintf("replay diverged: history %v plan k=%d %s: fired=%v trace %v, fault-free trace %v",
						histStrings(ok, hist), k, en, ft.fired, traceStrings(ft.trace), traceStrings(full))

					return
				}

				r.Injected[int(full[k].Fn)]++

				if ft.faultClass != "" {
					r.Classes[ft.faultClass]++
				}

				plan := map[string]any{"k": k, "fn": full[k].Fn.String(), "params": full[k].P, "during_call": full[k].Call, "part": full[k].Part, "err": en}

				for _, v := range viols {
					v := v
					faulted := traceStrings(ft.trace)
					book.add(v.sig, func() any {
						return map[string]any{
							"system": ok.baseName, "stack": ok.stack, "plan": planWhen("fault", ok.when), "history": histStrings(ok, hist), "fault": plan,
							"fault_free_trace": traceStrings(full), "faulted_trace": faulted,
							"results": results, "detail": v.detail,
						}
					})
				}

				if len(r.Samples) < 2 && k == len(full)-1 && len(full)-plen > 1 {
					b, _ := json.Marshal(map[string]any{
						"system": ok.baseName, "stack": ok.stack, "history": histStrings(ok, hist), "fault": plan,
						"fault_free_trace": traceStrings(full), "results": results, "class": ft.faultClass,
					})
					r.Samples = append(r.Samples, b)
				}
			}
		}

		if sr.Changed || sr.Broken || sr.Rebuild {
			if err := replayPrefix(); err != nil {
				r.Err = err.Error()

				return
			}

			if k := ok.Key(); k != baseKey {
				r.Err = fmt.Sprintf("replay divergence: prefix %v reached a different state on re-execution:\n%s", histStrings(ok, prefix),
					fsx.DiffLines(strings.Split(baseKey, "\n"), strings.Split(k, "\n")))

				return
			}
		}
	}

	// Pass B: the failing consultation lies inside the prefix. The faulted
	// prefix is executed once per (k, E) and every applicable last letter is
	// applied to it; the instance is rebuilt (fresh + faulted prefix) whenever
	// a letter changed the state, exactly as engine A does, so each history
	// still runs from a state identical to the one a fresh run would reach.
	type pv struct {
		sig    map[string]string
		detail string
	}

	for k := 0; k < plen; k++ {
		for _, en := range errNames {
			var (
				presults []string
				poisoned bool
			)

			setup := func(collect *[]pv) error {
				presults, poisoned = presults[:0], false

				if err := ft.resetFault(k, en); err != nil {
					return err
				}

				for _, p := range prefix {
					fr := ft.Step(p)
					presults = append(presults, ft.lastRender)

					if collect != nil {
						for _, v := range fr.Viols {
							*collect = append(*collect, pv{v.Sig, v.Detail})
						}
					}

					if fr.Rebuild {
						poisoned = true

						break
					}
				}

				if !ft.fired || len(ft.trace) <= k || !sameCons(ft.trace[:k+1], prefixTrace[:k+1]) {
					return fmt.Errorf("replay diverged: prefix %v plan k=%d %s: fired=%v trace %v, fault-free trace %v",
						histStrings(ok, prefix), k, en, ft.fired, traceStrings(ft.trace), traceStrings(prefixTrace))
				}

				return nil
			}

			var pviols []pv

			if err := setup(&pviols); err != nil {
				r.Err = err.Error()

				return
			}

			plan := map[string]any{"k": k, "fn": prefixTrace[k].Fn.String(), "params": prefixTrace[k].P, "during_call": prefixTrace[k].Call, "part": prefixTrace[k].Part, "err": en}
			class := ft.faultClass

			for _, v := range pviols {
				v := v
				pres := append([]string{}, presults...)
				book.add(v.sig, func() any {
					return map[string]any{
						"system": ok.baseName, "stack": ok.stack, "plan": planWhen("fault", ok.when), "history": histStrings(ok, prefix), "fault": plan,
						"fault_free_trace": traceStrings(prefixTrace), "results": pres, "detail": v.detail,
					}
				})
			}

			if poisoned {
				continue // the faulted prefix ended in a panic/deadlock (reported above): nothing can follow
			}

			fkey := ft.key()
			tlen := len(ft.trace)

			for _, o := range applicable {
				ft.trace = ft.trace[:tlen]
				ft.nsteps = len(prefix)

				fr := ft.Step(o)
				if fr.Outcome == "n/a" {
					continue // the object the letter needs does not exist after the failure
				}

				r.FaultRuns++
				r.BasePanics += ft.basePanics
				ft.basePanics = 0
				r.Injected[int(prefixTrace[k].Fn)]++

				if class != "" {
					r.Classes[class]++
				}

				for _, v := range fr.Viols {
					v := v
					hist := append(append([]int{}, prefix...), o)
					res := append(append([]string{}, presults...), ft.lastRender)
					faulted := traceStrings(ft.trace)
					book.add(v.Sig, func() any {
						return map[string]any{
							"system": ok.baseName, "stack": ok.stack, "plan": planWhen("fault", ok.when), "history": histStrings(ok, hist), "fault": plan,
							"fault_free_trace": traceStrings(fulls[o]), "faulted_trace": faulted,
							"results": res, "detail": v.Detail,
						}
					})
				}

				if fr.Rebuild || fr.Broken || ft.key() != fkey {
					if err := setup(nil); err != nil {
						r.Err = err.Error()

						return
					}

					if k2 := ft.key(); k2 != fkey {
						r.Err = fmt.Sprintf("replay divergence: faulted prefix %v (k=%d %s) reached a different state on re-execution", histStrings(ok, prefix), k, en)

						return
					}
				}
			}
		}
	}

	for fn := range ok.invoked {
		r.Invoked[int(fn)] = true
	}

	for _, k := range book.order {
		r.Viols = append(r.Viols, *book.m[k])
	}

	return r
}

// ---------------------------------------------------------------------------
// Handle programmes: "an injected failure has no effect" on the state of a
// handle. The history tree above reaches a File method that is made to fail
// only as the LAST call of a history of length 2 (open; F), so nothing is ever
// done with the handle afterwards. Here, for one opening prefix
// (open, or Sub;open, optionally followed by one File call "pre" that moves the
// handle out of its initial state), for EVERY File method F of the alphabet,
// every consultation k of F and every error E:
//
//	prefix; F with consultation k returning E; G; Close
//
// for EVERY File method G of the alphabet (one execution per G on a fresh
// instance; for G = Close the final Close is the "closed twice" case and is
// applied as well). The failure function lets everything but consultation k
// through. Oracle: stepFault - the twin base handle, on which F was not
// executed, answers G and Close exactly as the FailFile does, and the base
// states stay equal.

// handleLetters returns the letters that make up the handle programmes of
// slot 0: opening prefixes, File methods, and the index of Close.
func handleLetters(s *sys, pres []string) (prefixes [][]int, fileOps []int, closeOp int) {
	closeOp = -1

	var opens [][]int

	// opens through the pooled Sub file system: through Sub("/") of the FailFS and,
	// depth of derivation (family.go), through Sub("/") of that view - the handle
	// of a grandchild; a system that starts with the pool filled opens through
	// what is there
	subRoot, reSub := -1, -1

	for i, o := range s.ops {
		if o.Store == "sub" && o.C.A == "/" {
			if o.Thru == "sub" {
				reSub = i
			} else {
				subRoot = i
			}
		}
	}

	for i, o := range s.ops {
		switch {
		case o.Thru == "file" && o.Slot == 0:
			fileOps = append(fileOps, i)

			if o.C.Op == "Close" {
				closeOp = i
			}
		case o.Store == "file" && o.Slot == 0 && o.Thru == "failfs":
			// a family whose function is installed through the root: the opens on the
			// root are those of the engine without family
			if s.fam == nil || s.fam.Target != "root" {
				opens = append(opens, []int{i})
			}
		case o.Store == "file" && o.Slot == 0 && o.Thru == "sub" && s.fam != nil:
			opens = append(opens, []int{i})
		case o.Store == "file" && o.Slot == 0 && o.Thru == "sub" && subRoot >= 0:
			opens = append(opens, []int{subRoot, i})

			if reSub >= 0 {
				opens = append(opens, []int{subRoot, reSub, i})
			}
		}
	}

	for _, op := range opens {
		prefixes = append(prefixes, op)

		for _, f := range fileOps {
			for _, p := range pres {
				if p == "*" || p == fileCallString(s.ops[f].C) {
					prefixes = append(prefixes, append(append([]int{}, op...), f))

					break
				}
			}
		}
	}

	return prefixes, fileOps, closeOp
}

func expandHandle(ok, ft *sys, prefix []int, lo, hi int, gAll bool) (r freply) {
	r.Covered, r.Injected, r.Invoked = map[int]int{}, map[int]int{}, map[int]bool{}
	r.Classes, r.Outcomes, r.TraceLens = map[string]int{}, map[string]int{}, map[int]int{}

	book := &violBook{m: map[string]*fviol{}}

	defer func() {
		for _, k := range book.order {
			r.Viols = append(r.Viols, *book.m[k])
		}
	}()

	_, fileOps, closeOp := handleLetters(ok, nil)

	// The failing call F ranges over the WHOLE File alphabet, the neutral argument
	// tuples (ops.go, fileNoopCalls: Seek(0,SeekCurrent), Truncate(current size),
	// empty buffers ...) included: a shortcut for them sits in F, in front of the
	// consultation. As the follow-up call G a neutral tuple shows nothing of the
	// handle that its sibling with an effect (and the offset/Stat probe of the state
	// key) does not show, so the quick tier follows up with the other letters only;
	// the thorough tier (gAll) with all of them.
	followOps := fileOps

	if !gAll {
		followOps = nil

		for _, g := range fileOps {
			if !isNoopFileCall(ok.ops[g].C) {
				followOps = append(followOps, g)
			}
		}
	}

	replayPrefix := func() error {
		if err := ok.Reset(); err != nil {
			return err
		}

		for _, p := range prefix {
			ok.Step(p)
		}

		return nil
	}

	if err := replayPrefix(); err != nil {
		r.Err = err.Error()

		return
	}

	if ok.impl.files[0] == nil {
		if lo == 0 {
			r.NA++ // the opening call does not succeed from the initial state: no handle, no programme
		}

		return
	}

	baseKey := ok.Key()
	plen := len(ok.trace)

	type pv struct {
		sig    map[string]string
		detail string
	}

	for fi, f := range fileOps {
		if hi > 0 && (fi < lo || fi >= hi) {
			continue
		}

		ok.trace = ok.trace[:plen]
		ok.nsteps = len(prefix)

		sr := ok.Step(f)
		if sr.Outcome == "n/a" {
			continue
		}

		r.HProgs++
		r.Outcomes[sr.Outcome]++

		full := append([]consRec{}, ok.trace...)
		histF := append(append([]int{}, prefix...), f)
		freeRes := ok.lastRender

		for _, v := range sr.Viols {
			v := v
			book.add(v.Sig, func() any {
				return map[string]any{
					"system": ok.baseName, "stack": ok.stack, "plan": planWhen("okfunc", ok.when), "history": histStrings(ok, histF),
					"trace": traceStrings(full), "result_of_last_call": freeRes, "detail": v.Detail,
				}
			})
		}

		if sr.Changed || sr.Broken || sr.Rebuild {
			if err := replayPrefix(); err != nil {
				r.Err = err.Error()

				return
			}

			if k := ok.Key(); k != baseKey {
				r.Err = fmt.Sprintf("replay divergence: prefix %v reached a different state on re-execution", histStrings(ok, prefix))

				return
			}
		}

		for k := plen; k < len(full); k++ {
			for _, en := range errNames {
				var (
					presults []string
					poisoned bool
				)

				// fresh instances; prefix; F with consultation k returning E
				setup := func(collect *[]pv) error {
					presults, poisoned = presults[:0], false

					if err := ft.resetFault(k, en); err != nil {
						return err
					}

					for _, p := range histF {
						fr := ft.Step(p)
						presults = append(presults, ft.lastRender)

						if collect != nil {
							for _, v := range fr.Viols {
								*collect = append(*collect, pv{v.Sig, v.Detail})
							}
						}

						if fr.Rebuild {
							poisoned = true

							break
						}
					}

					if !ft.fired || len(ft.trace) <= k || !sameCons(ft.trace[:k+1], full[:k+1]) {
						return fmt.Errorf("replay diverged: handle programme %v plan k=%d %s: fired=%v trace %v, fault-free trace %v",
							histStrings(ok, histF), k, en, ft.fired, traceStrings(ft.trace), traceStrings(full))
					}

					return nil
				}

				plan := map[string]any{"k": k, "fn": full[k].Fn.String(), "params": full[k].P, "during_call": full[k].Call, "part": full[k].Part, "err": en}
				first := true

				for _, g := range followOps {
					var pviols []pv

					collect := &pviols
					if !first {
						collect = nil // the violations of prefix;F were booked with the first G
					}

					if err := setup(collect); err != nil {
						r.Err = err.Error()

						return
					}

					if first {
						first = false

						for _, v := range pviols {
							v := v
							pres := append([]string{}, presults...)
							book.add(v.sig, func() any {
								return map[string]any{
									"system": ok.baseName, "stack": ok.stack, "plan": planWhen("fault", ok.when), "history": histStrings(ok, histF), "fault": plan,
									"fault_free_trace": traceStrings(full), "results": pres, "detail": v.detail,
								}
							})
						}
					}

					if poisoned {
						break // prefix;F ended in a panic/deadlock (reported above): nothing can follow
					}

					hist := append([]int{}, histF...)
					res := append([]string{}, presults...)

					for _, c := range []int{g, closeOp} {
						if c < 0 {
							continue
						}

						hist = append(hist, c)

						fr := ft.Step(c)
						res = append(res, ft.lastRender)

						for _, v := range fr.Viols {
							v := v
							h, rs, faulted := append([]int{}, hist...), append([]string{}, res...), traceStrings(ft.trace)
							book.add(v.Sig, func() any {
								return map[string]any{
									"system": ok.baseName, "stack": ok.stack, "plan": planWhen("fault", ok.when), "history": histStrings(ok, h), "fault": plan,
									"fault_free_trace": traceStrings(full), "faulted_trace": faulted,
									"results": rs, "detail": v.Detail,
								}
							})
						}

						if fr.Rebuild {
							break
						}
					}

					r.HRuns++
					r.FaultRuns++
					r.BasePanics += ft.basePanics
					ft.basePanics = 0
					r.Injected[int(full[k].Fn)]++

					if ft.twin != nil && !ft.twinOff {
						r.HFollowed++
					}

					if ft.faultClass != "" {
						r.Classes[ft.faultClass]++
					}

					if len(r.Samples) < 1 && ok.ops[f].C.Op == "Close" && ok.ops[g].C.Op == "Write" {
						b, _ := json.Marshal(map[string]any{
							"system": ok.baseName, "stack": ok.stack, "history": histStrings(ok, hist), "fault": plan, "results": res,
							"class": ft.faultClass, "twin_followed_to_the_end": ft.twin != nil && !ft.twinOff,
						})
						r.Samples = append(r.Samples, b)
					}
				}
			}
		}
	}

	return r
}

func sameCons(a, b []consRec) bool {
	if len(a) != len(b) {
		return false
	}

	for i := range a {
		if a[i].Fn != b[i].Fn || a[i].P != b[i].P || a[i].Call != b[i].Call || a[i].Part != b[i].Part {
			return false
		}
	}

	return true
}

// ---------------------------------------------------------------------------
// parent side

type fworker struct {
	cmd *exec.Cmd
	enc *gob.Encoder
	dec *gob.Decoder
	in  io.WriteCloser
	bw  *bufio.Writer
}

func startFaultWorker(spec string) (*fworker, error) {
	args := append([]string{}, os.Args[1:]...)
	args = append(args, faultWorkerArg, spec)

	cmd := exec.Command(os.Args[0], args...)
	cmd.Stderr = os.Stderr
	cmd.Env = append(os.Environ(), "GOMAXPROCS=2")

	in, err := cmd.StdinPipe()
	if err != nil {
		return nil, err
	}

	out, err := cmd.StdoutPipe()
	if err != nil {
		return nil, err
	}

	if err := cmd.Start(); err != nil {
		return nil, err
	}

	bw := bufio.NewWriter(in)

	return &fworker{cmd: cmd, enc: gob.NewEncoder(bw), dec: gob.NewDecoder(bufio.NewReader(out)), in: in, bw: bw}, nil
}

func (w *fworker) do(t ftask) (freply, error) {
	var r freply

	if err := w.enc.Encode(&t); err != nil {
		return r, err
	}

	if err := w.bw.Flush(); err != nil {
		return r, err
	}

	err := w.dec.Decode(&r)

	return r, err
}

func (w *fworker) stop() {
	_ = w.enc.Encode(&ftask{Quit: true})
	_ = w.bw.Flush()
	_ = w.in.Close()

	done := make(chan struct{})

	go func() { _ = w.cmd.Wait(); close(done) }()

	select {
	case <-done:
	case <-time.After(5 * time.Second):
		_ = w.cmd.Process.Kill()
		<-done
	}
}

// faultEngine enumerates the histories of one base level by level.
type faultEngine struct {
	Base       string `json:"base"`
	Stack      string `json:"stack,omitempty"` // stack.go; "": the FailFS is built on the base itself
	When       string `json:"when,omitempty"`  // when.go; "": the function of the plan is installed before the first call
	probe      *sys
	frontier   [][]int
	seen       map[string]bool
	level      int    // prefixes of this length are next
	HistLen    int    `json:"histories_complete_up_to_length"`
	Partial    string `json:"partial,omitempty"`
	Exhaustive bool   `json:"exhaustive"`
	States     int    `json:"distinct_states"`
	Histories  int    `json:"histories"`
	NA         int    `json:"letters_not_applicable"`
	FaultFree  int    `json:"fault_free_runs"`
	FaultRuns  int    `json:"single_fault_runs"`
	HPrefixes  int    `json:"handle_programme_prefixes"`
	HProgs     int    `json:"handle_programmes_fault_free_runs"`
	HRuns      int    `json:"handle_programmes_single_fault_runs"`
	HFollowed  int    `json:"handle_programmes_twin_followed_to_the_end"`
	HPartial   string `json:"handle_programmes_partial,omitempty"`
	BasePanics int    `json:"panics_inside_the_base_after_a_fault_not_attributed"`
	Crashes    int    `json:"worker_crashes"`
	HarnessErr string `json:"harness_error,omitempty"`

	Covered   map[avfs.FnVFS]int  `json:"-"`
	Injected  map[avfs.FnVFS]int  `json:"-"`
	Invoked   map[avfs.FnVFS]bool `json:"-"`
	Classes   map[string]int      `json:"-"`
	Outcomes  map[string]int      `json:"-"`
	TraceLens map[int]int         `json:"-"`
	Samples   []json.RawMessage   `json:"-"`
}

func newFaultEngine(base, stack, when string) *faultEngine {
	return &faultEngine{
		Base: base, Stack: stack, When: when, probe: newSys(base, planWhen("okfunc", when), stack), frontier: [][]int{nil}, seen: map[string]bool{}, Exhaustive: true,
		Covered: map[avfs.FnVFS]int{}, Injected: map[avfs.FnVFS]int{}, Invoked: map[avfs.FnVFS]bool{},
		Classes: map[string]int{}, Outcomes: map[string]int{}, TraceLens: map[int]int{},
	}
}

func (fe *faultEngine) crashSig() map[string]string {
	m := map[string]string{"base": fe.Base, "plan": "fault", "kind": "worker-crash"}
	if fe.Stack != "" {
		m["stack"] = fe.Stack
	}

	if fe.When != "" {
		m["when"] = fe.When
	}

	return m
}

// label names the engine in the progress lines.
func (fe *faultEngine) label() string {
	l := fe.Base

	if fe.Stack != "" {
		l += "/" + fe.Stack
	}

	if fe.When != "" {
		l += "@" + fe.When
	}

	return l
}

// spec names the systems of the engine to its workers.
func (fe *faultEngine) spec() string { return fe.Base + "/" + fe.Stack + "/" + fe.When }

func (fe *faultEngine) workLeft() float64 {
	return float64(len(fe.frontier)) * float64(fe.probe.NumOps())
}

// runPool hands the tasks to one worker subprocess per CPU and merges the
// replies (counters, violations) in; each(task index, reply) sees every reply
// under the lock. It returns how many tasks were handed out and whether the
// deadline cut the list short.
func (fe *faultEngine) runPool(tasks []ftask, deadline time.Time, report func(sig map[string]string, replay any, count int),
	each func(i int, r *freply),
) (handed int, aborted bool) {
	var (
		mu  sync.Mutex
		wg  sync.WaitGroup
		idx int
	)

	nw := runtime.NumCPU()
	if nw > len(tasks) {
		nw = len(tasks)
	}

	for wi := 0; wi < nw; wi++ {
		wg.Add(1)

		go func() {
			defer wg.Done()

			w, err := startFaultWorker(fe.spec())
			if err != nil {
				mu.Lock()
				fe.HarnessErr = err.Error()
				mu.Unlock()

				return
			}

			defer func() { w.stop() }()

			for {
				mu.Lock()

				if idx >= len(tasks) || fe.HarnessErr != "" || (!deadline.IsZero() && time.Now().After(deadline)) {
					if idx < len(tasks) {
						aborted = true
					}

					mu.Unlock()

					return
				}

				ti := idx
				idx++
				mu.Unlock()

				r, err := w.do(tasks[ti])
				if err != nil {
					mu.Lock()
					fe.Crashes++
					report(fe.crashSig(),
						map[string]any{"system": fe.Base, "stack": fe.Stack, "when": fe.When, "prefix": histStrings(fe.probe, tasks[ti].Prefix), "detail": "worker process died while enumerating the histories with this prefix: " + err.Error()}, 1)
					mu.Unlock()

					_ = w.cmd.Process.Kill()
					_ = w.cmd.Wait()

					if w, err = startFaultWorker(fe.spec()); err != nil {
						mu.Lock()
						fe.HarnessErr = err.Error()
						mu.Unlock()

						return
					}

					continue
				}

				mu.Lock()

				if r.Err != "" {
					fe.HarnessErr = r.Err
					mu.Unlock()

					return
				}

				fe.Histories += r.Histories
				fe.FaultFree += r.Histories
				fe.NA += r.NA
				fe.FaultRuns += r.FaultRuns
				fe.HProgs += r.HProgs
				fe.HRuns += r.HRuns
				fe.HFollowed += r.HFollowed
				fe.BasePanics += r.BasePanics

				for k, n := range r.Covered {
					fe.Covered[avfs.FnVFS(k)] += n
				}

				for k, n := range r.Injected {
					fe.Injected[avfs.FnVFS(k)] += n
				}

				for k := range r.Invoked {
					fe.Invoked[avfs.FnVFS(k)] = true
				}

				for k, n := range r.Classes {
					fe.Classes[k] += n
				}

				for k, n := range r.Outcomes {
					fe.Outcomes[k] += n
				}

				for k, n := range r.TraceLens {
					fe.TraceLens[k] += n
				}

				for _, v := range r.Viols {
					report(v.Sig, json.RawMessage(v.Replay), v.Count)
				}

				each(ti, &r)

				mu.Unlock()
			}
		}()
	}

	wg.Wait()

	return idx, aborted
}

// runLevel executes all histories of length level+1 (every prefix of the
// frontier extended by every letter, with all their single-fault plans).
func (fe *faultEngine) runLevel(deadline time.Time, report func(sig map[string]string, replay any, count int)) {
	if len(fe.frontier) == 0 || fe.HarnessErr != "" || !fe.Exhaustive {
		return
	}

	var next [][]int

	// one task per prefix; a frontier shorter than four tasks per worker (the
	// first level has one prefix) is cut further into slices of the alphabet
	nl := fe.probe.NumOps()
	slices := 1

	if want := 4 * runtime.NumCPU(); len(fe.frontier) < want {
		slices = (want + len(fe.frontier) - 1) / len(fe.frontier)
	}

	if slices > nl {
		slices = nl
	}

	var tasks []ftask

	for _, p := range fe.frontier {
		if slices == 1 {
			tasks = append(tasks, ftask{Prefix: p})

			continue
		}

		for c := 0; c < slices; c++ {
			if lo, hi := c*nl/slices, (c+1)*nl/slices; hi > lo {
				tasks = append(tasks, ftask{Prefix: p, Lo: lo, Hi: hi})
			}
		}
	}

	samples := map[int][][]byte{}

	idx, aborted := fe.runPool(tasks, deadline, report, func(i int, r *freply) {
		if len(fe.seen) == 0 {
			fe.seen[r.InitKey] = true
			fe.States++
		}

		if len(r.Samples) > 0 && i < 64 {
			samples[i] = r.Samples
		}

		for _, sc := range r.Succ {
			if fe.seen[sc.Key] {
				continue
			}

			fe.seen[sc.Key] = true
			fe.States++

			if !sc.Broken {
				next = append(next, append(append([]int{}, tasks[i].Prefix...), sc.Op))
			}
		}
	})

	// samples of the lowest tasks: the same choice whatever the order of the replies
	for i := 0; i < 64; i++ {
		for _, sm := range samples[i] {
			if len(fe.Samples) < 2*(fe.level+1) {
				fe.Samples = append(fe.Samples, json.RawMessage(sm))
			}
		}
	}

	if fe.HarnessErr != "" {
		fe.Exhaustive = false

		return
	}

	if aborted {
		fe.Exhaustive = false
		fe.Partial = fmt.Sprintf("histories of length %d: %d of %d tasks (%d prefixes, %d slices of the alphabet each) done when the budget ended", fe.level+1, idx, len(tasks), len(fe.frontier), slices)

		return
	}

	fe.level++
	fe.HistLen = fe.level

	sort.Slice(next, func(i, j int) bool {
		a, b := next[i], next[j]
		for x := 0; x < len(a) && x < len(b); x++ {
			if a[x] != b[x] {
				return a[x] < b[x]
			}
		}

		return len(a) < len(b)
	})

	fe.frontier = next
}

// runHandle executes the handle programmes (expandHandle) of every opening
// prefix: pool opens of slot 0 (directly, through Sub("/") and through
// Sub("/") of Sub("/"); a system that starts with a family, family.go, through
// the view its pool holds), alone and followed by each File call listed in
// pres ("*": all of them).
//
// An engine with a schedule (when.go: "objects first, function afterwards")
// runs every programme once per position at which the function of the plan can
// be installed inside its opening prefix: after the Sub, after the open, after
// the pre call - the handle (and the Sub file system it came from) exists
// before the function that has to govern it. An engine with a family and no
// schedule does both: function first, and function at every position inside.
// handleFollowAll: the follow-up call G of the handle programmes ranges over the
// neutral argument tuples too (set by main for the thorough tier; see expandHandle).
var handleFollowAll bool

func (fe *faultEngine) runHandle(pres []string, deadline time.Time, report func(sig map[string]string, replay any, count int)) {
	if fe.HarnessErr != "" {
		return
	}

	prefixes, fileOps, _ := handleLetters(fe.probe, pres)

	var whole, tasks []ftask

	sched, fam := splitWhen(fe.When)

	for _, p := range prefixes {
		if sched == "" {
			// the function of the plan is there before the first call; an engine with a
			// family (family.go) goes on to install it inside the prefix as well
			whole = append(whole, ftask{Prefix: p, Handle: true, GAll: handleFollowAll})

			if fam == "" {
				continue
			}
		}

		for late := 1; late <= len(p); late++ {
			whole = append(whole, ftask{Prefix: p, Handle: true, Late: late, GAll: handleFollowAll})
		}
	}

	// fewer than four tasks per worker: cut each into slices of the File methods F
	nf, slices := len(fileOps), 1

	if want := 4 * runtime.NumCPU(); len(whole) > 0 && len(whole) < want {
		slices = (want + len(whole) - 1) / len(whole)
	}

	if slices > nf {
		slices = nf
	}

	for _, t := range whole {
		if slices <= 1 {
			tasks = append(tasks, t)

			continue
		}

		for c := 0; c < slices; c++ {
			if t.Lo, t.Hi = c*nf/slices, (c+1)*nf/slices; t.Hi > t.Lo {
				tasks = append(tasks, t)
			}
		}
	}

	var (
		hsample json.RawMessage
		hfrom   int
	)

	idx, aborted := fe.runPool(tasks, deadline, report, func(i int, r *freply) {
		if len(r.Samples) > 0 && (hsample == nil || i < hfrom) {
			hsample, hfrom = json.RawMessage(r.Samples[0]), i // lowest task: the same choice whatever the order of the replies
		}
	})

	fe.HPrefixes = len(whole)

	if hsample != nil {
		fe.Samples = append(fe.Samples, hsample)
	}

	if fe.HarnessErr != "" {
		fe.Exhaustive = false

		return
	}

	if aborted {
		fe.Exhaustive = false
		fe.HPartial = fmt.Sprintf("%d of %d tasks (%d opening prefixes, %d slices of the File methods each) done when the budget ended", idx, len(tasks), len(whole), slices)
	}
}
