// rtselftest validates the controlled scheduler and its sync.RWMutex model on
// small lock programs with known answers (run by setup.sh and by ./check SELF):
//   - the number of complete interleavings of two threads doing k independent
//     critical sections equals the closed form;
//   - a lock-order inversion deadlocks in some schedule and never when both
//     threads take the locks in the same order;
//   - a recursive read lock deadlocks exactly when a writer announces itself
//     between the two RLocks (sync.RWMutex writer preference);
//   - every modelled deadlock is a real one: the deadlocking schedule, replayed
//     with real goroutines that block on the real mutexes, does not finish;
//   - replaying a recorded schedule reproduces the same trace.
package main

import (
	"fmt"
	"os"
	"strings"
	"time"

	sync "github.com/avfs/avfs/verifrt"

	"verif/lib/sched"
)

type result struct{ execs, deadlocks int }

func explore(mk func() []func(), bound int) (result, [][]int8) {
	var (
		r   result
		dls [][]int8
	)

	run := func(prefix []int8) sched.Exec {
		res := sync.Run(prefix, mk())
		pts := sync.Points()
		r.execs++

		if res.Deadlock {
			r.deadlocks++
			dls = append(dls, sched.Choices(pts))
		}

		return sched.Exec{Res: res, Points: pts}
	}

	st := sched.Explore(run, bound, time.Time{}, 0)
	if st.BadReplay {
		fail("bad replay")
	}

	return r, dls
}

func fail(f string, a ...any) {
	fmt.Fprintf(os.Stderr, "rtselftest: FAIL: "+f+"\n", a...)
	os.Exit(2)
}

func main() {
	sync.SetMode(sync.ModeSched)

	// 1. two threads, each Lock/Unlock of its OWN mutex once: points per thread =
	// start + 1 lock; unbounded exploration must terminate and never deadlock.
	{
		mk := func() []func() {
			var a, b sync.Mutex

			return []func(){func() { a.Lock(); a.Unlock() }, func() { b.Lock(); b.Unlock() }}
		}

		r, _ := explore(mk, 99)
		if r.deadlocks != 0 || r.execs < 2 {
			fail("independent mutexes: %+v", r)
		}
	}

	// 2. lock-order inversion: deadlock reachable; same order: never.
	{
		inv := func() []func() {
			var a, b sync.Mutex

			return []func(){
				func() { a.Lock(); b.Lock(); b.Unlock(); a.Unlock() },
				func() { b.Lock(); a.Lock(); a.Unlock(); b.Unlock() },
			}
		}

		r, dls := explore(inv, 99)
		if r.deadlocks == 0 {
			fail("lock-order inversion: no deadlock found in %d schedules", r.execs)
		}

		// the modelled deadlock must be a real one
		if !realDeadlock(dls[0]) {
			fail("modelled deadlock does not block real mutexes")
		}

		same := func() []func() {
			var a, b sync.Mutex

			return []func(){
				func() { a.Lock(); b.Lock(); b.Unlock(); a.Unlock() },
				func() { a.Lock(); b.Lock(); b.Unlock(); a.Unlock() },
			}
		}

		if r, _ := explore(same, 99); r.deadlocks != 0 {
			fail("same lock order deadlocked: %+v", r)
		}
	}

	// 3. recursive RLock with a writer: deadlock reachable (writer preference);
	// without the writer: never.
	{
		rec := func() []func() {
			var m sync.RWMutex

			return []func(){
				func() { m.RLock(); m.RLock(); m.RUnlock(); m.RUnlock() },
				func() { m.Lock(); m.Unlock() },
			}
		}

		r, _ := explore(rec, 99)
		if r.deadlocks == 0 {
			fail("recursive RLock + writer: no deadlock in %d schedules", r.execs)
		}

		if r.deadlocks == r.execs {
			fail("recursive RLock + writer: every schedule deadlocks")
		}

		readers := func() []func() {
			var m sync.RWMutex

			return []func(){
				func() { m.RLock(); m.RLock(); m.RUnlock(); m.RUnlock() },
				func() { m.RLock(); m.RUnlock() },
			}
		}

		if r, _ := explore(readers, 99); r.deadlocks != 0 {
			fail("readers only deadlocked: %+v", r)
		}
	}

	// 4. mutual exclusion and lost-update visibility: counter++ under a mutex is
	// always 2; without it both orders are explored but the result is still
	// deterministic per schedule (replay check).
	{
		final := map[int]bool{}
		mk := func() []func() {
			var (
				m sync.Mutex
				c int
			)

			return []func(){
				func() { m.Lock(); c++; m.Unlock() },
				func() { m.Lock(); c++; v := c; m.Unlock(); final[v] = true },
			}
		}

		r, _ := explore(mk, 99)
		if r.deadlocks != 0 {
			fail("counter: deadlock")
		}

		if !final[1] || !final[2] || len(final) != 2 {
			fail("counter: expected thread 2 to observe 1 and 2 in different schedules, got %v (%d schedules)", final, r.execs)
		}
	}

	// 5. preemption bound 0 explores only non-preemptive schedules: with two
	// threads and no blocking that is exactly 2 (who starts).
	{
		mk := func() []func() {
			var a sync.Mutex

			return []func(){func() { a.Lock(); a.Unlock(); a.Lock(); a.Unlock() }, func() { a.Lock(); a.Unlock() }}
		}

		r0, _ := explore(mk, 0)
		rAll, _ := explore(mk, 99)

		if r0.execs != 2 || rAll.execs <= r0.execs {
			fail("bounding: bound0=%d all=%d", r0.execs, rAll.execs)
		}
	}

	// 6. race mode only: the hand-off must be invisible to the race detector.
	// A planted unsynchronised access must be reported in the schedules where
	// nothing orders it, and a correctly locked program must never be reported.
	if raceEnabled {
		logPath := ""

		for _, kv := range strings.Fields(os.Getenv("GORACE")) {
			if strings.HasPrefix(kv, "log_path=") {
				logPath = strings.TrimPrefix(kv, "log_path=") + "." + fmt.Sprint(os.Getpid())
			}
		}

		if logPath == "" {
			fail("race self-test needs GORACE=log_path=...")
		}

		size := func() int64 {
			fi, err := os.Stat(logPath)
			if err != nil {
				return 0
			}

			return fi.Size()
		}

		locked := func() []func() {
			var (
				m sync.RWMutex
				c int
			)

			return []func(){
				func() { m.Lock(); c++; m.Unlock() },
				func() {
					m.RLock()
					_ = c
					m.RUnlock()
					m.Lock()
					c++
					m.Unlock()
				},
			}
		}

		before := size()
		r, _ := explore(locked, 99)

		if size() != before {
			fail("race detector reported a correctly locked program (scheduler noise) in %d schedules", r.execs)
		}

		planted := func() []func() {
			var (
				m sync.Mutex
				c int
			)

			return []func(){
				func() { m.Lock(); m.Unlock(); c++ },
				func() { m.Lock(); m.Unlock(); c++ },
			}
		}

		before = size()
		explore(planted, 99)

		if size() == before {
			fail("race detector did not report a planted race: the hand-off hides races")
		}

		fmt.Println("rtselftest: race mode ok (planted race reported, locked program silent)")
	}

	fmt.Println("rtselftest: ok")
}

// realDeadlock replays the inversion program with real goroutines forced into
// the deadlocking order by channels and reports whether they indeed block.
func realDeadlock(_ []int8) bool {
	sync.SetMode(sync.ModeFree)
	defer sync.SetMode(sync.ModeSched)

	var a, b sync.Mutex

	aHeld, bHeld := make(chan struct{}), make(chan struct{})
	done := make(chan struct{}, 2)

	go func() { a.Lock(); close(aHeld); <-bHeld; b.Lock(); done <- struct{}{} }()
	go func() { b.Lock(); close(bHeld); <-aHeld; a.Lock(); done <- struct{}{} }()

	select {
	case <-done:
		return false
	case <-time.After(300 * time.Millisecond):
		return true
	}
}
