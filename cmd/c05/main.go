// c05: the namespace is always a well-formed tree with exact link counts.
// Engine A (bfs) over histories of namespace calls, including invalid and
// aliased operands, on MemFS and OrefaFS; oracle = structural invariants
// (injected node-graph checker + public-API walk) after every call, plus
// frame conditions (a failed call changes nothing, a successful call changes
// only the entries it names).
package main

import (
	"encoding/json"
	"flag"
	"fmt"
	"io/fs"
	"os"
	"os/exec"
	"path/filepath"
	"sort"
	"strconv"
	"strings"
	"time"

	"github.com/avfs/avfs"
	"github.com/avfs/avfs/verifrt"
	"github.com/avfs/avfs/vfs/memfs"
	"github.com/avfs/avfs/vfs/orefafs"

	"verif/lib/bfs"
	"verif/lib/concfs"
	"verif/lib/ev"
	"verif/lib/fsx"
	"verif/lib/kf"
)

type hooked interface {
	avfs.VFS
	VerifCheck() []string
	VerifDump() []string
	CurDir() string
}

type sys struct {
	name    string // MemFS | OrefaFS
	win     bool
	tree    bool // start from a non-initial state: /a/{a (file, second name /b)}
	v       hooked
	ops     []fsx.Call
	tier    string
	rnd     int
	root    string // "/" or `C:\`
	sep     string
	lastKey string
}

func (s *sys) NumOps() int           { return len(s.ops) }
func (s *sys) OpString(i int) string { return s.ops[i].String() }
func (s *sys) Close()                {}

func (s *sys) Reset() error {
	s.rnd = 0
	verifrt.SetRandom(func() string { s.rnd++; return strconv.Itoa(s.rnd % 2) })

	ost := avfs.OsLinux
	if s.win {
		ost = avfs.OsWindows
	}

	tmp := "/tmp"
	if s.win {
		tmp = `C:\tmp`
	}

	dirs := []avfs.DirInfo{{Path: tmp, Perm: 0o777}}

	k, msg := fsx.Guard(func() {
		switch s.name {
		case "MemFS":
			s.v = memfs.NewWithOptions(&memfs.Options{OSType: ost, SystemDirs: dirs})
		case "OrefaFS":
			s.v = orefafs.NewWithOptions(&orefafs.Options{OSType: ost, SystemDirs: dirs})
		}
	})
	if k != "" {
		return fmt.Errorf("constructor of %s: %s %s", s.name, k, msg)
	}

	if s.v.OSType() != ost {
		return fmt.Errorf("constructor of %s did not produce OS type %v (got %v)", s.name, ost, s.v.OSType())
	}

	_ = s.v.SetUMask(0o022)

	if s.tree {
		j := func(e ...string) string { return s.root + strings.Join(e, s.sep) }

		for _, c := range []fsx.Call{
			{Op: "Mkdir", A: j("a"), Perm: 0o755},
			{Op: "WriteFile", A: j("a", "a"), Data: "hello", Perm: 0o644},
			{Op: "Link", A: j("a", "a"), B: j("ab")},
		} {
			if r := fsx.Do(s.v, c); r.Kind != "ok" {
				return fmt.Errorf("setup %s: %s", c, r)
			}
		}
	}

	s.lastKey = s.key()

	return nil
}

func (s *sys) key() string {
	return strings.Join(s.v.VerifDump(), "\n") + "\ncwd=" + s.v.CurDir()
}

func (s *sys) Key() string { return s.lastKey }

// pathOf extracts the path of a VerifDump line (first field; directory lines
// end with the separator).
func pathOf(line string) string {
	i := strings.Index(line, " ")
	if i < 0 {
		return line
	}

	p := line[:i]
	if len(p) > 1 {
		p = strings.TrimSuffix(p, "/")
		p = strings.TrimSuffix(p, `\`)
	}

	return p
}

func classOf(line string) string {
	i := strings.Index(line, " #")
	if i < 0 {
		return ""
	}

	j := strings.Index(line[i+2:], " ")
	if j < 0 {
		return line[i+2:]
	}

	return line[i+2 : i+2+j]
}

func (s *sys) under(p, root string) bool {
	if root == "" {
		return false
	}

	// a volume root is spelled with its separator by Abs ("C:\\") and without
	// it in dump paths ("C:"): compare without trailing separators.
	if len(p) > 1 {
		p = strings.TrimSuffix(p, s.sep)
	}

	if len(root) > 1 {
		root = strings.TrimSuffix(root, s.sep)
	}

	if p == root {
		return true
	}

	r := root
	if !strings.HasSuffix(r, s.sep) {
		r += s.sep
	}

	return strings.HasPrefix(p, r)
}

// touched computes the set of paths a call names: operands as given (made
// absolute and cleaned) and what they resolve to.
func (s *sys) touched(c fsx.Call) []string {
	var t []string

	add := func(p string) {
		// the empty path is taken to name the current directory (generous)
		abs, _ := s.v.Abs(p)

		// a drive letter names its volume in either case: an operand spelled
		// `c:\x` names what `C:\x` names (generous: it can only allow more)
		for _, a := range uniq(abs, s.canonVol(abs)) {
			t = append(t, a)

			func() {
				defer func() { _ = recover() }()

				// a link target keeps the spelling it was made with
				for _, r := range fsx.ResolveLoose(s.v, a) {
					t = append(t, uniq(r, s.canonVol(r))...)
				}
			}()
		}
	}

	switch c.Op {
	case "Symlink":
		add(c.B)
	case "Rename", "Link":
		add(c.A)
		add(c.B)
	default:
		add(c.A)
	}

	return t
}

// canonVol spells the drive letter of a Windows path in the case the volume
// table of the instances uses (`C:`); other paths are returned as they are.
func (s *sys) canonVol(p string) string {
	if s.win && len(p) >= 2 && p[1] == ':' && p[0] >= 'a' && p[0] <= 'z' {
		return strings.ToUpper(p[:1]) + p[1:]
	}

	return p
}

func uniq(a, b string) []string {
	if a == b {
		return []string{a}
	}

	return []string{a, b}
}

func (s *sys) Step(op int) bsr {
	c := s.ops[op]
	before := s.v.VerifDump()
	cwdBefore := s.v.CurDir()
	tch := s.touched(c)

	res := fsx.Do(s.v, c)

	var viols []bfs.Viol

	sig := func(kind string, extra ...string) map[string]string {
		m := map[string]string{"fs": s.name, "os": s.osName(), "call": c.Op, "outcome": res.Kind, "kind": kind, "operands": s.operandClass(c, before)}
		for i := 0; i+1 < len(extra); i += 2 {
			m[extra[i]] = extra[i+1]
		}

		return m
	}

	poisoned := res.Kind == "PANIC" || res.Kind == "DEADLOCK"

	var after []string

	k, msg := fsx.Guard(func() { after = s.v.VerifDump() })
	if k != "" {
		viols = append(viols, bfs.Viol{Sig: sig("dump-" + k), Detail: msg})

		return bsr{Changed: true, Key: "broken:" + c.String(), Broken: true, Outcome: c.Op + "/" + res.Kind, Viols: viols}
	}

	changed := diffSets(before, after)

	// structural invariants on the node graph
	var bad []string

	k, msg = fsx.Guard(func() { bad = s.v.VerifCheck() })
	if k != "" {
		bad = []string{"checker " + k + ": " + msg}
	}

	for _, b := range bad {
		viols = append(viols, bfs.Viol{Sig: sig("invariant", "what", stripPaths(b)), Detail: b})
	}

	// the kind of an entry (directory, file, symbolic link) is decided when it
	// is made: no call changes it while the entry exists. Only Rename puts
	// another node at a path that stays occupied (its destination). Code that
	// keeps the kind in the same word as the permissions can lose it to a mode
	// argument; the tree is then no tree of directories any more (a file with
	// two names becomes one directory with two paths).
	var kcs []kindChange
	if len(changed) > 0 {
		kcs = kindChanges(before, after)
	}

	for _, kc := range kcs {
		if c.Op == "Rename" && res.Kind == "ok" && s.underAny(kc.path, tch) {
			continue
		}

		viols = append(viols, bfs.Viol{Sig: sig("entry-kind-changed", "from", kc.from, "to", kc.to), Detail: fmt.Sprintf("%q was %s and is %s after %s", kc.path, kc.from, kc.to, c)})
	}

	// frame conditions
	if res.Kind != "ok" {
		if len(changed) > 0 && c.Op != "RemoveAll" {
			viols = append(viols, bfs.Viol{Sig: sig("failed-call-changed-tree"), Detail: "result " + res.String() + " " + res.Msg + "; changed: " + strings.Join(changed, " | ")})
		}
	} else {
		if un := s.unrelated(c, tch, before, after, res); len(un) > 0 {
			viols = append(viols, bfs.Viol{Sig: sig("unrelated-entry-changed"), Detail: strings.Join(un, " | ")})
		}
	}

	// public API walk after every change of the tree. The dump shows the
	// permission and special bits of a mode word only, so a stray bit changes no
	// line: after a call whose mode argument carries more than those bits, the
	// entries it names are looked at even when the dump is the same.
	switch {
	case poisoned || len(bad) > 0:
	case len(changed) > 0:
		for _, b := range s.apiCheck(after) {
			viols = append(viols, bfs.Viol{Sig: sig("api", "what", stripPaths(b)), Detail: b})
		}
	case c.Mode != 0:
		kind := kindsOf(after)

		for i, t := range tch {
			if i > 0 && t == tch[i-1] {
				continue
			}

			if fi, err := s.v.Lstat(t); err == nil {
				if len(t) > 1 {
					t = strings.TrimSuffix(t, s.sep)
				}

				for _, b := range modeBad(kind, t, fi.Mode()) {
					viols = append(viols, bfs.Viol{Sig: sig("api", "what", stripPaths(b)), Detail: b})
				}
			}
		}
	}

	key := strings.Join(after, "\n") + "\ncwd=" + s.v.CurDir()
	ch := len(changed) > 0 || cwdBefore != s.v.CurDir()
	s.lastKey = key

	return bsr{
		Changed: ch, Key: key, Broken: len(bad) > 0 || poisoned, Rebuild: poisoned,
		Outcome: c.Op + "/" + res.Kind, Viols: viols,
	}
}

type bsr = bfs.StepResult

// kindOf extracts the kind of a VerifDump line (second field: d, f, l).
func kindOf(line string) string {
	i := strings.Index(line, " ")
	if i < 0 {
		return ""
	}

	rest := line[i+1:]
	if j := strings.Index(rest, " "); j >= 0 {
		rest = rest[:j]
	}

	return rest
}

type kindChange struct{ path, from, to string }

// kindsOf maps the paths of a dump to the kinds of their nodes. A path that
// two lines claim gets no kind: the entry with the empty name that OrefaFS
// makes of a root operand (known finding) is spelled like the root itself.
func kindsOf(dump []string) map[string]string {
	m := map[string]string{}

	for _, l := range dump {
		p, k := pathOf(l), kindOf(l)
		if _, dup := m[p]; dup || (k != "d" && k != "f" && k != "l") {
			k = ""
		}

		m[p] = k
	}

	return m
}

// kindChanges lists the paths present in both dumps with different kinds.
func kindChanges(before, after []string) []kindChange {
	kb, ka := kindsOf(before), kindsOf(after)

	var out []kindChange

	for _, l := range after {
		p := pathOf(l)
		if b, a := kb[p], ka[p]; b != "" && a != "" && b != a {
			out = append(out, kindChange{p, b, a})
		}
	}

	return out
}

func (s *sys) underAny(p string, roots []string) bool {
	for _, r := range roots {
		if s.under(p, r) {
			return true
		}
	}

	return false
}

func (s *sys) osName() string {
	if s.win {
		return "Windows"
	}

	return "Linux"
}

// stripPaths removes quoted strings and numbers so that a message becomes a class.
func stripPaths(m string) string {
	var b strings.Builder

	inq := false

	for i := 0; i < len(m); i++ {
		ch := m[i]

		switch {
		case ch == '"':
			inq = !inq

			if !inq {
				b.WriteString(`""`)
			}
		case inq:
		case ch >= '0' && ch <= '9':
			b.WriteByte('N')
		case ch == '[':
			// list of paths
			j := strings.IndexByte(m[i:], ']')
			if j < 0 {
				b.WriteByte(ch)
			} else {
				b.WriteString("[..]")
				i += j
			}
		default:
			b.WriteByte(ch)
		}
	}

	return b.String()
}

func diffSets(a, b []string) []string {
	am := map[string]bool{}
	for _, l := range a {
		am[l] = true
	}

	bm := map[string]bool{}
	for _, l := range b {
		bm[l] = true
	}

	var d []string

	for _, l := range a {
		if !bm[l] {
			d = append(d, "-"+l)
		}
	}

	for _, l := range b {
		if !am[l] {
			d = append(d, "+"+l)
		}
	}

	return d
}

// unrelated returns the changed dump lines that the call does not name.
func (s *sys) unrelated(c fsx.Call, tch, before, after []string, res fsx.Res) []string {
	changed := diffSets(before, after)
	if len(changed) == 0 {
		return nil
	}

	allowed := func(p string, added bool) bool {
		for _, t := range tch {
			if s.under(p, t) {
				return true
			}

			if c.Op == "MkdirAll" && added && s.under(t, p) {
				return true // ancestor created by MkdirAll
			}
		}

		switch c.Op {
		case "CreateTemp", "MkdirTemp":
			// the new name, directly under the directory operand
			if added && res.Val != "" {
				abs, _ := s.v.Abs(res.Val)
				if s.under(p, abs) {
					return true
				}
			}
		}

		return false
	}

	// hard-link classes touched through an allowed path
	classes := map[string]bool{}

	for _, l := range changed {
		if cl := classOf(l[1:]); cl != "" && allowed(pathOf(l[1:]), l[0] == '+') {
			classes[cl] = true
		}
	}
	// a class label is the smallest path of the class: members of the classes of
	// the operands (before or after) may legitimately change with them
	for _, set := range [][]string{before, after} {
		for _, l := range set {
			if cl := classOf(l); cl != "" {
				p := pathOf(l)
				for _, t := range tch {
					if s.under(p, t) {
						classes[cl] = true
					}
				}
			}
		}
	}

	// every name of a file whose hard-link class is touched may change with it
	// (link count, content, mode, and the class label itself when the name that
	// labelled the class goes away)
	member := map[string]bool{}

	for _, set := range [][]string{before, after} {
		for _, l := range set {
			if cl := classOf(l); cl != "" && classes[cl] {
				member[pathOf(l)] = true
			}
		}
	}

	var un []string

	for _, l := range changed {
		p := pathOf(l[1:])
		if allowed(p, l[0] == '+') || member[p] {
			continue
		}

		un = append(un, l)
	}

	// a change of class label only (another member appeared/disappeared) on a
	// file whose other attributes are unchanged is covered by the class rule.
	return un
}

// operandClass describes the operands of c in the tree before the call.
func (s *sys) operandClass(c fsx.Call, dump []string) string {
	typ := map[string]string{}
	nonEmpty := map[string]bool{}

	for _, l := range dump {
		p := pathOf(l)
		f := strings.Fields(l)

		if len(f) > 1 {
			typ[p] = f[1]
		}

		if d := s.v.Dir(p); d != p {
			nonEmpty[d] = true
		}
	}

	cls := func(p string) string {
		if p == "" {
			return "empty"
		}

		abs, _ := s.v.Abs(p)
		note := ""

		if !s.v.IsAbs(p) {
			note = "rel:"
		}

		if abs != p && s.v.IsAbs(p) {
			note = "unclean:"
		}

		if cv := s.canonVol(abs); cv != abs {
			abs, note = cv, note+"drivecase:"
		}

		if abs == s.root || abs == strings.TrimSuffix(s.root, s.sep) {
			return note + "root"
		}

		t, ok := typ[abs]
		if !ok {
			par := s.v.Dir(abs)
			pt, pok := typ[par]

			if par == s.root {
				pt, pok = "d", true
			}

			switch {
			case !pok:
				return note + "missing(parent missing)"
			case pt == "d":
				return note + "missing"
			default:
				return note + "below-" + pt
			}
		}

		switch t {
		case "d":
			if nonEmpty[abs] {
				return note + "dirNonEmpty"
			}

			return note + "dirEmpty"
		case "f":
			return note + "file"
		case "l":
			return note + "symlink"
		}

		return note + t
	}

	rel := func(a, b string) string {
		aa, _ := s.v.Abs(a)
		bb, _ := s.v.Abs(b)
		aa, bb = s.canonVol(aa), s.canonVol(bb)

		switch {
		case aa == bb:
			return "same"
		case s.under(bb, aa):
			return "a-ancestor-of-b"
		case s.under(aa, bb):
			return "b-ancestor-of-a"
		}

		return "unrelated"
	}

	switch c.Op {
	case "Rename", "Link":
		return cls(c.A) + "," + cls(c.B) + "," + rel(c.A, c.B)
	case "Symlink":
		return "target," + cls(c.B)
	}

	return cls(c.A)
}

// apiCheck walks the tree through the public API and checks the clauses of the
// property that are visible there.
func (s *sys) apiCheck(dump []string) []string {
	var bad []string

	v := s.v

	type fent struct {
		path string
		fi   fs.FileInfo
		data string
	}

	var files []fent

	// kind of every node as the node graph has it
	kind := kindsOf(dump)

	checkMode := func(cp string, m fs.FileMode) { bad = append(bad, modeBad(kind, cp, m)...) }

	// candidate names for the "Lstat succeeds => listed" direction
	cand := map[string]bool{"a": true, "ab": true, "tmp": true}

	for _, l := range dump {
		if n := v.Base(pathOf(l)); n != "" && n != "." && !strings.Contains(n, s.sep) && !strings.Contains(n, ":") {
			cand[n] = true
		}
	}

	visited := 0

	var walk func(p string, depth int)

	walk = func(p string, depth int) {
		visited++
		if depth > 32 || visited > 10000 {
			bad = append(bad, "walk does not terminate (depth > 32)")

			return
		}

		es, err := v.ReadDir(p)
		if err != nil {
			bad = append(bad, fmt.Sprintf("ReadDir of listed directory %q fails: %s", p, fsx.ErrKind(err)))

			return
		}

		names := map[string]bool{}
		prev := ""

		for i, e := range es {
			n := e.Name()
			if i > 0 && n <= prev {
				bad = append(bad, fmt.Sprintf("listing of %q not sorted or has duplicates", p))
			}

			prev = n
			names[n] = true

			cp := v.Join(p, n)

			fi, err := v.Lstat(cp)
			if err != nil {
				bad = append(bad, fmt.Sprintf("%q listed by ReadDir but Lstat fails: %s", cp, fsx.ErrKind(err)))

				continue
			}

			if fi.Mode().Type() != e.Type() {
				bad = append(bad, fmt.Sprintf("%q: entry type differs from Lstat type", cp))
			}

			checkMode(cp, fi.Mode())

			switch {
			case fi.IsDir():
				walk(cp, depth+1)
			case fi.Mode().IsRegular():
				b, err := v.ReadFile(cp)
				if err != nil {
					bad = append(bad, fmt.Sprintf("ReadFile of listed file %q fails: %s", cp, fsx.ErrKind(err)))
				}

				files = append(files, fent{cp, fi, string(b)})
			}
		}

		for n := range cand {
			if names[n] {
				continue
			}

			if _, err := v.Lstat(v.Join(p, n)); err == nil {
				bad = append(bad, fmt.Sprintf("Lstat(%q) succeeds but its parent does not list it", v.Join(p, n)))
			}
		}
	}

	// OrefaFS cannot address its root (known finding): walk from the top-level names.
	if _, err := v.ReadDir(s.root); err == nil {
		walk(s.root, 0)
	} else {
		bad = append(bad, "root directory cannot be listed: "+fsx.ErrKind(err))
		top := map[string]bool{}

		for _, l := range dump {
			p := pathOf(l)
			if p != "" && p != s.root && v.Dir(p) == s.root {
				top[p] = true
			}
		}

		var tl []string
		for p := range top {
			tl = append(tl, p)
		}

		sort.Strings(tl)

		for _, p := range tl {
			fi, err := v.Lstat(p)
			if err != nil {
				bad = append(bad, fmt.Sprintf("top-level entry %q in the index but Lstat fails", p))

				continue
			}

			checkMode(p, fi.Mode())

			if fi.IsDir() {
				walk(p, 1)
			} else if fi.Mode().IsRegular() {
				b, _ := v.ReadFile(p)
				files = append(files, fent{p, fi, string(b)})
			}
		}
	}

	// link counts and agreement of all names of a file
	for i, f := range files {
		n := 0

		for _, g := range files {
			if v.SameFile(f.fi, g.fi) {
				n++

				if g.data != f.data || g.fi.Size() != f.fi.Size() || g.fi.Mode() != f.fi.Mode() ||
					v.ToSysStat(g.fi).Uid() != v.ToSysStat(f.fi).Uid() || v.ToSysStat(g.fi).Gid() != v.ToSysStat(f.fi).Gid() {
					bad = append(bad, fmt.Sprintf("hard links %q and %q show different content/size/mode/owner", f.path, g.path))
				}
			}
		}

		if nl := v.ToSysStat(f.fi).Nlink(); int(nl) != n {
			bad = append(bad, fmt.Sprintf("Nlink %d of %q != %d paths that are SameFile", nl, f.path, n))
		}

		_ = i
	}

	return bad
}

// modeBad: the mode Lstat reports says exactly one of directory / regular
// file / symbolic link, the one the node is (kind: path -> kind in the node
// graph), and carries nothing besides the type, the permission bits and
// setuid/setgid/sticky (no call of the interface sets anything else: such a
// bit can only have leaked from a mode argument).
func modeBad(kind map[string]string, cp string, m fs.FileMode) []string {
	var bad []string

	var want fs.FileMode

	known := true

	switch kind[cp] {
	case "d":
		want = fs.ModeDir
	case "f":
	case "l":
		want = fs.ModeSymlink
	default:
		known = false
	}

	switch t := m.Type(); {
	case known && t != want:
		bad = append(bad, fmt.Sprintf("Lstat(%q) reports type %s, the node is of kind %s", cp, typeLetters(t), kind[cp]))
	case t != 0 && t != fs.ModeDir && t != fs.ModeSymlink:
		bad = append(bad, fmt.Sprintf("Lstat(%q) reports type %s: not a directory, a regular file or a symbolic link", cp, typeLetters(t)))
	}

	if x := m &^ (fs.ModeType | avfs.FileModeMask); x != 0 {
		bad = append(bad, fmt.Sprintf("Lstat(%q) reports mode bits %s besides type, permission and special bits", cp, typeLetters(x)))
	}

	return bad
}

// typeLetters renders mode bits without the permission part in the letters
// of fs.FileMode.String: (d), (L), (dL); (-) for none (a regular file).
func typeLetters(m fs.FileMode) string {
	l := strings.TrimRight((m &^ fs.ModePerm).String(), "-")
	if l == "" {
		l = "-"
	}

	return "(" + l + ")"
}

func buildOps(name string, win bool, tier string) []fsx.Call {
	root := "/"
	j := func(e ...string) string { return "/" + strings.Join(e, "/") }

	if win {
		root = `C:\`
		j = func(e ...string) string { return `C:\` + strings.Join(e, `\`) }
	}

	// one name is a strict prefix of the other (string-prefix tests on paths)
	names := []string{"a", "ab"}
	paths := []string{root}

	for _, x := range names {
		paths = append(paths, j(x))
	}

	for _, x := range names {
		for _, y := range names {
			paths = append(paths, j(x, y))
		}
	}

	// deliberately invalid / aliased operands
	// j("a","ab","a","ab"): the path of a directory occurs again inside the path of
	// one of its descendants (code that rewrites path strings must anchor them)
	extra := []string{"", "a", j("a", ".."), j("a", "a", "a"), j("a", "ab", "a", "ab"), j("tmp")}
	if tier == "thorough" {
		extra = append(extra, ".", "..", j("a")+string(root[len(root)-1]), j("a", "ab", "..", "a"))
	}

	all := append(append([]string{}, paths...), extra...)

	canonical := map[string]bool{}
	for _, p := range paths {
		canonical[p] = true
	}

	var ops []fsx.Call

	for _, p := range all {
		ops = append(ops,
			fsx.Call{Op: "Mkdir", A: p, Perm: 0o755},
			fsx.Call{Op: "MkdirAll", A: p, Perm: 0o750},
			fsx.Call{Op: "Remove", A: p},
			fsx.Call{Op: "RemoveAll", A: p},
			fsx.Call{Op: "WriteFile", A: p, Data: "x", Perm: 0o644},
			fsx.Call{Op: "OpenFile", A: p, Flag: os.O_RDWR | os.O_CREATE | os.O_EXCL, Perm: 0o600},
			fsx.Call{Op: "Truncate", A: p, N: 3},
			fsx.Call{Op: "Chmod", A: p, Perm: 0o700},
			fsx.Call{Op: "Chdir", A: p},
		)

		// A mode argument is ANY fs.FileMode, not a permission value: every call
		// that takes one (Chmod, File.Chmod, Mkdir, MkdirAll, OpenFile, WriteFile)
		// is handed modes that carry file type bits - typically a mode copied
		// from Stat of another node, fi.Mode() of a directory or of a symbolic
		// link - and bits outside permission|setuid|setgid|sticky. Package os
		// uses the permission and special bits only; code that keeps the kind of
		// a node in the same word as its permissions must mask. Every such call
		// is issued on every path of the name universe (every node kind, every
		// position, missing, below a file) - thorough: on the invalid and unclean
		// spellings too (what a mode does to a node does not depend on how the
		// node was spelled). The permission bits are those of the plain call, so
		// that a library that masks reaches no new state through these calls.
		if tier == "thorough" || canonical[p] {
			for _, c := range modeCalls(p) {
				for _, m := range typeModes(c.Op, tier) {
					c.Mode = uint32(m &^ avfs.FileModeMask)
					c.Perm = c.Perm&0o777 | unixSpecial(m)
					ops = append(ops, c)
				}
			}
		}

		if tier == "thorough" {
			ops = append(ops,
				fsx.Call{Op: "Create", A: p},
				fsx.Call{Op: "Truncate", A: p, N: -1},
				fsx.Call{Op: "Chown", A: p, N: 7, M: 8},
				fsx.Call{Op: "FChmod", A: p, Perm: 0o700},
				fsx.Call{Op: "AppendFile", A: p, Data: "yz"},
				fsx.Call{Op: "ReadDir", A: p},
				fsx.Call{Op: "Stat", A: p},
			)
		}
	}

	if name == "MemFS" {
		// the same creations issued through a fresh view of the root (MemFS.Sub):
		// views share the tree, the link counters and the file identities
		for _, p := range paths {
			ops = append(ops,
				fsx.Call{Op: "Sub/WriteFile", A: p, Data: "v", Perm: 0o644},
				fsx.Call{Op: "Sub/Mkdir", A: p, Perm: 0o755},
			)

			if tier == "thorough" {
				ops = append(ops,
					fsx.Call{Op: "Sub/WriteFile", A: p, Data: "v", Perm: 0o644, Mode: uint32(fs.ModeDir)},
					fsx.Call{Op: "Sub/Mkdir", A: p, Perm: 0o755, Mode: uint32(fs.ModeSymlink)},
				)
			}
		}
	}

	ops = append(ops,
		fsx.Call{Op: "CreateTemp", A: j("tmp"), B: "t*"},
		fsx.Call{Op: "MkdirTemp", A: j("a"), B: "t*"},
		fsx.Call{Op: "CreateTemp", A: "", B: "t*"},
	)

	for _, p := range all {
		for _, q := range all {
			ops = append(ops, fsx.Call{Op: "Rename", A: p, B: q}, fsx.Call{Op: "Link", A: p, B: q})
		}
	}

	// Spelling of the operands (Windows-typed systems). A path of the Windows
	// kind has several spellings that name the same object: the drive letter in
	// either case, forward slashes for separators, a rooted path without the
	// volume (the volume of the current directory). Code that resolves a path
	// one way (the volume looked up with the case folded, the separators
	// normalised) and COMPARES paths another way (the strings the caller wrote:
	// "is the new name below the old one", "are both the same entry", lock
	// order, map keys) is only right while every operand is spelled alike. So
	// every canonical path is also written in each other spelling, for the
	// one-path calls and, for the two-path calls, for each operand independently
	// (one spelled, the other canonical) - thorough: both spelled alike too.
	// Whether a spelling resolves at all is not judged here: a refused call
	// that leaves the tree alone satisfies the invariants.
	if win {
		sps := spellings(tier)

		// quick: the spelled operand is any path but the root; of the one-path
		// calls those that make, remove and keep a path (MkdirAll, RemoveAll,
		// Chdir), of the two-path calls Rename (the call that compares its two
		// operands with each other). Thorough: the root too, every one-path call
		// of the core, Link, Symlink (new name and target: a link keeps the
		// spelling of its target and hands it to every later resolution), and
		// Rename with both operands spelled alike.
		spelled := paths[1:]
		if tier == "thorough" {
			spelled = paths
		}

		for _, sp := range sps {
			for _, p := range spelled {
				sp1 := sp.f(p)

				ops = append(ops,
					fsx.Call{Op: "MkdirAll", A: sp1, Perm: 0o750},
					fsx.Call{Op: "RemoveAll", A: sp1},
					fsx.Call{Op: "Chdir", A: sp1},
				)

				for _, q := range paths {
					ops = append(ops, fsx.Call{Op: "Rename", A: sp1, B: q}, fsx.Call{Op: "Rename", A: q, B: sp1})
				}

				if tier != "thorough" {
					continue
				}

				ops = append(ops,
					fsx.Call{Op: "Mkdir", A: sp1, Perm: 0o755},
					fsx.Call{Op: "Remove", A: sp1},
					fsx.Call{Op: "WriteFile", A: sp1, Data: "x", Perm: 0o644},
					fsx.Call{Op: "Symlink", A: "a", B: sp1},
					fsx.Call{Op: "Symlink", A: sp.f(j("a")), B: j("ab")},
				)

				for _, q := range paths {
					ops = append(ops, fsx.Call{Op: "Link", A: sp1, B: q}, fsx.Call{Op: "Link", A: q, B: sp1})

					ops = append(ops, fsx.Call{Op: "Rename", A: sp1, B: sp.f(q)})
				}
			}
		}
	}

	targets := []string{"a", j("a"), j("ab", "a"), "..", "nope"}
	for _, t := range targets {
		for _, q := range paths {
			ops = append(ops, fsx.Call{Op: "Symlink", A: t, B: q})
		}
	}

	return ops
}

// spelling writes a canonical Windows path (`C:\a\ab`) another way.
type spelling struct {
	name string
	f    func(string) string
}

// spellings lists the other ways an operand of a Windows-typed system is
// written: drive letter in the other case, forward slashes, no volume (rooted
// at the volume of the current directory); thorough: also two at once
// (lower case drive with forward slashes).
func spellings(tier string) []spelling {
	lower := func(p string) string { return strings.ToLower(p[:1]) + p[1:] }
	slash := func(p string) string { return strings.ReplaceAll(p, `\`, "/") }
	sps := []spelling{
		{"drive letter in lower case (c:\\a)", lower},
		{"forward slashes (C:/a)", slash},
		{"rooted without volume (\\a)", func(p string) string { return p[2:] }},
	}

	if tier == "thorough" {
		sps = append(sps,
			spelling{"lower case drive and forward slashes (c:/a)", func(p string) string { return slash(lower(p)) }},
		)
	}

	return sps
}

// spellingsText describes the spelling dimension for the evidence file.
func spellingsText(tier string) string {
	var names []string
	for _, sp := range spellings(tier) {
		names = append(names, sp.name)
	}

	if tier == "thorough" {
		return "Windows-typed systems: every path of the name universe (root, a, ab, x/y) also spelled with " + strings.Join(names, "; ") +
			" - as the operand of Mkdir, MkdirAll, Remove, RemoveAll, WriteFile, Chdir, as the new name and as the target of Symlink, and as the operands of Rename and Link: one spelled and the other canonical; Rename also with both spelled alike"
	}

	t := "Windows-typed systems: every path of the name universe but the root (a, ab, x/y) also spelled with " + strings.Join(names, "; ") +
		" - as the operand of MkdirAll, RemoveAll, Chdir, and as either operand of Rename, the other operand any canonical path of the name universe"

	return t
}

// modeCalls returns the calls on p that take a mode argument, with the
// permission bits of the plain calls of the alphabet. FChmod is File.Chmod on
// a handle opened read-only (its own code path in both file systems).
func modeCalls(p string) []fsx.Call {
	return []fsx.Call{
		{Op: "Chmod", A: p, Perm: 0o700},
		{Op: "FChmod", A: p, Perm: 0o700},
		{Op: "Mkdir", A: p, Perm: 0o755},
		{Op: "MkdirAll", A: p, Perm: 0o750},
		{Op: "WriteFile", A: p, Data: "x", Perm: 0o644},
		{Op: "OpenFile", A: p, Flag: os.O_RDWR | os.O_CREATE | os.O_EXCL, Perm: 0o600},
	}
}

// outsideMask is every fs.FileMode bit that is neither a permission nor a
// special bit: all type bits and append-only / exclusive / temporary.
const outsideMask = fs.ModeType | fs.ModeAppend | fs.ModeExclusive | fs.ModeTemporary

const specialBits = fs.ModeSetuid | fs.ModeSetgid | fs.ModeSticky

// typeModes lists the bits or'ed into the mode argument of op (the permission
// bits are added by the caller). A dropped mask shows with any bit the node
// does not already carry, so what matters is a type FOREIGN to the node the
// call acts on or creates: the directory bit for calls that make or change
// files, another type for calls that make directories, both for Chmod and
// File.Chmod, which act on every node kind. Quick: exactly that. Thorough: for
// every call the directory bit, the link bit, the other types, everything
// outside the mask at once, and a type together with the three special bits.
func typeModes(op, tier string) []fs.FileMode {
	if tier == "thorough" {
		return []fs.FileMode{
			fs.ModeDir, fs.ModeSymlink, fs.ModeNamedPipe, fs.ModeDevice | fs.ModeCharDevice,
			outsideMask, fs.ModeSymlink | specialBits,
		}
	}

	switch op {
	case "Chmod", "FChmod":
		return []fs.FileMode{fs.ModeDir, fs.ModeSymlink}
	case "Mkdir", "MkdirAll":
		return []fs.FileMode{fs.ModeSymlink}
	}

	return []fs.FileMode{fs.ModeDir}
}

// unixSpecial returns the special bits of m in the Unix layout of fsx.Call.Perm.
func unixSpecial(m fs.FileMode) uint32 {
	var p uint32

	if m&fs.ModeSetuid != 0 {
		p |= 0o4000
	}

	if m&fs.ModeSetgid != 0 {
		p |= 0o2000
	}

	if m&fs.ModeSticky != 0 {
		p |= 0o1000
	}

	return p
}

// modeArgsText describes the mode dimension for the evidence file.
func modeArgsText(tier string) string {
	var parts []string

	for _, c := range modeCalls("p") {
		var ms []string
		for _, m := range typeModes(c.Op, tier) {
			ms = append(ms, typeLetters(m)+fmt.Sprintf("|%#o", c.Perm))
		}

		parts = append(parts, c.Op+": "+strings.Join(ms, " "))
	}

	where := "every path of the name universe (root, a, ab, x/y)"
	if tier == "thorough" {
		where = "every operand path (canonical, unclean, relative, empty)"
	}

	return "bits or'ed into the mode argument, in the letters of fs.FileMode.String, per call, on " + where + ": " + strings.Join(parts, "; ")
}

func factory(tier string) func(string) bfs.System {
	return func(name string) bfs.System {
		verifrt.SetMode(verifrt.ModeSeq)

		parts := strings.Split(name, "/")
		s := &sys{name: parts[0], win: len(parts) > 1 && parts[1] == "Windows", tier: tier, root: "/", sep: "/"}
		s.tree = len(parts) > 2 && parts[2] == "tree"

		if s.win {
			s.root, s.sep = `C:\`, `\`
		}

		s.ops = buildOps(s.name, s.win, tier)

		return s
	}
}

// concPlan is the concurrent clause of C05 ("... and by any concurrent
// execution"): the final state of every schedule of the pair programs must
// satisfy the node-graph invariants.
func concPlan(tier string) concfs.Plan {
	pl := concfs.Plan{ID: "C05", Oracle: concfs.OrInvariant, Bound: 2, PerProg: 20 * time.Second}

	for _, fs := range []string{"MemFS", "OrefaFS"} {
		pl.Programs = append(pl.Programs, concfs.Pairs(fs, false, concfs.Templates(fs, false, true))...)
	}

	if tier == "thorough" {
		pl.Bound = 3

		for _, fs := range []string{"MemFS", "OrefaFS"} {
			pl.Programs = append(pl.Programs, concfs.Triples(fs, concfs.SingleStep(concfs.Templates(fs, true, true)))...)
		}
	}

	return pl
}

func main() {
	concfs.MaybeShard(concPlan)

	id := flag.String("id", "C05", "")
	tier := flag.String("tier", "quick", "")
	depth := flag.Int("depth", 0, "")
	systems := flag.String("systems", "", "")
	var wflag string
	flag.StringVar(&wflag, "bfsworker", "", "")
	noconc := flag.Bool("noconc", false, "skip the concurrent part")
	flag.Parse()

	bfs.MaybeWorker(factory(*tier))

	verifDir := os.Getenv("VERIF_DIR")
	if verifDir == "" {
		verifDir = "."
	}

	rep, err := kf.NewReporter(*id, filepath.Join(verifDir, "known_findings.txt"), filepath.Join(verifDir, "replays"))
	if err != nil {
		fmt.Fprintln(os.Stderr, err)
		os.Exit(2)
	}

	rep.Discover = os.Getenv("VERIF_DISCOVER") != ""

	ostBuild := avfs.BuildFeatures()&avfs.FeatSetOSType != 0

	var sysNames []string

	switch {
	case *systems != "":
		sysNames = strings.Split(*systems, ",")
	case ostBuild:
		sysNames = []string{"MemFS/Windows", "OrefaFS/Windows", "MemFS/Linux", "OrefaFS/Linux"}
	default:
		sysNames = []string{"MemFS/Linux", "OrefaFS/Linux", "MemFS/Linux/tree", "OrefaFS/Linux/tree"}
	}

	// both tiers run histories of length <= 3 (the thorough tier has the larger alphabet)
	d := *depth
	if d == 0 {
		d = 3
	}

	budget := 0
	if b, err := strconv.Atoi(os.Getenv("VERIF_BUDGET_S")); err == nil {
		budget = b
	} else if *tier == "thorough" {
		budget = 1200
	}

	var deadline time.Time
	if budget > 0 {
		deadline = time.Now().Add(time.Duration(budget) * time.Second)
	}

	var all []bfs.Stats

	harnessErr := ""

	for _, sn := range sysNames {
		probe := factory(*tier)(sn)
		cfg := bfs.Config{
			System: sn, MaxDepth: d, Deadline: deadline,
			Report: func(system string, hist []string, op string, v bfs.Viol) {
				rep.Report(kf.Sig(v.Sig), map[string]any{"system": system, "history": hist, "op": op, "detail": v.Detail})
			},
		}

		st := bfs.Run(cfg, probe.OpString)
		all = append(all, st)

		if st.HarnessErr != "" {
			harnessErr = sn + ": " + st.HarnessErr
		}

		fmt.Printf("C05 %s: ops=%d states=%d transitions=%d depth_completed=%d exhaustive=%v\n",
			sn, probe.NumOps(), st.States, st.Transitions, st.DepthDone, st.Exhaustive)
	}

	states, trans := 0, 0
	outcomes := map[string]int{}
	exh := true
	depthDone := d

	var samples []any

	for _, st := range all {
		states += st.States
		trans += st.Transitions

		for k, n := range st.Outcomes {
			outcomes[k] += n
		}

		if !st.Exhaustive {
			exh = false
		}

		if st.DepthDone < depthDone {
			depthDone = st.DepthDone
		}

		for _, s := range st.Samples {
			samples = append(samples, map[string]any{"system": st.System, "history": s})
		}
	}

	if len(samples) == 0 {
		samples = append(samples, "no successor state found")
	}

	suffix := ""
	if ostBuild {
		suffix = ".ostype"
	}

	_ = suffix

	// concurrent clause (Linux-typed build only; one pass is enough)
	var conc map[string]any

	if !ostBuild && *systems == "" && !*noconc {
		cb := 120
		if *tier == "thorough" {
			cb = 600
		}

		if budget > 0 && budget < cb {
			cb = budget
		}

		total, herr := concfs.RunPlan(concPlan(*tier), rep, cb)
		if herr != "" {
			harnessErr = "concurrent part: " + herr
		}

		conc = map[string]any{}
		concfs.AddCoverage(conc, total, concPlan(*tier).Bound)
		conc["distinct_outcomes"] = total.DistinctOut
		states += total.DistinctOut
		trans += total.Executions

		if total.TimedOut > 0 {
			exh = false
		}

		fmt.Printf("C05 concurrent: programs=%d schedules=%d min-bound=%d timed-out=%d\n", total.Programs, total.Executions, total.MinBound, total.TimedOut)
	}

	code := rep.Finish()
	if harnessErr != "" {
		fmt.Fprintln(os.Stderr, "harness error:", harnessErr)

		code = 2
	}

	// Windows-typed instances need the avfs_setostype build: the check script
	// built it next to this binary; run it and fold its evidence into ours.
	var ostRun any

	if ost := os.Getenv("VERIF_BIN") + ".ost"; !ostBuild && *systems == "" && code != 2 {
		if _, err := os.Stat(ost); err == nil {
			cmd := exec.Command(ost, "-id", *id, "-tier", *tier, "-systems", "MemFS/Windows,OrefaFS/Windows,MemFS/Windows/tree,OrefaFS/Windows/tree")
			cmd.Stdout, cmd.Stderr = os.Stdout, os.Stderr
			err := cmd.Run()

			oc := 0
			if ee, ok := err.(*exec.ExitError); ok {
				oc = ee.ExitCode()
			} else if err != nil {
				oc = 2
			}

			if oc > code {
				code = oc
			}

			of := filepath.Join(verifDir, "evidence", *id+".ostype.json")
			if b, err := os.ReadFile(of); err == nil {
				var e ev.Evidence
				if json.Unmarshal(b, &e) == nil {
					ostRun = e.Coverage

					if n, ok := e.Coverage["states"].(float64); ok {
						states += int(n)
					}

					if n, ok := e.Coverage["transitions"].(float64); ok {
						trans += int(n)
					}

					if x, ok := e.Coverage["exhaustive"].(bool); ok && !x {
						exh = false
					}
				}

				_ = os.Remove(of)
			}
		}
	}

	e := ev.Evidence{
		PropertyID: *id, Tier: *tier, Seed: ev.Seed(), Level: "model_checking",
		Coverage: map[string]any{
			"states": states, "transitions": trans, "traces_validated_against_impl": trans,
			"evaluations": trans, "distinct_nontrivial": len(outcomes),
			"rule":              "every history of length <= bound over the call alphabet (valid, invalid and aliased operands; on the Windows-typed systems the operands also in the other spellings of a path, see operand_spellings; every call that takes a mode - Chmod, File.Chmod, Mkdir, MkdirAll, OpenFile, WriteFile - also with a mode argument that carries file type bits foreign to the node, on every path of the name universe) executed on fresh real instances; distinct_nontrivial = distinct (call, outcome kind) classes observed",
			"mode_arguments":    modeArgsText(*tier),
			"operand_spellings": spellingsText(*tier),
			"samples":           samples,
			"exhaustive":        exh, "bound": fmt.Sprintf("histories of length <= %d (completed %d)", d, depthDone),
			"systems": all, "known_findings_matched": rep.KnownMatched(), "ostype_build": ostBuild, "windows_typed_run": ostRun, "concurrent_final_state_invariants": conc,
		},
		Assumptions: []string{
			"state identity = injected node-graph dump (VerifDump) + cwd; mtimes and inode numbers are not part of a state",
			"a successful call may change: its operands, what they resolve to, everything below them, members of their hard-link classes, ancestors created by MkdirAll, the temp name returned",
			"random part of temp names is supplied by the harness (2 values, forced collisions)",
			"the kind of an entry (directory / regular file / symbolic link) never changes while the entry exists, except at the destination of a successful Rename; Lstat reports exactly that kind and no mode bit besides type, permission, setuid, setgid, sticky (the mode argument of a call is any fs.FileMode; as in package os only its permission and special bits are used)",
			"on the Windows-typed systems an operand in another spelling (drive letter in the other case, forward slashes, no volume) is taken to name what the canonical spelling names when the frame conditions are evaluated; whether such a spelling resolves is not judged, only the tree it leaves",
			"mode arguments with type bits keep the permission bits of the plain call of the alphabet (a library that masks reaches no further state); special bits are combined with type bits in the thorough tier only",
		},
		Violations: rep.NewCount(),
	}

	if code != 2 {
		_ = ev.Write(filepath.Join(verifDir, "evidence", *id+suffixFor(ostBuild)+".json"), e)
	}

	os.Exit(code)
}

func suffixFor(ost bool) string {
	if ost {
		return ".ostype"
	}

	return ""
}
