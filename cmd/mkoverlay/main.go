// mkoverlay reads the working tree of avfs at <repo> and writes, into <out>, a
// `go build -overlay` JSON file plus rewritten copies of a few source files:
//
//  1. import "sync" in vfs/memfs, vfs/orefafs, idm/memidm  ->  the shim package
//     github.com/avfs/avfs/verifrt (virtual directory <repo>/verifrt, sources in
//     /verif/rt);
//  2. `for k, v := range <map>` in those packages -> ordered key snapshot;
//  3. avfs.nextRandom -> seam verifrt.Random() with fallback to os.nextRandom;
//  4. tag-guarded observer files from /verif/hooks/<pkg>/ added to the packages.
//
// Every splice stays on its original line, so line numbers in panics and race
// reports are those of the repository.
package main

import (
	"bytes"
	"encoding/json"
	"fmt"
	"go/ast"
	"go/importer"
	"go/parser"
	"go/token"
	"go/types"
	"os"
	"path/filepath"
	"sort"
	"strings"
)

const shimPath = "github.com/avfs/avfs/verifrt"

type splice struct {
	start, end int // byte offsets in the original file
	text       string
}

func fatal(f string, a ...any) {
	fmt.Fprintf(os.Stderr, "mkoverlay: "+f+"\n", a...)
	os.Exit(2)
}

func main() {
	if len(os.Args) != 4 {
		fatal("usage: mkoverlay <repo> <verifdir> <outdir>")
	}

	repo, _ := filepath.Abs(os.Args[1])
	verif, _ := filepath.Abs(os.Args[2])
	out, _ := filepath.Abs(os.Args[3])

	if err := os.MkdirAll(out, 0o755); err != nil {
		fatal("%v", err)
	}

	replace := map[string]string{}
	notes := []string{}

	// 1+2: shimmed packages.
	for _, pkg := range []string{"vfs/memfs", "vfs/orefafs", "idm/memidm"} {
		n := rewritePackage(repo, pkg, out, replace)
		notes = append(notes, n...)
	}

	// 3: nextRandom seam.
	ln := filepath.Join(repo, "vfs_linkname.go")
	if src, err := os.ReadFile(ln); err == nil {
		old := "//go:linkname nextRandom os.nextRandom\nfunc nextRandom() string\n"
		if bytes.Contains(src, []byte(old)) {
			// A Go-bodied function in package avfs may not pull os.nextRandom (the
			// go1.23 linker rejects it), so the fallback is an equivalent generator:
			// a random uint32 in decimal, exactly what os.nextRandom returns.
			neu := "func nextRandom() string { if s, ok := verifrt.Random(); ok { return s }; " +
				"return verifstrconv.FormatUint(uint64(verifrand.Uint32()), 10) }\n"
			s := strings.Replace(string(src), old, neu, 1)
			s = strings.Replace(s, "import _ \"unsafe\"", "import _ \"unsafe\"; import verifrt \""+shimPath+
				"\"; import verifrand \"math/rand/v2\"; import verifstrconv \"strconv\"", 1)
			dst := filepath.Join(out, "root_vfs_linkname.go")
			must(os.WriteFile(dst, []byte(s), 0o644))
			replace[ln] = dst
		} else if n := seamGoBodiedRandom(repo, out, replace); n > 0 {
			notes = append(notes, fmt.Sprintf("nextRandom seam applied around the library's own generator (%d file(s))", n))
		} else {
			notes = append(notes, "nextRandom seam not applied: pattern not found in vfs_linkname.go")
		}
	}

	// 4: hooks.
	hooks := map[string]string{
		"memfs":   "vfs/memfs",
		"orefafs": "vfs/orefafs",
		"memidm":  "idm/memidm",
		"avfs":    ".",
	}
	for h, pkg := range hooks {
		files, _ := filepath.Glob(filepath.Join(verif, "hooks", h, "*.go"))
		for _, f := range files {
			replace[filepath.Join(repo, pkg, "zz_"+filepath.Base(f))] = f
		}
	}

	// virtual shim package.
	rtFiles, _ := filepath.Glob(filepath.Join(verif, "rt", "*.go"))
	if len(rtFiles) == 0 {
		fatal("no shim sources in %s/rt", verif)
	}

	for _, f := range rtFiles {
		replace[filepath.Join(repo, "verifrt", filepath.Base(f))] = f
	}

	js, _ := json.MarshalIndent(map[string]any{"Replace": replace}, "", " ")
	must(os.WriteFile(filepath.Join(out, "overlay.json"), js, 0o644))

	sort.Strings(notes)
	must(os.WriteFile(filepath.Join(out, "notes.txt"), []byte(strings.Join(notes, "\n")+"\n"), 0o644))

	for _, n := range notes {
		fmt.Fprintln(os.Stderr, "mkoverlay:", n)
	}
}

func must(err error) {
	if err != nil {
		fatal("%v", err)
	}
}

func rewritePackage(repo, pkg, out string, replace map[string]string) (notes []string) {
	dir := filepath.Join(repo, pkg)
	fset := token.NewFileSet()

	ents, err := os.ReadDir(dir)
	if err != nil {
		fatal("%v", err)
	}

	var (
		files []*ast.File
		names []string
		srcs  [][]byte
	)

	for _, e := range ents {
		n := e.Name()
		if !strings.HasSuffix(n, ".go") || strings.HasSuffix(n, "_test.go") {
			continue
		}

		src, err := os.ReadFile(filepath.Join(dir, n))
		if err != nil {
			fatal("%v", err)
		}

		f, err := parser.ParseFile(fset, filepath.Join(dir, n), src, parser.ParseComments)
		if err != nil {
			// A tree that does not parse fails to build anyway; the build error
			// is reported by the check as a harness error.
			notes = append(notes, fmt.Sprintf("%s/%s: parse error, left untouched: %v", pkg, n, err))

			continue
		}

		files = append(files, f)
		names = append(names, n)
		srcs = append(srcs, src)
	}

	// Type-check (errors tolerated) to find ranges over maps.
	info := &types.Info{Types: map[ast.Expr]types.TypeAndValue{}}
	conf := types.Config{
		Importer: importer.ForCompiler(fset, "source", nil),
		Error:    func(error) {},
	}
	_, _ = conf.Check("github.com/avfs/avfs/"+pkg, fset, files, info)

	for i, f := range files {
		var sp []splice

		src := srcs[i]
		hasSync := false

		for _, im := range f.Imports {
			if im.Path.Value == `"sync"` && im.Name == nil {
				hasSync = true
				s := fset.Position(im.Pos()).Offset
				e := fset.Position(im.End()).Offset
				sp = append(sp, splice{s, e, `sync "` + shimPath + `"`})
			}
		}

		needShimImport := false

		ast.Inspect(f, func(n ast.Node) bool {
			rs, ok := n.(*ast.RangeStmt)
			if !ok {
				return true
			}

			tv, ok := info.Types[rs.X]
			if !ok || tv.Type == nil {
				return true
			}

			mt, ok := tv.Type.Underlying().(*types.Map)
			if !ok {
				return true
			}

			pos := fset.Position(rs.Pos())

			if b, ok := mt.Key().Underlying().(*types.Basic); !ok || b.Info()&(types.IsOrdered) == 0 {
				notes = append(notes, fmt.Sprintf("%s:%d: range over map with unordered key left untouched", pos.Filename, pos.Line))

				return true
			}

			if !pureExpr(rs.X) || rs.Tok != token.DEFINE && rs.Key != nil {
				notes = append(notes, fmt.Sprintf("%s:%d: range over map left untouched (form not handled)", pos.Filename, pos.Line))

				return true
			}

			if rs.Key == nil {
				return true // `for range m`: order unobservable
			}

			xs := string(src[fset.Position(rs.X.Pos()).Offset:fset.Position(rs.X.End()).Offset])
			k := exprText(src, fset, rs.Key)
			kv := k

			if k == "_" {
				kv = fmt.Sprintf("verifK%d", pos.Line)
			}

			pkgName := "verifrt"
			if hasSync {
				pkgName = "sync"
			} else {
				needShimImport = true
			}

			hdr := fmt.Sprintf("for _, %s := range %s.Keys(%s) {", kv, pkgName, xs)

			if rs.Value != nil {
				v := exprText(src, fset, rs.Value)
				if v != "_" {
					ok := fmt.Sprintf("verifOk%d", pos.Line)
					hdr += fmt.Sprintf(" %s, %s := %s[%s]; if !%s { continue };", v, ok, xs, kv, ok)
				}
			} else {
				ok := fmt.Sprintf("verifOk%d", pos.Line)
				hdr += fmt.Sprintf(" if _, %s := %s[%s]; !%s { continue };", ok, xs, kv, ok)
			}

			s := fset.Position(rs.Pos()).Offset
			e := fset.Position(rs.Body.Lbrace).Offset + 1
			sp = append(sp, splice{s, e, hdr})
			notes = append(notes, fmt.Sprintf("%s:%d: map range ordered", strings.TrimPrefix(pos.Filename, repo+"/"), pos.Line))

			return true
		})

		if needShimImport {
			e := fset.Position(f.Name.End()).Offset
			sp = append(sp, splice{e, e, `; import verifrt "` + shimPath + `"`})
		}

		if len(sp) == 0 {
			continue
		}

		sort.Slice(sp, func(a, b int) bool { return sp[a].start < sp[b].start })

		var buf bytes.Buffer

		last := 0

		for _, s := range sp {
			buf.Write(src[last:s.start])
			buf.WriteString(s.text)
			last = s.end
		}

		buf.Write(src[last:])

		dst := filepath.Join(out, strings.ReplaceAll(pkg, "/", "_")+"_"+names[i])
		must(os.WriteFile(dst, buf.Bytes(), 0o644))
		replace[filepath.Join(dir, names[i])] = dst
	}

	return notes
}

func exprText(src []byte, fset *token.FileSet, e ast.Expr) string {
	return string(src[fset.Position(e.Pos()).Offset:fset.Position(e.End()).Offset])
}

// pureExpr reports whether evaluating e twice is harmless (identifiers and
// field selections only).
func pureExpr(e ast.Expr) bool {
	switch x := e.(type) {
	case *ast.Ident:
		return true
	case *ast.SelectorExpr:
		return pureExpr(x.X)
	case *ast.ParenExpr:
		return pureExpr(x.X)
	case *ast.StarExpr:
		return pureExpr(x.X)
	}

	return false
}

// seamGoBodiedRandom handles a tree whose nextRandom is an ordinary Go function
// of the root package instead of the linkname to os.nextRandom.  The seam must
// not hide the code it replaces: the library's generator is renamed and still
// EXECUTED at every call (its memory accesses stay visible to the race
// detector and its panics to the explorer), only the value it produced is
// replaced by the harness's answer so that names stay deterministic.
func seamGoBodiedRandom(repo, out string, replace map[string]string) int {
	files, _ := filepath.Glob(filepath.Join(repo, "*.go"))
	n := 0
	for _, f := range files {
		if strings.HasSuffix(f, "_test.go") {
			continue
		}
		src, err := os.ReadFile(f)
		if err != nil {
			continue
		}
		const decl = "\nfunc nextRandom() string {"
		if !bytes.Contains(src, []byte(decl)) {
			continue
		}
		s := strings.Replace(string(src), decl, "\nfunc verifNextRandomOrig() string {", 1)
		dst := filepath.Join(out, "root_rnd_"+filepath.Base(f))
		must(os.WriteFile(dst, []byte(s), 0o644))
		replace[f] = dst
		n++
	}
	if n == 0 {
		return 0
	}
	seam := "package avfs\n\nimport verifrt \"" + shimPath + "\"\n\n" +
		"func nextRandom() string { o := verifNextRandomOrig(); if s, ok := verifrt.Random(); ok { return s }; return o }\n"
	dst := filepath.Join(out, "root_zz_verif_random.go")
	must(os.WriteFile(dst, []byte(seam), 0o644))
	replace[filepath.Join(repo, "zz_verif_random.go")] = dst
	return n
}
