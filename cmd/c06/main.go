// c06: concurrent namespace operations are linearizable (engine B).
package main

import (
	"time"

	"verif/lib/concfs"
)

func main() {
	concfs.Main("C06", "model_checking", func(tier string) concfs.Plan {
		// quick runs the pairs to the same preemption bound as thorough (3): the whole
		// tier is a few seconds on 16 cores
		pl := concfs.Plan{ID: "C06", Oracle: concfs.OrLinear, Bound: 3, PerProg: 20 * time.Second}

		for _, fs := range []string{"MemFS", "OrefaFS"} {
			pl.Programs = append(pl.Programs, concfs.Pairs(fs, false, concfs.Templates(fs, false, false))...)
		}

		if tier == "thorough" {
			// the pair programs one preemption deeper than the quick tier
			for i := range pl.Programs {
				pl.Programs[i].Bound = 4
			}

			pl.PerProg = 60 * time.Second

			for _, fs := range []string{"MemFS", "OrefaFS"} {
				core := concfs.SingleStep(concfs.Templates(fs, true, false))
				pl.Programs = append(pl.Programs, concfs.Triples(fs, core)...)
				pl.Programs = append(pl.Programs, concfs.TwoByTwo(fs, core[:8])...)
			}
		}

		return pl
	}, nil)
}
