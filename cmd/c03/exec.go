package main

// Execution of one call on either side through a common adapter: the kernel
// side is the plain os package, the avfs side a MemFS view.

import (
	"fmt"
	"io/fs"
	"os"
	"sort"
	"strings"
	"syscall"

	"github.com/avfs/avfs"

	"verif/lib/fsx"
)

type xfile interface {
	Chmod(mode fs.FileMode) error
	Chown(uid, gid int) error
	Truncate(size int64) error
	Write(b []byte) (int, error)
	ReadDir(n int) ([]fs.DirEntry, error)
	Close() error
}

type xfs interface {
	Mkdir(name string, perm fs.FileMode) error
	MkdirAll(name string, perm fs.FileMode) error
	OpenFile(name string, flag int, perm fs.FileMode) (xfile, error)
	Create(name string) (xfile, error)
	WriteFile(name string, data []byte, perm fs.FileMode) error
	ReadFile(name string) ([]byte, error)
	ReadDir(name string) ([]fs.DirEntry, error)
	Stat(name string) (fs.FileInfo, error)
	Lstat(name string) (fs.FileInfo, error)
	Remove(name string) error
	RemoveAll(name string) error
	Rename(o, n string) error
	Link(o, n string) error
	Symlink(o, n string) error
	Readlink(name string) (string, error)
	Chdir(name string) error
	Chmod(name string, mode fs.FileMode) error
	Chown(name string, uid, gid int) error
	Lchown(name string, uid, gid int) error
	Chtimes(name string) error
	Truncate(name string, size int64) error
	Owner(fi fs.FileInfo) (uid, gid int)
}

// ---- kernel side: plain os ----

type osX struct{}

func (osX) Mkdir(n string, p fs.FileMode) error    { return os.Mkdir(n, p) }
func (osX) MkdirAll(n string, p fs.FileMode) error { return os.MkdirAll(n, p) }

func (osX) OpenFile(n string, f int, p fs.FileMode) (xfile, error) {
	h, err := os.OpenFile(n, f, p)
	if err != nil {
		return nil, err
	}

	return h, nil
}

func (osX) Create(n string) (xfile, error) {
	h, err := os.Create(n)
	if err != nil {
		return nil, err
	}

	return h, nil
}

func (osX) WriteFile(n string, d []byte, p fs.FileMode) error { return os.WriteFile(n, d, p) }
func (osX) ReadFile(n string) ([]byte, error)                 { return os.ReadFile(n) }
func (osX) ReadDir(n string) ([]fs.DirEntry, error)           { return os.ReadDir(n) }
func (osX) Stat(n string) (fs.FileInfo, error)                { return os.Stat(n) }
func (osX) Lstat(n string) (fs.FileInfo, error)               { return os.Lstat(n) }
func (osX) Remove(n string) error                             { return os.Remove(n) }
func (osX) RemoveAll(n string) error                          { return os.RemoveAll(n) }
func (osX) Link(o, n string) error                            { return os.Link(o, n) }
func (osX) Symlink(o, n string) error                         { return os.Symlink(o, n) }
func (osX) Readlink(n string) (string, error)                 { return os.Readlink(n) }
func (osX) Chmod(n string, m fs.FileMode) error               { return os.Chmod(n, m) }
func (osX) Chown(n string, u, g int) error                    { return os.Chown(n, u, g) }
func (osX) Lchown(n string, u, g int) error                   { return os.Lchown(n, u, g) }
func (osX) Chtimes(n string) error                            { return os.Chtimes(n, fsx.FixedTime, fsx.FixedTime) }
func (osX) Truncate(n string, s int64) error                  { return os.Truncate(n, s) }

// Rename of a name onto itself (the no-op argument dimension) asks the kernel:
// os.Rename answers EEXIST from its own Lstat when the new name is a directory
// and the two names are equal, without calling rename(2) - a decision of
// package os, not of the kernel, which returns 0 for a name renamed onto itself.
func (osX) Rename(o, n string) error {
	if o != n {
		return os.Rename(o, n)
	}

	if err := syscall.Rename(o, n); err != nil {
		return &os.LinkError{Op: "rename", Old: o, New: n, Err: err}
	}

	return nil
}

// Chdir acts on the calling thread only: the worker thread has its own
// fs_struct (unshare(CLONE_FS)); the caller goes back to "/" afterwards.
func (osX) Chdir(n string) error {
	if err := syscall.Chdir(n); err != nil {
		return &fs.PathError{Op: "chdir", Path: n, Err: err}
	}

	return nil
}

func (osX) Owner(fi fs.FileInfo) (int, int) {
	st := fi.Sys().(*syscall.Stat_t)

	return int(st.Uid), int(st.Gid)
}

// ---- avfs side: a MemFS view ----

type avX struct{ v avfs.VFS }

func (x avX) Mkdir(n string, p fs.FileMode) error    { return x.v.Mkdir(n, p) }
func (x avX) MkdirAll(n string, p fs.FileMode) error { return x.v.MkdirAll(n, p) }

func (x avX) OpenFile(n string, f int, p fs.FileMode) (xfile, error) {
	h, err := x.v.OpenFile(n, f, p)
	if err != nil {
		return nil, err
	}

	return h, nil
}

func (x avX) Create(n string) (xfile, error) {
	h, err := x.v.Create(n)
	if err != nil {
		return nil, err
	}

	return h, nil
}

func (x avX) WriteFile(n string, d []byte, p fs.FileMode) error { return x.v.WriteFile(n, d, p) }
func (x avX) ReadFile(n string) ([]byte, error)                 { return x.v.ReadFile(n) }
func (x avX) ReadDir(n string) ([]fs.DirEntry, error)           { return x.v.ReadDir(n) }
func (x avX) Stat(n string) (fs.FileInfo, error)                { return x.v.Stat(n) }
func (x avX) Lstat(n string) (fs.FileInfo, error)               { return x.v.Lstat(n) }
func (x avX) Remove(n string) error                             { return x.v.Remove(n) }
func (x avX) RemoveAll(n string) error                          { return x.v.RemoveAll(n) }
func (x avX) Rename(o, n string) error                          { return x.v.Rename(o, n) }
func (x avX) Link(o, n string) error                            { return x.v.Link(o, n) }
func (x avX) Symlink(o, n string) error                         { return x.v.Symlink(o, n) }
func (x avX) Readlink(n string) (string, error)                 { return x.v.Readlink(n) }
func (x avX) Chdir(n string) error                              { return x.v.Chdir(n) }
func (x avX) Chmod(n string, m fs.FileMode) error               { return x.v.Chmod(n, m) }
func (x avX) Chown(n string, u, g int) error                    { return x.v.Chown(n, u, g) }
func (x avX) Lchown(n string, u, g int) error                   { return x.v.Lchown(n, u, g) }
func (x avX) Chtimes(n string) error                            { return x.v.Chtimes(n, fsx.FixedTime, fsx.FixedTime) }
func (x avX) Truncate(n string, s int64) error                  { return x.v.Truncate(n, s) }

func (x avX) Owner(fi fs.FileInfo) (int, int) {
	st := x.v.ToSysStat(fi)

	return st.Uid(), st.Gid()
}

// ---- one call ----

// opArgs are the concrete operands of a call.
type opArgs struct {
	A, B     string // absolute paths (Symlink: A is the link target text)
	Uid, Gid int    // chown arguments
}

func errRes(err error) fsx.Res {
	if err == nil {
		return fsx.Res{Kind: "ok"}
	}

	return fsx.Res{Kind: fsx.ErrKind(err), Msg: err.Error()}
}

func infoVal(x xfs, fi fs.FileInfo) string {
	uid, gid := x.Owner(fi)
	t := "f"
	m := fi.Mode()

	switch {
	case m.IsDir():
		t = "d"
	case m&fs.ModeSymlink != 0:
		t = "l"
	}

	// name, type, permission and special bits, owner: what C03 is about (sizes
	// and link counts belong to C01/C04)
	return fmt.Sprintf("%s %s %s %d:%d", fi.Name(), t, fsx.ModeString(m), uid, gid)
}

func names(es []fs.DirEntry) string {
	var n []string
	for _, e := range es {
		n = append(n, e.Name()+fsx.TypeChar(e.Type()))
	}

	sort.Strings(n)

	return strings.Join(n, ",")
}

// run executes c through x. A File.* call opens the operand with c.Flag first;
// a refused open is reported as "open:<kind>".
func run(x xfs, c callT, a opArgs) fsx.Res {
	perm := fsx.UnixMode(uint32(c.Perm))

	switch c.Op {
	case "Mkdir":
		return errRes(x.Mkdir(a.A, perm))
	case "MkdirAll":
		return errRes(x.MkdirAll(a.A, perm))
	case "OpenFile":
		f, err := x.OpenFile(a.A, c.Flag, perm)
		if err == nil {
			_ = f.Close()
		}

		return errRes(err)
	case "Create":
		f, err := x.Create(a.A)
		if err == nil {
			_ = f.Close()
		}

		return errRes(err)
	case "WriteFile":
		return errRes(x.WriteFile(a.A, []byte("new"), perm))
	case "ReadFile":
		b, err := x.ReadFile(a.A)
		r := errRes(err)
		r.Val = fmt.Sprintf("%q", b)

		return r
	case "ReadDir":
		es, err := x.ReadDir(a.A)
		r := errRes(err)
		r.Val = names(es)

		return r
	case "Stat", "Lstat":
		var (
			fi  fs.FileInfo
			err error
		)

		if c.Op == "Stat" {
			fi, err = x.Stat(a.A)
		} else {
			fi, err = x.Lstat(a.A)
		}

		r := errRes(err)
		if err == nil {
			r.Val = infoVal(x, fi)
		}

		return r
	case "Remove":
		return errRes(x.Remove(a.A))
	case "RemoveAll":
		return errRes(x.RemoveAll(a.A))
	case "Rename":
		return errRes(x.Rename(a.A, a.B))
	case "Link":
		return errRes(x.Link(a.A, a.B))
	case "Symlink":
		return errRes(x.Symlink(a.A, a.B))
	case "Readlink":
		s, err := x.Readlink(a.A)
		r := errRes(err)
		r.Val = s

		return r
	case "Chdir":
		return errRes(x.Chdir(a.A))
	case "Chmod":
		return errRes(x.Chmod(a.A, perm))
	case "Chown":
		return errRes(x.Chown(a.A, a.Uid, a.Gid))
	case "Lchown":
		return errRes(x.Lchown(a.A, a.Uid, a.Gid))
	case "Chtimes":
		return errRes(x.Chtimes(a.A))
	case "Truncate":
		return errRes(x.Truncate(a.A, c.Size))
	}

	if strings.HasPrefix(c.Op, "File.") {
		openPerm := fs.FileMode(0)
		if c.Flag&os.O_CREATE != 0 {
			openPerm = perm // the handle is created with a mode that may not grant what it was opened for
		}

		f, err := x.OpenFile(a.A, c.Flag, openPerm)
		if err != nil {
			r := errRes(err)
			r.Kind = "open:" + r.Kind

			return r
		}

		defer f.Close()

		switch c.Op {
		case "File.Chmod":
			return errRes(f.Chmod(perm))
		case "File.Chown":
			return errRes(f.Chown(a.Uid, a.Gid))
		case "File.Truncate":
			return errRes(f.Truncate(c.Size))
		case "File.Write":
			_, err := f.Write([]byte("XY"))

			return errRes(err)
		case "File.ReadDir":
			es, err := f.ReadDir(-1)
			r := errRes(err)
			r.Val = names(es)

			return r
		}
	}

	panic("c03: unknown op " + c.Op)
}
