package main

import (
	"time"

	"verif/lib/concfs"
)

// concPlan is the part of C03 that no sequential history reaches: a permission
// decision taken during an unlocked path walk and acted upon later. Two threads
// act for two different non-administrator users through their own views of one
// MemFS; every interleaving (lock-acquisition granularity, preemption bound 2;
// 3 for thorough) of every ordered pair of permission-sensitive templates is
// executed, and the results plus the final node graph (owners, groups and modes
// included) must be those of one of the sequential orders of the same calls -
// i.e. every call was allowed or refused as the sequential semantics (which the
// configuration-space part compares with the kernel) allows or refuses it in
// some state the tree really went through.
func concPlan(tier string) concfs.Plan {
	pl := concfs.Plan{ID: "C03", Oracle: concfs.OrLinear, Bound: 2, PerProg: 20 * time.Second}
	pl.Programs = concfs.OrderedPairs("MemFS", true, concfs.UserTemplates(tier != "thorough"))

	if tier == "thorough" {
		pl.Bound = 3
	}

	return pl
}
