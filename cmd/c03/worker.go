package main

// Worker process: builds configurations on a fresh MemFS and on tmpfs,
// executes the call under test on both sides and compares.

import (
	"bufio"
	"encoding/json"
	"fmt"
	"io/fs"
	"os"
	"path"
	"path/filepath"
	"runtime"
	"sort"
	"strconv"
	"strings"
	"syscall"

	"github.com/avfs/avfs"
	"github.com/avfs/avfs/idm/memidm"
	"github.com/avfs/avfs/verifrt"
	"github.com/avfs/avfs/vfs/memfs"
	"github.com/avfs/avfs/vfs/osfs"

	"verif/lib/fsx"
)

type task struct {
	Block, Start, End int
	Quit              bool
}

type violAgg struct {
	Sig    map[string]string
	Count  int
	Cost   int
	Replay *replay
}

type reply struct {
	Block, Start, End  int
	States             int // configurations built (distinct ones: Configs)
	Configs            int
	Builds             int
	Evals              int
	Refused, Allowed   int // kernel decisions
	PolicySkipped      int
	PolicySkippedOther int
	ArtefactSkipped    int
	KernelOffFormula   int
	MaskedChmodSetgid  int
	MaskedRemoveAll    int
	RemoveAllViaRemove int
	Outcomes           map[string]int
	Viols              []*violAgg
	Samples            []*replay
	Err                string
}

// replay is everything needed to reproduce one evaluation.
type replay struct {
	Instances int      `json:"instances_exact,omitempty"`
	Family    string   `json:"family"`
	Depth     int      `json:"depth"`
	Nodes     []node   `json:"nodes"` // paths relative to R
	Leaf      string   `json:"leaf"`
	LeafKind  string   `json:"leaf_kind"`
	Actor     user     `json:"actor"`
	Umask     string   `json:"umask"`
	Call      callT    `json:"call"`
	CallText  string   `json:"call_text"`
	Kernel    fsx.Res  `json:"kernel"`
	Avfs      fsx.Res  `json:"avfs"`
	TreeDiff  string   `json:"tree_diff,omitempty"`
	History   []string `json:"admin_history"`
	Note      string   `json:"note,omitempty"`
}

type worker struct {
	R    string
	tier string
	idm  *memidm.MemIdm
	urs  []avfs.UserReader
	kfs  *osfs.OsFS
	mfs  *memfs.MemFS

	curKey string
	dirty  bool
	pk, pv []string

	protHardlinks bool
	protSymlinks  bool
	protRegular   bool
	curFile       *os.File
}

func newWorker(scratch, tier string) (*worker, error) {
	w := &worker{tier: tier, kfs: osfs.New()}
	base := filepath.Join(scratch, fmt.Sprintf("c03-%d", os.Getpid()))
	w.R = filepath.Join(base, "w")

	if err := os.MkdirAll(base, 0o755); err != nil {
		return nil, err
	}

	if err := openScratch(base); err != nil {
		return nil, err
	}

	if err := selfTest(base); err != nil {
		return nil, fmt.Errorf("sandbox self-test: %v", err)
	}

	w.idm = memidm.New()

	for _, g := range []string{"g1", "g2"} {
		if _, err := w.idm.AddGroup(g); err != nil {
			return nil, err
		}
	}

	w.urs = []avfs.UserReader{w.idm.AdminUser()}

	for i, ug := range [][2]string{{"u1", "g1"}, {"u2", "g1"}, {"u3", "g2"}} {
		u, err := w.idm.AddUser(ug[0], ug[1])
		if err != nil {
			return nil, err
		}

		if u.Uid() != users[i+1].Uid || u.Gid() != users[i+1].Gid {
			return nil, fmt.Errorf("MemIdm handed out %d:%d for %s, harness expects %d:%d", u.Uid(), u.Gid(), ug[0], users[i+1].Uid, users[i+1].Gid)
		}

		w.urs = append(w.urs, u)
	}

	if a := w.urs[0]; a.Uid() != 0 || a.Gid() != 0 || !a.IsAdmin() {
		return nil, fmt.Errorf("MemIdm administrator is %d:%d", a.Uid(), a.Gid())
	}

	w.protHardlinks = sysctlInt("fs/protected_hardlinks") == 1
	w.protSymlinks = sysctlInt("fs/protected_symlinks") > 0
	w.protRegular = sysctlInt("fs/protected_regular") > 0
	w.dirty = true

	return w, nil
}

func (w *worker) close() {
	_ = syscall.Chdir("/")
	_ = os.RemoveAll(filepath.Dir(w.R))
}

func (w *worker) abs(rel string) string { return w.R + "/" + rel }

// history lists the administrator calls that build a configuration; the same
// list is applied to both sides.
type step struct {
	Op       string
	Path     string
	Arg      string
	Mode     oct
	Uid, Gid int
}

func (s step) String() string {
	switch s.Op {
	case "Mkdir":
		return fmt.Sprintf("Mkdir(R/%s,0777)", s.Path)
	case "WriteFile":
		return fmt.Sprintf("WriteFile(R/%s,%q,0666)", s.Path, s.Arg)
	case "Symlink":
		return fmt.Sprintf("Symlink(R/%s,R/%s)", s.Arg, s.Path)
	case "Chown", "Lchown":
		return fmt.Sprintf("%s(R/%s,%d,%d)", s.Op, s.Path, s.Uid, s.Gid)
	case "Chmod":
		return fmt.Sprintf("Chmod(R/%s,%04o)", s.Path, uint32(s.Mode))
	}

	return s.Op
}

func steps(nodes []node) []step {
	var st []step

	for _, n := range nodes {
		switch n.Kind {
		case "D":
			st = append(st, step{Op: "Mkdir", Path: n.Path})
		case "N":
			st = append(st, step{Op: "Mkdir", Path: n.Path},
				step{Op: "WriteFile", Path: n.Path + "/c", Arg: "c"},
				step{Op: "Chmod", Path: n.Path + "/c", Mode: 0o644})
		case "F":
			st = append(st, step{Op: "WriteFile", Path: n.Path, Arg: "abc"})
		case "E":
			st = append(st, step{Op: "WriteFile", Path: n.Path, Arg: ""})
		case "L":
			st = append(st, step{Op: "WriteFile", Path: "tf", Arg: "t"},
				step{Op: "Chmod", Path: "tf", Mode: 0o644},
				step{Op: "Symlink", Path: n.Path, Arg: "tf"})
		}
	}

	for _, n := range nodes {
		if n.Kind == "L" {
			st = append(st, step{Op: "Lchown", Path: n.Path, Uid: n.Uid, Gid: n.Gid})

			continue
		}

		st = append(st, step{Op: "Chown", Path: n.Path, Uid: n.Uid, Gid: n.Gid},
			step{Op: "Chmod", Path: n.Path, Mode: n.Mode})
	}

	return st
}

func historyStrings(nodes []node) []string {
	h := []string{"(as administrator, umask 0, on a fresh MemFS and on an empty tmpfs directory R; R and its ancestors are root:root 0755)"}
	for _, s := range steps(nodes) {
		h = append(h, s.String())
	}

	return h
}

func applyStep(x xfs, R string, s step) error {
	p := R + "/" + s.Path

	switch s.Op {
	case "Mkdir":
		return x.Mkdir(p, 0o777)
	case "WriteFile":
		return x.WriteFile(p, []byte(s.Arg), 0o666)
	case "Symlink":
		return x.Symlink(R+"/"+s.Arg, p)
	case "Chown":
		return x.Chown(p, s.Uid, s.Gid)
	case "Lchown":
		return x.Lchown(p, s.Uid, s.Gid)
	case "Chmod":
		return x.Chmod(p, fsx.UnixMode(uint32(s.Mode)))
	}

	return fmt.Errorf("unknown step %s", s.Op)
}

// build creates the configuration on both sides as the administrator.
func (w *worker) build(nodes []node) error {
	syscall.Umask(0)

	if err := os.RemoveAll(w.R); err != nil {
		return err
	}

	if err := os.Mkdir(w.R, 0o755); err != nil {
		return err
	}

	w.mfs = memfs.NewWithOptions(&memfs.Options{Idm: w.idm, OSType: avfs.OsLinux, SystemDirs: []avfs.DirInfo{{Path: "/tmp", Perm: 0o777}}})
	_ = w.mfs.SetUMask(0o022)

	if err := w.mfs.MkdirAll(w.R, 0o755); err != nil {
		return fmt.Errorf("avfs MkdirAll(R): %v", err)
	}

	_ = w.mfs.SetUMask(0)

	st := steps(nodes)
	for _, s := range st {
		if err := applyStep(osX{}, w.R, s); err != nil {
			return fmt.Errorf("kernel setup %s: %v", s, err)
		}
	}

	var aerr error

	if k, msg := fsx.Guard(func() {
		for _, s := range st {
			if err := applyStep(avX{w.mfs}, w.R, s); err != nil {
				aerr = fmt.Errorf("avfs setup %s: %v", s, err)

				return
			}
		}
	}); k != "" {
		return fmt.Errorf("avfs setup %s: %s", k, msg)
	}

	if aerr != nil {
		return aerr
	}

	// the kernel side must be exactly what was asked for
	for _, n := range nodes {
		fi, err := os.Lstat(w.abs(n.Path))
		if err != nil {
			return err
		}

		s := fi.Sys().(*syscall.Stat_t)
		if int(s.Uid) != n.Uid || int(s.Gid) != n.Gid || (n.Kind != "L" && fsx.ModeString(fi.Mode()) != fmt.Sprintf("%04o", uint32(n.Mode))) {
			return fmt.Errorf("kernel setup: %s is %d:%d %s", n, s.Uid, s.Gid, fsx.ModeString(fi.Mode()))
		}
	}

	w.pk = w.dumpK()
	w.pv = w.dumpV()

	if d := fsx.DiffLines(w.pk, w.pv); d != "" {
		return fmt.Errorf("the two sides differ after the administrator setup of %v: %s", nodes, strings.ReplaceAll(d, w.R, "R"))
	}

	w.dirty = false

	return nil
}

func (w *worker) dumpK() []string {
	return normDump(fsx.Dump(w.kfs, w.R, fsx.DumpOpts{StripPfx: w.R + "/"}), w.R)
}

func (w *worker) dumpV() []string {
	var out []string

	if k, msg := fsx.Guard(func() { out = fsx.Dump(w.mfs, w.R, fsx.DumpOpts{StripPfx: w.R + "/"}) }); k != "" {
		return []string{"!dump " + k + " " + msg}
	}

	return normDump(out, w.R)
}

// normDump drops what C03 does not compare: size and link count of symbolic
// links (MemFS reports 1 / 0: a C01/C04 matter).
func normDump(lines []string, R string) []string {
	for i, l := range lines {
		f := strings.Fields(l)
		if len(f) > 5 && f[1] == "l" {
			var g []string

			for j, x := range f {
				if j >= 4 && j <= 5 && (strings.HasPrefix(x, "sz") || (len(x) > 1 && x[0] == 'n' && x[1] >= '0' && x[1] <= '9')) {
					continue
				}

				g = append(g, x)
			}

			l = strings.Join(g, " ")
		}

		if strings.HasPrefix(l, R+" ") {
			l = "." + l[len(R):]
		}

		lines[i] = l
	}

	return lines
}

func equalLines(a, b []string) bool {
	if len(a) != len(b) {
		return false
	}

	for i := range a {
		if a[i] != b[i] {
			return false
		}
	}

	return true
}

func (w *worker) args(f *family, nodes []node, c callT, a user) opArgs {
	op := opArgs{A: w.abs(f.Leaf)}

	if c.Up {
		op.A = w.abs(path.Dir(f.Leaf))
	}

	if c.Sub != "" {
		op.A += "/" + c.Sub
	}

	if c.Dest != "" {
		op.B = w.abs(c.Dest)
	}

	if c.Op == "Symlink" {
		op.A, op.B = w.R+"/tf", w.abs(f.Leaf)
	}

	if c.Form != "" {
		op.Uid, op.Gid = resolveChown(c.Form, a)
	}

	// no-op arguments (space.go, callsCurPath): the current owner and group of
	// the operand, the operand's own name as the new name
	if c.Cur {
		switch c.Op {
		case "Chown", "Lchown", "File.Chown":
			if n := findRole(nodes, "leaf"); n != nil {
				op.Uid, op.Gid = n.Uid, n.Gid
			}
		case "Rename":
			op.B = op.A
		}
	}

	return op
}

func (w *worker) callText(c callT, a opArgs) string {
	r := func(p string) string { return strings.Replace(p, w.R, "R", 1) }

	switch c.Op {
	case "Mkdir", "MkdirAll", "Chmod":
		return fmt.Sprintf("%s(%q,%04o)", c.Op, r(a.A), uint32(c.Perm))
	case "OpenFile":
		return fmt.Sprintf("OpenFile(%q,%s,%04o)", r(a.A), flagName(c.Flag), uint32(c.Perm))
	case "WriteFile":
		return fmt.Sprintf("WriteFile(%q,\"new\",%04o)", r(a.A), uint32(c.Perm))
	case "Chown", "Lchown":
		return fmt.Sprintf("%s(%q,%d,%d)", c.Op, r(a.A), a.Uid, a.Gid)
	case "Truncate":
		return fmt.Sprintf("Truncate(%q,%d)", r(a.A), c.Size)
	case "Rename", "Link", "Symlink":
		return fmt.Sprintf("%s(%q,%q)", c.Op, r(a.A), r(a.B))
	case "File.Chmod":
		return fmt.Sprintf("f=OpenFile(%q,%s,0); f.Chmod(%04o)", r(a.A), flagName(c.Flag), uint32(c.Perm))
	case "File.Chown":
		return fmt.Sprintf("f=OpenFile(%q,%s,0); f.Chown(%d,%d)", r(a.A), flagName(c.Flag), a.Uid, a.Gid)
	case "File.Truncate":
		return fmt.Sprintf("f=OpenFile(%q,%s,0); f.Truncate(%d)", r(a.A), flagName(c.Flag), c.Size)
	case "File.Write":
		return fmt.Sprintf("f=OpenFile(%q,%s,0); f.Write(\"XY\")", r(a.A), flagName(c.Flag))
	case "File.ReadDir":
		return fmt.Sprintf("f=OpenFile(%q,%s,0); f.ReadDir(-1)", r(a.A), flagName(c.Flag))
	}

	return fmt.Sprintf("%s(%q)", c.Op, r(a.A))
}

// kernelRun executes the call as the acting user: fsgid/fsuid and umask are
// switched on this (locked, CLONE_FS-unshared) thread and always restored.
func (w *worker) kernelRun(c callT, a opArgs, u user) (r fsx.Res) {
	syscall.Umask(int(c.Umask))
	setfs(u.Uid, u.Gid)

	defer func() {
		setfs(0, 0)
		syscall.Umask(0)
		_ = syscall.Chdir("/")
	}()

	if k, msg := fsx.Guard(func() { r = run(osX{}, c, a) }); k != "" {
		r = fsx.Res{Kind: "HARNESS-" + k, Msg: msg}
	}

	return r
}

// avfsRun executes the call through a fresh view of the MemFS with the acting
// user and umask set on the view, as the README prescribes.
func (w *worker) avfsRun(c callT, a opArgs, actor int) (r fsx.Res) {
	if k, msg := fsx.Guard(func() {
		v, err := w.mfs.Sub("/")
		if err != nil {
			r = fsx.Res{Kind: "HARNESS-sub", Msg: err.Error()}

			return
		}

		_ = v.SetUser(w.urs[actor])
		_ = v.SetUMask(fs.FileMode(c.Umask))
		r = run(avX{v}, c, a)
	}); k != "" {
		r = fsx.Res{Kind: k, Msg: msg}
	}

	r.Msg = strings.ReplaceAll(r.Msg, w.R, "R")

	return r
}

var noSkip = os.Getenv("C03_ALWAYS_DUMP") != ""

type viol struct {
	sig  map[string]string
	diff string
}

type evalOut struct {
	rk, rv  fsx.Res
	viols   []viol
	skipped bool
	skipOth bool
	skipArt bool

	kernelOffFormula   bool
	maskedRemoveAll    bool
	removeAllViaRemove bool
	maskedChmod        bool
	args               opArgs
	call               callT // the call with its no-op arguments resolved
}

func isPermKind(k string) bool {
	k = strings.TrimPrefix(k, "open:")

	return k == "EACCES" || k == "EPERM"
}

// eval runs one call on the configuration currently built.
func (w *worker) eval(b *block, nodes []node, c callT) (out evalOut, err error) {
	u := users[b.Actor]
	c = resolveCur(c, nodes)
	a := w.args(b.Fam, nodes, c, u)
	out.args, out.call = a, c

	out.rk = w.kernelRun(c, a, u)

	// os.RemoveAll first tries a plain remove and, when that fails, opens the
	// PARENT directory for reading to continue with unlinkat: "open <parent>:
	// permission denied" is a refusal of Go's strategy, the kernel's own answer
	// to the removal was swallowed. For a leaf that is a file, a link or an empty
	// directory RemoveAll is Remove: the kernel is asked that instead.
	// (an empty directory that cannot be read gives "openfdat <leaf>: permission denied" the same way)
	if c.Op == "RemoveAll" && out.rk.Kind == "EACCES" && b.Fam.LeafKind != "N" &&
		(strings.HasPrefix(out.rk.Msg, "open ") || strings.HasPrefix(out.rk.Msg, "openfdat ")) {
		c2 := c
		c2.Op = "Remove"
		out.rk = w.kernelRun(c2, a, u)
		out.removeAllViaRemove = true
	}
	if strings.HasPrefix(out.rk.Kind, "HARNESS") {
		return out, fmt.Errorf("kernel side of %s: %s %s", w.callText(c, a), out.rk.Kind, out.rk.Msg)
	}

	if getfsuid() != 0 {
		return out, fmt.Errorf("fsuid not restored")
	}

	out.rv = w.avfsRun(c, a, b.Actor)
	if strings.HasPrefix(out.rv.Kind, "HARNESS") {
		return out, fmt.Errorf("avfs side of %s: %s %s", w.callText(c, a), out.rv.Kind, out.rv.Msg)
	}

	out.rk.Msg = strings.ReplaceAll(out.rk.Msg, w.R, "R")

	// A refused single system call leaves the kernel tree as it was: the dump
	// is taken again only when the call was allowed or is one of the library
	// calls made of several system calls that can stop half-way.
	kd := w.pk
	if out.rk.Kind == "ok" || c.Op == "MkdirAll" || c.Op == "RemoveAll" || noSkip {
		kd = w.dumpK()
	}

	vd := w.dumpV()

	w.dirty = !equalLines(kd, w.pk) || !equalLines(vd, w.pv) || out.rv.Kind == "PANIC" || out.rv.Kind == "DEADLOCK"

	rk, rv := out.rk, out.rv

	// fs.protected_hardlinks=1 is a kernel policy on top of DAC (link(2) on a
	// file the caller neither owns nor can read and write gives EPERM before
	// the directory checks): with a regular file as source, EPERM can only
	// come from it. Those evaluations decide nothing about DAC.
	if w.protHardlinks && c.Op == "Link" && rk.Kind == "EPERM" && u.Uid != 0 {
		out.skipped = true

		return out, nil
	}

	// fs.protected_symlinks / fs.protected_regular (0 in the sandbox this was
	// written in): EACCES inside a sticky directory for a followed symbolic
	// link, or for an existing file opened with O_CREATE, may be the policy.
	if (w.protSymlinks || w.protRegular) && rk.Kind == "EACCES" && u.Uid != 0 {
		if p := findRole(nodes, "p"); p != nil && p.Mode&0o1000 != 0 {
			creat := c.Op == "Create" || c.Op == "WriteFile" || (c.Op == "OpenFile" && c.Flag&os.O_CREATE != 0)
			if (w.protSymlinks && b.Fam.LeafKind == "L") || (w.protRegular && b.Fam.LeafKind == "F" && creat) {
				out.skipped, out.skipOth = true, true

				return out, nil
			}
		}
	}

	// os.RemoveAll of a non-empty directory first tries a plain remove, then
	// opens the PARENT directory for reading to work with unlinkat: a refusal
	// whose only cause is missing read permission on the parent is an artefact
	// of that strategy, not a DAC decision about removal.
	if c.Op == "RemoveAll" && b.Fam.LeafKind == "N" && rk.Kind != "ok" &&
		(lacks(b.Fam, nodes, u, c) == "p:r" || rk.Kind == "EACCES" && strings.HasPrefix(rk.Msg, "open "+strings.Replace(path.Dir(a.A), w.R, "R", 1)+":")) {
		out.skipped, out.skipArt = true, true

		return out, nil
	}

	base := map[string]string{
		"call": c.Op, "variant": c.Variant, "actor": actorClass(b.Fam, nodes, u), "shape": b.Fam.ID,
		"node": lacks(b.Fam, nodes, u, c), "special": specialsOf(nodes), "kernel": rk.Kind, "avfs": rv.Kind,
	}

	mk := func(kind, attr string) map[string]string {
		m := map[string]string{"kind": kind}
		for k, v := range base {
			m[k] = v
		}

		if attr != "" {
			m["attr"] = attr
		}

		return m
	}

	diffText := strings.ReplaceAll(fsx.DiffLines(kd, vd), w.R, "R")

	switch {
	case rk.Kind != rv.Kind:
		out.viols = append(out.viols, viol{mk("outcome", ""), diffText})
	case rk.Kind == "ok" && rk.Val != rv.Val:
		out.viols = append(out.viols, viol{mk("value", valueDiff(c.Op, rk.Val, rv.Val)), diffText})
	}

	// the administrator is never refused: checked without looking at the kernel
	if u.Uid == 0 && isPermKind(rv.Kind) {
		out.viols = append(out.viols, viol{mk("admin-refused", ""), diffText})
	}

	// Created objects: the oracle is the formula of the property (owner = the
	// calling user, group = the calling group, mode = perm &^ umask with the
	// special bits as given), not the kernel: a setgid directory makes the
	// kernel hand down its group (and the bit to subdirectories), mkdir(2)
	// ignores S_ISGID, and the kernel strips S_ISGID from files in several
	// situations. Those kernel deviations from the formula are only counted.
	if c.Creates {
		if rv.Kind == "ok" {
			for _, d := range formulaDiff(vd, w.pv, u, c) {
				kind := "created-mode"
				if strings.Contains(d, "id-not-caller") {
					kind = "created-owner"
				}

				out.viols = append(out.viols, viol{mk(kind, d), diffText})
			}
		}

		if rk.Kind == "ok" && len(formulaDiff(kd, w.pk, u, c)) > 0 {
			out.kernelOffFormula = true
		}
	}

	// State after EVERY call, allowed or refused: owner, group, mode, content,
	// link count and existence of every entry of the configuration are those of
	// the kernel after the same call (vd is always taken again; kd is the tree
	// before when the kernel refused a single system call). Lesson: an errno can
	// be right while the refused call has already stored part of its arguments
	// (chown with two fields validated one after the other), so a refusal is
	// judged by the state it leaves, never by the error alone.
	//
	// When exactly one side allowed the call the difference between the two
	// trees is implied by the outcome violation above; what is still judged is
	// that a call MemFS itself refused changed nothing on its side (the calls
	// made of several steps, MkdirAll / RemoveAll, may stop half-way).
	if rk.Kind == "ok" && rv.Kind != "ok" && rv.Kind != "PANIC" && rv.Kind != "DEADLOCK" && c.Op != "MkdirAll" && c.Op != "RemoveAll" && !equalLines(vd, w.pv) {
		for _, d := range treeDiff(w.pv, vd, w.pv, nodes) {
			out.viols = append(out.viols, viol{mk("tree", "refused-by-avfs-but-changed:"+d), strings.ReplaceAll(fsx.DiffLines(w.pv, vd), w.R, "R")})
		}
	}

	if (rk.Kind == "ok") == (rv.Kind == "ok") && diffText != "" {
		for _, d := range treeDiff(kd, vd, w.pk, nodes) {
			// owner, group and mode of a created object are judged by the formula above
			if c.Creates && (strings.HasPrefix(d, "new:uid") || strings.HasPrefix(d, "new:gid") || strings.HasPrefix(d, "new:perm")) {
				continue
			}

			// chmod by an owner outside the file's group: the kernel clears
			// S_ISGID; the property does not name that rule
			if (c.Op == "Chmod" || c.Op == "File.Chmod") && strings.HasSuffix(d, ":perm:setgid-only-avfs") {
				out.maskedChmod = true

				continue
			}

			// RemoveAll "removes everything it can but returns the first error it
			// encounters": when both sides refuse, how much each removed before
			// the refusal differs legitimately (os.RemoveAll cannot even list a
			// directory it may not read, MemFS removes the children the caller
			// may remove). What is a permission decision is judged on its own
			// below (removedWithoutPermission): an entry gone on the avfs side
			// must have been removable by the caller.
			if c.Op == "RemoveAll" && rk.Kind != "ok" && rv.Kind != "ok" {
				out.maskedRemoveAll = true

				continue
			}

			out.viols = append(out.viols, viol{mk("tree", d), diffText})
		}

		if c.Op == "RemoveAll" && rk.Kind != "ok" && rv.Kind != "ok" {
			for _, d := range removedWithoutPermission(vd, w.pv, u) {
				out.viols = append(out.viols, viol{mk("tree", d), diffText})
			}
		}
	}

	return out, nil
}

// removedWithoutPermission judges what a refused RemoveAll removed on the avfs
// side: an entry present before and gone afterwards must have been removable by
// the caller, i.e. the caller has write and search permission on the directory
// that held it (class selection as in the property; the sticky bit is not
// consulted: MemFS does not implement it, KF-C03-014). Returns one
// "removed-without-permission:<type>" per entry type removed unduly.
func removedWithoutPermission(after, before []string, u user) []string {
	am, bm := parseDump(after), parseDump(before)
	set := map[string]bool{}

	for p, b := range bm {
		if _, still := am[p]; still || strings.HasPrefix(b.typ, "!") || p == "." {
			continue
		}

		dir := "."
		if i := strings.LastIndexByte(p, '/'); i >= 0 {
			dir = p[:i]
		}

		d, ok := bm[dir]
		if !ok || u.Uid == 0 {
			continue
		}

		perm, err := strconv.ParseUint(d.perm, 8, 32)
		if err != nil {
			continue
		}

		var uid, gid int

		if _, err := fmt.Sscanf(d.owner, "%d:%d", &uid, &gid); err != nil {
			continue
		}

		bits := perm & 7
		switch classOf(u, uid, gid) {
		case "owner":
			bits = perm >> 6 & 7
		case "group":
			bits = perm >> 3 & 7
		}

		if bits&3 != 3 { // write and search
			set["removed-without-permission:"+b.typ] = true
		}
	}

	out := make([]string, 0, len(set))
	for k := range set {
		out = append(out, k)
	}

	sort.Strings(out)

	return out
}

// formulaDiff checks every object present in after but not in before against
// the creation formula of the property.
func formulaDiff(after, before []string, u user, c callT) []string {
	am, bm := parseDump(after), parseDump(before)
	set := map[string]bool{}

	for p, a := range am {
		if _, ok := bm[p]; ok || strings.HasPrefix(a.typ, "!") {
			continue
		}

		og := strings.SplitN(a.owner, ":", 2)
		if len(og) == 2 {
			if og[0] != fmt.Sprint(u.Uid) {
				set["new:uid-not-caller"] = true
			}

			if og[1] != fmt.Sprint(u.Gid) {
				set["new:gid-not-caller"] = true
			}
		}

		want := uint32(c.Perm&^c.Umask) & 0o7777

		switch {
		case a.typ == "l":
			want = 0o777
		case c.Op == "Create":
			want = uint32(0o666 &^ c.Umask)
		}

		if w := fmt.Sprintf("%04o", want); a.perm != w {
			set["new:perm-not-formula:"+strings.ReplaceAll(strings.ReplaceAll(permDiff(w, a.perm), "-only-kernel", "-missing"), "-only-avfs", "-extra")] = true
		}
	}

	out := make([]string, 0, len(set))
	for k := range set {
		out = append(out, k)
	}

	sort.Strings(out)

	return out
}

func valueDiff(op, k, v string) string {
	if op != "Stat" && op != "Lstat" {
		return "differs"
	}

	kf, vf := strings.Fields(k), strings.Fields(v)
	if len(kf) != len(vf) {
		return "shape"
	}

	names := []string{"name", "type", "perm", "owner"}

	var d []string

	for i := range kf {
		if kf[i] != vf[i] && i < len(names) {
			d = append(d, names[i])
		}
	}

	return strings.Join(d, "+")
}

type dline struct{ typ, perm, owner, rest string }

func parseDump(lines []string) map[string]dline {
	m := map[string]dline{}

	for _, l := range lines {
		f := strings.Fields(l)
		if len(f) < 2 {
			continue
		}

		if strings.HasPrefix(f[1], "!") {
			m[f[0]+" "+f[1]] = dline{typ: f[1]}

			continue
		}

		d := dline{typ: f[1]}
		if len(f) > 2 {
			d.perm = f[2]
		}

		if len(f) > 3 {
			d.owner = f[3]
		}

		if len(f) > 4 {
			d.rest = strings.Join(f[4:], " ")
		}

		m[f[0]] = d
	}

	return m
}

// treeDiff classifies the differences between the two trees after a call:
// "<role>:<attribute>" with role = the configuration node, "new" for an object
// that did not exist before the call (kernel view), "child"/"target" for the
// fixed helpers.
func treeDiff(kd, vd, before []string, nodes []node) []string {
	km, vm, bm := parseDump(kd), parseDump(vd), parseDump(before)

	role := func(p string) string {
		for _, n := range nodes {
			if n.Path == p {
				return n.Role
			}
		}

		if _, ok := bm[p]; !ok {
			return "new"
		}

		switch {
		case p == ".":
			return "R"
		case p == "tf":
			return "target"
		case strings.HasSuffix(p, "/c"):
			return "child"
		}

		return "other"
	}

	set := map[string]bool{}

	for p, k := range km {
		r := role(p)

		v, ok := vm[p]
		if !ok {
			set[r+":missing-in-avfs:"+k.typ] = true

			continue
		}

		if k.typ != v.typ {
			set[r+":type:"+k.typ+"!="+v.typ] = true

			continue
		}

		if k.perm != v.perm {
			set[r+":perm:"+permDiff(k.perm, v.perm)] = true
		}

		if k.owner != v.owner {
			ko, vo := strings.SplitN(k.owner, ":", 2), strings.SplitN(v.owner, ":", 2)
			if len(ko) == 2 && len(vo) == 2 {
				if ko[0] != vo[0] {
					set[r+":uid"] = true
				}

				if ko[1] != vo[1] {
					set[r+":gid"] = true
				}
			}
		}

		if k.rest != v.rest {
			set[r+":content"] = true
		}
	}

	for p, v := range vm {
		if _, ok := km[p]; !ok {
			set[role(p)+":extra-in-avfs:"+v.typ] = true
		}
	}

	out := make([]string, 0, len(set))
	for k := range set {
		out = append(out, k)
	}

	sort.Strings(out)

	return out
}

// permDiff names the classes of bits in which two octal modes differ, and the
// direction for the special bits (kernel value first).
func permDiff(k, v string) string {
	var a, b uint32

	_, _ = fmt.Sscanf(k, "%o", &a)
	_, _ = fmt.Sscanf(v, "%o", &b)

	var s []string

	for _, x := range []struct {
		bit  uint32
		name string
	}{{0o2000, "setgid"}, {0o1000, "sticky"}, {0o4000, "setuid"}} {
		if (a^b)&x.bit != 0 {
			if a&x.bit != 0 {
				s = append(s, x.name+"-only-kernel")
			} else {
				s = append(s, x.name+"-only-avfs")
			}
		}
	}

	if (a^b)&0o777 != 0 {
		s = append(s, "rwx")
	}

	return strings.Join(s, "+")
}

func findRole(nodes []node, role string) *node {
	for i := range nodes {
		if nodes[i].Role == role {
			return &nodes[i]
		}
	}

	return nil
}

// actorClass: the class of the acting user on the operand (or on its
// directory when the operand does not exist; R is root:root).
func actorClass(f *family, nodes []node, u user) string {
	if n := findRole(nodes, "leaf"); n != nil {
		return classOf(u, n.Uid, n.Gid)
	}

	if n := findRole(nodes, "p"); n != nil {
		return classOf(u, n.Uid, n.Gid)
	}

	return classOf(u, 0, 0)
}

func specialsOf(nodes []node) string {
	var s []string

	for _, n := range nodes {
		if n.Mode&0o7000 != 0 {
			s = append(s, n.Role+":"+specialName(n.Mode))
		}
	}

	if len(s) == 0 {
		return "none"
	}

	return strings.Join(s, ",")
}

func effBits(u user, n node) uint32 {
	return effBitsO(u, n)
}

func effBitsO(u user, n node) uint32 {
	switch classOf(u, n.Uid, n.Gid) {
	case "admin":
		return 7
	case "owner":
		return uint32(n.Mode >> 6 & 7)
	case "group":
		return uint32(n.Mode >> 3 & 7)
	}

	return uint32(n.Mode & 7)
}

// lacks labels a configuration by the permissions the property names for the
// call that the acting user does not have ("p:w" = no write permission on the
// containing directory...). It only groups signatures; it decides nothing.
func lacks(f *family, nodes []node, u user, c callT) string {
	if u.Uid == 0 {
		return "admin"
	}

	var l []string

	need := func(role string, n *node, bits uint32, names string) {
		e := uint32(5) // R itself: root:root 0755
		if n != nil {
			e = effBits(u, *n)
		}

		for i, b := range []uint32{4, 2, 1} {
			if bits&b != 0 && e&b == 0 {
				l = append(l, role+":"+names[i:i+1])
			}
		}
	}

	g, p, q, leaf := findRole(nodes, "g"), findRole(nodes, "p"), findRole(nodes, "q"), findRole(nodes, "leaf")

	if g != nil {
		need("g", g, 1, "rwx")
	}

	dirW := false

	switch c.Op {
	case "Mkdir", "MkdirAll", "Symlink":
		dirW = leaf == nil
	case "Create", "WriteFile":
		dirW = leaf == nil
	case "OpenFile":
		dirW = leaf == nil && c.Flag&os.O_CREATE != 0
	case "Remove", "RemoveAll":
		dirW = leaf != nil
	case "Rename", "Link":
		dirW = true
	}

	pb := uint32(1)
	if dirW && !(c.Op == "Link" && q != nil) {
		pb |= 2
	}

	pname := "p"
	if f.Depth == 1 {
		pname = "R"
	}

	if c.Op == "RemoveAll" && leaf != nil {
		pb |= 4 // os.RemoveAll opens the containing directory when the plain remove fails
	}

	if f.Depth > 1 || dirW {
		need(pname, p, pb, "rwx")
	}

	if q != nil {
		need("q", q, 3, "rwx")
	}

	if leaf != nil {
		var lb uint32

		acc := func(flag int) uint32 {
			var b uint32

			switch flag & 3 {
			case os.O_RDONLY:
				b = 4
			case os.O_WRONLY:
				b = 2
			case os.O_RDWR:
				b = 6
			}

			// O_TRUNC needs write permission whatever the access mode;
			// O_APPEND and O_CREATE (on a file that exists) need nothing
			if flag&os.O_TRUNC != 0 {
				b |= 2
			}

			return b
		}

		switch c.Op {
		case "OpenFile":
			lb = acc(c.Flag)
		case "Create":
			lb = 6
		case "WriteFile", "Truncate":
			lb = 2
		case "ReadFile", "ReadDir":
			lb = 4
			if leaf.Kind == "L" {
				lb = 0
			}
		case "Chdir":
			lb = 1
		case "RemoveAll":
			if leaf.Kind == "N" {
				lb = 7
			}
		case "Rename":
			if leaf.isDir() && q != nil {
				lb = 2
			}
		case "MkdirAll", "Mkdir":
			if c.Sub != "" {
				lb = 3
			}
		}

		if strings.HasPrefix(c.Op, "File.") {
			lb = acc(c.Flag)
		}

		need("leaf", leaf, lb, "rwx")

		switch c.Op {
		case "Chmod", "Chtimes", "Chown", "Lchown", "File.Chmod", "File.Chown":
			if u.Uid != leaf.Uid {
				l = append(l, "leaf:not-owner")
			}
		case "Remove", "RemoveAll", "Rename":
			if p != nil && p.Mode&0o1000 != 0 && u.Uid != p.Uid && u.Uid != leaf.Uid {
				l = append(l, "p:sticky-foreign")
			}

			// the replaced entry is protected by the sticky bit of the directory
			// that holds IT: q in the two-directory shapes, else p
			vd, vname := p, "p"
			if q != nil {
				vd, vname = q, "q"
			}

			if b := findRole(nodes, "b"); b != nil && c.Op == "Rename" && vd != nil && vd.Mode&0o1000 != 0 && u.Uid != vd.Uid && u.Uid != b.Uid {
				l = append(l, vname+":sticky-foreign-victim")
			}

			if c.Op == "RemoveAll" && leaf.Kind == "N" && leaf.Mode&0o1000 != 0 && u.Uid != leaf.Uid {
				l = append(l, "leaf:sticky-foreign")
			}
		}
	}

	if len(l) == 0 {
		return "-"
	}

	return strings.Join(l, "+")
}

func (w *worker) makeReplay(b *block, nodes []node, c callT, o evalOut, diff string) *replay {
	if o.call.Op != "" {
		c = o.call
	}

	return &replay{
		Family: b.Fam.ID, Depth: b.Fam.Depth, Nodes: nodes, Leaf: b.Fam.Leaf, LeafKind: b.Fam.LeafKind,
		Actor: users[b.Actor], Umask: fmt.Sprintf("%04o", uint32(c.Umask)), Call: c, CallText: w.callText(c, o.args),
		Kernel: o.rk, Avfs: o.rv, TreeDiff: diff, History: historyStrings(nodes),
		Note: "R = scratch root on tmpfs; the same absolute path exists in the MemFS. Kernel side: setfsgid/setfsuid(actor) on a locked thread, no supplementary groups, umask as given; avfs side: vfs.Sub(\"/\") + SetUser(actor) + SetUMask(umask). tree_diff: '-' kernel line, '+' avfs line.",
	}
}

// runTask enumerates configurations [Start,End) of a block, every call of the
// family on each.
func (w *worker) runTask(blocks []*block, t task) (r reply) {
	r = reply{Block: t.Block, Start: t.Start, End: t.End, Outcomes: map[string]int{}}
	b := blocks[t.Block]
	agg := map[string]*violAgg{}

	fail := func(err error) reply {
		r.Err = err.Error()

		return r
	}

	for idx := t.Start; idx < t.End; idx++ {
		nodes := b.decode(idx)
		key := fmt.Sprintf("%d/%d", t.Block, idx)
		r.Configs++

		for ci, c := range b.Fam.Calls {
			if w.curFile != nil {
				_, _ = w.curFile.WriteAt([]byte(fmt.Sprintf("%-8d %-10d %-6d\n", t.Block, idx, ci)), 0)
			}

			if w.dirty || w.curKey != key {
				if err := w.build(nodes); err != nil {
					return fail(err)
				}

				w.curKey = key
				r.Builds++
			}

			o, err := w.eval(b, nodes, c)
			if err != nil {
				return fail(err)
			}

			// determinism: the first evaluation of a task is repeated on a rebuilt configuration
			if idx == t.Start && ci == 0 {
				w.dirty = true

				if err := w.build(nodes); err != nil {
					return fail(err)
				}

				o2, err := w.eval(b, nodes, c)
				if err != nil {
					return fail(err)
				}

				if o2.rk.String() != o.rk.String() || o2.rv.String() != o.rv.String() || len(o2.viols) != len(o.viols) {
					return fail(fmt.Errorf("replay of %s on %v is not deterministic: %s/%s then %s/%s", w.callText(c, o.args), nodes, o.rk, o.rv, o2.rk, o2.rv))
				}
			}

			r.Evals++

			if o.skipped {
				switch {
				case o.skipArt:
					r.ArtefactSkipped++
				case o.skipOth:
					r.PolicySkippedOther++
				default:
					r.PolicySkipped++
				}

				continue
			}

			if o.rk.Kind == "ok" {
				r.Allowed++
			} else {
				r.Refused++
			}

			if o.kernelOffFormula {
				r.KernelOffFormula++
			}

			if o.maskedChmod {
				r.MaskedChmodSetgid++
			}

			if o.maskedRemoveAll {
				r.MaskedRemoveAll++
			}

			if o.removeAllViaRemove {
				r.RemoveAllViaRemove++
			}

			r.Outcomes[c.Op+"|"+actorClass(b.Fam, nodes, users[b.Actor])+"|"+o.rk.Kind]++

			if len(r.Samples) < 2 && idx == t.Start && (ci == 0 || ci == len(b.Fam.Calls)-1) {
				r.Samples = append(r.Samples, w.makeReplay(b, nodes, c, o, ""))
			}

			for _, v := range o.viols {
				k := sigKey(v.sig)
				cst := cost(b.Fam.Depth, nodes, b.Actor, c)

				a := agg[k]
				if a == nil {
					a = &violAgg{Sig: v.sig, Cost: cst + 1}
					agg[k] = a
				}

				a.Count++

				if cst < a.Cost {
					a.Cost = cst
					a.Replay = w.makeReplay(b, nodes, c, o, v.diff)
				}
			}
		}
	}

	keys := make([]string, 0, len(agg))
	for k := range agg {
		keys = append(keys, k)
	}

	sort.Strings(keys)

	for _, k := range keys {
		r.Viols = append(r.Viols, agg[k])
	}

	return r
}

func sigKey(s map[string]string) string {
	keys := make([]string, 0, len(s))
	for k := range s {
		keys = append(keys, k)
	}

	sort.Strings(keys)

	var b strings.Builder
	for _, k := range keys {
		b.WriteString(k + "=" + s[k] + ";")
	}

	return b.String()
}

// workerMain: the whole worker runs on the main goroutine, locked to its
// thread, with a private fs_struct and no supplementary groups.
func workerMain(tier, scratch string) {
	runtime.LockOSThread()
	verifrt.SetMode(verifrt.ModeSeq)

	die := func(err error) {
		fmt.Fprintln(os.Stderr, "c03 worker: harness precondition failed:", err)
		os.Exit(3)
	}

	if err := syscall.Setgroups([]int{}); err != nil {
		die(fmt.Errorf("setgroups: %v", err))
	}

	if err := syscall.Unshare(syscall.CLONE_FS); err != nil {
		die(fmt.Errorf("unshare(CLONE_FS): %v", err))
	}

	syscall.Umask(0)
	_ = syscall.Chdir("/")

	w, err := newWorker(scratch, tier)
	if err != nil {
		die(err)
	}

	defer w.close()

	w.curFile, _ = os.Create(filepath.Join(filepath.Dir(w.R), "cur"))
	blocks := plan(tier)

	in := bufio.NewReaderSize(os.Stdin, 1<<16)
	out := bufio.NewWriterSize(os.Stdout, 1<<20)
	dec := json.NewDecoder(in)
	enc := json.NewEncoder(out)

	// first line: where the crash record lives
	_ = enc.Encode(map[string]string{"cur": w.curFile.Name()})
	_ = out.Flush()

	for {
		var t task
		if err := dec.Decode(&t); err != nil || t.Quit {
			return
		}

		r := w.runTask(blocks, t)
		_ = enc.Encode(r)
		_ = out.Flush()
	}
}
